/*
 * C13 (change c: cstl_slist_clear detaches the chain first and hands the
 * objects over back to front; see owned_clear_cases(), where the callback
 * frees the object, and on_clear(), which scribbles over the node):
 * a singly-linked list equals a reference sequence and its tail is the
 * true last element.  Model-based test through the public API of
 * cstl/slist.h only (no private field is read): up to three lists are driven
 * by exhaustive short operation sequences (from every combination of initial
 * lengths 0..5, every erase/insert position relative to the tail) and by
 * seeded random long sequences.  After every operation each list is compared
 * with a reference array via cstl_slist_foreach(), front/back/size, and a
 * probe element is pushed to the back, must show up as the new last element,
 * and is removed again (which erases the last element, too).
 */
#include <stdio.h>
#include <stdlib.h>
#include <string.h>
#include <stddef.h>

#include "cstl/slist.h"

#define NL 3
#define POOL 4096
#define MAXLEN 1024

struct item
{
    long mark;
    int key, id;
    struct cstl_slist_node node;
    long mark2;
};

static struct item pool[POOL], probe[NL];
static int npool;

static struct cstl_slist L[NL];
static struct item * R[NL][MAXLEN + 1];
static size_t RN[NL];

static int fails;
static const char * ctx = "";
#define CHECK(c, msg) do { if (!(c)) { if (fails++ < 25) \
    fprintf(stderr, "FAIL %s:%d [%s]: %s\n", __FILE__, __LINE__, ctx, msg); \
    } } while (0)

static int cmp_key(const void * a, const void * b, void * p)
{
    (void)p;
    return ((const struct item *)a)->key - ((const struct item *)b)->key;
}

static struct item * new_item(void)
{
    struct item * it;
    if (npool == POOL) { npool = 0; }
    it = &pool[npool];
    it->id = npool;
    it->key = (npool * 7 + npool / 5) % 4;
    npool++;
    return it;
}

struct walk { struct item * seen[MAXLEN + 8]; size_t n; size_t stop_at; };

static int visit_collect(void * e, void * p)
{
    struct walk * w = p;
    if (w->n < MAXLEN + 8) { w->seen[w->n] = e; }
    w->n++;
    if (w->stop_at != 0 && w->n == w->stop_at) { return 40 + (int)w->stop_at; }
    return 0;
}

static void check_plain(int k)
{
    static struct walk w;
    struct cstl_slist * l = &L[k];
    const size_t n = RN[k];
    size_t i;
    int r;

    CHECK(cstl_slist_size(l) == n, "size");
    CHECK(cstl_slist_front(l) == (n ? (void *)R[k][0] : NULL), "front");
    CHECK(cstl_slist_back(l) == (n ? (void *)R[k][n - 1] : NULL), "back");

    w.n = 0; w.stop_at = 0;
    r = cstl_slist_foreach(l, visit_collect, &w);
    CHECK(r == 0 && w.n == n, "traversal count");
    for (i = 0; i < n && i < w.n; i++) { CHECK(w.seen[i] == R[k][i], "traversal order"); }
}

static void check_list(int k)
{
    struct cstl_slist * l = &L[k];
    const size_t n = RN[k];
    void * e;

    check_plain(k);

    /* push_back must append after the true last element */
    cstl_slist_push_back(l, &probe[k]);
    R[k][n] = &probe[k]; RN[k] = n + 1;
    check_plain(k);
    /* take the probe out again: this erases the last element */
    if (n == 0) {
        e = cstl_slist_pop_front(l);
    } else {
        e = cstl_slist_erase_after(l, R[k][n - 1]);
    }
    CHECK(e == &probe[k], "probe removal");
    RN[k] = n;
    check_plain(k);
}

static void check_all(void)
{
    int k;
    for (k = 0; k < NL; k++) { check_list(k); }
}

static void check_deep(int k)
{
    static struct walk w;
    struct cstl_slist * l = &L[k];
    const size_t n = RN[k];
    size_t s;
    int r;

    for (s = 1; s <= n && s <= 6; s++) {
        w.n = 0; w.stop_at = s;
        r = cstl_slist_foreach(l, visit_collect, &w);
        CHECK(r == 40 + (int)s && w.n == s && w.seen[s - 1] == R[k][s - 1], "early stop");
    }
    if (n == 0) {
        CHECK(cstl_slist_pop_front(l) == NULL, "pop_front on empty");
        CHECK(cstl_slist_pop_front(l) == NULL, "pop_front on empty, again");
        check_list(k);
    }
}

static int cleared;
static struct item * cleared_items[MAXLEN];
static void on_clear(void * e, void * p)
{
    (void)p;
    if (cleared < MAXLEN) { cleared_items[cleared] = e; }
    cleared++;
    /* the callee owns the object now: scribble over its node */
    memset(&((struct item *)e)->node, 0x5A, sizeof(struct cstl_slist_node));
}

enum { OP_PUSHF, OP_PUSHB, OP_POPF, OP_INS, OP_ERASE, OP_REV, OP_SORT,
       OP_CONCAT, OP_SWAP, OP_CLEAR, OP_DEEP, OP_N };

static void apply(int op, int k, unsigned arg)
{
    struct cstl_slist * l = &L[k];
    size_t n = RN[k], i, j;
    int o = (k + 1 + (int)(arg % (NL - 1))) % NL;
    struct item * it;

    switch (op) {
    case OP_PUSHF:
        if (n == MAXLEN) { break; }
        it = new_item();
        cstl_slist_push_front(l, it);
        memmove(&R[k][1], &R[k][0], n * sizeof(R[k][0]));
        R[k][0] = it; RN[k]++;
        break;
    case OP_PUSHB:
        if (n == MAXLEN) { break; }
        it = new_item();
        cstl_slist_push_back(l, it);
        R[k][RN[k]++] = it;
        break;
    case OP_POPF:
        it = cstl_slist_pop_front(l);
        CHECK(it == (n ? R[k][0] : NULL), "pop_front result");
        if (n) { memmove(&R[k][0], &R[k][1], (n - 1) * sizeof(R[k][0])); RN[k]--; }
        break;
    case OP_INS:
        if (n == 0 || n == MAXLEN) { break; }
        i = arg % n;
        it = new_item();
        cstl_slist_insert_after(l, R[k][i], it);
        memmove(&R[k][i + 2], &R[k][i + 1], (n - i - 1) * sizeof(R[k][0]));
        R[k][i + 1] = it; RN[k]++;
        break;
    case OP_ERASE:
        if (n < 2) { break; }
        i = arg % (n - 1);
        it = cstl_slist_erase_after(l, R[k][i]);
        CHECK(it == R[k][i + 1], "erase_after result");
        memmove(&R[k][i + 1], &R[k][i + 2], (n - i - 2) * sizeof(R[k][0]));
        RN[k]--;
        break;
    case OP_REV:
        cstl_slist_reverse(l);
        for (i = 0, j = n; i + 1 < j; i++, j--) {
            it = R[k][i]; R[k][i] = R[k][j - 1]; R[k][j - 1] = it;
        }
        break;
    case OP_SORT: {
        static struct item * before[MAXLEN];
        static struct walk w;
        memcpy(before, R[k], n * sizeof(R[k][0]));
        cstl_slist_sort(l, cmp_key, NULL);
        w.n = 0; w.stop_at = 0;
        cstl_slist_foreach(l, visit_collect, &w);
        CHECK(w.n == n && cstl_slist_size(l) == n, "sort keeps the size");
        if (w.n == n) {
            for (i = 1; i < n; i++) { CHECK(w.seen[i - 1]->key <= w.seen[i]->key, "sort order"); }
            for (i = 0; i < n; i++) { before[i]->mark = 1; }
            for (i = 0; i < n; i++) { CHECK(w.seen[i]->mark == 1, "sort permutation"); w.seen[i]->mark = 0; }
            for (i = 0; i < n; i++) { CHECK(before[i]->mark == 0, "sort lost an element"); before[i]->mark = 0; }
            memcpy(R[k], w.seen, n * sizeof(R[k][0]));
        }
        break;
    }
    case OP_CONCAT:
        if (RN[k] + RN[o] > MAXLEN) { break; }
        cstl_slist_concat(l, &L[o]);
        memcpy(&R[k][n], &R[o][0], RN[o] * sizeof(R[k][0]));
        RN[k] += RN[o]; RN[o] = 0;
        break;
    case OP_SWAP: {
        static struct item * t[MAXLEN];
        cstl_slist_swap(l, &L[o]);
        memcpy(t, R[k], n * sizeof(t[0]));
        memcpy(R[k], R[o], RN[o] * sizeof(t[0]));
        memcpy(R[o], t, n * sizeof(t[0]));
        RN[k] = RN[o]; RN[o] = n;
        break;
    }
    case OP_CLEAR:
        cleared = 0;
        cstl_slist_clear(l, on_clear);
        CHECK((size_t)cleared == n, "clear callback count");
        for (i = 0; i < n; i++) { R[k][i]->mark2 = 1; }
        for (i = 0; i < n && i < (size_t)cleared; i++) {
            CHECK(cleared_items[i]->mark2 == 1, "clear callback element"); cleared_items[i]->mark2 = 0;
        }
        for (i = 0; i < n; i++) { CHECK(R[k][i]->mark2 == 0, "clear missed an element"); R[k][i]->mark2 = 0; }
        RN[k] = 0;
        break;
    case OP_DEEP:
        check_deep(k);
        break;
    default:
        break;
    }
}

static void reset_lists(const size_t * len)
{
    int k;
    size_t i;
    npool = 0;
    memset(pool, 0, sizeof(pool));
    for (k = 0; k < NL; k++) {
        if (k == 1) {
            struct cstl_slist tmp = CSTL_SLIST_INITIALIZER(L[1], struct item, node);
            memcpy(&L[1], &tmp, sizeof(tmp));
        } else {
            cstl_slist_init(&L[k], offsetof(struct item, node));
        }
        RN[k] = 0;
        for (i = 0; i < len[k]; i++) { apply((i % 3 == 2) ? OP_PUSHF : OP_PUSHB, k, 0); }
    }
}

/* clear() hands heap objects to a callback that frees them right away; the
 * list must be empty, usable and tail-correct immediately afterwards */
static unsigned long freed;
static void on_clear_free(void * e, void * p)
{
    (void)p;
    memset(e, 0xDD, sizeof(struct item));
    free(e);
    freed++;
}

static void owned_clear_cases(void)
{
    size_t len[NL] = { 0, 0, 0 };
    size_t n, i;
    int round;

    for (n = 0; n <= 24; n++) {
        reset_lists(len);
        ctx = "owned clear";
        for (round = 0; round < 3; round++) {
            freed = 0;
            for (i = 0; i < n; i++) {
                struct item * it = malloc(sizeof(*it));
                it->key = (int)i; it->id = (int)i;
                if (i % 3 == 0) { cstl_slist_push_front(&L[0], it); }
                else { cstl_slist_push_back(&L[0], it); }
            }
            if (round == 1) { cstl_slist_reverse(&L[0]); }
            if (round == 2) { cstl_slist_sort(&L[0], cmp_key, NULL); }
            CHECK(cstl_slist_size(&L[0]) == n, "owned: size before clear");
            cstl_slist_clear(&L[0], on_clear_free);
            CHECK(freed == n, "owned: every object handed over exactly once");
            RN[0] = 0;
            check_all();
            CHECK(cstl_slist_pop_front(&L[0]) == NULL, "owned: pop on cleared list");
            /* and the cleared list works like a fresh one */
            apply(OP_PUSHB, 0, 0); apply(OP_PUSHB, 0, 0); apply(OP_PUSHF, 0, 0);
            check_all();
            apply(OP_CLEAR, 0, 0);
            check_all();
        }
    }
}

int main(void)
{
    unsigned long seqs = 0, steps = 0;
    size_t len[NL];
    unsigned seed;

    owned_clear_cases();

    /* exhaustive: every initial length combination x every 2-op sequence,
     * insert/erase at the first, the middle and the last possible position */
    for (len[0] = 0; len[0] <= 5; len[0]++) {
        for (len[1] = 0; len[1] <= 5; len[1]++) {
            int c1, c2;
            const int NC = OP_N * 2 * 4;
            len[2] = (len[0] + len[1]) % 3;
            for (c1 = 0; c1 < NC; c1++) {
                for (c2 = 0; c2 < NC; c2++) {
                    static char buf[128];
                    const int code[2] = { c1, c2 };
                    int s;
                    reset_lists(len);
                    for (s = 0; s < 2; s++) {
                        const int op = code[s] % OP_N, k = (code[s] / OP_N) % 2;
                        const unsigned arg = (unsigned)(code[s] / (OP_N * 2));
                        const size_t m = (op == OP_ERASE) ? (RN[k] ? RN[k] - 1 : 0) : RN[k];
                        const unsigned a = (arg == 0) ? 0 : (arg == 1) ? (unsigned)(m / 2)
                            : (arg == 2) ? (unsigned)(m > 1 ? m - 2 : 0) : (unsigned)(m ? m - 1 : 0);
                        sprintf(buf, "len %lu,%lu step %d op %d list %d arg %u",
                                (unsigned long)len[0], (unsigned long)len[1], s, op, k, a);
                        ctx = buf;
                        apply(op, k, a);
                        check_all();
                        steps++;
                    }
                    check_deep(0); check_deep(1);
                    seqs++;
                }
            }
        }
    }

    /* exhaustive 4-op sequences from empty lists over two lists */
    {
        const int NC = OP_N * 2;
        int c[4];
        len[0] = len[1] = len[2] = 0;
        for (c[0] = 0; c[0] < NC; c[0]++) for (c[1] = 0; c[1] < NC; c[1]++)
        for (c[2] = 0; c[2] < NC; c[2]++) for (c[3] = 0; c[3] < NC; c[3]++) {
            int s;
            reset_lists(len);
            ctx = "4-op";
            for (s = 0; s < 4; s++) {
                apply(c[s] % OP_N, c[s] / OP_N, (unsigned)s);
                check_all();
                steps++;
            }
            seqs++;
        }
    }

    /* seeded random long sequences over three lists */
    for (seed = 1; seed <= 30; seed++) {
        static char buf[64];
        int s;
        len[0] = seed % 7; len[1] = 0; len[2] = seed % 3;
        reset_lists(len);
        srand(seed * 2654435761u);
        sprintf(buf, "random seed %u", seed); ctx = buf;
        for (s = 0; s < 4000; s++) {
            static const int w[] = { OP_PUSHF, OP_PUSHB, OP_PUSHB, OP_PUSHF, OP_INS, OP_INS,
                OP_POPF, OP_ERASE, OP_ERASE, OP_REV, OP_SORT, OP_CONCAT, OP_SWAP, OP_DEEP,
                OP_PUSHB, OP_INS, OP_REV };
            int op = w[rand() % (int)(sizeof(w) / sizeof(*w))];
            if (rand() % 300 == 0) { op = OP_CLEAR; }
            apply(op, rand() % NL, (unsigned)rand());
            check_all();
            steps++;
        }
        check_deep(0); check_deep(1); check_deep(2);
        apply(OP_CLEAR, 0, 0); apply(OP_CLEAR, 1, 0); apply(OP_CLEAR, 2, 0);
        check_all();
        seqs++;
    }

    /* sort on longer lists with many distinct keys */
    for (seed = 0; seed < 60; seed++) {
        size_t i, n = (seed * 17) % 700;
        len[0] = len[1] = len[2] = 0;
        reset_lists(len);
        ctx = "long sort";
        for (i = 0; i < n; i++) {
            apply(OP_PUSHB, 0, 0);
            R[0][i]->key = (seed % 4 == 0) ? (int)i : (seed % 4 == 1) ? (int)(n - i)
                         : (seed % 4 == 2) ? (int)(i % 7) : (int)((i * 2654435761u) >> 20);
        }
        apply(OP_SORT, 0, 0);
        check_all();
        apply(OP_REV, 0, 0);
        check_all();
        apply(OP_SORT, 0, 0);
        check_all();
        seqs++;
    }

    if (fails) {
        fprintf(stderr, "%d failure(s)\n", fails);
        return 1;
    }
    printf("ok: %lu sequences, %lu steps\n", seqs, steps);
    return 0;
}
