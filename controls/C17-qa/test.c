/*
 * C17 / a: the built-in hash functions stay in range.
 *
 * cstl_hash_mul() and cstl_hash_div() are called directly for a large set
 * of (key, table size) pairs: boundary table sizes around every power of
 * two up to SIZE_MAX, boundary keys around every power of two, small dense
 * ranges and pseudo-random 64-bit values. The only requirement is the
 * documented one: the result is in [0, m) (and cstl_hash_div() is the
 * remainder). A table driven by cstl_hash_mul() through several resizes
 * must never abort and must keep every element reachable.
 * Nothing depends on WHICH in-range bucket the multiplicative hash picks.
 */
#include "cstl/hash.h"

#include <stdio.h>
#include <stdlib.h>
#include <stdint.h>

#define CHECK(X) do { if (!(X)) { \
    fprintf(stderr, "FAIL %s:%d: %s\n", __FILE__, __LINE__, #X); \
    exit(1); } } while (0)

static uint64_t rng_state = 0x243f6a8885a308d3ull;
static uint64_t rng(void)
{
    /* xorshift64* */
    rng_state ^= rng_state >> 12;
    rng_state ^= rng_state << 25;
    rng_state ^= rng_state >> 27;
    return rng_state * 0x2545f4914f6cdd1dull;
}

static unsigned long checked;

static void check_one(const size_t k, const size_t m)
{
    const size_t a = cstl_hash_mul(k, m);
    const size_t b = cstl_hash_div(k, m);

    if (a >= m || b >= m || b != k % m) {
        fprintf(stderr, "FAIL: k=%zu m=%zu mul=%zu div=%zu\n", k, m, a, b);
        exit(1);
    }
    /* the functions are pure */
    CHECK(cstl_hash_mul(k, m) == a);
    checked++;
}

#define NKEYS 700
#define NSIZES 500
static size_t keys[NKEYS], sizes[NSIZES];
static unsigned int nkeys, nsizes;

static void add_key(const size_t k)
{
    CHECK(nkeys < NKEYS);
    keys[nkeys++] = k;
}

static void add_size(const size_t m)
{
    if (m > 0) {
        CHECK(nsizes < NSIZES);
        sizes[nsizes++] = m;
    }
}

struct item
{
    size_t key;
    struct cstl_hash_node hn;
};

static int count_visit(const void * const e, void * const p)
{
    (void)e;
    ++*(size_t *)p;
    return 0;
}

static void table_run(void)
{
    enum { N = 3000 };
    static struct item items[N];
    static const size_t geometry[] = { 1, 7, 64, 1000, 4099, 13, 2, 257 };
    DECLARE_CSTL_HASH(h, struct item, hn);
    size_t i, g, n;

    cstl_hash_resize(&h, 5, cstl_hash_mul);
    for (i = 0; i < N; i++) {
        /* a mix of small, huge and random keys */
        items[i].key =
            (i % 3 == 0) ? i : (i % 3 == 1) ? SIZE_MAX - i : (size_t)rng();
        cstl_hash_insert(&h, items[i].key, &items[i]);
    }

    for (g = 0; g < sizeof(geometry) / sizeof(*geometry); g++) {
        /* NULL keeps the function; lookups happen while rehashing */
        cstl_hash_resize(&h, geometry[g], (g & 1) ? NULL : cstl_hash_mul);
        for (i = 0; i < N; i += 2) {
            CHECK(cstl_hash_find(&h, items[i].key, NULL, NULL) != NULL);
        }
        n = 0;
        cstl_hash_foreach_const(&h, count_visit, &n);
        CHECK(n == N);
        cstl_hash_rehash(&h);
        for (i = 1; i < N; i += 2) {
            CHECK(cstl_hash_find(&h, items[i].key, NULL, NULL) != NULL);
        }
        CHECK(cstl_hash_size(&h) == N);
    }

    for (i = 0; i < N; i++) {
        cstl_hash_erase(&h, &items[i]);
    }
    CHECK(cstl_hash_size(&h) == 0);
    cstl_hash_clear(&h, NULL);
}

int main(void)
{
    unsigned int b, i, j;
    int d;

    /* table sizes and keys around every power of two */
    for (b = 0; b < sizeof(size_t) * 8; b++) {
        const size_t p = (size_t)1 << b;
        for (d = -3; d <= 3; d++) {
            add_size(p + (size_t)d);
            add_key(p + (size_t)d);
        }
        add_key(p + p / 2);
        add_key(p + p / 3);
    }
    add_size(SIZE_MAX); add_size(SIZE_MAX - 1); add_size(SIZE_MAX / 3);
    add_key(SIZE_MAX); add_key(SIZE_MAX - 1); add_key(0);
    /* sizes where a float cannot represent the neighbours */
    add_size(16777217); add_size(16777219); add_size(33554433);
    add_size(4294967167u); add_size(4294967169u);

    for (i = 0; i < nsizes; i++) {
        for (j = 0; j < nkeys; j++) {
            check_one(keys[j], sizes[i]);
        }
        /* small dense keys and random keys for this size */
        for (j = 0; j < 300; j++) {
            check_one(j, sizes[i]);
            check_one((size_t)rng(), sizes[i]);
        }
    }

    /* small dense sizes against many keys */
    for (i = 1; i <= 300; i++) {
        for (j = 0; j < 2000; j++) {
            check_one(j, i);
            check_one((size_t)rng(), i);
        }
    }

    /* random sizes, random keys */
    for (i = 0; i < 2000000; i++) {
        size_t m = (size_t)rng() >> (rng() % 64);
        if (m == 0) {
            m = 1;
        }
        check_one((size_t)rng() >> (rng() % 64), m);
    }

    table_run();

    printf("ok: %lu (key, size) pairs in range\n", checked);
    return 0;
}
