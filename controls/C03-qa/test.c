/*
 * C03 test: hash lookups stay exact while the table is incrementally
 * rehashed. Two tables are driven through the PUBLIC API only (insert,
 * find with and without a visit function, erase, resize to other bucket
 * counts and hash functions - also while an earlier resize is pending -,
 * forced rehash, shrink-to-fit, swap) and compared with a model that is just
 * a pool of items carrying "which table holds me".
 *
 * Because every find/insert/erase moves a pending rehash along, the state
 * is only inspected in full at the END of a sequence; the exhaustive part
 * enumerates the sequences of every length, so every prefix gets inspected.
 * During a sequence only the result of the operation itself and the
 * reported size are checked.
 *
 * Nothing here depends on the order of elements inside a bucket, on which
 * of several elements with one key a visit-less find returns, on when a
 * bucket is cleaned, or on how the bucket array is allocated.
 *
 * Focus of this copy: many elements per bucket and many elements per key
 * (duplicates), inserted, looked up and erased before, during and after
 * rehashes.
 */
#include <stdio.h>
#include <stdlib.h>
#include <string.h>

#include "cstl/hash.h"

#define FAIL(...) do { fprintf(stderr, "FAIL %s:%d: ", __FILE__, __LINE__); \
        fprintf(stderr, __VA_ARGS__); fprintf(stderr, "\n"); exit(1); } while (0)
#define CHECK(c) do { if (!(c)) FAIL("%s", #c); } while (0)

struct item
{
    size_t key;
    int tbl;   /* index of the table holding the item, -1 if none */
    int offered;
    struct cstl_hash_node hn;
};

#define POOL 4096
static struct item pool[POOL];
static size_t npool;

static struct cstl_hash T[2];

static size_t hash_zero(const size_t k, const size_t m)
{
    (void)k;
    (void)m;
    return 0;
}
static size_t hash_rev(const size_t k, const size_t m)
{
    return (m - 1) - (k % m);
}
static size_t hash_mix(const size_t k, const size_t m)
{
    return ((k * 2654435761u) >> 7) % m;
}
static cstl_hash_func_t * const funcs[] = {
    NULL, cstl_hash_div, cstl_hash_mul, hash_rev, hash_zero, hash_mix,
};
#define NFUNCS (sizeof(funcs) / sizeof(funcs[0]))

static size_t model_size(const int t)
{
    size_t i, n = 0;
    for (i = 0; i < npool; i++) {
        n += pool[i].tbl == t;
    }
    return n;
}
static size_t model_count(const int t, const size_t key)
{
    size_t i, n = 0;
    for (i = 0; i < npool; i++) {
        n += pool[i].tbl == t && pool[i].key == key;
    }
    return n;
}
static struct item * as_item(const void * const e)
{
    const struct item * const it = e;
    CHECK(it >= pool && it < pool + npool);
    CHECK(((const char *)it - (const char *)pool) % sizeof(*it) == 0);
    return (struct item *)it;
}

/* visit functions for find */
struct want
{
    int t;
    size_t key;
    const struct item * accept; /* NULL: accept nothing */
    size_t calls;
};
static int want_visit(const void * const e, void * const p)
{
    struct item * const it = as_item(e);
    struct want * const w = p;

    CHECK(it->tbl == w->t);     /* only live elements of this table */
    CHECK(it->key == w->key);   /* only matching keys are offered */
    CHECK(it->offered == 0);    /* at most once per find */
    it->offered = 1;
    w->calls++;
    return it == w->accept;
}
static void reset_offered(void)
{
    size_t i;
    for (i = 0; i < npool; i++) {
        pool[i].offered = 0;
    }
}

/* find with a visit function that accepts nothing: all must be offered */
static void find_reject_all(const int t, const size_t key)
{
    struct want w;
    size_t i;

    w.t = t;
    w.key = key;
    w.accept = NULL;
    w.calls = 0;
    reset_offered();
    CHECK(cstl_hash_find(&T[t], key, want_visit, &w) == NULL);
    CHECK(w.calls == model_count(t, key));
    for (i = 0; i < npool; i++) {
        CHECK(pool[i].offered == (pool[i].tbl == t && pool[i].key == key));
    }
}

/* find one particular element among those sharing its key */
static void find_exact(const int t, const struct item * const it,
                       const int expect)
{
    struct want w;
    void * f;

    w.t = t;
    w.key = it->key;
    w.accept = it;
    w.calls = 0;
    reset_offered();
    f = cstl_hash_find(&T[t], it->key, want_visit, &w);
    if (expect) {
        CHECK(f == it);
        CHECK(w.calls >= 1 && w.calls <= model_count(t, it->key));
    } else {
        CHECK(f == NULL);
        CHECK(w.calls == model_count(t, it->key));
    }
}

static void find_any(const int t, const size_t key)
{
    void * const f = cstl_hash_find(&T[t], key, NULL, NULL);
    if (model_count(t, key) == 0) {
        CHECK(f == NULL);
    } else {
        CHECK(f != NULL);
        CHECK(as_item(f)->tbl == t && as_item(f)->key == key);
    }
}

static unsigned long nverify;

static void verify(const size_t maxkey)
{
    int t;
    size_t i, k;

    nverify++;
    for (t = 0; t < 2; t++) {
        CHECK(cstl_hash_size(&T[t]) == model_size(t));
        for (i = 0; i < npool; i++) {
            find_exact(t, &pool[i], pool[i].tbl == t);
        }
        for (k = 0; k <= maxkey + 1; k++) {
            find_any(t, k);
            find_reject_all(t, k);
        }
        CHECK(cstl_hash_size(&T[t]) == model_size(t));
    }
}

static void op_insert(const int t, const size_t key)
{
    struct item * it;
    CHECK(npool < POOL);
    it = &pool[npool++];
    memset(it, 0x5a, sizeof(*it));
    it->key = key;
    it->offered = 0;
    cstl_hash_insert(&T[t], key, it);
    it->tbl = t;
    CHECK(cstl_hash_size(&T[t]) == model_size(t));
}

/* which: 0 = the oldest live one with the key, 1 = the newest */
static void op_erase_key(const int t, const size_t key, const int which)
{
    struct item * it = NULL;
    size_t i;

    for (i = 0; i < npool; i++) {
        if (pool[i].tbl == t && pool[i].key == key) {
            it = &pool[i];
            if (which == 0) {
                break;
            }
        }
    }
    if (it != NULL) {
        cstl_hash_erase(&T[t], it);
        it->tbl = -1;
        CHECK(cstl_hash_size(&T[t]) == model_size(t));
        find_exact(t, it, 0);
    }
}

/* erasing something that is not in the table changes nothing */
static void op_erase_absent(const int t, const size_t key)
{
    size_t i;

    for (i = 0; i < npool; i++) {
        if (pool[i].tbl != t && pool[i].key == key) {
            const size_t before = cstl_hash_size(&T[t]);
            cstl_hash_erase(&T[t], &pool[i]);
            CHECK(cstl_hash_size(&T[t]) == before);
            CHECK(before == model_size(t));
            break;
        }
    }
}

static void op_swap(void)
{
    size_t i;
    cstl_hash_swap(&T[0], &T[1]);
    for (i = 0; i < npool; i++) {
        if (pool[i].tbl >= 0) {
            pool[i].tbl = !pool[i].tbl;
        }
    }
    CHECK(cstl_hash_size(&T[0]) == model_size(0));
    CHECK(cstl_hash_size(&T[1]) == model_size(1));
}

static void tables_init(void)
{
    size_t k;

    npool = 0;
    cstl_hash_init(&T[0], offsetof(struct item, hn));
    cstl_hash_init(&T[1], offsetof(struct item, hn));
    cstl_hash_resize(&T[0], 2, cstl_hash_div);
    cstl_hash_resize(&T[1], 3, NULL);
    /* start populated, so that the first resize has something to move */
    for (k = 0; k < 4; k++) {
        op_insert(0, k % 3);
    }
    op_insert(1, 1);
}

static void tables_fini(void)
{
    cstl_hash_clear(&T[0], NULL);
    cstl_hash_clear(&T[1], NULL);
    CHECK(cstl_hash_size(&T[0]) == 0 && cstl_hash_size(&T[1]) == 0);
}

#define NOPS 19
static void small_op(const int op)
{
    switch (op) {
    case 0: case 1: case 2:
        op_insert(0, (size_t)op);
        break;
    case 3: case 4: case 5:
        find_any(0, (size_t)(op - 3));
        break;
    case 6: case 7: case 8:
        op_erase_key(0, (size_t)(op - 6), op & 1);
        break;
    case 9:
        cstl_hash_resize(&T[0], 1, NULL);
        break;
    case 10:
        cstl_hash_resize(&T[0], 2, cstl_hash_div);
        break;
    case 11:
        cstl_hash_resize(&T[0], 3, hash_rev);
        break;
    case 12:
        cstl_hash_resize(&T[0], 5, NULL);
        break;
    case 13:
        cstl_hash_resize(&T[0], 4, cstl_hash_mul);
        break;
    case 14:
        cstl_hash_rehash(&T[0]);
        break;
    case 15:
        cstl_hash_shrink_to_fit(&T[0]);
        break;
    case 16:
        find_reject_all(0, 0);
        break;
    case 17:
        op_swap();
        break;
    default:
        op_erase_absent(0, 1);
        break;
    }
    CHECK(cstl_hash_size(&T[0]) == model_size(0));
}

/* ops: a list of operation numbers to draw from */
static unsigned long exhaustive(const int len, const int * const ops,
                                const int nops)
{
    unsigned long total = 1, s, n = 0;
    int i, l;

    for (l = 0; l <= len; l++) {
        total = 1;
        for (i = 0; i < l; i++) {
            total *= (unsigned long)nops;
        }
        for (s = 0; s < total; s++) {
            unsigned long x = s;

            tables_init();
            for (i = 0; i < l; i++) {
                small_op(ops[x % (unsigned long)nops]);
                x /= (unsigned long)nops;
            }
            verify(3);
            tables_fini();
            n++;
        }
    }
    return n;
}

static unsigned int rnd_state;
static unsigned int rnd(void)
{
    rnd_state = rnd_state * 1103515245u + 12345u;
    return (rnd_state >> 16) & 0x7fff;
}

static void random_history(const unsigned int seed, const int steps,
                           const size_t nk, const size_t maxb)
{
    int i;

    rnd_state = seed;
    tables_init();
    for (i = 0; i < steps; i++) {
        const unsigned int r = rnd() % 100;
        const int t = (rnd() % 4) == 0;
        const size_t key = rnd() % nk;

        if (npool >= POOL - 2) {
            break;
        }
        if (r < 30) {
            op_insert(t, key);
        } else if (r < 45) {
            find_any(t, key);
        } else if (r < 52) {
            find_reject_all(t, key);
        } else if (r < 72) {
            op_erase_key(t, key, (int)(rnd() & 1));
        } else if (r < 76) {
            op_erase_absent(t, key);
        } else if (r < 88) {
            /* often lands while the previous resize is still pending */
            cstl_hash_resize(&T[t], 1 + rnd() % maxb, funcs[rnd() % NFUNCS]);
        } else if (r < 91) {
            cstl_hash_rehash(&T[t]);
        } else if (r < 94) {
            cstl_hash_shrink_to_fit(&T[t]);
        } else if (r < 97) {
            op_swap();
        } else {
            verify(nk);
        }
        CHECK(cstl_hash_size(&T[t]) == model_size(t));
    }
    verify(nk);
    /* take everything out again, one by one, resizing along the way */
    for (i = 0; (size_t)i < npool; i++) {
        if (pool[i].tbl >= 0) {
            const int t = pool[i].tbl;
            if (i % 16 == 0) {
                cstl_hash_resize(&T[t], 1 + rnd() % maxb, NULL);
            }
            cstl_hash_erase(&T[t], &pool[i]);
            pool[i].tbl = -1;
        }
    }
    verify(nk);
    tables_fini();
}

int main(void)
{
    static const int all[NOPS] = {
        0, 1, 2, 3, 4, 5, 6, 7, 8, 9, 10, 11, 12, 13, 14, 15, 16, 17, 18
    };
    static const int few[] = { 0, 1, 3, 4, 6, 7, 9, 12, 11, 16 };
    unsigned long n = 0;
    unsigned int seed;

    n += exhaustive(4, all, NOPS);
    n += exhaustive(6, few, (int)(sizeof(few) / sizeof(few[0])));
    for (seed = 1; seed <= 30; seed++) {
        random_history(seed, 2500, 1 + (seed % 7) * 5, 1 + (seed % 5) * 9);
    }
    printf("ok: %lu exhaustive sequences, %lu full verifications\n",
           n, nverify);
    return 0;
}
