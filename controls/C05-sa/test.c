/*
 * C05: shared memory is destroyed exactly once, exactly when its last owner
 * lets go (plus weak/unique pointer bookkeeping).
 *
 * Standalone, model-based test that uses only the public API of
 * cstl/memory.h.  The allocator is observed through the linker's --wrap
 * feature (malloc/calloc/realloc/free/aligned_alloc/posix_memalign), which
 * gives an implementation-independent count of live heap blocks and lets the
 * test inject allocation failures.
 *
 * The test deliberately does NOT assume how many blocks one shared
 * allocation takes, how big they are, in which order they are obtained or
 * released, what the private bookkeeping looks like or what the smart
 * pointer objects contain.
 */
#define _POSIX_C_SOURCE 200809L

#include "cstl/memory.h"

#include <stdio.h>
#include <stdlib.h>
#include <string.h>
#include <stdint.h>
#include <stdatomic.h>
#include <pthread.h>

/* ------------------------------------------------------------------ */
/* failure reporting                                                   */

static const char * g_phase = "init";
static unsigned long g_seed;
static long g_op;

#define CHECK(cond, ...)                                                \
    do {                                                                \
        if (!(cond)) {                                                  \
            fprintf(stderr, "FAIL %s:%d [%s seed=%lu op=%ld] %s: ",     \
                    __FILE__, __LINE__, g_phase, g_seed, g_op, #cond);  \
            fprintf(stderr, __VA_ARGS__);                               \
            fprintf(stderr, "\n");                                      \
            exit(1);                                                    \
        }                                                               \
    } while (0)

/* ------------------------------------------------------------------ */
/* model of one managed allocation                                     */

enum { KIND_SHARED, KIND_UNIQUE };

struct alloc
{
    int used;          /* slot is in use */
    int live;          /* model: managed memory not destroyed yet */
    int kind;
    void * addr;       /* address handed out by get() */
    size_t sz;
    unsigned char seed;
    int clr;           /* 0: none, 1: clr_a, 2: clr_b */
    void * priv;       /* unique pointers only */
    int owners, weaks; /* model reference counts */
    int exp_clr;       /* model: number of clear calls expected so far */
    int got_clr;       /* observed clear calls */
    int got_free;      /* observed free() of addr */
    long free_op;
    int dying;         /* model: must be destroyed by the current op */
};

#define MAXA 64
static struct alloc A[MAXA];

static int track_on;  /* single-threaded phases only */
static int in_call;   /* inside a library call / manual release */
static long total_clr_calls;

/* ------------------------------------------------------------------ */
/* allocator interposition                                             */

void * __real_malloc(size_t);
void * __real_calloc(size_t, size_t);
void * __real_realloc(void *, size_t);
void __real_free(void *);
void * __real_aligned_alloc(size_t, size_t);
int __real_posix_memalign(void **, size_t, size_t);

static atomic_long live_blocks;
static long fail_countdown = -1;
static int fail_sticky;

static int should_fail(void)
{
    if (fail_countdown < 0) {
        return 0;
    }
    if (fail_countdown == 0) {
        if (!fail_sticky) {
            fail_countdown = -1;
        }
        return 1;
    }
    fail_countdown--;
    return 0;
}

void * __wrap_malloc(size_t n)
{
    void * p;
    if (should_fail()) {
        return NULL;
    }
    p = __real_malloc(n);
    if (p != NULL) {
        atomic_fetch_add(&live_blocks, 1);
    }
    return p;
}

void * __wrap_calloc(size_t n, size_t m)
{
    void * p;
    if (should_fail()) {
        return NULL;
    }
    p = __real_calloc(n, m);
    if (p != NULL) {
        atomic_fetch_add(&live_blocks, 1);
    }
    return p;
}

void * __wrap_aligned_alloc(size_t a, size_t n)
{
    void * p;
    if (should_fail()) {
        return NULL;
    }
    p = __real_aligned_alloc(a, n);
    if (p != NULL) {
        atomic_fetch_add(&live_blocks, 1);
    }
    return p;
}

int __wrap_posix_memalign(void ** out, size_t a, size_t n)
{
    int r;
    if (should_fail()) {
        return 12; /* ENOMEM */
    }
    r = __real_posix_memalign(out, a, n);
    if (r == 0 && *out != NULL) {
        atomic_fetch_add(&live_blocks, 1);
    }
    return r;
}

static void note_free(void * p)
{
    if (track_on && p != NULL) {
        int i;
        for (i = 0; i < MAXA; i++) {
            struct alloc * const a = &A[i];
            if (a->used && a->live && a->addr == p && !a->got_free) {
                /* the memory under management is being released */
                CHECK(in_call, "managed memory freed outside of any call");
                CHECK(a->dying,
                      "alloc %d freed although it still has an owner", i);
                CHECK(a->clr == 0 || a->got_clr == 1,
                      "alloc %d freed before it was cleared (%d)",
                      i, a->got_clr);
                a->got_free = 1;
                a->free_op = g_op;
                break;
            }
        }
    }
}

void __wrap_free(void * p)
{
    if (p != NULL) {
        note_free(p);
        atomic_fetch_sub(&live_blocks, 1);
    }
    __real_free(p);
}

void * __wrap_realloc(void * p, size_t n)
{
    void * q;
    if (should_fail()) {
        return NULL;
    }
    if (p != NULL) {
        note_free(p);
    }
    q = __real_realloc(p, n);
    if (p == NULL && q != NULL) {
        atomic_fetch_add(&live_blocks, 1);
    } else if (p != NULL && n == 0 && q == NULL) {
        atomic_fetch_sub(&live_blocks, 1);
    }
    return q;
}

/* ------------------------------------------------------------------ */
/* payload pattern                                                     */

static unsigned char pat(const struct alloc * const a, const size_t i)
{
    return (unsigned char)(a->seed + 131u * (unsigned)i + (unsigned)(i >> 8));
}

static void fill(const struct alloc * const a)
{
    unsigned char * const p = a->addr;
    size_t i;
    for (i = 0; i < a->sz; i++) {
        p[i] = pat(a, i);
    }
}

static void verify(const struct alloc * const a, const char * const when)
{
    const unsigned char * const p = a->addr;
    size_t i;
    for (i = 0; i < a->sz; i++) {
        CHECK(p[i] == pat(a, i),
              "payload of alloc %d damaged at byte %lu (%s)",
              (int)(a - A), (unsigned long)i, when);
    }
}

/* ------------------------------------------------------------------ */
/* clear callbacks                                                     */

static void clr_common(void * const mem, void * const priv, const int which)
{
    int i, found = -1;

    total_clr_calls++;
    CHECK(in_call, "clear callback outside of any call");
    CHECK(mem != NULL, "clear callback with NULL memory");

    for (i = 0; i < MAXA; i++) {
        if (A[i].used && A[i].live && A[i].addr == mem) {
            found = i;
            break;
        }
    }
    CHECK(found >= 0, "clear callback for unknown/already destroyed %p", mem);
    {
        struct alloc * const a = &A[found];
        CHECK(a->clr == which, "wrong clear function for alloc %d", found);
        CHECK(a->got_clr == 0, "alloc %d cleared twice", found);
        CHECK(a->got_free == 0, "alloc %d cleared after free", found);
        CHECK(a->dying, "alloc %d cleared while it still has an owner", found);
        if (a->kind == KIND_UNIQUE) {
            CHECK(priv == a->priv, "wrong priv for unique alloc %d", found);
        }
        /* the memory must still be intact and writable */
        verify(a, "in clear");
        memset(mem, 0xdd, a->sz);
        a->got_clr++;
    }
}

static void clr_a(void * const mem, void * const priv)
{
    clr_common(mem, priv, 1);
}

static void clr_b(void * const mem, void * const priv)
{
    clr_common(mem, priv, 2);
}

static cstl_xtor_func_t * clr_fn(const int which)
{
    return which == 1 ? clr_a : which == 2 ? clr_b : (cstl_xtor_func_t *)NULL;
}

/* ------------------------------------------------------------------ */
/* the pool of objects                                                 */

#define NS 4
#define NW 3
#define NU 3

/* some objects come from the static initialisers, the rest from _init() */
static DECLARE_CSTL_SHARED_PTR(s_static0);
static DECLARE_CSTL_SHARED_PTR(s_static1);
static DECLARE_CSTL_WEAK_PTR(w_static0);
static DECLARE_CSTL_UNIQUE_PTR(u_static0);
static DECLARE_CSTL_SHARED_PTR(s_probe);

static cstl_shared_ptr_t s_dyn[NS];
static cstl_weak_ptr_t w_dyn[NW];
static cstl_unique_ptr_t u_dyn[NU];

static cstl_shared_ptr_t * S[NS];
static cstl_weak_ptr_t * W[NW];
static cstl_unique_ptr_t * U[NU];

static int sref[NS], wref[NW], uref[NU];

static long exp_released; /* model: blocks the current op must release */

static void pool_init(void)
{
    int i;
    for (i = 0; i < NS; i++) {
        cstl_shared_ptr_init(&s_dyn[i]);
        S[i] = &s_dyn[i];
        sref[i] = -1;
    }
    for (i = 0; i < NW; i++) {
        cstl_weak_ptr_init(&w_dyn[i]);
        W[i] = &w_dyn[i];
        wref[i] = -1;
    }
    for (i = 0; i < NU; i++) {
        cstl_unique_ptr_init(&u_dyn[i]);
        U[i] = &u_dyn[i];
        uref[i] = -1;
    }
    S[0] = &s_static0;
    S[1] = &s_static1;
    W[0] = &w_static0;
    U[0] = &u_static0;
    memset(A, 0, sizeof(A));
}

static int slot_new(void)
{
    int i;
    for (i = 0; i < MAXA; i++) {
        if (!A[i].used) {
            memset(&A[i], 0, sizeof(A[i]));
            return i;
        }
    }
    CHECK(0, "out of model slots");
    return -1;
}

static void m_destroy(struct alloc * const a)
{
    a->dying = 1;
    if (a->clr != 0) {
        a->exp_clr++;
    }
    exp_released++;
}

static void m_drop_owner(const int id)
{
    struct alloc * const a = &A[id];
    CHECK(a->used && a->live && a->owners > 0, "model broken");
    a->owners--;
    if (a->owners == 0) {
        m_destroy(a);
    }
    if (a->owners + a->weaks == 0) {
        exp_released++; /* the bookkeeping */
    }
}

static void m_drop_weak(const int id)
{
    struct alloc * const a = &A[id];
    CHECK(a->used && a->weaks > 0, "model broken");
    a->weaks--;
    if (a->owners + a->weaks == 0) {
        exp_released++;
    }
}

/*
 * the model has to decide what an operation is going to destroy *before*
 * the library is called, so that the hooks can tell a legitimate release
 * from a premature one
 */
static long call_before;

static void call_begin(void)
{
    g_op++;
    exp_released = 0;
}

static void call_enter(void)
{
    call_before = atomic_load(&live_blocks);
    in_call = 1;
}

static long call_leave(void)
{
    in_call = 0;
    return atomic_load(&live_blocks) - call_before;
}

/* settle everything that was marked dying by the op that just ran */
static void settle(void)
{
    int i;
    for (i = 0; i < MAXA; i++) {
        struct alloc * const a = &A[i];
        if (!a->used) {
            continue;
        }
        CHECK(a->got_clr == a->exp_clr,
              "alloc %d: %d clear calls, expected %d",
              i, a->got_clr, a->exp_clr);
        if (a->dying) {
            if (a->kind == KIND_UNIQUE) {
                /* documented to come from malloc() and to be free()d */
                CHECK(a->got_free == 1 && a->free_op == g_op,
                      "unique alloc %d not freed by the releasing op", i);
            } else if (a->got_free) {
                CHECK(a->free_op == g_op, "alloc %d freed at wrong time", i);
            }
            a->dying = 0;
            a->live = 0;
            a->addr = NULL;
        } else if (a->live) {
            CHECK(a->got_free == 0, "alloc %d freed while owned", i);
        }
        if (!a->live && a->owners == 0 && a->weaks == 0) {
            a->used = 0;
        }
    }
}

static void check_all(const int probe)
{
    int i;

    for (i = 0; i < MAXA; i++) {
        const struct alloc * const a = &A[i];
        if (a->used && a->live) {
            CHECK(a->owners > 0, "model broken: live without owner");
            verify(a, "check_all");
        }
    }

    for (i = 0; i < NS; i++) {
        const int id = sref[i];
        void * const want = id >= 0 ? A[id].addr : NULL;
        const bool uniq = id < 0 || A[id].owners + A[id].weaks == 1;
        CHECK(cstl_shared_ptr_get(S[i]) == want, "get(s%d) is wrong", i);
        CHECK(cstl_shared_ptr_get_const(S[i]) == want,
              "get_const(s%d) is wrong", i);
        CHECK(cstl_shared_ptr_unique(S[i]) == uniq,
              "unique(s%d) should be %d", i, (int)uniq);
    }
    for (i = 0; i < NU; i++) {
        const int id = uref[i];
        void * const want = id >= 0 ? A[id].addr : NULL;
        CHECK(cstl_unique_ptr_get(U[i]) == want, "get(u%d) is wrong", i);
        CHECK(cstl_unique_ptr_get_const(U[i]) == want,
              "get_const(u%d) is wrong", i);
    }

    if (probe) {
        /*
         * every weak pointer must be lockable if and only if an owner
         * still exists. locking into a spare, empty pointer and dropping
         * that again is itself a legal history that changes nothing.
         */
        for (i = 0; i < NW; i++) {
            const int id = wref[i];
            const long before = atomic_load(&live_blocks);
            const long clrs = total_clr_calls;
            in_call = 1;
            cstl_weak_ptr_lock(W[i], &s_probe);
            if (id >= 0 && A[id].owners > 0) {
                CHECK(cstl_shared_ptr_get(&s_probe) == A[id].addr,
                      "probe lock(w%d) did not yield the owner", i);
                CHECK(!cstl_shared_ptr_unique(&s_probe),
                      "probe lock(w%d) claims to be unique", i);
            } else {
                CHECK(cstl_shared_ptr_get(&s_probe) == NULL,
                      "probe lock(w%d) resurrected dead memory", i);
                CHECK(cstl_shared_ptr_unique(&s_probe), "empty not unique");
            }
            cstl_shared_ptr_reset(&s_probe);
            in_call = 0;
            CHECK(cstl_shared_ptr_get(&s_probe) == NULL, "probe not empty");
            CHECK(atomic_load(&live_blocks) == before,
                  "probe lock(w%d) changed the heap", i);
            CHECK(total_clr_calls == clrs, "probe lock(w%d) cleared", i);
        }
    }
}

static int g_probe = 1;

static void finish_release_only(const long delta, const char * const what)
{
    CHECK(delta == -exp_released,
          "%s: heap block delta %ld, expected %ld",
          what, delta, -exp_released);
    settle();
    check_all(g_probe);
}

/* ------------------------------------------------------------------ */
/* shared / weak operations                                            */

static void op_salloc(const int i, const size_t sz, const int clr,
                      const long failk, const int sticky)
{
    const int old = sref[i];
    long delta, fresh;
    void * p;
    int injected;

    call_begin();
    if (old >= 0) {
        m_drop_owner(old);
        sref[i] = -1;
    }

    fail_countdown = failk;
    fail_sticky = sticky;
    call_enter();
    cstl_shared_ptr_alloc(S[i], sz, clr_fn(clr));
    delta = call_leave();
    injected = (failk >= 0);
    fail_countdown = -1;
    fail_sticky = 0;

    p = cstl_shared_ptr_get(S[i]);
    fresh = delta + exp_released;
    if (sz == 0) {
        CHECK(p == NULL, "alloc of 0 bytes yielded memory");
    } else if (!injected && sz < SIZE_MAX / 4) {
        CHECK(p != NULL, "alloc(%lu) failed", (unsigned long)sz);
    }

    if (p != NULL) {
        int k;
        const int id = slot_new();
        struct alloc * const a = &A[id];
        for (k = 0; k < MAXA; k++) {
            CHECK(!(A[k].used && A[k].live && !A[k].dying && A[k].addr == p),
                  "new memory aliases live alloc %d", k);
        }
        a->used = 1;
        a->live = 1;
        a->kind = KIND_SHARED;
        a->addr = p;
        a->sz = sz;
        a->seed = (unsigned char)(g_op * 7 + id);
        a->clr = clr;
        a->owners = 1;
        sref[i] = id;
        CHECK(fresh >= 1 && fresh <= 4,
              "alloc took %ld heap blocks", fresh);
        CHECK(((uintptr_t)p % sizeof(void *)) == 0, "misaligned memory");
        fill(a);
        CHECK(cstl_shared_ptr_unique(S[i]), "fresh alloc not unique");
    } else {
        CHECK(fresh == 0, "failed/empty alloc leaked %ld blocks", fresh);
        CHECK(cstl_shared_ptr_unique(S[i]), "empty must be unique");
    }

    settle();
    check_all(g_probe);
}

static void op_sshare(const int e, const int n)
{
    long delta;
    /* sharing an object with itself is not a documented use */
    CHECK(e != n, "test bug");

    call_begin();
    if (sref[n] >= 0) {
        m_drop_owner(sref[n]);
        sref[n] = -1;
    }
    /* the source keeps its allocation alive, so this cannot be dying */
    if (sref[e] >= 0) {
        A[sref[e]].owners++;
        sref[n] = sref[e];
    }

    call_enter();
    cstl_shared_ptr_share(S[e], S[n]);
    delta = call_leave();
    finish_release_only(delta, "share");
}

static void op_sswap(const int i, const int j)
{
    long delta;
    const int t = sref[i];
    call_begin();
    sref[i] = sref[j];
    sref[j] = t;
    call_enter();
    cstl_shared_ptr_swap(S[i], S[j]);
    delta = call_leave();
    finish_release_only(delta, "swap");
}

static void op_sreset(const int i)
{
    long delta;
    call_begin();
    if (sref[i] >= 0) {
        m_drop_owner(sref[i]);
        sref[i] = -1;
    }
    call_enter();
    cstl_shared_ptr_reset(S[i]);
    delta = call_leave();
    finish_release_only(delta, "reset");
}

static void op_wfrom(const int w, const int s)
{
    long delta;
    call_begin();
    if (wref[w] >= 0) {
        m_drop_weak(wref[w]);
        wref[w] = -1;
    }
    if (sref[s] >= 0) {
        /*
         * if w was the last reference of the same allocation it cannot
         * have been, since s owns it
         */
        A[sref[s]].weaks++;
        wref[w] = sref[s];
    }
    call_enter();
    cstl_weak_ptr_from(W[w], S[s]);
    delta = call_leave();
    finish_release_only(delta, "weak_from");
}

static void op_wlock(const int w, const int s)
{
    long delta;
    call_begin();
    /* the receiving pointer lets go first ... */
    if (sref[s] >= 0) {
        m_drop_owner(sref[s]);
        sref[s] = -1;
    }
    /* ... and only then is the weak pointer asked */
    if (wref[w] >= 0 && A[wref[w]].owners > 0) {
        A[wref[w]].owners++;
        sref[s] = wref[w];
    }
    call_enter();
    cstl_weak_ptr_lock(W[w], S[s]);
    delta = call_leave();
    finish_release_only(delta, "weak_lock");
}

static void op_wswap(const int i, const int j)
{
    long delta;
    const int t = wref[i];
    call_begin();
    wref[i] = wref[j];
    wref[j] = t;
    call_enter();
    cstl_weak_ptr_swap(W[i], W[j]);
    delta = call_leave();
    finish_release_only(delta, "weak_swap");
}

static void op_wreset(const int w)
{
    long delta;
    call_begin();
    if (wref[w] >= 0) {
        m_drop_weak(wref[w]);
        wref[w] = -1;
    }
    call_enter();
    cstl_weak_ptr_reset(W[w]);
    delta = call_leave();
    finish_release_only(delta, "weak_reset");
}

/* ------------------------------------------------------------------ */
/* unique operations                                                   */

static int cookies[MAXA];

static void op_ualloc(const int i, const size_t sz, const int clr,
                      const int with_priv, const long failk)
{
    const int old = uref[i];
    long delta, fresh;
    void * p;
    void * priv;
    int id;

    call_begin();
    if (old >= 0) {
        m_destroy(&A[old]);
        A[old].owners = 0;
        uref[i] = -1;
    }
    id = slot_new();
    priv = with_priv ? (void *)&cookies[id] : NULL;

    fail_countdown = failk;
    call_enter();
    cstl_unique_ptr_alloc(U[i], sz, clr_fn(clr), priv);
    delta = call_leave();
    fail_countdown = -1;

    p = cstl_unique_ptr_get(U[i]);
    fresh = delta + exp_released;
    if (sz == 0) {
        CHECK(p == NULL, "unique alloc of 0 bytes yielded memory");
    } else if (failk < 0 && sz < SIZE_MAX / 4) {
        CHECK(p != NULL, "unique alloc failed");
    }
    if (p != NULL) {
        struct alloc * const a = &A[id];
        a->used = 1;
        a->live = 1;
        a->kind = KIND_UNIQUE;
        a->addr = p;
        a->sz = sz;
        a->seed = (unsigned char)(g_op * 11 + id);
        a->clr = clr;
        a->priv = priv;
        a->owners = 1;
        uref[i] = id;
        /* documented: the bytes come from one malloc() */
        CHECK(fresh == 1, "unique alloc took %ld heap blocks", fresh);
        fill(a);
    } else {
        CHECK(fresh == 0, "failed unique alloc leaked %ld blocks", fresh);
    }
    settle();
    if (uref[i] >= 0) {
        /* settle() must not have retired the new slot */
        CHECK(A[uref[i]].used, "test bug");
    }
    check_all(g_probe);
}

static void op_ureset(const int i)
{
    long delta;
    call_begin();
    if (uref[i] >= 0) {
        struct alloc * const a = &A[uref[i]];
        m_destroy(a);
        a->owners = 0;
        uref[i] = -1;
    }
    call_enter();
    cstl_unique_ptr_reset(U[i]);
    delta = call_leave();
    finish_release_only(delta, "unique_reset");
}

static void op_uswap(const int i, const int j)
{
    long delta;
    const int t = uref[i];
    call_begin();
    uref[i] = uref[j];
    uref[j] = t;
    call_enter();
    cstl_unique_ptr_swap(U[i], U[j]);
    delta = call_leave();
    finish_release_only(delta, "unique_swap");
}

static void op_urelease(const int i, const int how)
{
    const int id = uref[i];
    cstl_xtor_func_t * f = clr_a;
    void * pv = &f;
    void * p;
    long delta;

    call_begin();
    call_enter();
    if (how == 0) {
        p = cstl_unique_ptr_release(U[i], &f, &pv);
    } else if (how == 1) {
        p = cstl_unique_ptr_release(U[i], NULL, &pv);
        f = id >= 0 ? clr_fn(A[id].clr) : (cstl_xtor_func_t *)NULL;
    } else {
        p = cstl_unique_ptr_release(U[i], &f, NULL);
        pv = id >= 0 ? A[id].priv : NULL;
    }
    delta = call_leave();
    CHECK(delta == 0, "release touched the heap");
    CHECK(cstl_unique_ptr_get(U[i]) == NULL, "release left memory behind");

    if (id >= 0) {
        struct alloc * const a = &A[id];
        CHECK(p == a->addr, "release returned wrong pointer");
        CHECK(f == clr_fn(a->clr), "release returned wrong clear function");
        CHECK(pv == a->priv, "release returned wrong priv");
        CHECK(a->got_clr == 0 && a->got_free == 0,
              "release cleared or freed the memory");
        verify(a, "after release");

        /* the caller is now responsible: clear, then free() */
        m_destroy(a);
        a->owners = 0;
        uref[i] = -1;
        call_enter();
        if (f != NULL) {
            f(p, pv);
        }
        free(p);
        delta = call_leave();
        finish_release_only(delta, "manual release");
    } else {
        CHECK(p == NULL, "release of empty returned memory");
        CHECK(f == NULL && pv == NULL, "release of empty returned callbacks");
        settle();
        check_all(g_probe);
    }
}

/* ------------------------------------------------------------------ */
/* teardown: resetting every pointer must leak nothing                 */

static void teardown(const long baseline, const int order)
{
    int i;
    if (order & 1) {
        for (i = 0; i < NW; i++) {
            op_wreset(i);
        }
        for (i = NS - 1; i >= 0; i--) {
            op_sreset(i);
        }
    } else {
        for (i = 0; i < NS; i++) {
            op_sreset(i);
        }
        for (i = NW - 1; i >= 0; i--) {
            op_wreset(i);
        }
    }
    for (i = 0; i < NU; i++) {
        if (order & 2) {
            op_urelease(i, i % 3);
        } else {
            op_ureset(i);
        }
    }
    for (i = 0; i < MAXA; i++) {
        CHECK(!A[i].used, "alloc %d survived the teardown", i);
    }
    CHECK(atomic_load(&live_blocks) == baseline,
          "leak: %ld heap blocks left after resetting everything",
          atomic_load(&live_blocks) - baseline);
}

/* ------------------------------------------------------------------ */
/* phase 1: exhaustive small scope                                     */

#define XOPS 19

static void xop(const int op)
{
    switch (op) {
    case 0: op_salloc(0, 8, 1, -1, 0); break;
    case 1: op_salloc(1, 24, 2, -1, 0); break;
    case 2: op_salloc(0, 0, 1, -1, 0); break;
    case 3: op_sshare(0, 1); break;
    case 4: op_sshare(1, 0); break;
    case 5: op_sswap(0, 1); break;
    case 6: op_sreset(0); break;
    case 7: op_sreset(1); break;
    case 8: op_wfrom(0, 0); break;
    case 9: op_wfrom(0, 1); break;
    case 10: op_wlock(0, 0); break;
    case 11: op_wlock(0, 1); break;
    case 12: op_wreset(0); break;
    case 13: op_wfrom(1, 0); break;
    case 14: op_wlock(1, 1); break;
    case 15: op_wswap(0, 1); break;
    case 16: op_wreset(1); break;
    case 17: op_salloc(1, 1, 0, -1, 0); break;
    case 18: op_sswap(0, 0); break;
    default: CHECK(0, "test bug"); break;
    }
}

static void small_teardown(const long baseline, const int order)
{
    int i;
    if (order) {
        op_wreset(1); op_wreset(0); op_sreset(1); op_sreset(0);
    } else {
        op_sreset(0); op_sreset(1); op_wreset(0); op_wreset(1);
    }
    for (i = 0; i < MAXA; i++) {
        CHECK(!A[i].used, "alloc %d survived the teardown", i);
    }
    CHECK(atomic_load(&live_blocks) == baseline,
          "leak: %ld heap blocks left",
          atomic_load(&live_blocks) - baseline);
}

static void phase_exhaustive(const int depth)
{
    long n = 1, seq;
    int d;
    const long baseline = atomic_load(&live_blocks);

    g_phase = "exhaustive";
    for (d = 0; d < depth; d++) {
        n *= XOPS;
    }
    for (seq = 0; seq < n; seq++) {
        long x = seq;
        g_seed = (unsigned long)seq;
        g_op = 0;
        for (d = 0; d < depth; d++) {
            xop((int)(x % XOPS));
            x /= XOPS;
        }
        small_teardown(baseline, (int)(seq & 1));
    }
}

/* ------------------------------------------------------------------ */
/* phase 2: seeded random histories over the whole pool                */

static unsigned long rng_state;

static unsigned long rnd(void)
{
    rng_state = rng_state * 6364136223846793005UL + 1442695040888963407UL;
    return (rng_state >> 33) & 0x7fffffffUL;
}

static size_t rnd_size(void)
{
    static const size_t sizes[] = {
        0, 1, 1, 2, 3, 7, 8, 8, 15, 16, 17, 24, 32, 63, 64, 100, 128, 255,
        256, 1000, 4096, 4097
    };
    const unsigned long r = rnd() % 1000;
    if (r == 0) {
        return (size_t)1 << 20;
    }
    if (r == 1) {
        return SIZE_MAX; /* cannot be satisfied: must come back empty */
    }
    if (r == 2) {
        return SIZE_MAX / 2 + 1;
    }
    return sizes[rnd() % (sizeof(sizes) / sizeof(sizes[0]))];
}

static int rnd_other(const int i, const int n)
{
    int j = (int)(rnd() % (unsigned)(n - 1));
    if (j >= i) {
        j++;
    }
    return j;
}

static void phase_random(const unsigned long seed, const long ops,
                         const int inject)
{
    const long baseline = atomic_load(&live_blocks);
    long k;

    g_phase = inject ? "random+failures" : "random";
    g_seed = seed;
    g_op = 0;
    rng_state = seed * 2654435761UL + 12345;

    for (k = 0; k < ops; k++) {
        const unsigned long r = rnd() % 100;
        const int s = (int)(rnd() % NS);
        const int w = (int)(rnd() % NW);
        const int u = (int)(rnd() % NU);
        long failk = -1;
        int sticky = 0;

        if (inject && rnd() % 4 == 0) {
            failk = (long)(rnd() % 4);
            sticky = (int)(rnd() % 2);
        }

        if (r < 16) {
            op_salloc(s, rnd_size(), (int)(rnd() % 3), failk, sticky);
        } else if (r < 32) {
            op_sshare(s, rnd_other(s, NS));
        } else if (r < 40) {
            op_sswap(s, (int)(rnd() % NS));
        } else if (r < 52) {
            op_sreset(s);
        } else if (r < 62) {
            op_wfrom(w, s);
        } else if (r < 72) {
            op_wlock(w, s);
        } else if (r < 76) {
            op_wswap(w, (int)(rnd() % NW));
        } else if (r < 82) {
            op_wreset(w);
        } else if (r < 88) {
            op_ualloc(u, rnd_size(), (int)(rnd() % 3), (int)(rnd() % 2),
                      failk >= 0 ? failk % 2 : -1);
        } else if (r < 92) {
            op_uswap(u, (int)(rnd() % NU));
        } else if (r < 96) {
            op_ureset(u);
        } else {
            op_urelease(u, (int)(rnd() % 3));
        }

        if (rnd() % 400 == 0) {
            teardown(baseline, (int)(rnd() % 4));
        }
    }
    teardown(baseline, (int)(seed % 4));
}

/* ------------------------------------------------------------------ */
/* phase 3: deterministic allocation failure sweep                     */

static void phase_failures(void)
{
    const long baseline = atomic_load(&live_blocks);
    int scen, sticky;
    long k;

    g_phase = "failure sweep";
    g_seed = 0;
    g_op = 0;
    for (scen = 0; scen < 6; scen++) {
        for (sticky = 0; sticky < 2; sticky++) {
            for (k = 0; k < 6; k++) {
                /* s0 owns something, in different company */
                op_salloc(0, 40, 1, -1, 0);
                switch (scen) {
                case 0: break;
                case 1: op_sshare(0, 1); break;
                case 2: op_wfrom(0, 0); break;
                case 3: op_sshare(0, 1); op_wfrom(0, 1); break;
                case 4: op_sreset(0); break;
                case 5: op_wfrom(0, 0); op_wfrom(1, 0); op_sshare(0, 2); break;
                }
                /* re-target it while the allocator is failing */
                op_salloc(0, 56, 2, k, sticky);
                /* whatever came out of that must behave normally */
                op_sshare(0, 3);
                op_wfrom(2, 3);
                op_sreset(0);
                op_wlock(2, 0);
                op_wlock(0, 1);
                teardown(baseline, (int)(k % 4));

                op_ualloc(0, 33, 1, 1, -1);
                op_ualloc(0, 77, 2, 1, k % 3);
                op_uswap(0, 1);
                op_ualloc(1, 5, 0, 0, k % 2);
                teardown(baseline, (int)((k + 2) % 4));
            }
        }
    }
}

/* ------------------------------------------------------------------ */
/* phase 4: concurrent owners and weak pointers                        */

#define NT 4
#define TSZ 256

static cstl_shared_ptr_t t_root;
static cstl_weak_ptr_t t_weak[NT];
static atomic_int t_clr_calls;
static atomic_int t_destroyed;
static atomic_int t_holders;
static atomic_long t_locked_ok;
static pthread_barrier_t t_barrier;
static int t_rounds;

static void t_clr(void * const mem, void * const priv)
{
    const unsigned char * const p = mem;
    int i;
    (void)priv;
    /* nobody may still hold an owning pointer */
    if (atomic_load(&t_holders) != 0) {
        fprintf(stderr, "FAIL: cleared while %d owners exist\n",
                atomic_load(&t_holders));
        abort();
    }
    for (i = 0; i < TSZ; i++) {
        if (p[i] != (unsigned char)(i ^ 0x5a)) {
            fprintf(stderr, "FAIL: payload damaged before clear\n");
            abort();
        }
    }
    memset(mem, 0xee, TSZ);
    atomic_store(&t_destroyed, 1);
    atomic_fetch_add(&t_clr_calls, 1);
}

static void * t_main(void * const arg)
{
    const int me = (int)(intptr_t)arg;
    cstl_shared_ptr_t a, b;
    cstl_weak_ptr_t w2;
    int r;

    cstl_shared_ptr_init(&a);
    cstl_shared_ptr_init(&b);
    cstl_weak_ptr_init(&w2);

    pthread_barrier_wait(&t_barrier);

    for (r = 0; r < t_rounds; r++) {
        cstl_weak_ptr_lock(&t_weak[me], &a);
        if (cstl_shared_ptr_get(&a) != NULL) {
            const unsigned char * const p = cstl_shared_ptr_get_const(&a);
            int i;
            /* we are an owner now; nothing may be destroyed under us */
            atomic_fetch_add(&t_holders, 1);
            if (atomic_load(&t_destroyed)) {
                fprintf(stderr, "FAIL: locked memory already destroyed\n");
                abort();
            }
            for (i = 0; i < TSZ; i++) {
                if (p[i] != (unsigned char)(i ^ 0x5a)) {
                    fprintf(stderr, "FAIL: locked payload damaged\n");
                    abort();
                }
            }
            cstl_shared_ptr_share(&a, &b);
            if (cstl_shared_ptr_get(&b) != cstl_shared_ptr_get(&a)) {
                fprintf(stderr, "FAIL: co-owners disagree\n");
                abort();
            }
            if (cstl_shared_ptr_unique(&a)) {
                fprintf(stderr, "FAIL: unique with co-owner\n");
                abort();
            }
            cstl_weak_ptr_from(&w2, &b);
            cstl_shared_ptr_reset(&a);
            if (atomic_load(&t_destroyed)) {
                fprintf(stderr, "FAIL: destroyed although b owns it\n");
                abort();
            }
            cstl_shared_ptr_swap(&a, &b);
            atomic_fetch_add(&t_locked_ok, 1);
            /* let go: count ourselves out first, the reset may be the last */
            atomic_fetch_sub(&t_holders, 1);
            cstl_shared_ptr_reset(&a);
            cstl_weak_ptr_reset(&w2);
        } else {
            if (!cstl_shared_ptr_unique(&a)) {
                fprintf(stderr, "FAIL: empty pointer not unique\n");
                abort();
            }
        }

        if (me == 0 && r == t_rounds / 2) {
            /* the original owner lets go in the middle of the storm */
            atomic_fetch_sub(&t_holders, 1);
            cstl_shared_ptr_reset(&t_root);
        }
    }

    cstl_shared_ptr_reset(&a);
    cstl_shared_ptr_reset(&b);
    cstl_weak_ptr_reset(&w2);
    return NULL;
}

static void phase_threads(const int reps, const int rounds)
{
    int rep;

    g_phase = "threads";
    track_on = 0;
    t_rounds = rounds;

    for (rep = 0; rep < reps; rep++) {
        const long baseline = atomic_load(&live_blocks);
        pthread_t th[NT];
        unsigned char * p;
        int i;

        g_seed = (unsigned long)rep;
        atomic_store(&t_clr_calls, 0);
        atomic_store(&t_destroyed, 0);
        atomic_store(&t_holders, 1); /* t_root */
        atomic_store(&t_locked_ok, 0);

        cstl_shared_ptr_init(&t_root);
        cstl_shared_ptr_alloc(&t_root, TSZ, t_clr);
        p = cstl_shared_ptr_get(&t_root);
        CHECK(p != NULL, "alloc failed");
        for (i = 0; i < TSZ; i++) {
            p[i] = (unsigned char)(i ^ 0x5a);
        }
        for (i = 0; i < NT; i++) {
            cstl_weak_ptr_init(&t_weak[i]);
            cstl_weak_ptr_from(&t_weak[i], &t_root);
        }
        CHECK(!cstl_shared_ptr_unique(&t_root), "unique with weak refs");

        CHECK(pthread_barrier_init(&t_barrier, NULL, NT) == 0, "barrier");
        for (i = 0; i < NT; i++) {
            CHECK(pthread_create(&th[i], NULL, t_main,
                                 (void *)(intptr_t)i) == 0, "pthread_create");
        }
        for (i = 0; i < NT; i++) {
            CHECK(pthread_join(th[i], NULL) == 0, "pthread_join");
        }
        pthread_barrier_destroy(&t_barrier);

        CHECK(atomic_load(&t_clr_calls) == 1,
              "cleared %d times", atomic_load(&t_clr_calls));
        CHECK(atomic_load(&t_holders) == 0, "holder accounting broken");
        CHECK(cstl_shared_ptr_get(&t_root) == NULL, "root not empty");

        /* the bookkeeping is still referenced by the weak pointers */
        CHECK(atomic_load(&live_blocks) > baseline,
              "bookkeeping gone although weak pointers exist");
        for (i = 0; i < NT; i++) {
            cstl_weak_ptr_lock(&t_weak[i], &t_root);
            CHECK(cstl_shared_ptr_get(&t_root) == NULL,
                  "lock succeeded without an owner");
            cstl_weak_ptr_reset(&t_weak[i]);
        }
        CHECK(atomic_load(&t_clr_calls) == 1, "cleared again");
        CHECK(atomic_load(&live_blocks) == baseline,
              "threads leaked %ld blocks",
              atomic_load(&live_blocks) - baseline);
    }
}

/* ------------------------------------------------------------------ */
/* phase 0: a few hand-written histories from the documentation        */

static void phase_scripted(void)
{
    const long baseline = atomic_load(&live_blocks);

    g_phase = "scripted";
    g_seed = 0;
    g_op = 0;

    /* operating on empty pointers */
    op_sreset(0); op_wreset(0); op_sshare(0, 1); op_wfrom(0, 0);
    op_wlock(0, 0); op_sswap(0, 1); op_wswap(0, 1); op_ureset(0);
    op_urelease(0, 0); op_uswap(0, 1); op_uswap(0, 0);
    CHECK(atomic_load(&live_blocks) == baseline, "empty ops touched heap");

    /* the last of many owners destroys */
    op_salloc(0, 128, 1, -1, 0);
    op_sshare(0, 1); op_sshare(1, 2); op_sshare(2, 3);
    op_wfrom(0, 3); op_wfrom(1, 0); op_wfrom(2, 1);
    op_sreset(0); op_sreset(2); op_sreset(1);
    op_wlock(0, 0);          /* s3 is still there */
    op_sreset(3);
    op_sreset(0);            /* now it is gone */
    op_wlock(0, 0); op_wlock(1, 1); op_wlock(2, 2);
    op_wreset(0); op_wreset(1);
    op_wreset(2);            /* bookkeeping goes here */
    CHECK(atomic_load(&live_blocks) == baseline, "leak");

    /* re-target an owner, share/lock into occupied pointers */
    op_salloc(0, 16, 1, -1, 0);
    op_salloc(1, 32, 2, -1, 0);
    op_salloc(2, 48, 0, -1, 0);
    op_wfrom(0, 0); op_wfrom(1, 1);
    op_salloc(0, 64, 2, -1, 0);     /* destroys the first */
    op_sshare(1, 0);                /* destroys the 64 byte one */
    op_wlock(1, 2);                 /* destroys the 48 byte one */
    op_sswap(0, 3); op_sswap(3, 2);
    op_wlock(0, 1);                 /* w0 is dead: s1 becomes empty */
    op_salloc(3, 0, 1, -1, 0);      /* size 0 is a reset */
    teardown(baseline, 0);

    /* unique pointers */
    op_ualloc(0, 512, 1, 1, -1);
    op_ualloc(0, 1024, 2, 1, -1);   /* clears + frees the first */
    op_ualloc(1, 1, 0, 1, -1);
    op_uswap(0, 1);
    op_urelease(1, 0);
    op_ualloc(2, 9, 1, 0, -1);
    op_uswap(2, 0);
    op_ualloc(0, 0, 1, 1, -1);      /* size 0 is a reset */
    teardown(baseline, 2);
}

int main(int argc, char ** argv)
{
    int depth = 4;
    long nseeds = 24, i;

    if (argc > 1) {
        depth = atoi(argv[1]);
    }
    if (argc > 2) {
        nseeds = atol(argv[2]);
    }

    setvbuf(stdout, NULL, _IONBF, 0);
    setvbuf(stderr, NULL, _IONBF, 0);

    pool_init();
    track_on = 1;

    phase_scripted();
    printf("scripted ok\n");

    g_probe = 1;
    phase_exhaustive(depth);
    g_probe = 0;
    phase_exhaustive(depth + 1 > 5 ? 5 : depth + 1);
    g_probe = 1;
    printf("exhaustive ok\n");

    phase_failures();
    printf("failure sweep ok\n");

    for (i = 1; i <= nseeds; i++) {
        phase_random((unsigned long)i, 6000, 0);
        phase_random((unsigned long)i + 1000, 3000, 1);
    }
    printf("random ok\n");

    track_on = 0;
    phase_threads(30, 3000);
    printf("threads ok\n");

    printf("C05 ok\n");
    return 0;
}
