/*
 * C11 (change b: insertion-sort fast path for partitions of <= 7 elements;
 * lengths 0..8 exhaustively straddle the cutoff, longer arrays reach it through
 * recursion): every sort algorithm returns a sorted permutation, and the searches
 * agree with it.  Public API only (cstl/array.h, cstl/vector.h).
 *
 * Exhaustive over all arrays of length 0..LMAX over a 3-letter alphabet,
 * element sizes 1,2,4,8 (fast paths of cstl_swap) and 12 (memcpy path),
 * the four named algorithms plus out-of-range selectors; then large
 * adversarial inputs.  Checks: non-decreasing order, byte-exact permutation,
 * guard zones around the array and the scratch element untouched, binary
 * search / linear find / reverse.
 */
#include <stdio.h>
#include <stdlib.h>
#include <string.h>
#include <stdint.h>

#include "cstl/array.h"
#include "cstl/vector.h"

#define GUARD 64
#define LMAX 8
#define BIGN 3000

static int fails;
#define CHECK(c, ...) do { if (!(c)) { if (fails++ < 20) { \
    fprintf(stderr, "FAIL %s:%d: ", __FILE__, __LINE__); \
    fprintf(stderr, __VA_ARGS__); fprintf(stderr, "\n"); } } } while (0)

static const int algos[] = {
    CSTL_SORT_ALGORITHM_QUICK, CSTL_SORT_ALGORITHM_QUICK_R,
    CSTL_SORT_ALGORITHM_QUICK_M, CSTL_SORT_ALGORITHM_HEAP,
    4, -1, 2897234,
};
#define NALGO (sizeof(algos) / sizeof(*algos))
static const size_t sizes[] = { 1, 2, 4, 8, 12 };
#define NSIZE (sizeof(sizes) / sizeof(*sizes))

/* the key is the first byte of an element; the rest is an identity tag */
static int key_cmp(const void * a, const void * b, void * p)
{
    (void)p;
    return (int)*(const unsigned char *)a - (int)*(const unsigned char *)b;
}

/* a swap callback that never uses the scratch space */
static void bytewise_swap(void * a, void * b, void * t, size_t n)
{
    unsigned char * x = a, * y = b;
    (void)t;
    while (n-- > 0) {
        const unsigned char c = *x; *x++ = *y; *y++ = c;
    }
}

static void fill(unsigned char * arr, const unsigned * keys,
                 size_t n, size_t sz)
{
    size_t i, k;
    for (i = 0; i < n; i++) {
        unsigned char * e = arr + i * sz;
        e[0] = (unsigned char)keys[i];
        for (k = 1; k < sz; k++) {
            e[k] = (unsigned char)((i * 131 + k * 17 + 1) ^ (i >> 8));
        }
    }
}

static uint64_t ehash(const unsigned char * e, size_t sz)
{
    uint64_t h = 1469598103934665603ull;
    size_t k;
    for (k = 0; k < sz; k++) { h ^= e[k]; h *= 1099511628211ull; }
    return h;
}

/* order-independent fingerprint of the multiset of elements */
static void fingerprint(const unsigned char * arr, size_t n, size_t sz,
                        uint64_t fp[3])
{
    size_t i;
    fp[0] = fp[1] = fp[2] = 0;
    for (i = 0; i < n; i++) {
        const uint64_t h = ehash(arr + i * sz, sz);
        fp[0] += h; fp[1] ^= h * 0x9e3779b97f4a7c15ull; fp[2] += h * h;
    }
}

/* exact multiset equality, O(n^2); only for short arrays */
static int same_multiset(const unsigned char * a, const unsigned char * b,
                         size_t n, size_t sz)
{
    unsigned char used[LMAX + 1];
    size_t i, j;
    memset(used, 0, sizeof(used));
    for (i = 0; i < n; i++) {
        for (j = 0; j < n; j++) {
            if (!used[j] && memcmp(a + i * sz, b + j * sz, sz) == 0) {
                used[j] = 1; break;
            }
        }
        if (j == n) { return 0; }
    }
    return 1;
}

static int guards_ok(const unsigned char * buf, size_t n, size_t sz)
{
    size_t i;
    for (i = 0; i < GUARD; i++) {
        if (buf[i] != 0xA5 || buf[GUARD + n * sz + i] != 0xA5) { return 0; }
    }
    return 1;
}

static void check_searches(const unsigned char * arr, size_t n, size_t sz,
                           unsigned maxkey)
{
    unsigned char probe[16];
    unsigned k;
    memset(probe, 0xEE, sizeof(probe));
    for (k = 0; k <= maxkey + 1 && k <= 255; k++) {
        size_t i, first = n;
        ssize_t r;
        probe[0] = (unsigned char)k;
        for (i = 0; i < n; i++) {
            if (arr[i * sz] == k) { first = i; break; }
        }
        r = cstl_raw_array_search(arr, n, sz, probe, key_cmp, NULL);
        if (first == n) {
            CHECK(r == -1, "search: absent key %u gave %ld", k, (long)r);
        } else {
            CHECK(r >= 0 && (size_t)r < n && arr[(size_t)r * sz] == k,
                  "search: present key %u gave %ld", k, (long)r);
        }
        r = cstl_raw_array_find(arr, n, sz, probe, key_cmp, NULL);
        CHECK(r == (first == n ? -1 : (ssize_t)first),
              "find: key %u gave %ld want %ld", k, (long)r,
              first == n ? -1L : (long)first);
    }
}

static void one_case(const unsigned * keys, size_t n, size_t sz, int algo,
                     unsigned maxkey, int exact)
{
    unsigned char * buf = malloc(2 * GUARD + n * sz + 1);
    unsigned char * ref = malloc(n * sz + 1);
    unsigned char tbuf[2 * GUARD + 16];
    unsigned char * arr = buf + GUARD, * tmp = tbuf + GUARD;
    uint64_t f0[3], f1[3];
    size_t i;

    memset(buf, 0xA5, 2 * GUARD + n * sz + 1);
    memset(tbuf, 0xA5, sizeof(tbuf));
    fill(arr, keys, n, sz);
    memcpy(ref, arr, n * sz);
    fingerprint(arr, n, sz, f0);

    /* linear find on the unsorted array */
    check_searches(ref, 0, sz, maxkey);
    {
        unsigned char probe[16];
        unsigned k;
        memset(probe, 0, sizeof(probe));
        for (k = 0; k <= maxkey + 1 && k <= 255; k++) {
            size_t first = n;
            ssize_t r;
            probe[0] = (unsigned char)k;
            for (i = 0; i < n; i++) {
                if (arr[i * sz] == k) { first = i; break; }
            }
            r = cstl_raw_array_find(arr, n, sz, probe, key_cmp, NULL);
            CHECK(r == (first == n ? -1 : (ssize_t)first), "find unsorted");
        }
    }

    cstl_raw_array_sort(arr, n, sz, key_cmp, NULL,
                        (n & 1) ? cstl_swap : bytewise_swap, tmp,
                        (cstl_sort_algorithm_t)algo);

    for (i = 1; i < n; i++) {
        CHECK(arr[(i - 1) * sz] <= arr[i * sz],
              "not sorted: n=%lu sz=%lu algo=%d at %lu",
              (unsigned long)n, (unsigned long)sz, algo, (unsigned long)i);
    }
    fingerprint(arr, n, sz, f1);
    CHECK(memcmp(f0, f1, sizeof(f0)) == 0, "not a permutation (hash): "
          "n=%lu sz=%lu algo=%d", (unsigned long)n, (unsigned long)sz, algo);
    if (exact) {
        CHECK(same_multiset(arr, ref, n, sz), "not a permutation: "
              "n=%lu sz=%lu algo=%d", (unsigned long)n, (unsigned long)sz,
              algo);
    }
    CHECK(guards_ok(buf, n, sz), "array guard clobbered");
    for (i = 0; i < GUARD; i++) {
        CHECK(tbuf[i] == 0xA5 && tbuf[GUARD + sz + i] == 0xA5,
              "scratch guard clobbered");
    }

    check_searches(arr, n, sz, maxkey);

    /* reverse exactly mirrors */
    memcpy(ref, arr, n * sz);
    cstl_raw_array_reverse(arr, n, sz, cstl_swap, tmp);
    for (i = 0; i < n; i++) {
        CHECK(memcmp(arr + i * sz, ref + (n - 1 - i) * sz, sz) == 0,
              "reverse does not mirror");
    }
    CHECK(guards_ok(buf, n, sz), "array guard clobbered by reverse");

    free(ref);
    free(buf);
}

static void vector_case(const unsigned * keys, size_t n, size_t sz, int algo,
                        unsigned maxkey)
{
    struct cstl_vector v;
    unsigned char * ref = malloc(n * sz + 1);
    uint64_t f0[3], f1[3];
    unsigned char probe[16];
    unsigned k;
    size_t i;

    cstl_vector_init(&v, sz);
    cstl_vector_reserve(&v, n + 3);
    cstl_vector_resize(&v, n);
    for (i = 0; i < n; i++) {
        unsigned char e[16];
        fill(e, keys + i, 1, sz);
        e[sz > 1 ? 1 : 0] ^= (sz > 1) ? (unsigned char)i : 0;
        memcpy(cstl_vector_at(&v, i), e, sz);
    }
    if (n > 0) {
        memcpy(ref, cstl_vector_data(&v), n * sz);
    }
    fingerprint(ref, n, sz, f0);

    __cstl_vector_sort(&v, key_cmp, NULL, cstl_swap,
                       (cstl_sort_algorithm_t)algo);
    CHECK(cstl_vector_size(&v) == n, "vector size changed");
    for (i = 1; i < n; i++) {
        CHECK(key_cmp(cstl_vector_at(&v, i - 1),
                      cstl_vector_at(&v, i), NULL) <= 0, "vector not sorted");
    }
    fingerprint(n > 0 ? cstl_vector_data(&v) : ref, n, sz, f1);
    CHECK(memcmp(f0, f1, sizeof(f0)) == 0, "vector not a permutation");

    memset(probe, 0x11, sizeof(probe));
    for (k = 0; k <= maxkey + 1 && k <= 255; k++) {
        size_t first = n;
        ssize_t r;
        probe[0] = (unsigned char)k;
        for (i = 0; i < n; i++) {
            if (*(unsigned char *)cstl_vector_at(&v, i) == k) {
                first = i; break;
            }
        }
        r = cstl_vector_search(&v, probe, key_cmp, NULL);
        if (first == n) {
            CHECK(r == -1, "vector search absent");
        } else {
            CHECK(r >= 0 && (size_t)r < n
                  && *(unsigned char *)cstl_vector_at(&v, r) == k,
                  "vector search present");
        }
        r = cstl_vector_find(&v, probe, key_cmp, NULL);
        CHECK(r == (first == n ? -1 : (ssize_t)first), "vector find");
    }

    if (n > 0) {
        memcpy(ref, cstl_vector_data(&v), n * sz);
    }
    cstl_vector_reverse(&v);
    for (i = 0; i < n; i++) {
        CHECK(memcmp(cstl_vector_at(&v, i), ref + (n - 1 - i) * sz, sz) == 0,
              "vector reverse");
    }
    cstl_vector_clear(&v);
    free(ref);
}

int main(void)
{
    unsigned keys[BIGN];
    size_t n, s, a;
    unsigned long cases = 0;

    /* exhaustive: every array of length 0..LMAX over {0,1,2} */
    for (n = 0; n <= LMAX; n++) {
        unsigned long code, total = 1;
        size_t i;
        for (i = 0; i < n; i++) { total *= 3; }
        for (code = 0; code < total; code++) {
            unsigned long c = code;
            for (i = 0; i < n; i++) { keys[i] = c % 3; c /= 3; }
            for (a = 0; a < NALGO; a++) {
                /* all sizes for short arrays, rotate sizes for longer */
                if (n <= 6) {
                    for (s = 0; s < NSIZE; s++) {
                        one_case(keys, n, sizes[s], algos[a], 2, 1);
                        cases++;
                    }
                } else {
                    one_case(keys, n, sizes[(code + a) % NSIZE],
                             algos[a], 2, 1);
                    cases++;
                }
                if (n <= 5) {
                    vector_case(keys, n, sizes[(code + a) % NSIZE],
                                algos[a], 2);
                }
            }
        }
    }

    /* all permutations-ish: distinct keys, lengths up to 40, seeded */
    srand(12345);
    for (n = 2; n <= 40; n++) {
        int rep;
        for (rep = 0; rep < 40; rep++) {
            size_t i;
            for (i = 0; i < n; i++) { keys[i] = (unsigned)(rand() % (rep < 20 ? 256 : 4)); }
            for (a = 0; a < NALGO; a++) {
                one_case(keys, n, sizes[(n + rep + a) % NSIZE],
                         algos[a], 255, 0);
                cases++;
            }
        }
    }

    /* large adversarial inputs */
    for (n = BIGN - 1; n <= BIGN; n++) {
        int pat;
        for (pat = 0; pat < 6; pat++) {
            size_t i;
            for (i = 0; i < n; i++) {
                switch (pat) {
                case 0: keys[i] = (unsigned)(i * 256 / n); break;        /* sorted */
                case 1: keys[i] = (unsigned)((n - 1 - i) * 256 / n); break; /* reversed */
                case 2: keys[i] = 7; break;                              /* constant */
                case 3: keys[i] = (unsigned)((i * 2654435761u >> 7) & 1); break; /* two-valued */
                case 4: keys[i] = (unsigned)((i < n / 2 ? i : n - 1 - i) * 512 / n); break; /* organ pipe */
                default: keys[i] = (unsigned)(rand() & 255); break;
                }
            }
            for (a = 0; a < NALGO; a++) {
                for (s = 0; s < NSIZE; s++) {
                    one_case(keys, n, sizes[s], algos[a], 255, 0);
                    cases++;
                }
                vector_case(keys, n, sizes[(pat + a) % NSIZE], algos[a], 255);
            }
        }
    }

    if (fails) {
        fprintf(stderr, "%d failure(s) in %lu cases\n", fails, cases);
        return 1;
    }
    printf("ok: %lu cases\n", cases);
    return 0;
}
