/*
 * C18 / change c: a client that includes every public header, takes the
 * address of every function the library is expected to export (so each must be
 * resolvable at link time), uses a bit of every container, and is linked once
 * against build/libcstl.a and once against build/libcstl.so, both freshly
 * produced by `make build`. The build command also checks that the two
 * libraries define the same set of global symbols.
 *
 * build (from the worktree root):
 *   make clean >/dev/null && make build && F="-std=c99 -pedantic -Wall -Wextra -Werror -Werror=vla -Werror=declaration-after-statement -D_POSIX_C_SOURCE=199309L -Iinclude" && gcc $F -c _keep/c/test.c -o _keep/c/test.o && gcc -o _keep/c/test_static _keep/c/test.o build/libcstl.a -lm && gcc -o _keep/c/test_shared _keep/c/test.o -Lbuild -lcstl -lm && nm -g --defined-only build/libcstl.a | awk '$2 ~ /^[TDRB]$/ {print $3}' | sort -u > _keep/c/test_a.syms && nm -D --defined-only build/libcstl.so | awk '$2 ~ /^[TDRB]$/ {print $3}' | sort -u > _keep/c/test_so.syms && cmp _keep/c/test_a.syms _keep/c/test_so.syms && ar t build/libcstl.a | sort | uniq -d | wc -l | grep -qx 0
 * run:
 *   ./_keep/c/test_static && LD_LIBRARY_PATH=build ./_keep/c/test_shared
 */
#include "cstl/array.h"
#include "cstl/bintree.h"
#include "cstl/common.h"
#include "cstl/dlist.h"
#include "cstl/hash.h"
#include "cstl/heap.h"
#include "cstl/map.h"
#include "cstl/memory.h"
#include "cstl/rbtree.h"
#include "cstl/slist.h"
#include "cstl/string.h"
#include "cstl/vector.h"

#include <stdio.h>
#include <stdlib.h>
#include <string.h>

#define CHECK(X)                                                        \
    do {                                                                \
        if (!(X)) {                                                     \
            printf("FAIL %s:%d: %s\n", __FILE__, __LINE__, #X);         \
            exit(1);                                                    \
        }                                                               \
    } while (0)

typedef void anyfn_t(void);
#define FN(NAME)        { #NAME, (anyfn_t *)NAME }

static const struct { const char * name; anyfn_t * fn; } exported[] = {
    FN(__cstl_bintree_cmp),
    FN(__cstl_bintree_erase),
    FN(__cstl_bintree_rotate),
    FN(__cstl_rbtree_erase),
    FN(__cstl_vector_reverse),
    FN(__cstl_vector_sort),
    FN(cstl_array_alloc),
    FN(cstl_array_at_const),
    FN(cstl_array_data_const),
    FN(cstl_array_release),
    FN(cstl_array_set),
    FN(cstl_array_slice),
    FN(cstl_array_unslice),
    FN(cstl_bintree_clear),
    FN(cstl_bintree_erase),
    FN(cstl_bintree_find),
    FN(cstl_bintree_foreach),
    FN(cstl_bintree_height),
    FN(cstl_bintree_insert),
    FN(cstl_bintree_swap),
    FN(cstl_dlist_back),
    FN(cstl_dlist_clear),
    FN(cstl_dlist_concat),
    FN(cstl_dlist_erase),
    FN(cstl_dlist_find),
    FN(cstl_dlist_foreach),
    FN(cstl_dlist_front),
    FN(cstl_dlist_insert),
    FN(cstl_dlist_pop_back),
    FN(cstl_dlist_pop_front),
    FN(cstl_dlist_push_back),
    FN(cstl_dlist_push_front),
    FN(cstl_dlist_reverse),
    FN(cstl_dlist_sort),
    FN(cstl_dlist_swap),
    FN(cstl_fls),
    FN(cstl_hash_clear),
    FN(cstl_hash_div),
    FN(cstl_hash_erase),
    FN(cstl_hash_find),
    FN(cstl_hash_foreach),
    FN(cstl_hash_foreach_const),
    FN(cstl_hash_insert),
    FN(cstl_hash_mul),
    FN(cstl_hash_rehash),
    FN(cstl_hash_resize),
    FN(cstl_hash_shrink_to_fit),
    FN(cstl_heap_get),
    FN(cstl_heap_pop),
    FN(cstl_heap_push),
    FN(cstl_map_clear),
    FN(cstl_map_erase),
    FN(cstl_map_erase_iterator),
    FN(cstl_map_find),
    FN(cstl_map_init),
    FN(cstl_map_insert),
    FN(cstl_map_iterator_end),
    FN(cstl_raw_array_find),
    FN(cstl_raw_array_reverse),
    FN(cstl_raw_array_search),
    FN(cstl_raw_array_sort),
    FN(cstl_rbtree_erase),
    FN(cstl_rbtree_insert),
    FN(cstl_shared_ptr_alloc),
    FN(cstl_shared_ptr_get_const),
    FN(cstl_shared_ptr_reset),
    FN(cstl_shared_ptr_share),
    FN(cstl_shared_ptr_unique),
    FN(cstl_slist_back),
    FN(cstl_slist_clear),
    FN(cstl_slist_concat),
    FN(cstl_slist_erase_after),
    FN(cstl_slist_foreach),
    FN(cstl_slist_front),
    FN(cstl_slist_insert_after),
    FN(cstl_slist_pop_front),
    FN(cstl_slist_push_back),
    FN(cstl_slist_push_front),
    FN(cstl_slist_reverse),
    FN(cstl_slist_sort),
    FN(cstl_slist_swap),
    FN(cstl_string_at),
    FN(cstl_string_at_const),
    FN(cstl_string_erase),
    FN(cstl_string_find_ch),
    FN(cstl_string_find_str),
    FN(cstl_string_insert_ch),
    FN(cstl_string_insert_str_n),
    FN(cstl_string_resize),
    FN(cstl_string_str),
    FN(cstl_string_substr),
    FN(cstl_unique_ptr_alloc),
    FN(cstl_unique_ptr_reset),
    FN(cstl_vector_at),
    FN(cstl_vector_at_const),
    FN(cstl_vector_clear),
    FN(cstl_vector_find),
    FN(cstl_vector_reserve),
    FN(cstl_vector_resize),
    FN(cstl_vector_search),
    FN(cstl_vector_shrink_to_fit),
    FN(cstl_vector_swap),
    FN(cstl_weak_ptr_from),
    FN(cstl_weak_ptr_lock),
    FN(cstl_weak_ptr_reset),
    FN(cstl_wstring_at),
    FN(cstl_wstring_at_const),
    FN(cstl_wstring_erase),
    FN(cstl_wstring_find_ch),
    FN(cstl_wstring_find_str),
    FN(cstl_wstring_insert_ch),
    FN(cstl_wstring_insert_str_n),
    FN(cstl_wstring_resize),
    FN(cstl_wstring_str),
    FN(cstl_wstring_substr),
};

struct hitem
{
    int v;
    struct cstl_hash_node hn;
};

static int icmp(const void * const a, const void * const b, void * const p)
{
    (void)p;
    return *(const int *)a - *(const int *)b;
}

int main(void)
{
    unsigned int i, j;

    for (i = 0; i < sizeof(exported) / sizeof(*exported); i++) {
        CHECK(exported[i].fn != NULL);
        for (j = 0; j < i; j++) {
            CHECK(exported[i].fn != exported[j].fn);
        }
    }
    CHECK(cstl_string_nul == '\0' && cstl_wstring_nul == L'\0');

    {
        DECLARE_CSTL_VECTOR(v, int);
        cstl_vector_resize(&v, 20);
        for (i = 0; i < 20; i++) {
            *(int *)cstl_vector_at(&v, i) = (int)((i * 7) % 20);
        }
        cstl_vector_sort(&v, icmp, NULL);
        for (i = 0; i < 20; i++) {
            CHECK(*(int *)cstl_vector_at(&v, i) == (int)i);
        }
        cstl_vector_clear(&v);
    }
    {
        DECLARE_CSTL_STRING(string, s);
        DECLARE_CSTL_STRING(wstring, w);
        cstl_string_set_str(&s, "abc");
        cstl_string_append_str(&s, "def");
        CHECK(cstl_string_compare_str(&s, "abcdef") == 0);
        CHECK(cstl_string_find_str(&s, "cd", 0) == 2);
        cstl_wstring_set_str(&w, L"xyz");
        cstl_wstring_insert_str(&w, 1, L"--");
        CHECK(cstl_wstring_compare_str(&w, L"x--yz") == 0);
        cstl_string_clear(&s);
        cstl_wstring_clear(&w);
    }
    {
        static struct hitem it[30];
        DECLARE_CSTL_HASH(h, struct hitem, hn);
        cstl_hash_resize(&h, 8, cstl_hash_mul);
        for (i = 0; i < 30; i++) {
            it[i].v = (int)i;
            cstl_hash_insert(&h, i, &it[i]);
        }
        cstl_hash_resize(&h, 13, cstl_hash_div);
        for (i = 0; i < 30; i++) {
            CHECK(cstl_hash_find(&h, i, NULL, NULL) == &it[i]);
        }
        CHECK(cstl_hash_size(&h) == 30);
        cstl_hash_clear(&h, NULL);
    }
    {
        static int k[10];
        cstl_map_t m;
        cstl_map_iterator_t mi;
        cstl_map_init(&m, icmp, NULL);
        for (i = 0; i < 10; i++) {
            k[i] = (int)i;
            CHECK(cstl_map_insert(&m, &k[i], &k[9 - i], NULL) == 0);
        }
        CHECK(cstl_map_insert(&m, &k[3], NULL, &mi) == 1 && mi.val == &k[6]);
        CHECK(cstl_map_size(&m) == 10);
        cstl_map_clear(&m, NULL, NULL);
    }
    {
        DECLARE_CSTL_ARRAY(a);
        DECLARE_CSTL_ARRAY(s);
        DECLARE_CSTL_SHARED_PTR(sp);
        DECLARE_CSTL_WEAK_PTR(wp);
        DECLARE_CSTL_UNIQUE_PTR(up);
        cstl_array_alloc(&a, 8, sizeof(int));
        CHECK(cstl_array_size(&a) == 8);
        cstl_array_slice(&a, 2, 5, &s);
        CHECK(cstl_array_at(&s, 0) == cstl_array_at(&a, 2));
        cstl_array_reset(&a);
        cstl_array_reset(&s);
        cstl_shared_ptr_alloc(&sp, 16, NULL);
        cstl_weak_ptr_from(&wp, &sp);
        CHECK(!cstl_shared_ptr_unique(&sp));
        cstl_weak_ptr_reset(&wp);
        cstl_shared_ptr_reset(&sp);
        cstl_unique_ptr_alloc(&up, 16, NULL, NULL);
        CHECK(cstl_unique_ptr_get(&up) != NULL);
        cstl_unique_ptr_reset(&up);
    }

    printf("ok: %u functions resolved\n",
           (unsigned int)(sizeof(exported) / sizeof(*exported)));
    return 0;
}
