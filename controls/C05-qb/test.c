/*
 * C05 test: shared memory is destroyed exactly once, exactly when its last
 * owner lets go. A pool of shared, weak and unique pointer objects is driven
 * through the PUBLIC API only (alloc, share, swap, reset, weak-from, lock,
 * weak-reset, unique, get; unique alloc / release / swap / reset) and
 * compared with a model that just remembers which object refers to which
 * allocation.
 *
 * The library's calls to malloc()/free() are routed through wrappers
 * (-Wl,--wrap=malloc,--wrap=free), which number the allocations. That lets
 * the test see, without knowing anything about the library's bookkeeping:
 *   - that the managed memory (the address that get() reports) is still
 *     allocated for as long as the model says there is an owner, and has
 *     been released once the operation that removes the last owner returns,
 *   - that the clear callback runs exactly once, during that operation,
 *     while the memory is still allocated (clear, then free),
 *   - that nothing is freed twice or freed without having been allocated,
 *   - that NO allocation at all is left whenever the model says that no
 *     shared, weak or unique reference exists (so nothing leaks, and the
 *     bookkeeping goes away with the last shared or weak reference), and
 *     that something is still allocated while any reference exists.
 * It does not assume how many blocks the library allocates, how big they
 * are, in which order they are obtained, or what is inside them.
 *
 * Focus of this copy: (re)allocation - alloc into occupied shared and unique
 * pointers, requests for nothing, allocations that cannot be satisfied (the
 * first or the second malloc of the call fails), release and swap.
 */
#include <stdio.h>
#include <stdlib.h>
#include <string.h>

#include "cstl/memory.h"

#define FAIL(...) do { fprintf(stderr, "FAIL %s:%d: ", __FILE__, __LINE__); \
        fprintf(stderr, __VA_ARGS__); fprintf(stderr, "\n"); exit(1); } while (0)
#define CHECK(c) do { if (!(c)) FAIL("%s", #c); } while (0)

/* ---- allocator wrappers ------------------------------------------- */

void * __real_malloc(size_t);
void __real_free(void *);

#define MAXLIVE 4096
static struct
{
    void * p;
    unsigned long serial;
} live[MAXLIVE];
static size_t nlive;
static unsigned long serial;
static long fail_in = -1; /* >= 0: that many more mallocs succeed first */

void * __wrap_malloc(const size_t sz)
{
    void * p;

    if (fail_in == 0) {
        fail_in = -1;
        return NULL;
    }
    if (fail_in > 0) {
        fail_in--;
    }
    p = __real_malloc(sz);
    if (p != NULL) {
        CHECK(nlive < MAXLIVE);
        live[nlive].p = p;
        live[nlive].serial = ++serial;
        nlive++;
    }
    return p;
}

void __wrap_free(void * const p)
{
    size_t i;

    if (p == NULL) {
        return;
    }
    for (i = 0; i < nlive; i++) {
        if (live[i].p == p) {
            live[i] = live[--nlive];
            __real_free(p);
            return;
        }
    }
    FAIL("free(%p): not allocated (freed twice?)", p);
}

static unsigned long serial_of(const void * const p)
{
    size_t i;
    for (i = 0; i < nlive; i++) {
        if (live[i].p == p) {
            return live[i].serial;
        }
    }
    return 0;
}
static int serial_live(const unsigned long s)
{
    size_t i;
    for (i = 0; i < nlive; i++) {
        if (live[i].serial == s) {
            return 1;
        }
    }
    return 0;
}

/* ---- the model ------------------------------------------------------ */

#define NS 4
#define NW 3
#define NU 3
#define MAXA 60000

struct alloc
{
    void * mem;
    unsigned long serial;
    size_t size;
    int owners, weaks; /* shared / weak pointer objects referring to it */
    int cleared;       /* how often the clear callback has run */
    int has_clr;
    int uniq;          /* belongs to a unique pointer */
    int released;      /* handed back by cstl_unique_ptr_release */
};
static struct alloc A[MAXA];
static int nA;

static cstl_shared_ptr_t S[NS];
static cstl_weak_ptr_t W[NW];
static cstl_unique_ptr_t U[NU];
static int sid[NS], wid[NW], uid[NU]; /* allocation referred to, or -1 */

/* the allocation whose clear callback may run during the current op */
static int expect_clear = -1;
static unsigned long nclears;

static void on_clear(void * const mem, const int id)
{
    struct alloc * const a = &A[id];

    CHECK(id == expect_clear);
    CHECK(a->has_clr);
    CHECK(a->cleared == 0);
    CHECK(mem == a->mem);
    /* clear comes before free */
    CHECK(serial_live(a->serial));
    CHECK(serial_of(mem) == a->serial);
    /* the memory is still intact */
    CHECK(((unsigned char *)mem)[0] == (unsigned char)(id & 0xff));
    CHECK(((unsigned char *)mem)[a->size - 1] == (unsigned char)(id & 0xff));
    a->cleared++;
    nclears++;
}

static void shared_clr(void * const mem, void * const priv)
{
    int id;

    CHECK(priv == NULL);
    /* find the allocation by its address among those not yet destroyed */
    for (id = nA - 1; id >= 0; id--) {
        if (!A[id].uniq && A[id].mem == mem && A[id].cleared == 0
            && serial_live(A[id].serial)) {
            break;
        }
    }
    CHECK(id >= 0);
    on_clear(mem, id);
}

static void unique_clr(void * const mem, void * const priv)
{
    on_clear(mem, (int)(uintptr_t)priv - 1);
}

/* has allocation `id` just been destroyed properly? */
static void check_destroyed(const int id)
{
    const struct alloc * const a = &A[id];
    CHECK(a->cleared == (a->has_clr ? 1 : 0));
    CHECK(!serial_live(a->serial));
}

static void check_alive(const int id)
{
    const struct alloc * const a = &A[id];
    CHECK(a->cleared == 0);
    CHECK(serial_live(a->serial));
    CHECK(serial_of(a->mem) == a->serial);
}

static void check_state(void)
{
    int i, refs = 0;

    for (i = 0; i < NS; i++) {
        const void * const p = cstl_shared_ptr_get_const(&S[i]);
        if (sid[i] < 0) {
            CHECK(p == NULL);
            CHECK(cstl_shared_ptr_unique(&S[i]));
        } else {
            const struct alloc * const a = &A[sid[i]];
            CHECK(a->owners > 0);
            /* every co-owner sees the same address, and it is live */
            CHECK(p == a->mem);
            CHECK(cstl_shared_ptr_get(&S[i]) == a->mem);
            check_alive(sid[i]);
            CHECK(cstl_shared_ptr_unique(&S[i])
                  == (a->owners + a->weaks == 1));
            refs++;
        }
    }
    for (i = 0; i < NW; i++) {
        refs += wid[i] >= 0;
    }
    for (i = 0; i < NU; i++) {
        const void * const p = cstl_unique_ptr_get_const(&U[i]);
        if (uid[i] < 0) {
            CHECK(p == NULL);
        } else {
            CHECK(p == A[uid[i]].mem);
            check_alive(uid[i]);
            refs++;
        }
    }
    for (i = 0; i < nA; i++) {
        if (!A[i].uniq) {
            int o = 0, w = 0, k;
            for (k = 0; k < NS; k++) {
                o += sid[k] == i;
            }
            for (k = 0; k < NW; k++) {
                w += wid[k] == i;
            }
            CHECK(o == A[i].owners && w == A[i].weaks);
            if (o == 0 && A[i].serial != 0) {
                check_destroyed(i);
            }
        }
    }
    /* nothing is left when nothing refers to anything, and vice versa */
    CHECK((nlive == 0) == (refs == 0));
}

/* model: shared pointer object i lets go of whatever it has */
static void model_drop_owner(const int i)
{
    const int id = sid[i];
    if (id >= 0) {
        sid[i] = -1;
        if (--A[id].owners == 0) {
            CHECK(expect_clear == -1);
            expect_clear = id;
        }
    }
}
/* after the operation: the predicted destruction must have happened */
static void settle(void)
{
    if (expect_clear >= 0) {
        check_destroyed(expect_clear);
        expect_clear = -1;
    }
    check_state();
}

static int new_alloc(void * const mem, const size_t size, const int has_clr,
                     const int uniq)
{
    struct alloc * a;
    CHECK(nA < MAXA);
    a = &A[nA];
    memset(a, 0, sizeof(*a));
    a->mem = mem;
    a->size = size;
    a->serial = serial_of(mem);
    CHECK(a->serial != 0);
    a->has_clr = has_clr;
    a->uniq = uniq;
    memset(mem, nA & 0xff, size);
    return nA++;
}

/* ---- operations ----------------------------------------------------- */

static void op_salloc(const int i, const size_t size, const int has_clr)
{
    void * mem;

    model_drop_owner(i);
    cstl_shared_ptr_alloc(&S[i], size, has_clr ? shared_clr : NULL);
    mem = cstl_shared_ptr_get(&S[i]);
    if (size == 0) {
        CHECK(mem == NULL);
    }
    if (mem != NULL) {
        sid[i] = new_alloc(mem, size, has_clr, 0);
        A[sid[i]].owners = 1;
    }
    settle();
}

/* an allocation that cannot be satisfied: the k-th malloc from now fails */
static void op_salloc_fail(const int i, const long k)
{
    model_drop_owner(i);
    fail_in = k;
    cstl_shared_ptr_alloc(&S[i], 24, shared_clr);
    if (fail_in == -1) {
        /* the failure was delivered: the pointer is simply empty */
        CHECK(cstl_shared_ptr_get(&S[i]) == NULL);
    } else {
        void * const mem = cstl_shared_ptr_get(&S[i]);
        fail_in = -1;
        CHECK(mem != NULL);
        sid[i] = new_alloc(mem, 24, 1, 0);
        A[sid[i]].owners = 1;
    }
    settle();
}

static void op_share(const int i, const int j)
{
    if (i == j) {
        /* an object sharing with itself ends up empty */
        model_drop_owner(j);
        cstl_shared_ptr_share(&S[i], &S[j]);
        settle();
        return;
    }
    model_drop_owner(j);
    /* the source may be what keeps it alive after all */
    if (expect_clear >= 0 && sid[i] == expect_clear) {
        expect_clear = -1;
    }
    cstl_shared_ptr_share(&S[i], &S[j]);
    sid[j] = sid[i];
    if (sid[j] >= 0) {
        A[sid[j]].owners++;
    }
    settle();
}

static void op_sswap(const int i, const int j)
{
    const int t = sid[i];
    cstl_shared_ptr_swap(&S[i], &S[j]);
    sid[i] = sid[j];
    sid[j] = t;
    settle();
}

static void op_sreset(const int i)
{
    model_drop_owner(i);
    cstl_shared_ptr_reset(&S[i]);
    settle();
}

static void op_weak_from(const int w, const int i)
{
    if (wid[w] >= 0) {
        A[wid[w]].weaks--;
    }
    cstl_weak_ptr_from(&W[w], &S[i]);
    wid[w] = sid[i];
    if (wid[w] >= 0) {
        A[wid[w]].weaks++;
    }
    settle();
}

static void op_lock(const int w, const int i)
{
    /* the receiving pointer lets go first ... */
    model_drop_owner(i);
    cstl_weak_ptr_lock(&W[w], &S[i]);
    /* ... and gets an owner iff an owner still exists */
    if (wid[w] >= 0 && A[wid[w]].owners > 0) {
        sid[i] = wid[w];
        A[sid[i]].owners++;
        CHECK(cstl_shared_ptr_get(&S[i]) == A[sid[i]].mem);
    } else {
        CHECK(cstl_shared_ptr_get(&S[i]) == NULL);
    }
    settle();
}

static void op_wreset(const int w)
{
    if (wid[w] >= 0) {
        A[wid[w]].weaks--;
        wid[w] = -1;
    }
    cstl_weak_ptr_reset(&W[w]);
    settle();
}

static void op_wswap(const int a, const int b)
{
    const int t = wid[a];
    cstl_weak_ptr_swap(&W[a], &W[b]);
    wid[a] = wid[b];
    wid[b] = t;
    settle();
}

static void model_drop_unique(const int u)
{
    if (uid[u] >= 0) {
        CHECK(expect_clear == -1);
        expect_clear = uid[u];
        uid[u] = -1;
    }
}

static void op_ualloc(const int u, const size_t size, const int has_clr)
{
    void * mem;

    model_drop_unique(u);
    /* the private pointer names the allocation that is about to exist */
    cstl_unique_ptr_alloc(&U[u], size, has_clr ? unique_clr : NULL,
                          (void *)(uintptr_t)(nA + 1));
    mem = cstl_unique_ptr_get(&U[u]);
    if (size == 0) {
        CHECK(mem == NULL);
    }
    if (mem != NULL) {
        uid[u] = new_alloc(mem, size, has_clr, 1);
    }
    settle();
}

static void op_ualloc_fail(const int u)
{
    model_drop_unique(u);
    fail_in = 0;
    cstl_unique_ptr_alloc(&U[u], 16, unique_clr, (void *)(uintptr_t)(nA + 1));
    CHECK(fail_in == -1);
    CHECK(cstl_unique_ptr_get(&U[u]) == NULL);
    settle();
}

static void op_ureset(const int u)
{
    model_drop_unique(u);
    cstl_unique_ptr_reset(&U[u]);
    settle();
}

static void op_uswap(const int a, const int b)
{
    const int t = uid[a];
    cstl_unique_ptr_swap(&U[a], &U[b]);
    uid[a] = uid[b];
    uid[b] = t;
    settle();
}

/* release: the caller becomes responsible for clear-then-free */
static void op_urelease(const int u)
{
    cstl_xtor_func_t * clr = unique_clr;
    void * priv = &clr;
    void * const mem = cstl_unique_ptr_release(&U[u], &clr, &priv);
    const int id = uid[u];

    CHECK(cstl_unique_ptr_get(&U[u]) == NULL);
    if (id < 0) {
        CHECK(mem == NULL);
        CHECK(clr == NULL && priv == NULL);
    } else {
        CHECK(mem == A[id].mem);
        /* nothing has happened to the memory yet */
        check_alive(id);
        CHECK((clr != NULL) == (A[id].has_clr != 0));
        uid[u] = -1;
        expect_clear = id;
        if (clr != NULL) {
            CHECK(clr == unique_clr);
            clr(mem, priv);
        }
        free(mem); /* goes through the wrapper, like the library's frees */
    }
    settle();
}

/* ---- drivers -------------------------------------------------------- */

static void world_init(void)
{
    int i;

    CHECK(nlive == 0);
    nA = 0;
    for (i = 0; i < NS; i++) {
        cstl_shared_ptr_init(&S[i]);
        sid[i] = -1;
    }
    for (i = 0; i < NW; i++) {
        cstl_weak_ptr_init(&W[i]);
        wid[i] = -1;
    }
    for (i = 0; i < NU; i++) {
        cstl_unique_ptr_init(&U[i]);
        uid[i] = -1;
    }
    check_state();
}

/* reset every pointer: nothing may be left */
static void world_fini(const unsigned int order)
{
    int i;

    for (i = 0; i < NS + NW + NU; i++) {
        const int k = (int)((i * 7 + order) % (NS + NW + NU));
        if (k < NS) {
            op_sreset(k);
        } else if (k < NS + NW) {
            op_wreset(k - NS);
        } else {
            op_ureset(k - NS - NW);
        }
    }
    CHECK(nlive == 0);
    for (i = 0; i < nA; i++) {
        CHECK(A[i].cleared == (A[i].has_clr ? 1 : 0));
        CHECK(!serial_live(A[i].serial));
    }
}

/* small scope: 2 shared (0,1), 1 weak (0), 1 unique (0 and 1 for swap) */
#define NSMALL 22
static void small_op(const int op)
{
    switch (op) {
    case 0: op_salloc(0, 8, 1); break;
    case 1: op_salloc(1, 8, 0); break;
    case 2: op_share(0, 1); break;
    case 3: op_share(1, 0); break;
    case 4: op_share(0, 0); break;
    case 5: op_sswap(0, 1); break;
    case 6: op_sreset(0); break;
    case 7: op_sreset(1); break;
    case 8: op_weak_from(0, 0); break;
    case 9: op_weak_from(0, 1); break;
    case 10: op_lock(0, 0); break;
    case 11: op_lock(0, 1); break;
    case 12: op_wreset(0); break;
    case 13: op_wswap(0, 1); break;
    case 14: op_weak_from(1, 1); break;
    case 15: op_ualloc(0, 8, 1); break;
    case 16: op_urelease(0); break;
    case 17: op_uswap(0, 1); break;
    case 18: op_ureset(1); break;
    case 19: op_salloc_fail(0, 0); break;
    case 20: op_salloc_fail(1, 1); break;
    default: op_sswap(1, 1); break;
    }
}

static unsigned long exhaustive(const int len, const int * const ops,
                                const int nops)
{
    unsigned long total, s, n = 0;
    int i, l;

    for (l = 0; l <= len; l++) {
        total = 1;
        for (i = 0; i < l; i++) {
            total *= (unsigned long)nops;
        }
        for (s = 0; s < total; s++) {
            unsigned long x = s;

            world_init();
            for (i = 0; i < l; i++) {
                small_op(ops[x % (unsigned long)nops]);
                x /= (unsigned long)nops;
            }
            world_fini((unsigned int)s);
            n++;
        }
    }
    return n;
}

static unsigned int rnd_state;
static unsigned int rnd(void)
{
    rnd_state = rnd_state * 1103515245u + 12345u;
    return (rnd_state >> 16) & 0x7fff;
}

static void random_history(const unsigned int seed, const int steps)
{
    int i;

    rnd_state = seed;
    world_init();
    for (i = 0; i < steps && nA < MAXA - 2; i++) {
        const unsigned int r = rnd() % 100;
        const int a = (int)(rnd() % NS), b = (int)(rnd() % NS);
        const int w = (int)(rnd() % NW), v = (int)(rnd() % NW);
        const int u = (int)(rnd() % NU), t = (int)(rnd() % NU);

        if (r < 10) {
            op_salloc(a, 1 + rnd() % 64, (int)(rnd() % 4) != 0);
        } else if (r < 12) {
            op_salloc(a, 0, 1); /* a request for nothing */
        } else if (r < 19) {
            op_salloc_fail(a, (long)(rnd() % 3));
        } else if (r < 35) {
            op_share(a, b);
        } else if (r < 42) {
            op_sswap(a, b);
        } else if (r < 54) {
            op_sreset(a);
        } else if (r < 64) {
            op_weak_from(w, a);
        } else if (r < 76) {
            op_lock(w, a);
        } else if (r < 82) {
            op_wreset(w);
        } else if (r < 85) {
            op_wswap(w, v);
        } else if (r < 90) {
            op_ualloc(u, 1 + rnd() % 32, (int)(rnd() & 1));
        } else if (r < 91) {
            op_ualloc_fail(u);
        } else if (r < 94) {
            op_urelease(u);
        } else if (r < 97) {
            op_uswap(u, t);
        } else {
            op_ureset(u);
        }
    }
    world_fini(seed);
}

int main(void)
{
    static const int all[NSMALL] = {
        0, 1, 2, 3, 4, 5, 6, 7, 8, 9, 10, 11, 12, 13, 14, 15, 16, 17, 18,
        19, 20, 21
    };
    static const int core[] = { 0, 1, 19, 20, 2, 6, 8, 11, 15, 16 };
    unsigned long n = 0;
    unsigned int seed;

    n += exhaustive(4, all, NSMALL);
    n += exhaustive(6, core, (int)(sizeof(core) / sizeof(core[0])));
    for (seed = 1; seed <= 200; seed++) {
        random_history(seed, 1500);
    }
    printf("ok: %lu exhaustive histories, %lu clear callbacks\n", n, nclears);
    return 0;
}
