/*
 * C18 / b: a two-translation-unit client of the complete public interface
 * with the smart pointers of memory.h (and array.h, which sits on top of
 * them) used from both translation units, linked once against
 * build/libcstl.a and once against build/libcstl.so.
 *
 * This one source file is compiled twice by build_cmd with the project's own
 * warning flags (-std=c99 -pedantic -Wall -Wextra -Werror): with -DTU=1 it
 * includes every public header in alphabetical order and provides main(),
 * with -DTU=2 it includes them in reverse order, each one twice, and provides
 * tu2_run(). Each translation unit takes the address of every function the
 * headers declare (so each must be provided, inline by the header or by the
 * library, exactly once per program) and then really uses every module.
 * The program must compile without diagnostics, link without duplicate or
 * undefined symbols against both forms of the library, and run to completion.
 * Nothing depends on whether a function is inline or in the library, on how
 * the library is split into objects, or on symbol addresses.
 */

#if TU == 1
#include "cstl/array.h"
#include "cstl/bintree.h"
#include "cstl/common.h"
#include "cstl/dlist.h"
#include "cstl/hash.h"
#include "cstl/heap.h"
#include "cstl/map.h"
#include "cstl/memory.h"
#include "cstl/rbtree.h"
#include "cstl/slist.h"
#include "cstl/string.h"
#include "cstl/vector.h"
#else
#include "cstl/vector.h"
#include "cstl/vector.h"
#include "cstl/string.h"
#include "cstl/string.h"
#include "cstl/slist.h"
#include "cstl/slist.h"
#include "cstl/rbtree.h"
#include "cstl/rbtree.h"
#include "cstl/memory.h"
#include "cstl/memory.h"
#include "cstl/map.h"
#include "cstl/map.h"
#include "cstl/heap.h"
#include "cstl/heap.h"
#include "cstl/hash.h"
#include "cstl/hash.h"
#include "cstl/dlist.h"
#include "cstl/dlist.h"
#include "cstl/common.h"
#include "cstl/common.h"
#include "cstl/bintree.h"
#include "cstl/bintree.h"
#include "cstl/array.h"
#include "cstl/array.h"
#endif

#include <stdio.h>
#include <stdlib.h>
#include <string.h>
#include <wchar.h>

#define CHECK(X) do { if (!(X)) { \
    fprintf(stderr, "FAIL TU%d %s:%d: %s\n", TU, __FILE__, __LINE__, #X); \
    exit(1); } } while (0)

typedef void fn_t(void);
static const struct
{
    const char * name;
    fn_t * fn;
} every_function[] = {
    { "__cstl_bintree_cmp", (fn_t *)__cstl_bintree_cmp },
    { "__cstl_bintree_erase", (fn_t *)__cstl_bintree_erase },
    { "__cstl_bintree_left", (fn_t *)__cstl_bintree_left },
    { "__cstl_bintree_right", (fn_t *)__cstl_bintree_right },
    { "__cstl_bintree_rotate", (fn_t *)__cstl_bintree_rotate },
    { "__cstl_rbtree_erase", (fn_t *)__cstl_rbtree_erase },
    { "__cstl_vector_reverse", (fn_t *)__cstl_vector_reverse },
    { "__cstl_vector_sort", (fn_t *)__cstl_vector_sort },
    { "cstl_array_alloc", (fn_t *)cstl_array_alloc },
    { "cstl_array_at", (fn_t *)cstl_array_at },
    { "cstl_array_at_const", (fn_t *)cstl_array_at_const },
    { "cstl_array_data", (fn_t *)cstl_array_data },
    { "cstl_array_data_const", (fn_t *)cstl_array_data_const },
    { "cstl_array_init", (fn_t *)cstl_array_init },
    { "cstl_array_release", (fn_t *)cstl_array_release },
    { "cstl_array_reset", (fn_t *)cstl_array_reset },
    { "cstl_array_set", (fn_t *)cstl_array_set },
    { "cstl_array_size", (fn_t *)cstl_array_size },
    { "cstl_array_slice", (fn_t *)cstl_array_slice },
    { "cstl_array_unslice", (fn_t *)cstl_array_unslice },
    { "cstl_bintree_clear", (fn_t *)cstl_bintree_clear },
    { "cstl_bintree_erase", (fn_t *)cstl_bintree_erase },
    { "cstl_bintree_find", (fn_t *)cstl_bintree_find },
    { "cstl_bintree_foreach", (fn_t *)cstl_bintree_foreach },
    { "cstl_bintree_height", (fn_t *)cstl_bintree_height },
    { "cstl_bintree_init", (fn_t *)cstl_bintree_init },
    { "cstl_bintree_insert", (fn_t *)cstl_bintree_insert },
    { "cstl_bintree_size", (fn_t *)cstl_bintree_size },
    { "cstl_bintree_swap", (fn_t *)cstl_bintree_swap },
    { "cstl_dlist_back", (fn_t *)cstl_dlist_back },
    { "cstl_dlist_clear", (fn_t *)cstl_dlist_clear },
    { "cstl_dlist_concat", (fn_t *)cstl_dlist_concat },
    { "cstl_dlist_erase", (fn_t *)cstl_dlist_erase },
    { "cstl_dlist_find", (fn_t *)cstl_dlist_find },
    { "cstl_dlist_foreach", (fn_t *)cstl_dlist_foreach },
    { "cstl_dlist_front", (fn_t *)cstl_dlist_front },
    { "cstl_dlist_init", (fn_t *)cstl_dlist_init },
    { "cstl_dlist_insert", (fn_t *)cstl_dlist_insert },
    { "cstl_dlist_pop_back", (fn_t *)cstl_dlist_pop_back },
    { "cstl_dlist_pop_front", (fn_t *)cstl_dlist_pop_front },
    { "cstl_dlist_push_back", (fn_t *)cstl_dlist_push_back },
    { "cstl_dlist_push_front", (fn_t *)cstl_dlist_push_front },
    { "cstl_dlist_reverse", (fn_t *)cstl_dlist_reverse },
    { "cstl_dlist_size", (fn_t *)cstl_dlist_size },
    { "cstl_dlist_sort", (fn_t *)cstl_dlist_sort },
    { "cstl_dlist_swap", (fn_t *)cstl_dlist_swap },
    { "cstl_fls", (fn_t *)cstl_fls },
    { "cstl_guarded_ptr_copy", (fn_t *)cstl_guarded_ptr_copy },
    { "cstl_guarded_ptr_get", (fn_t *)cstl_guarded_ptr_get },
    { "cstl_guarded_ptr_get_const", (fn_t *)cstl_guarded_ptr_get_const },
    { "cstl_guarded_ptr_init", (fn_t *)cstl_guarded_ptr_init },
    { "cstl_guarded_ptr_set", (fn_t *)cstl_guarded_ptr_set },
    { "cstl_guarded_ptr_swap", (fn_t *)cstl_guarded_ptr_swap },
    { "cstl_hash_clear", (fn_t *)cstl_hash_clear },
    { "cstl_hash_div", (fn_t *)cstl_hash_div },
    { "cstl_hash_erase", (fn_t *)cstl_hash_erase },
    { "cstl_hash_find", (fn_t *)cstl_hash_find },
    { "cstl_hash_foreach", (fn_t *)cstl_hash_foreach },
    { "cstl_hash_foreach_const", (fn_t *)cstl_hash_foreach_const },
    { "cstl_hash_init", (fn_t *)cstl_hash_init },
    { "cstl_hash_insert", (fn_t *)cstl_hash_insert },
    { "cstl_hash_load", (fn_t *)cstl_hash_load },
    { "cstl_hash_mul", (fn_t *)cstl_hash_mul },
    { "cstl_hash_rehash", (fn_t *)cstl_hash_rehash },
    { "cstl_hash_resize", (fn_t *)cstl_hash_resize },
    { "cstl_hash_shrink_to_fit", (fn_t *)cstl_hash_shrink_to_fit },
    { "cstl_hash_size", (fn_t *)cstl_hash_size },
    { "cstl_hash_swap", (fn_t *)cstl_hash_swap },
    { "cstl_heap_clear", (fn_t *)cstl_heap_clear },
    { "cstl_heap_get", (fn_t *)cstl_heap_get },
    { "cstl_heap_init", (fn_t *)cstl_heap_init },
    { "cstl_heap_pop", (fn_t *)cstl_heap_pop },
    { "cstl_heap_push", (fn_t *)cstl_heap_push },
    { "cstl_heap_size", (fn_t *)cstl_heap_size },
    { "cstl_heap_swap", (fn_t *)cstl_heap_swap },
    { "cstl_map_clear", (fn_t *)cstl_map_clear },
    { "cstl_map_erase", (fn_t *)cstl_map_erase },
    { "cstl_map_erase_iterator", (fn_t *)cstl_map_erase_iterator },
    { "cstl_map_find", (fn_t *)cstl_map_find },
    { "cstl_map_init", (fn_t *)cstl_map_init },
    { "cstl_map_insert", (fn_t *)cstl_map_insert },
    { "cstl_map_iterator_end", (fn_t *)cstl_map_iterator_end },
    { "cstl_map_iterator_eq", (fn_t *)cstl_map_iterator_eq },
    { "cstl_map_size", (fn_t *)cstl_map_size },
    { "cstl_raw_array_find", (fn_t *)cstl_raw_array_find },
    { "cstl_raw_array_reverse", (fn_t *)cstl_raw_array_reverse },
    { "cstl_raw_array_search", (fn_t *)cstl_raw_array_search },
    { "cstl_raw_array_sort", (fn_t *)cstl_raw_array_sort },
    { "cstl_rbtree_clear", (fn_t *)cstl_rbtree_clear },
    { "cstl_rbtree_erase", (fn_t *)cstl_rbtree_erase },
    { "cstl_rbtree_find", (fn_t *)cstl_rbtree_find },
    { "cstl_rbtree_foreach", (fn_t *)cstl_rbtree_foreach },
    { "cstl_rbtree_height", (fn_t *)cstl_rbtree_height },
    { "cstl_rbtree_init", (fn_t *)cstl_rbtree_init },
    { "cstl_rbtree_insert", (fn_t *)cstl_rbtree_insert },
    { "cstl_rbtree_size", (fn_t *)cstl_rbtree_size },
    { "cstl_rbtree_swap", (fn_t *)cstl_rbtree_swap },
    { "cstl_shared_ptr_alloc", (fn_t *)cstl_shared_ptr_alloc },
    { "cstl_shared_ptr_get", (fn_t *)cstl_shared_ptr_get },
    { "cstl_shared_ptr_get_const", (fn_t *)cstl_shared_ptr_get_const },
    { "cstl_shared_ptr_init", (fn_t *)cstl_shared_ptr_init },
    { "cstl_shared_ptr_reset", (fn_t *)cstl_shared_ptr_reset },
    { "cstl_shared_ptr_share", (fn_t *)cstl_shared_ptr_share },
    { "cstl_shared_ptr_swap", (fn_t *)cstl_shared_ptr_swap },
    { "cstl_shared_ptr_unique", (fn_t *)cstl_shared_ptr_unique },
    { "cstl_slist_back", (fn_t *)cstl_slist_back },
    { "cstl_slist_clear", (fn_t *)cstl_slist_clear },
    { "cstl_slist_concat", (fn_t *)cstl_slist_concat },
    { "cstl_slist_erase_after", (fn_t *)cstl_slist_erase_after },
    { "cstl_slist_foreach", (fn_t *)cstl_slist_foreach },
    { "cstl_slist_front", (fn_t *)cstl_slist_front },
    { "cstl_slist_init", (fn_t *)cstl_slist_init },
    { "cstl_slist_insert_after", (fn_t *)cstl_slist_insert_after },
    { "cstl_slist_pop_front", (fn_t *)cstl_slist_pop_front },
    { "cstl_slist_push_back", (fn_t *)cstl_slist_push_back },
    { "cstl_slist_push_front", (fn_t *)cstl_slist_push_front },
    { "cstl_slist_reverse", (fn_t *)cstl_slist_reverse },
    { "cstl_slist_size", (fn_t *)cstl_slist_size },
    { "cstl_slist_sort", (fn_t *)cstl_slist_sort },
    { "cstl_slist_swap", (fn_t *)cstl_slist_swap },
    { "cstl_string_append", (fn_t *)cstl_string_append },
    { "cstl_string_append_ch", (fn_t *)cstl_string_append_ch },
    { "cstl_string_append_str", (fn_t *)cstl_string_append_str },
    { "cstl_string_append_str_n", (fn_t *)cstl_string_append_str_n },
    { "cstl_string_at", (fn_t *)cstl_string_at },
    { "cstl_string_at_const", (fn_t *)cstl_string_at_const },
    { "cstl_string_capacity", (fn_t *)cstl_string_capacity },
    { "cstl_string_clear", (fn_t *)cstl_string_clear },
    { "cstl_string_compare", (fn_t *)cstl_string_compare },
    { "cstl_string_compare_str", (fn_t *)cstl_string_compare_str },
    { "cstl_string_data", (fn_t *)cstl_string_data },
    { "cstl_string_erase", (fn_t *)cstl_string_erase },
    { "cstl_string_find_ch", (fn_t *)cstl_string_find_ch },
    { "cstl_string_find_str", (fn_t *)cstl_string_find_str },
    { "cstl_string_init", (fn_t *)cstl_string_init },
    { "cstl_string_insert", (fn_t *)cstl_string_insert },
    { "cstl_string_insert_ch", (fn_t *)cstl_string_insert_ch },
    { "cstl_string_insert_str", (fn_t *)cstl_string_insert_str },
    { "cstl_string_insert_str_n", (fn_t *)cstl_string_insert_str_n },
    { "cstl_string_reserve", (fn_t *)cstl_string_reserve },
    { "cstl_string_resize", (fn_t *)cstl_string_resize },
    { "cstl_string_set_str", (fn_t *)cstl_string_set_str },
    { "cstl_string_size", (fn_t *)cstl_string_size },
    { "cstl_string_str", (fn_t *)cstl_string_str },
    { "cstl_string_substr", (fn_t *)cstl_string_substr },
    { "cstl_string_swap", (fn_t *)cstl_string_swap },
    { "cstl_swap", (fn_t *)cstl_swap },
    { "cstl_unique_ptr_alloc", (fn_t *)cstl_unique_ptr_alloc },
    { "cstl_unique_ptr_get", (fn_t *)cstl_unique_ptr_get },
    { "cstl_unique_ptr_get_const", (fn_t *)cstl_unique_ptr_get_const },
    { "cstl_unique_ptr_init", (fn_t *)cstl_unique_ptr_init },
    { "cstl_unique_ptr_release", (fn_t *)cstl_unique_ptr_release },
    { "cstl_unique_ptr_reset", (fn_t *)cstl_unique_ptr_reset },
    { "cstl_unique_ptr_swap", (fn_t *)cstl_unique_ptr_swap },
    { "cstl_vector_at", (fn_t *)cstl_vector_at },
    { "cstl_vector_at_const", (fn_t *)cstl_vector_at_const },
    { "cstl_vector_capacity", (fn_t *)cstl_vector_capacity },
    { "cstl_vector_clear", (fn_t *)cstl_vector_clear },
    { "cstl_vector_data", (fn_t *)cstl_vector_data },
    { "cstl_vector_find", (fn_t *)cstl_vector_find },
    { "cstl_vector_init", (fn_t *)cstl_vector_init },
    { "cstl_vector_init_complex", (fn_t *)cstl_vector_init_complex },
    { "cstl_vector_reserve", (fn_t *)cstl_vector_reserve },
    { "cstl_vector_resize", (fn_t *)cstl_vector_resize },
    { "cstl_vector_reverse", (fn_t *)cstl_vector_reverse },
    { "cstl_vector_search", (fn_t *)cstl_vector_search },
    { "cstl_vector_shrink_to_fit", (fn_t *)cstl_vector_shrink_to_fit },
    { "cstl_vector_size", (fn_t *)cstl_vector_size },
    { "cstl_vector_sort", (fn_t *)cstl_vector_sort },
    { "cstl_vector_swap", (fn_t *)cstl_vector_swap },
    { "cstl_weak_ptr_from", (fn_t *)cstl_weak_ptr_from },
    { "cstl_weak_ptr_init", (fn_t *)cstl_weak_ptr_init },
    { "cstl_weak_ptr_lock", (fn_t *)cstl_weak_ptr_lock },
    { "cstl_weak_ptr_reset", (fn_t *)cstl_weak_ptr_reset },
    { "cstl_weak_ptr_swap", (fn_t *)cstl_weak_ptr_swap },
    { "cstl_wstring_append", (fn_t *)cstl_wstring_append },
    { "cstl_wstring_append_ch", (fn_t *)cstl_wstring_append_ch },
    { "cstl_wstring_append_str", (fn_t *)cstl_wstring_append_str },
    { "cstl_wstring_append_str_n", (fn_t *)cstl_wstring_append_str_n },
    { "cstl_wstring_at", (fn_t *)cstl_wstring_at },
    { "cstl_wstring_at_const", (fn_t *)cstl_wstring_at_const },
    { "cstl_wstring_capacity", (fn_t *)cstl_wstring_capacity },
    { "cstl_wstring_clear", (fn_t *)cstl_wstring_clear },
    { "cstl_wstring_compare", (fn_t *)cstl_wstring_compare },
    { "cstl_wstring_compare_str", (fn_t *)cstl_wstring_compare_str },
    { "cstl_wstring_data", (fn_t *)cstl_wstring_data },
    { "cstl_wstring_erase", (fn_t *)cstl_wstring_erase },
    { "cstl_wstring_find_ch", (fn_t *)cstl_wstring_find_ch },
    { "cstl_wstring_find_str", (fn_t *)cstl_wstring_find_str },
    { "cstl_wstring_init", (fn_t *)cstl_wstring_init },
    { "cstl_wstring_insert", (fn_t *)cstl_wstring_insert },
    { "cstl_wstring_insert_ch", (fn_t *)cstl_wstring_insert_ch },
    { "cstl_wstring_insert_str", (fn_t *)cstl_wstring_insert_str },
    { "cstl_wstring_insert_str_n", (fn_t *)cstl_wstring_insert_str_n },
    { "cstl_wstring_reserve", (fn_t *)cstl_wstring_reserve },
    { "cstl_wstring_resize", (fn_t *)cstl_wstring_resize },
    { "cstl_wstring_set_str", (fn_t *)cstl_wstring_set_str },
    { "cstl_wstring_size", (fn_t *)cstl_wstring_size },
    { "cstl_wstring_str", (fn_t *)cstl_wstring_str },
    { "cstl_wstring_substr", (fn_t *)cstl_wstring_substr },
    { "cstl_wstring_swap", (fn_t *)cstl_wstring_swap },
};

struct obj
{
    int v;
    struct cstl_hash_node hn;
    struct cstl_dlist_node dn;
    struct cstl_slist_node sn;
    struct cstl_bintree_node bn;
    struct cstl_rbtree_node rn;
    struct cstl_heap_node pn;
};

static int obj_cmp(const void * const a, const void * const b, void * const p)
{
    (void)p;
    return ((const struct obj *)a)->v - ((const struct obj *)b)->v;
}

static int int_cmp(const void * const a, const void * const b, void * const p)
{
    (void)p;
    return *(const int *)a - *(const int *)b;
}

static int str_cmp(const void * const a, const void * const b, void * const p)
{
    (void)p;
    return strcmp(a, b);
}

static int count_visit(const void * const e, void * const p)
{
    (void)e;
    ++*(int *)p;
    return 0;
}

static int tree_visit(const void * const e,
                      const cstl_bintree_visit_order_t ord, void * const p)
{
    (void)e;
    if (ord == CSTL_BINTREE_VISIT_ORDER_MID
        || ord == CSTL_BINTREE_VISIT_ORDER_LEAF) {
        ++*(int *)p;
    }
    return 0;
}

static int cleared;
static void clr_count(void * const mem, void * const priv)
{
    (void)mem; (void)priv;
    cleared++;
}

static void use_containers(void)
{
    static struct obj objs[16];
    DECLARE_CSTL_HASH(h, struct obj, hn);
    DECLARE_CSTL_DLIST(dl, struct obj, dn);
    DECLARE_CSTL_SLIST(sl, struct obj, sn);
    DECLARE_CSTL_BINTREE(bt, struct obj, bn, obj_cmp, NULL);
    DECLARE_CSTL_RBTREE(rt, struct obj, rn, obj_cmp, NULL);
    DECLARE_CSTL_HEAP(hp, struct obj, pn, obj_cmp, NULL);
    DECLARE_CSTL_VECTOR(v, int);
    cstl_map_t map;
    cstl_map_iterator_t it;
    int i, n;

    for (i = 0; i < 16; i++) {
        objs[i].v = (i * 7) % 16;
    }

    /* hash */
    cstl_hash_resize(&h, 5, cstl_hash_div);
    for (i = 0; i < 16; i++) {
        cstl_hash_insert(&h, objs[i].v, &objs[i]);
    }
    CHECK(cstl_hash_size(&h) == 16);
    CHECK(cstl_hash_load(&h) > 3.1f && cstl_hash_load(&h) < 3.3f);
    cstl_hash_resize(&h, 11, cstl_hash_mul);
    CHECK(cstl_hash_find(&h, 3, NULL, NULL) == &objs[5]);
    n = 0;
    cstl_hash_foreach_const(&h, count_visit, &n);
    CHECK(n == 16);
    cstl_hash_erase(&h, &objs[5]);
    CHECK(cstl_hash_find(&h, 3, NULL, NULL) == NULL);
    cstl_hash_shrink_to_fit(&h);
    cstl_hash_clear(&h, NULL);

    /* lists */
    for (i = 0; i < 16; i++) {
        cstl_dlist_push_back(&dl, &objs[i]);
        cstl_slist_push_front(&sl, &objs[i]);
    }
    cstl_dlist_sort(&dl, obj_cmp, NULL);
    cstl_slist_sort(&sl, obj_cmp, NULL);
    CHECK(((struct obj *)cstl_dlist_front(&dl))->v == 0);
    CHECK(((struct obj *)cstl_dlist_back(&dl))->v == 15);
    CHECK(((struct obj *)cstl_slist_front(&sl))->v == 0);
    CHECK(cstl_dlist_size(&dl) == 16 && cstl_slist_size(&sl) == 16);
    cstl_dlist_clear(&dl, clr_count);
    cstl_slist_clear(&sl, clr_count);

    /* trees and heap */
    for (i = 0; i < 16; i++) {
        cstl_bintree_insert(&bt, &objs[i], NULL);
        cstl_rbtree_insert(&rt, &objs[i], NULL);
    }
    CHECK(cstl_bintree_size(&bt) == 16 && cstl_rbtree_size(&rt) == 16);
    CHECK(cstl_bintree_find(&bt, &objs[3], NULL) == &objs[3]);
    CHECK(cstl_rbtree_find(&rt, &objs[3], NULL) == &objs[3]);
    n = 0;
    cstl_rbtree_foreach(&rt, tree_visit, &n, CSTL_BINTREE_FOREACH_DIR_FWD);
    CHECK(n == 16);
    cstl_bintree_clear(&bt, clr_count, NULL);
    CHECK(cstl_rbtree_erase(&rt, &objs[3]) == &objs[3]);
    cstl_rbtree_clear(&rt, clr_count, NULL);
    for (i = 0; i < 16; i++) {
        cstl_heap_push(&hp, &objs[i]);
    }
    CHECK(cstl_heap_size(&hp) == 16);
    CHECK(((const struct obj *)cstl_heap_get(&hp))->v == 15);
    CHECK(((struct obj *)cstl_heap_pop(&hp))->v == 15);
    cstl_heap_clear(&hp, clr_count);

    /* vector and raw arrays */
    cstl_vector_resize(&v, 10);
    for (i = 0; i < 10; i++) {
        *(int *)cstl_vector_at(&v, i) = 9 - i;
    }
    cstl_vector_sort(&v, int_cmp, NULL);
    i = 4;
    CHECK(cstl_vector_search(&v, &i, int_cmp, NULL) == 4);
    cstl_vector_reverse(&v);
    CHECK(cstl_vector_find(&v, &i, int_cmp, NULL) == 5);
    cstl_vector_clear(&v);
    CHECK(cstl_fls(0x10) == 4);

    /* map */
    cstl_map_init(&map, str_cmp, NULL);
    CHECK(cstl_map_insert(&map, "one", &objs[1], NULL) == 0);
    CHECK(cstl_map_insert(&map, "two", &objs[2], &it) == 0);
    CHECK(cstl_map_insert(&map, "two", &objs[3], &it) == 1);
    CHECK(it.val == &objs[2]);
    CHECK(cstl_map_size(&map) == 2);
    cstl_map_find(&map, "three", &it);
    CHECK(cstl_map_iterator_eq(&it, cstl_map_iterator_end(&map)));
    CHECK(cstl_map_erase(&map, "one", NULL) == 0);
    cstl_map_clear(&map, NULL, NULL);
}

static void use_memory(void)
{
    DECLARE_CSTL_UNIQUE_PTR(u1);
    cstl_unique_ptr_t u2;
    DECLARE_CSTL_SHARED_PTR(s1);
    cstl_shared_ptr_t s2;
    DECLARE_CSTL_WEAK_PTR(w);
    DECLARE_CSTL_ARRAY(a);
    cstl_array_t sl;
    cstl_xtor_func_t * clr;
    void * priv, * p;
    int i;

    cleared = 0;
    cstl_unique_ptr_init(&u2);
    cstl_unique_ptr_alloc(&u1, 32, clr_count, &u1);
    CHECK(cstl_unique_ptr_get(&u1) != NULL);
    memset(cstl_unique_ptr_get(&u1), 0, 32);
    cstl_unique_ptr_swap(&u1, &u2);
    CHECK(cstl_unique_ptr_get(&u1) == NULL);
    CHECK(cstl_unique_ptr_get_const(&u2) != NULL);
    cstl_unique_ptr_alloc(&u1, 8, clr_count, NULL);
    cstl_unique_ptr_alloc(&u1, 16, NULL, NULL);
    CHECK(cleared == 1);
    p = cstl_unique_ptr_release(&u2, &clr, &priv);
    CHECK(p != NULL && clr == clr_count && priv == &u1);
    free(p);
    cstl_unique_ptr_reset(&u2);
    cstl_unique_ptr_reset(&u1);
    CHECK(cleared == 1);
    CHECK(cstl_unique_ptr_get(&u1) == NULL);

    cstl_shared_ptr_init(&s2);
    cstl_shared_ptr_alloc(&s1, 64, clr_count);
    CHECK(cstl_shared_ptr_get(&s1) != NULL && cstl_shared_ptr_unique(&s1));
    cstl_shared_ptr_share(&s1, &s2);
    cstl_weak_ptr_from(&w, &s1);
    CHECK(!cstl_shared_ptr_unique(&s1));
    cstl_shared_ptr_reset(&s1);
    cstl_weak_ptr_lock(&w, &s1);
    CHECK(cstl_shared_ptr_get_const(&s1) == cstl_shared_ptr_get_const(&s2));
    cstl_shared_ptr_swap(&s1, &s2);
    cstl_shared_ptr_reset(&s1);
    CHECK(cleared == 1);
    cstl_shared_ptr_reset(&s2);
    CHECK(cleared == 2);
    cstl_weak_ptr_reset(&w);

    cstl_array_init(&sl);
    cstl_array_alloc(&a, 12, sizeof(int));
    CHECK(cstl_array_size(&a) == 12 && cstl_array_data(&a) != NULL);
    for (i = 0; i < 12; i++) {
        *(int *)cstl_array_at(&a, i) = i;
    }
    cstl_array_slice(&a, 3, 7, &sl);
    CHECK(cstl_array_size(&sl) == 4);
    CHECK(*(const int *)cstl_array_at_const(&sl, 1) == 4);
    cstl_array_reset(&a);
    CHECK(*(int *)cstl_array_at(&sl, 3) == 6);
    cstl_array_reset(&sl);
}

static void use_strings(cstl_string_t * const carry, cstl_wstring_t * const wcarry)
{
    DECLARE_CSTL_STRING(string, s);
    DECLARE_CSTL_STRING(wstring, ws);
    cstl_string_t sub;
    cstl_wstring_t wsub;

    cstl_string_init(&sub);
    cstl_wstring_init(&wsub);

    cstl_string_set_str(&s, "hello");
    cstl_string_append_str(&s, ", world");
    cstl_string_insert_ch(&s, 0, 2, '>');
    CHECK(cstl_string_compare_str(&s, ">>hello, world") == 0);
    CHECK(cstl_string_size(&s) == 14 && cstl_string_capacity(&s) >= 14);
    CHECK(cstl_string_find_ch(&s, ',', 0) == 7);
    CHECK(cstl_string_find_str(&s, "world", 0) == 9);
    cstl_string_substr(&s, 2, 5, &sub);
    CHECK(cstl_string_compare_str(&sub, "hello") == 0);
    cstl_string_erase(&s, 0, 2);
    CHECK(*cstl_string_at(&s, 0) == 'h');
    CHECK(cstl_string_nul == '\0');

    cstl_wstring_set_str(&ws, L"wide");
    cstl_wstring_append_ch(&ws, 3, L'!');
    cstl_wstring_insert_str(&ws, 0, L"very ");
    CHECK(cstl_wstring_compare_str(&ws, L"very wide!!!") == 0);
    CHECK(cstl_wstring_find_str(&ws, L"wide", 0) == 5);
    cstl_wstring_substr(&ws, 5, 4, &wsub);
    CHECK(wcscmp(cstl_wstring_str(&wsub), L"wide") == 0);
    CHECK(cstl_wstring_nul == L'\0');

    /* strings built by the other translation unit keep working here */
    cstl_string_append(carry, &sub);
    cstl_wstring_append(wcarry, &wsub);
    cstl_string_swap(&s, &sub);
    CHECK(cstl_string_compare(&s, &sub) < 0);

    cstl_string_clear(&s);
    cstl_string_clear(&sub);
    cstl_wstring_clear(&ws);
    cstl_wstring_clear(&wsub);
}

static void check_table(void)
{
    size_t i;
    for (i = 0; i < sizeof(every_function) / sizeof(*every_function); i++) {
        CHECK(every_function[i].fn != NULL);
    }
    CHECK(i == 201);
}

#if TU == 1
int tu2_run(cstl_string_t *, cstl_wstring_t *, cstl_unique_ptr_t *);

int main(void)
{
    DECLARE_CSTL_STRING(string, carry);
    DECLARE_CSTL_STRING(wstring, wcarry);
    DECLARE_CSTL_UNIQUE_PTR(up);

    check_table();
    use_containers();
    use_memory();
    use_strings(&carry, &wcarry);

    /* objects made here are consumed and refilled by the other unit */
    cstl_unique_ptr_alloc(&up, 24, NULL, NULL);
    CHECK(cstl_unique_ptr_get(&up) != NULL);
    CHECK(tu2_run(&carry, &wcarry, &up) == 2);
    CHECK(cstl_unique_ptr_get(&up) != NULL);
    CHECK(strcmp(cstl_unique_ptr_get(&up), "from the second unit") == 0);
    cstl_unique_ptr_reset(&up);

    CHECK(cstl_string_compare_str(&carry, "hellohello") == 0);
    CHECK(cstl_wstring_compare_str(&wcarry, L"widewide") == 0);
    cstl_string_clear(&carry);
    cstl_wstring_clear(&wcarry);

    printf("ok: %u functions addressed in each of 2 translation units\n",
           (unsigned)(sizeof(every_function) / sizeof(*every_function)));
    return 0;
}
#else
int tu2_run(cstl_string_t *, cstl_wstring_t *, cstl_unique_ptr_t *);

int tu2_run(cstl_string_t * const carry, cstl_wstring_t * const wcarry,
            cstl_unique_ptr_t * const up)
{
    check_table();
    use_containers();
    use_memory();
    use_strings(carry, wcarry);

    cstl_unique_ptr_alloc(up, 24, NULL, NULL);
    CHECK(cstl_unique_ptr_get(up) != NULL);
    strcpy(cstl_unique_ptr_get(up), "from the second unit");
    return TU;
}
#endif
