/*
 * C11: every sort algorithm returns a sorted permutation and the
 * searches agree with it.
 *
 * Standalone test using only the public API of libcstl
 * (cstl/array.h, cstl/vector.h, cstl/common.h).
 *
 * The program defines its own rand() so that the pivots drawn by the
 * randomised quicksort can be scripted.
 */

#include <stdio.h>
#include <stdlib.h>
#include <string.h>
#include <stdint.h>
#include <stddef.h>
#include <limits.h>
#include <pthread.h>

#include "cstl/common.h"
#include "cstl/array.h"
#include "cstl/vector.h"

/* ------------------------------------------------------------------ */
/* failure reporting                                                  */

static unsigned long g_checks;

#define FAIL(...)                                               \
    do {                                                        \
        fprintf(stderr, "FAIL %s:%d: ", __FILE__, __LINE__);    \
        fprintf(stderr, __VA_ARGS__);                           \
        fprintf(stderr, "\n");                                  \
        exit(1);                                                \
    } while (0)

#define CHECK(COND, ...)                        \
    do {                                        \
        g_checks++;                             \
        if (!(COND)) {                          \
            FAIL(__VA_ARGS__);                  \
        }                                       \
    } while (0)

/* ------------------------------------------------------------------ */
/* scripted rand()                                                    */

#define SCRIPT_MAX 128
static int g_script[SCRIPT_MAX];
static int g_script_len, g_script_pos;
static uint32_t g_lcg = 12345;
static unsigned long g_rand_calls;

static int lcg_next(void)
{
    g_lcg = g_lcg * 1103515245u + 12345u;
    return (int)((g_lcg >> 1) & 0x7fffffff);
}

/*
 * overrides the C library's rand(); the library's randomised quicksort
 * draws its pivots from here. scripted values come first; once the
 * script is exhausted, a linear congruential generator takes over (so
 * that every sort terminates no matter the script).
 */
int rand(void)
{
    g_rand_calls++;
    if (g_script_pos < g_script_len) {
        return g_script[g_script_pos++];
    }
    return lcg_next();
}

static void script_none(void)
{
    g_script_len = g_script_pos = 0;
}

static void script_const(const int v, const int len)
{
    int i;
    for (i = 0; i < len && i < SCRIPT_MAX; i++) {
        g_script[i] = v;
    }
    g_script_len = i;
    g_script_pos = 0;
}

/* private generator for the test's own data (independent of rand()) */
static uint64_t g_tst = 88172645463325252ull;
static uint32_t trnd(void)
{
    g_tst ^= g_tst << 13;
    g_tst ^= g_tst >> 7;
    g_tst ^= g_tst << 17;
    return (uint32_t)(g_tst >> 16);
}

/* ------------------------------------------------------------------ */
/* algorithms                                                         */

static const int g_algos[] = {
    CSTL_SORT_ALGORITHM_QUICK,
    CSTL_SORT_ALGORITHM_QUICK_R,
    CSTL_SORT_ALGORITHM_QUICK_M,
    CSTL_SORT_ALGORITHM_HEAP,
    CSTL_SORT_ALGORITHM_DEFAULT,
    4, 5, 7, 99, 1000, 65536, INT_MAX, -1, -2, INT_MIN
};
#define N_ALGOS ((int)(sizeof(g_algos) / sizeof(g_algos[0])))

/* ------------------------------------------------------------------ */
/* guarded byte-array world                                           */

/*
 * elements are S bytes. byte 0 is (key << 4) | id, with key in 0..7
 * and id in 0..15 unique within an array; the remaining bytes are a
 * function of the id. the comparator only looks at the key, so equal
 * keys with different ids are "equal but distinguishable" elements.
 */

#define GUARD   64
#define MAXN    16
#define MAXS    40

struct world
{
    /* uint64_t for alignment of the 8 byte fast path */
    uint64_t store[(GUARD + MAXN * MAXS + 2 * GUARD) / 8 + 2];
    uint64_t tstore[(GUARD + MAXS + GUARD) / 8 + 2];
    unsigned char * arr;
    unsigned char * tmp;
    size_t n, S;
    unsigned char orig[MAXN * MAXS];

    /* what the callbacks are allowed to see */
    void * priv;
    unsigned long ncmp, nswap;
    int searching;
    const void * probe;
};

static struct world W;

static void world_fill_elem(unsigned char * const e, const size_t S,
                            const unsigned key, const unsigned id)
{
    size_t k;
    e[0] = (unsigned char)((key << 4) | id);
    for (k = 1; k < S; k++) {
        e[k] = (unsigned char)(id * 37u + k * 11u + 5u);
    }
}

static void world_setup(const size_t n, const size_t S,
                        const unsigned char * const keys)
{
    size_t i;

    memset(W.store, 0xA5, sizeof(W.store));
    memset(W.tstore, 0x5A, sizeof(W.tstore));
    W.arr = (unsigned char *)W.store + GUARD;
    W.tmp = (unsigned char *)W.tstore + GUARD;
    W.n = n;
    W.S = S;
    for (i = 0; i < n; i++) {
        world_fill_elem(W.arr + i * S, S, keys[i], (unsigned)i);
    }
    memcpy(W.orig, W.arr, n * S);
    W.priv = &W;
    W.ncmp = W.nswap = 0;
    W.searching = 0;
    W.probe = NULL;
}

static int all_bytes(const unsigned char * const p, const size_t len,
                     const unsigned char v)
{
    size_t i;
    for (i = 0; i < len; i++) {
        if (p[i] != v) {
            return 0;
        }
    }
    return 1;
}

static void world_check_guards(const char * const what)
{
    const unsigned char * const s = (const unsigned char *)W.store;
    const unsigned char * const t = (const unsigned char *)W.tstore;

    CHECK(all_bytes(s, GUARD, 0xA5), "%s: write before the array", what);
    CHECK(all_bytes(s + GUARD + W.n * W.S, 2 * GUARD, 0xA5),
          "%s: write after the array (n=%lu S=%lu)",
          what, (unsigned long)W.n, (unsigned long)W.S);
    CHECK(all_bytes(t, GUARD, 0x5A),
          "%s: write before the scratch element", what);
    CHECK(all_bytes(t + GUARD + W.S, GUARD, 0x5A),
          "%s: write after the scratch element", what);
}

static int ptr_is_elem(const void * const p)
{
    const unsigned char * const c = p;
    if (W.n == 0) {
        return 0;
    }
    if (c < W.arr || c > W.arr + (W.n - 1) * W.S) {
        return 0;
    }
    return ((size_t)(c - W.arr) % W.S) == 0;
}

static int world_cmp(const void * const a, const void * const b,
                     void * const priv)
{
    const unsigned ka = *(const unsigned char *)a >> 4;
    const unsigned kb = *(const unsigned char *)b >> 4;

    W.ncmp++;
    CHECK(priv == W.priv, "comparator called with wrong priv");
    if (W.searching) {
        CHECK((a == W.probe && ptr_is_elem(b))
              || (b == W.probe && ptr_is_elem(a)),
              "search comparator called with unexpected pointers");
    } else {
        CHECK((ptr_is_elem(a) || a == W.tmp)
              && (ptr_is_elem(b) || b == W.tmp),
              "sort comparator called with a pointer outside the array");
    }
    return (ka > kb) - (ka < kb);
}

static void world_swap(void * const a, void * const b,
                       void * const t, const size_t len)
{
    W.nswap++;
    CHECK(ptr_is_elem(a) && ptr_is_elem(b),
          "swap called with a pointer that is not an element of the array");
    CHECK(t == W.tmp, "swap called with wrong scratch pointer");
    CHECK(len == W.S, "swap called with wrong length");
    if (a != b) {
        cstl_swap(a, b, t, len);
    }
}

/* the array is a sorted permutation of the original */
static void world_check_sorted_perm(const char * const what, const int algo)
{
    unsigned seen = 0;
    size_t i;

    for (i = 0; i < W.n; i++) {
        const unsigned char * const e = W.arr + i * W.S;
        const unsigned id = e[0] & 15u;

        CHECK(id < W.n, "%s algo=%d: unknown element appeared", what, algo);
        CHECK((seen & (1u << id)) == 0,
              "%s algo=%d: element duplicated", what, algo);
        seen |= 1u << id;
        CHECK(memcmp(e, W.orig + id * W.S, W.S) == 0,
              "%s algo=%d: element bytes changed", what, algo);
        if (i > 0) {
            CHECK((e[-(ptrdiff_t)W.S] >> 4) <= (e[0] >> 4),
                  "%s algo=%d: not sorted at %lu (n=%lu S=%lu)",
                  what, algo, (unsigned long)i,
                  (unsigned long)W.n, (unsigned long)W.S);
        }
    }
    CHECK(seen == (W.n == 0 ? 0u : ((1u << W.n) - 1u)),
          "%s algo=%d: element lost", what, algo);
}

/* binary search and linear find against the (sorted) array */
static void world_check_searches(const unsigned maxkey, const int sorted)
{
    unsigned char probe[MAXS];
    unsigned key;

    for (key = 0; key <= maxkey + 1 && key < 8; key++) {
        ssize_t first = -1, r;
        size_t i;

        world_fill_elem(probe, W.S, key, 15);
        for (i = 0; i < W.n; i++) {
            if ((W.arr[i * W.S] >> 4) == key) {
                first = (ssize_t)i;
                break;
            }
        }

        W.searching = 1;
        W.probe = probe;

        r = cstl_raw_array_find(W.arr, W.n, W.S, probe, world_cmp, W.priv);
        CHECK(r == first, "find: got %ld, want %ld (n=%lu key=%u)",
              (long)r, (long)first, (unsigned long)W.n, key);

        if (sorted) {
            r = cstl_raw_array_search(
                W.arr, W.n, W.S, probe, world_cmp, W.priv);
            if (first < 0) {
                CHECK(r == -1, "search: found absent key %u at %ld",
                      key, (long)r);
            } else {
                CHECK(r >= 0 && (size_t)r < W.n,
                      "search: index %ld out of range for present key %u "
                      "(n=%lu)", (long)r, key, (unsigned long)W.n);
                CHECK((W.arr[(size_t)r * W.S] >> 4) == key,
                      "search: element at %ld does not match key %u",
                      (long)r, key);
            }
        }

        W.searching = 0;
        W.probe = NULL;
    }
    world_check_guards("search/find");
}

static void world_check_reverse(void)
{
    unsigned char before[MAXN * MAXS];
    size_t i;

    memcpy(before, W.arr, W.n * W.S);
    cstl_raw_array_reverse(W.arr, W.n, W.S, world_swap, W.tmp);
    for (i = 0; i < W.n; i++) {
        CHECK(memcmp(W.arr + i * W.S,
                     before + (W.n - 1 - i) * W.S, W.S) == 0,
              "reverse: element %lu is not the mirror image (n=%lu S=%lu)",
              (unsigned long)i, (unsigned long)W.n, (unsigned long)W.S);
    }
    world_check_guards("reverse");
    cstl_raw_array_reverse(W.arr, W.n, W.S, cstl_swap, W.tmp);
    CHECK(memcmp(W.arr, before, W.n * W.S) == 0,
          "reverse twice is not the identity");
    world_check_guards("reverse");
}

static void world_run(const size_t n, const size_t S,
                      const unsigned char * const keys,
                      const unsigned maxkey,
                      const int algo, const int full)
{
    world_setup(n, S, keys);
    if (full) {
        /* linear find works on unsorted arrays too */
        world_check_searches(maxkey, 0);
        world_check_reverse();
    }
    cstl_raw_array_sort(W.arr, n, S, world_cmp, W.priv,
                        world_swap, W.tmp,
                        (cstl_sort_algorithm_t)algo);
    world_check_guards("sort");
    world_check_sorted_perm("raw sort", algo);
    if (full) {
        world_check_searches(maxkey, 1);
        /* sorting a sorted array, and a reversed sorted array */
        cstl_raw_array_sort(W.arr, n, S, world_cmp, W.priv,
                            world_swap, W.tmp,
                            (cstl_sort_algorithm_t)algo);
        world_check_sorted_perm("raw re-sort", algo);
        world_check_reverse();
        cstl_raw_array_reverse(W.arr, n, S, world_swap, W.tmp);
        cstl_raw_array_sort(W.arr, n, S, world_cmp, W.priv,
                            world_swap, W.tmp,
                            (cstl_sort_algorithm_t)algo);
        world_check_sorted_perm("raw sort of reversed", algo);
        world_check_guards("sort");
    }
}

static const size_t g_sizes[] = { 1, 2, 3, 4, 5, 7, 8, 12, 16, 24, 33 };
#define N_SIZES ((int)(sizeof(g_sizes) / sizeof(g_sizes[0])))

/* every array of length <= maxn over the alphabet 1..A */
static void exhaustive(const unsigned A, const size_t maxn,
                       const int all_sizes)
{
    unsigned char keys[MAXN];
    size_t n;

    for (n = 0; n <= maxn; n++) {
        unsigned long total = 1, x;
        size_t i;

        for (i = 0; i < n; i++) {
            total *= A;
        }
        for (x = 0; x < total; x++) {
            unsigned long y = x;
            int si, ai;

            for (i = 0; i < n; i++) {
                keys[i] = (unsigned char)(1 + y % A);
                y /= A;
            }
            for (si = 0; si < N_SIZES; si++) {
                if (!all_sizes && g_sizes[si] != 4 && g_sizes[si] != 12) {
                    continue;
                }
                for (ai = 0; ai < N_ALGOS; ai++) {
                    script_none();
                    world_run(n, g_sizes[si], keys, A, g_algos[ai],
                              ai < 5 || si == 0);
                }
            }
        }
    }
}

/* every permutation of n distinct keys (n <= 7) */
static void permutations(const size_t n)
{
    unsigned char keys[MAXN];
    int c[MAXN];
    size_t i;

    for (i = 0; i < n; i++) {
        keys[i] = (unsigned char)i;
        c[i] = 0;
    }

    for (;;) {
        int ai;
        for (ai = 0; ai < 6; ai++) {
            script_none();
            world_run(n, 4, keys, 7, g_algos[ai], 0);
            world_run(n, 24, keys, 7, g_algos[ai], 0);
        }

        /* Heap's algorithm, iterative */
        i = 1;
        while (i < n) {
            if ((size_t)c[i] < i) {
                const size_t k = (i % 2 == 0) ? 0 : (size_t)c[i];
                const unsigned char t = keys[k];
                keys[k] = keys[i];
                keys[i] = t;
                c[i]++;
                break;
            }
            c[i] = 0;
            i++;
        }
        if (i >= n) {
            break;
        }
    }
}

/*
 * every pivot the randomised variant can draw: all arrays of length
 * <= 4 over a 3 letter alphabet, against every script of 4 draws in
 * 0..11 (every residue modulo 1, 2, 3 and 4), followed by the lcg.
 */
static void scripted_pivots(void)
{
    unsigned char keys[MAXN];
    size_t n;

    for (n = 0; n <= 4; n++) {
        unsigned long total = 1, x;
        size_t i;

        for (i = 0; i < n; i++) {
            total *= 3;
        }
        for (x = 0; x < total; x++) {
            unsigned long y = x;
            int s;

            for (i = 0; i < n; i++) {
                keys[i] = (unsigned char)(1 + y % 3);
                y /= 3;
            }
            for (s = 0; s < 12 * 12 * 12 * 12; s++) {
                g_script[0] = s % 12;
                g_script[1] = (s / 12) % 12;
                g_script[2] = (s / 144) % 12;
                g_script[3] = (s / 1728) % 12;
                g_script_len = 4;
                g_script_pos = 0;
                world_run(n, (s & 1) ? 4 : 12, keys, 3,
                          CSTL_SORT_ALGORITHM_QUICK_R, 0);
            }
        }
    }

    /*
     * longer arrays, with extreme constant draws (bounded scripts so
     * that the sort always makes progress in the end) and many seeds
     */
    for (n = 5; n <= 7; n++) {
        unsigned long total = 1, x;
        size_t i;

        for (i = 0; i < n; i++) {
            total *= 3;
        }
        for (x = 0; x < total; x++) {
            static const int consts[] = {
                0, 1, 2, 3, 419, 420, 421, 210, RAND_MAX, RAND_MAX - 1,
                RAND_MAX / 2
            };
            unsigned long y = x;
            unsigned s;

            for (i = 0; i < n; i++) {
                keys[i] = (unsigned char)(1 + y % 3);
                y /= 3;
            }
            for (s = 0; s < sizeof(consts) / sizeof(consts[0]); s++) {
                script_const(consts[s], 24);
                world_run(n, 8, keys, 3, CSTL_SORT_ALGORITHM_QUICK_R, 0);
            }
            for (s = 0; s < 12; s++) {
                script_none();
                g_lcg = s * 2654435761u + (unsigned)x;
                world_run(n, 3, keys, 3, CSTL_SORT_ALGORITHM_QUICK_R, 0);
            }
        }
    }
    script_none();
}

/* ------------------------------------------------------------------ */
/* comparators that use the library on other objects                  */

static DECLARE_CSTL_VECTOR(g_side, int);
static unsigned long g_reent;

static int int_cmp(const void * const a, const void * const b,
                   void * const p)
{
    (void)p;
    return (*(const int *)a > *(const int *)b)
        - (*(const int *)a < *(const int *)b);
}

static int reentrant_cmp(const void * const a, const void * const b,
                         void * const priv)
{
    int local[6], t, i;
    const int algo = (int)(g_reent++ % 6);

    /* sort, search and reverse some other array from inside the callback */
    for (i = 0; i < 6; i++) {
        local[i] = (int)((g_reent * 7 + (unsigned)i * 5) % 4);
    }
    cstl_raw_array_sort(local, 6, sizeof(int), int_cmp, NULL,
                        cstl_swap, &t, (cstl_sort_algorithm_t)algo);
    for (i = 1; i < 6; i++) {
        CHECK(local[i - 1] <= local[i], "nested sort failed");
    }
    i = local[3];
    t = (int)cstl_raw_array_search(local, 6, sizeof(int), &i, int_cmp, NULL);
    CHECK(t >= 0 && t < 6 && local[t] == i, "nested search failed");
    i = 17;
    CHECK(cstl_raw_array_search(
              local, 6, sizeof(int), &i, int_cmp, NULL) == -1,
          "nested search found an absent value");
    cstl_raw_array_reverse(local, 6, sizeof(int), cstl_swap, &t);
    for (i = 1; i < 6; i++) {
        CHECK(local[i - 1] >= local[i], "nested reverse failed");
    }

    /* and a vector, which is re-sorted with another algorithm */
    if (g_reent % 5 == 0) {
        const size_t n = cstl_vector_size(&g_side);
        size_t k;

        cstl_vector_reverse(&g_side);
        __cstl_vector_sort(&g_side, int_cmp, NULL, cstl_swap,
                           (cstl_sort_algorithm_t)((algo + 1) % 5));
        for (k = 1; k < n; k++) {
            CHECK(*(int *)cstl_vector_at(&g_side, k - 1)
                  <= *(int *)cstl_vector_at(&g_side, k),
                  "nested vector sort failed");
        }
        i = *(int *)cstl_vector_at(&g_side, n / 2);
        CHECK(cstl_vector_search(&g_side, &i, int_cmp, NULL) >= 0,
              "nested vector search failed");
    }

    return world_cmp(a, b, priv);
}

static void reentrancy(void)
{
    unsigned char keys[MAXN];
    unsigned round;
    size_t i;

    cstl_vector_resize(&g_side, 9);
    for (i = 0; i < 9; i++) {
        *(int *)cstl_vector_at(&g_side, i) = (int)((i * 5) % 9);
    }

    for (round = 0; round < 400; round++) {
        const size_t n = trnd() % (MAXN + 1);
        const size_t S = g_sizes[trnd() % N_SIZES];
        int ai;

        for (i = 0; i < n; i++) {
            keys[i] = (unsigned char)(trnd() % 5);
        }
        for (ai = 0; ai < 6; ai++) {
            unsigned char probe[MAXS];
            ssize_t r;

            world_setup(n, S, keys);
            cstl_raw_array_sort(W.arr, n, S, reentrant_cmp, W.priv,
                                world_swap, W.tmp,
                                (cstl_sort_algorithm_t)g_algos[ai]);
            world_check_guards("re-entrant sort");
            world_check_sorted_perm("re-entrant sort", g_algos[ai]);

            world_fill_elem(probe, S, keys[0], 15);
            W.searching = 1;
            W.probe = probe;
            r = cstl_raw_array_search(
                W.arr, n, S, probe, reentrant_cmp, W.priv);
            if (n == 0) {
                CHECK(r == -1, "search in empty array");
            } else {
                CHECK(r >= 0 && (size_t)r < n
                      && (W.arr[(size_t)r * S] >> 4) == keys[0],
                      "re-entrant search failed");
            }
            r = cstl_raw_array_find(
                W.arr, n, S, probe, reentrant_cmp, W.priv);
            CHECK(n == 0 ? r == -1
                  : (r >= 0 && (W.arr[(size_t)r * S] >> 4) == keys[0]
                     && (r == 0
                         || (W.arr[(size_t)(r - 1) * S] >> 4) < keys[0])),
                  "re-entrant find failed");
            W.searching = 0;
        }
    }

    cstl_vector_clear(&g_side);
}

/* ------------------------------------------------------------------ */
/* elements that may only be moved by the caller's swap function      */

struct node
{
    uint32_t key, id;
    struct node * self;
};

static int node_cmp(const void * const a, const void * const b,
                    void * const p)
{
    const struct node * const x = a, * const y = b;
    CHECK(p == (void *)&g_reent, "node_cmp priv");
    CHECK(x->self == x && y->self == y, "element moved behind our back");
    return (x->key > y->key) - (x->key < y->key);
}

/* ignores the scratch pointer and the length, as the docs allow */
static void node_swap(void * const a, void * const b,
                      void * const t, const size_t len)
{
    struct node * const x = a, * const y = b;
    uint32_t k;
    (void)t; (void)len;
    k = x->key; x->key = y->key; y->key = k;
    k = x->id; x->id = y->id; y->id = k;
}

static void self_pointers(void)
{
    enum { N = 200 };
    static struct node nodes[N + 2];
    static uint32_t keyof[N];
    static unsigned char seen[N];
    unsigned round;

    for (round = 0; round < 300; round++) {
        const size_t n = round < 20 ? round : trnd() % (N + 1);
        const unsigned mod = 1 + trnd() % 7;
        struct node * const arr = nodes + 1;
        int ai;

        for (ai = 0; ai < 7; ai++) {
            struct node probe;
            ssize_t r;
            size_t i;

            memset(nodes, 0, sizeof(nodes));
            nodes[0].key = nodes[n + 1].key = 0xdeadbeef;
            for (i = 0; i < n; i++) {
                arr[i].key = keyof[i] = trnd() % mod;
                arr[i].id = (uint32_t)i;
                arr[i].self = &arr[i];
            }
            if (round % 3 == 1) {
                script_const((int)(trnd() & 0x7fffffff), 8);
            }

            /* scratch space is not needed by node_swap: pass NULL */
            cstl_raw_array_sort(arr, n, sizeof(*arr),
                                node_cmp, &g_reent, node_swap, NULL,
                                (cstl_sort_algorithm_t)g_algos[ai]);
            script_none();

            memset(seen, 0, sizeof(seen));
            for (i = 0; i < n; i++) {
                CHECK(arr[i].self == &arr[i], "self pointer broken");
                CHECK(arr[i].id < n && !seen[arr[i].id],
                      "node lost or duplicated");
                seen[arr[i].id] = 1;
                CHECK(arr[i].key == keyof[arr[i].id], "node key changed");
                CHECK(i == 0 || arr[i - 1].key <= arr[i].key,
                      "nodes not sorted");
            }
            CHECK(nodes[0].key == 0xdeadbeef && nodes[0].self == NULL
                  && nodes[n + 1].key == 0xdeadbeef
                  && nodes[n + 1].self == NULL,
                  "neighbouring nodes modified");

            probe.key = mod / 2;
            probe.self = &probe;
            r = cstl_raw_array_search(arr, n, sizeof(*arr),
                                      &probe, node_cmp, &g_reent);
            {
                ssize_t first = -1;
                for (i = 0; i < n; i++) {
                    if (arr[i].key == probe.key) {
                        first = (ssize_t)i;
                        break;
                    }
                }
                CHECK((first < 0) == (r < 0), "node search presence");
                CHECK(r < 0 || arr[r].key == probe.key, "node search key");
                CHECK(r >= -1 && r < (ssize_t)n, "node search range");
                CHECK(cstl_raw_array_find(arr, n, sizeof(*arr), &probe,
                                          node_cmp, &g_reent) == first,
                      "node find");
            }

            cstl_raw_array_reverse(arr, n, sizeof(*arr), node_swap, NULL);
            for (i = 0; i < n; i++) {
                CHECK(arr[i].self == &arr[i], "self pointer broken");
                CHECK(i == 0 || arr[i - 1].key >= arr[i].key,
                      "nodes not reversed");
            }
        }
    }
}

/* ------------------------------------------------------------------ */
/* vectors of several element types in one program                    */

struct rec12 { uint32_t key; uint32_t id; uint32_t chk; };
struct rec24 { uint64_t chk; uint32_t key; uint32_t id; uint64_t pad; };

static int u8_cmp(const void * a, const void * b, void * p)
{
    (void)p;
    return (int)*(const uint8_t *)a - (int)*(const uint8_t *)b;
}
static int u16_cmp(const void * a, const void * b, void * p)
{
    (void)p;
    return (int)*(const uint16_t *)a - (int)*(const uint16_t *)b;
}
static int u32_cmp(const void * a, const void * b, void * p)
{
    const uint32_t x = *(const uint32_t *)a, y = *(const uint32_t *)b;
    (void)p;
    return (x > y) - (x < y);
}
static int u64_cmp(const void * a, const void * b, void * p)
{
    const uint64_t x = *(const uint64_t *)a, y = *(const uint64_t *)b;
    (void)p;
    return (x > y) ? 1000 : (x < y) ? -1000 : 0;
}
static int rec12_cmp(const void * a, const void * b, void * p)
{
    const struct rec12 * const x = a, * const y = b;
    (void)p;
    return (x->key > y->key) - (x->key < y->key);
}
static int rec24_cmp(const void * a, const void * b, void * p)
{
    const struct rec24 * const x = a, * const y = b;
    (void)p;
    return (x->key > y->key) - (x->key < y->key);
}

/* key patterns */
enum pattern {
    P_SORTED, P_REVERSED, P_CONSTANT, P_TWO_ALT, P_TWO_RND, P_TWO_BLOCK,
    P_ORGAN, P_ORGAN_INV, P_SAW, P_RANDOM, P_FEW, P_SORTED_DUP,
    P_REVERSED_DUP, P_COUNT
};

static uint32_t pattern_key(const enum pattern p, const size_t i,
                            const size_t n)
{
    switch (p) {
    case P_SORTED:      return (uint32_t)i;
    case P_REVERSED:    return (uint32_t)(n - i);
    case P_CONSTANT:    return 42;
    case P_TWO_ALT:     return (uint32_t)(i & 1);
    case P_TWO_RND:     return trnd() & 1;
    case P_TWO_BLOCK:   return (uint32_t)(i < n / 2);
    case P_ORGAN:       return (uint32_t)(i < n / 2 ? i : n - 1 - i);
    case P_ORGAN_INV:   return (uint32_t)(i < n / 2 ? n - i : i);
    case P_SAW:         return (uint32_t)(i % 17);
    case P_RANDOM:      return trnd();
    case P_FEW:         return trnd() % 5;
    case P_SORTED_DUP:  return (uint32_t)(i / 4);
    case P_REVERSED_DUP:return (uint32_t)((n - i) / 4);
    default:            return 0;
    }
}

#define SPARE 5

/*
 * a generic driver for a vector whose elements are keyed by a number.
 * SET stores key K and identity I into the element at E; KEY and ID
 * read them back (ID may be the key where there is no room for one)
 */
#define VECTOR_TEST(NAME, TYPE, CMP, SET, KEY, KEYMASK)                 \
static void NAME(struct cstl_vector * const v, const size_t n,          \
                 const enum pattern pat, const int algo,                \
                 const int use_default)                                 \
{                                                                       \
    TYPE * const ref = malloc((n + 1) * sizeof(TYPE));                  \
    unsigned char spare[SPARE * sizeof(TYPE)];                          \
    TYPE probe;                                                         \
    size_t i;                                                           \
                                                                        \
    CHECK(ref != NULL, "out of memory");                                \
    cstl_vector_resize(v, 0);                                           \
    cstl_vector_reserve(v, n + SPARE);                                  \
    cstl_vector_resize(v, n);                                           \
    CHECK(cstl_vector_size(v) == n, "vector size");                     \
    CHECK(cstl_vector_capacity(v) >= n + SPARE, "vector capacity");     \
    for (i = 0; i < n; i++) {                                           \
        TYPE * const e = cstl_vector_at(v, i);                          \
        const uint32_t k = pattern_key(pat, i, n) & (KEYMASK);          \
        memset(e, 0, sizeof(*e));                                       \
        SET(e, k, i);                                                   \
        ref[i] = *e;                                                    \
    }                                                                   \
    /* elements between size and capacity belong to the caller */       \
    if (n > 0 || cstl_vector_data(v) != NULL) {                         \
        memset((TYPE *)cstl_vector_data(v) + n, 0xC3, sizeof(spare));   \
    }                                                                   \
                                                                        \
    /* linear find on the unsorted vector */                            \
    if (n > 0) {                                                        \
        const size_t at = trnd() % n;                                   \
        ssize_t r;                                                      \
        probe = ref[at];                                                \
        r = cstl_vector_find(v, &probe, CMP, NULL);                     \
        CHECK(r >= 0 && (size_t)r <= at, "vector find range");          \
        CHECK(KEY(&ref[r]) == KEY(&probe), "vector find key");          \
        for (i = 0; i < (size_t)r; i++) {                               \
            CHECK(KEY(&ref[i]) != KEY(&probe), "vector find not first");\
        }                                                               \
    }                                                                   \
                                                                        \
    if (use_default) {                                                  \
        cstl_vector_sort(v, CMP, NULL);                                 \
    } else {                                                            \
        __cstl_vector_sort(v, CMP, NULL, cstl_swap,                     \
                           (cstl_sort_algorithm_t)algo);                \
    }                                                                   \
    CHECK(cstl_vector_size(v) == n, "vector size changed by sort");     \
                                                                        \
    /* same elements: sort the reference copy with the C library */     \
    {                                                                   \
        /* counting by key is enough where identity is the key; */      \
        /* otherwise match each element to its original by id  */       \
        unsigned char * const seen = calloc(n + 1, 1);                  \
        CHECK(seen != NULL, "out of memory");                           \
        for (i = 0; i < n; i++) {                                       \
            const TYPE * const e = cstl_vector_at_const(v, i);          \
            if (i > 0) {                                                \
                const TYPE * const d = cstl_vector_at_const(v, i - 1);  \
                CHECK(KEY(d) <= KEY(e),                                 \
                      #NAME ": not sorted at %lu/%lu algo=%d pat=%d",   \
                      (unsigned long)i, (unsigned long)n, algo,         \
                      (int)pat);                                        \
            }                                                           \
            if (sizeof(TYPE) >= 8) {                                    \
                const size_t id = NAME##_id(e);                         \
                CHECK(id < n && !seen[id], #NAME ": lost/duplicated");  \
                seen[id] = 1;                                           \
                CHECK(memcmp(e, &ref[id], sizeof(TYPE)) == 0,           \
                      #NAME ": element bytes changed");                 \
            }                                                           \
        }                                                               \
        if (sizeof(TYPE) < 8) {                                         \
            /* multiset comparison by histogram of keys */              \
            unsigned long * const h =                                   \
                calloc((size_t)(KEYMASK) + 1, sizeof(*h));              \
            CHECK(h != NULL, "out of memory");                          \
            for (i = 0; i < n; i++) {                                   \
                h[KEY(&ref[i])]++;                                      \
            }                                                           \
            for (i = 0; i < n; i++) {                                   \
                const TYPE * const e = cstl_vector_at_const(v, i);      \
                CHECK(h[KEY(e)] > 0, #NAME ": value appeared");         \
                h[KEY(e)]--;                                            \
            }                                                           \
            free(h);                                                    \
        }                                                               \
        free(seen);                                                     \
    }                                                                   \
                                                                        \
    if (cstl_vector_data(v) != NULL) {                                  \
        memset(spare, 0xC3, sizeof(spare));                             \
        CHECK(memcmp((TYPE *)cstl_vector_data(v) + n,                   \
                     spare, sizeof(spare)) == 0,                        \
              #NAME ": sort touched elements beyond the size");         \
    }                                                                   \
                                                                        \
    /* binary search for present and absent keys */                     \
    for (i = 0; i < 40; i++) {                                          \
        uint32_t k;                                                     \
        ssize_t r, lo = -1;                                             \
        size_t a = 0, b = n;                                            \
        if (i < 20 && n > 0) {                                          \
            k = (uint32_t)KEY(&ref[trnd() % n]);                        \
        } else {                                                        \
            k = trnd() & (KEYMASK);                                     \
        }                                                               \
        memset(&probe, 0, sizeof(probe));                               \
        SET(&probe, k, n);                                              \
        /* reference lower bound */                                     \
        while (a < b) {                                                 \
            const size_t m = a + (b - a) / 2;                           \
            if (KEY((const TYPE *)cstl_vector_at_const(v, m)) < k) {    \
                a = m + 1;                                              \
            } else {                                                    \
                b = m;                                                  \
            }                                                           \
        }                                                               \
        if (a < n && KEY((const TYPE *)cstl_vector_at_const(v, a)) == k) { \
            lo = (ssize_t)a;                                            \
        }                                                               \
        r = cstl_vector_search(v, &probe, CMP, NULL);                   \
        if (lo < 0) {                                                   \
            CHECK(r == -1, #NAME ": search found an absent key");       \
        } else {                                                        \
            CHECK(r >= lo && (size_t)r < n, #NAME ": search range");    \
            CHECK(KEY((const TYPE *)cstl_vector_at_const(v, (size_t)r)) \
                  == k, #NAME ": search key");                          \
        }                                                               \
        r = cstl_vector_find(v, &probe, CMP, NULL);                     \
        CHECK(r == lo, #NAME ": find on sorted vector");                \
    }                                                                   \
                                                                        \
    /* reverse mirrors exactly */                                       \
    memcpy(ref, cstl_vector_data(v) ? cstl_vector_data(v) : (void *)ref,\
           n * sizeof(TYPE));                                           \
    cstl_vector_reverse(v);                                             \
    for (i = 0; i < n; i++) {                                           \
        CHECK(memcmp(cstl_vector_at_const(v, i), &ref[n - 1 - i],       \
                     sizeof(TYPE)) == 0, #NAME ": reverse");            \
    }                                                                   \
    if (cstl_vector_data(v) != NULL) {                                  \
        CHECK(memcmp((TYPE *)cstl_vector_data(v) + n,                   \
                     spare, sizeof(spare)) == 0,                        \
              #NAME ": reverse touched elements beyond the size");      \
    }                                                                   \
    free(ref);                                                          \
}

#define U_SET(E, K, I)  (*(E) = (K))
#define U_KEY(E)        (*(E))
static size_t vt_u8_id(const uint8_t * e) { return *e; }
static size_t vt_u16_id(const uint16_t * e) { return *e; }
static size_t vt_u32_id(const uint32_t * e) { return *e; }

/* 64 bit elements carry the key in the top half and the id below */
#define U64_SET(E, K, I) (*(E) = ((uint64_t)(K) << 32) | (uint64_t)(I))
#define U64_KEY(E)       ((uint32_t)(*(E) >> 32))
static size_t vt_u64_id(const uint64_t * e) { return (size_t)(*e & 0xffffffffu); }
static int u64_key_cmp(const void * a, const void * b, void * p)
{
    const uint32_t x = U64_KEY((const uint64_t *)a);
    const uint32_t y = U64_KEY((const uint64_t *)b);
    (void)p;
    return (x > y) - (x < y);
}

#define R12_SET(E, K, I)                                                \
    ((E)->key = (K), (E)->id = (uint32_t)(I),                           \
     (E)->chk = (uint32_t)(I) * 2654435761u)
#define R_KEY(E)        ((E)->key)
static size_t vt_r12_id(const struct rec12 * e) { return e->id; }

#define R24_SET(E, K, I)                                                \
    ((E)->key = (K), (E)->id = (uint32_t)(I),                           \
     (E)->chk = (uint64_t)(I) * 0x9E3779B97F4A7C15ull,                  \
     (E)->pad = ~(uint64_t)(I))
static size_t vt_r24_id(const struct rec24 * e) { return e->id; }

VECTOR_TEST(vt_u8, uint8_t, u8_cmp, U_SET, U_KEY, 0xff)
VECTOR_TEST(vt_u16, uint16_t, u16_cmp, U_SET, U_KEY, 0x7fff)
VECTOR_TEST(vt_u32, uint32_t, u32_cmp, U_SET, U_KEY, 0xffff)
VECTOR_TEST(vt_u64, uint64_t, u64_key_cmp, U64_SET, U64_KEY, 0xffffffffu)
VECTOR_TEST(vt_r12, struct rec12, rec12_cmp, R12_SET, R_KEY, 0xffffffffu)
VECTOR_TEST(vt_r24, struct rec24, rec24_cmp, R24_SET, R_KEY, 0xffffffffu)

static DECLARE_CSTL_VECTOR(g_v8, uint8_t);
static DECLARE_CSTL_VECTOR(g_v16, uint16_t);
static DECLARE_CSTL_VECTOR(g_v64, uint64_t);

static void vectors(void)
{
    /* statically and dynamically initialised, all alive at once */
    struct cstl_vector v32, v12, v24;
    static const size_t small[] = {
        0, 1, 2, 3, 4, 5, 6, 7, 8, 9, 10, 15, 16, 17, 31, 32, 33, 63, 64,
        65, 100, 127, 128, 129, 255, 256, 257, 1000
    };
    unsigned s;
    int p, ai;

    cstl_vector_init(&v32, sizeof(uint32_t));
    cstl_vector_init(&v12, sizeof(struct rec12));
    cstl_vector_init_complex(&v24, sizeof(struct rec24), NULL, NULL, NULL);

    for (s = 0; s < sizeof(small) / sizeof(small[0]); s++) {
        for (p = 0; p < P_COUNT; p++) {
            for (ai = 0; ai < N_ALGOS; ai++) {
                const int a = g_algos[ai];
                const int dflt = (ai == 4);
                if (ai >= 6 && (s % 4) != (unsigned)(ai % 4)) {
                    continue;
                }
                script_none();
                if ((s + p) % 5 == 0) {
                    script_const((int)(trnd() & 0x7fffffff), 6);
                }
                vt_u8(&g_v8, small[s], (enum pattern)p, a, dflt);
                vt_u16(&g_v16, small[s], (enum pattern)p, a, dflt);
                vt_u32(&v32, small[s], (enum pattern)p, a, dflt);
                vt_u64(&g_v64, small[s], (enum pattern)p, a, dflt);
                vt_r12(&v12, small[s], (enum pattern)p, a, dflt);
                vt_r24(&v24, small[s], (enum pattern)p, a, dflt);
            }
        }
    }
    script_none();

    /* large adversarial inputs */
    for (p = 0; p < P_COUNT; p++) {
        for (ai = 0; ai < 6; ai++) {
            const int a = g_algos[ai];
            /*
             * plain first-element quicksort is quadratic (and deeply
             * recursive) on some of these; keep those runs shorter
             */
            const size_t n = (a == CSTL_SORT_ALGORITHM_QUICK) ? 6000 : 120000;
            const size_t m = (a == CSTL_SORT_ALGORITHM_QUICK) ? 3000 : 30011;

            script_none();
            vt_u32(&v32, n, (enum pattern)p, a, ai == 4);
            vt_r12(&v12, m, (enum pattern)p, a, ai == 4);
            vt_u64(&g_v64, m + 1, (enum pattern)p, a, ai == 4);
            vt_r24(&v24, m / 2, (enum pattern)p, a, ai == 4);
            vt_u8(&g_v8, m, (enum pattern)p, a, ai == 4);
            vt_u16(&g_v16, m, (enum pattern)p, a, ai == 4);
        }
    }

    cstl_vector_clear(&g_v8);
    cstl_vector_clear(&g_v16);
    cstl_vector_clear(&g_v64);
    cstl_vector_clear(&v32);
    cstl_vector_clear(&v12);
    cstl_vector_clear(&v24);

    (void)u64_cmp;
}

/* ------------------------------------------------------------------ */
/* exhaustive binary search: every sorted array over a small alphabet */

static void searches(void)
{
    uint32_t arr[24];
    size_t n;

    /* all non-decreasing arrays are described by run lengths */
    for (n = 0; n <= 20; n++) {
        unsigned long x;
        /* x chooses where the value steps up: bit i set => step at i */
        const unsigned long total = n == 0 ? 1 : 1ul << (n - 1);
        const unsigned long stride = total > 4096 ? total / 4096 + 1 : 1;

        for (x = 0; x < total; x += stride) {
            uint32_t v = 1, k;
            size_t i;

            for (i = 0; i < n; i++) {
                if (i > 0 && (x >> (i - 1)) & 1) {
                    v += 1 + ((x >> i) & 1);    /* sometimes leave a gap */
                }
                arr[i] = v;
            }
            for (k = 0; k <= v + 1; k++) {
                ssize_t first = -1, r;
                for (i = 0; i < n; i++) {
                    if (arr[i] == k) {
                        first = (ssize_t)i;
                        break;
                    }
                }
                r = cstl_raw_array_search(
                    arr, n, sizeof(arr[0]), &k, u32_cmp, NULL);
                if (first < 0) {
                    CHECK(r == -1, "search: absent value found");
                } else {
                    CHECK(r >= first && (size_t)r < n && arr[r] == k,
                          "search: present value not found (n=%lu k=%u r=%ld)",
                          (unsigned long)n, (unsigned)k, (long)r);
                }
                r = cstl_raw_array_find(
                    arr, n, sizeof(arr[0]), &k, u32_cmp, NULL);
                CHECK(r == first, "find: not the first index");
            }
        }
    }
}

/* ------------------------------------------------------------------ */

static void * run_all(void * const arg)
{
    (void)arg;

    /* {1,2,3}^n for n <= 7, every element size, every selector */
    exhaustive(3, 7, 1);
    /* {1,2}^n up to n = 10 and {1..4}^n up to n = 5 */
    exhaustive(2, 10, 0);
    exhaustive(4, 5, 1);
    {
        size_t n;
        for (n = 0; n <= 7; n++) {
            permutations(n);
        }
    }
    scripted_pivots();
    searches();
    reentrancy();
    self_pointers();
    vectors();

    return NULL;
}

int main(void)
{
    pthread_attr_t attr;
    pthread_t thr;

    /*
     * the quicksorts recurse; run on a generous stack so that the
     * large adversarial inputs measure correctness, not stack size
     */
    if (pthread_attr_init(&attr) != 0
        || pthread_attr_setstacksize(&attr, (size_t)1 << 30) != 0
        || pthread_create(&thr, &attr, run_all, NULL) != 0) {
        fprintf(stderr, "cannot start test thread\n");
        return 2;
    }
    pthread_join(thr, NULL);

    printf("C11 ok: %lu checks, %lu rand() calls\n", g_checks, g_rand_calls);
    return 0;
}
