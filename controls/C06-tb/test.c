/*
 * C06: reference counting is correct under every thread interleaving.
 *
 * Standalone test, public API only (cstl/memory.h). The program is linked
 * with -Wl,--wrap=malloc,--wrap=free so that every allocation made by the
 * test and by the library is counted and every freed block is poisoned
 * before it goes back to the allocator. Nothing in here looks inside the
 * library's objects.
 *
 * part 1: one thread, random operation sequences against a model (C05)
 * part 2: 2..4 real threads, each with its own shared/weak pointer objects,
 *         hammering one allocation per round: random operations and a few
 *         scripted races (last owner reset vs. lock, share vs. reset,
 *         weak churn), with every initial reference configuration
 */
#define _GNU_SOURCE
#include <stdio.h>
#include <stdlib.h>
#include <string.h>
#include <stdint.h>
#include <stdatomic.h>
#include <pthread.h>
#include <sched.h>
#include <signal.h>
#include <unistd.h>
#include <malloc.h>

#include "cstl/memory.h"

/* ------------------------------------------------------------------ */
/* allocation accounting                                               */

static atomic_long g_out;

void * __real_malloc(size_t);
void __real_free(void *);

void * __wrap_malloc(size_t n)
{
    void * const p = __real_malloc(n);
    if (p != NULL) {
        atomic_fetch_add(&g_out, 1);
    }
    return p;
}

void __wrap_free(void * p)
{
    if (p != NULL) {
        atomic_fetch_sub(&g_out, 1);
        memset(p, 0xdd, malloc_usable_size(p));
    }
    __real_free(p);
}

#define CHECK(c)                                                        \
    do {                                                                \
        if (!(c)) {                                                     \
            fprintf(stderr, "FAIL %s:%d: %s\n", __FILE__, __LINE__, #c); \
            fflush(stderr);                                             \
            _exit(1);                                                   \
        }                                                               \
    } while (0)

static void on_alarm(int sig)
{
    static const char msg[] = "FAIL: watchdog expired (a thread waits forever?)\n";
    (void)sig;
    if (write(2, msg, sizeof(msg) - 1) < 0) {
        /* nothing */
    }
    _exit(2);
}

static uint64_t rnd(uint64_t * const s)
{
    uint64_t x = *s;
    x ^= x << 13;
    x ^= x >> 7;
    x ^= x << 17;
    *s = x;
    return x;
}

/* ------------------------------------------------------------------ */
/* the payload kept in the managed memory                              */

#define MAGIC_LIVE 0x6c69766570746f6bul
#define MAGIC_DEAD 0x6465616470746f6bul

struct rec
{
    atomic_int cleared;
};

struct payload
{
    unsigned long magic;
    struct rec * rec;
    size_t extra;
    atomic_int users;
    unsigned char fill[];
};

static void payload_clr(void * const mem, void * const priv)
{
    struct payload * const p = mem;
    size_t i;

    CHECK(priv == NULL);
    CHECK(p->magic == MAGIC_LIVE);
    /* no owner may be looking at the memory when it is cleared */
    CHECK(atomic_load(&p->users) == 0);
    for (i = 0; i < p->extra; i++) {
        CHECK(p->fill[i] == (unsigned char)(i * 7 + 3));
    }
    p->magic = MAGIC_DEAD;
    /* cleared exactly once */
    CHECK(atomic_fetch_add(&p->rec->cleared, 1) == 0);
}

static void payload_make(cstl_shared_ptr_t * const sp,
                         struct rec * const rec, const size_t extra)
{
    struct payload * p;
    size_t i;

    atomic_store(&rec->cleared, 0);
    cstl_shared_ptr_alloc(sp, sizeof(*p) + extra, payload_clr);
    p = cstl_shared_ptr_get(sp);
    CHECK(p != NULL);
    p->magic = MAGIC_LIVE;
    p->rec = rec;
    p->extra = extra;
    atomic_init(&p->users, 0);
    for (i = 0; i < extra; i++) {
        p->fill[i] = (unsigned char)(i * 7 + 3);
    }
}

/* called by somebody that owns the memory through sp */
static void payload_verify(cstl_shared_ptr_t * const sp,
                           const void * const expect)
{
    struct payload * const p = cstl_shared_ptr_get(sp);
    size_t i;

    CHECK(p != NULL);
    CHECK(expect == NULL || p == expect);
    CHECK(cstl_shared_ptr_get_const(sp) == p);
    atomic_fetch_add(&p->users, 1);
    CHECK(p->magic == MAGIC_LIVE);
    CHECK(atomic_load(&p->rec->cleared) == 0);
    for (i = 0; i < p->extra; i++) {
        CHECK(p->fill[i] == (unsigned char)(i * 7 + 3));
    }
    CHECK(p->magic == MAGIC_LIVE);
    CHECK(atomic_load(&p->rec->cleared) == 0);
    atomic_fetch_sub(&p->users, 1);
}

/* ------------------------------------------------------------------ */
/* part 1: sequential, against a model                                 */

#define NOBJ 5
#define MAXALLOC 40000

struct model_alloc
{
    struct rec rec;
    const void * mem;
    int owners, weaks;
    int tiny;
};

static struct model_alloc m_alloc[MAXALLOC];
static int m_nalloc;

static cstl_shared_ptr_t q_sp[NOBJ];
static cstl_weak_ptr_t q_wp[NOBJ];
static int m_sp[NOBJ], m_wp[NOBJ];
static long m_base;

static void m_drop_owner(const int a)
{
    if (a >= 0) {
        CHECK(m_alloc[a].owners > 0);
        m_alloc[a].owners--;
        if (m_alloc[a].owners == 0 && !m_alloc[a].tiny) {
            CHECK(atomic_load(&m_alloc[a].rec.cleared) == 1);
        }
    }
}

static void m_drop_weak(const int a)
{
    if (a >= 0) {
        CHECK(m_alloc[a].weaks > 0);
        m_alloc[a].weaks--;
    }
}

static void m_check(void)
{
    long expect = m_base;
    int seen[2 * NOBJ], nseen = 0;
    int i, j, a;

    /* every allocation that is still referenced, once */
    for (i = 0; i < 2 * NOBJ; i++) {
        a = (i < NOBJ) ? m_sp[i] : m_wp[i - NOBJ];
        for (j = 0; a >= 0 && j < nseen; j++) {
            if (seen[j] == a) {
                a = -1;
            }
        }
        if (a >= 0) {
            struct model_alloc * const ma = &m_alloc[a];
            seen[nseen++] = a;
            CHECK(ma->owners + ma->weaks > 0);
            expect += 1 + (ma->owners > 0);
            if (!ma->tiny) {
                CHECK(atomic_load(&ma->rec.cleared) == (ma->owners == 0));
            }
        }
    }
    CHECK(atomic_load(&g_out) == expect);

    for (i = 0; i < NOBJ; i++) {
        a = m_sp[i];
        if (a < 0) {
            CHECK(cstl_shared_ptr_get(&q_sp[i]) == NULL);
            CHECK(cstl_shared_ptr_get_const(&q_sp[i]) == NULL);
            CHECK(cstl_shared_ptr_unique(&q_sp[i]));
        } else {
            CHECK(cstl_shared_ptr_get(&q_sp[i]) == m_alloc[a].mem);
            CHECK(cstl_shared_ptr_unique(&q_sp[i])
                  == (m_alloc[a].owners + m_alloc[a].weaks == 1));
            if (m_alloc[a].tiny) {
                CHECK(*(unsigned char *)cstl_shared_ptr_get(&q_sp[i])
                      == 0x5a);
            } else {
                payload_verify(&q_sp[i], m_alloc[a].mem);
            }
        }
    }
}

static void part1(const long nops, uint64_t seed)
{
    /* the first two objects come from the static initialisers */
    static DECLARE_CSTL_SHARED_PTR(st_sp);
    static DECLARE_CSTL_WEAK_PTR(st_wp);
    long n;
    int i;

    (void)st_sp;
    (void)st_wp;

    for (i = 0; i < NOBJ; i++) {
        cstl_shared_ptr_init(&q_sp[i]);
        cstl_weak_ptr_init(&q_wp[i]);
        m_sp[i] = m_wp[i] = -1;
    }
    m_nalloc = 0;
    m_base = atomic_load(&g_out);
    m_check();

    for (n = 0; n < nops; n++) {
        const unsigned op = rnd(&seed) % 16;
        const int a = rnd(&seed) % NOBJ, b = rnd(&seed) % NOBJ;

        switch (op) {
        case 0:
            if (m_nalloc < MAXALLOC) {
                struct model_alloc * const ma = &m_alloc[m_nalloc];
                const unsigned kind = rnd(&seed) % 8;

                const int old = m_sp[a];

                m_sp[a] = -1;
                memset(ma, 0, sizeof(*ma));
                if (kind == 0) {
                    /* zero bytes: no memory, the pointer ends up empty */
                    cstl_shared_ptr_alloc(&q_sp[a], 0, payload_clr);
                } else if (kind == 1) {
                    ma->tiny = 1;
                    cstl_shared_ptr_alloc(&q_sp[a], 1, NULL);
                    CHECK(cstl_shared_ptr_get(&q_sp[a]) != NULL);
                    *(unsigned char *)cstl_shared_ptr_get(&q_sp[a]) = 0x5a;
                    ma->mem = cstl_shared_ptr_get(&q_sp[a]);
                    ma->owners = 1;
                    m_sp[a] = m_nalloc++;
                } else {
                    payload_make(&q_sp[a], &ma->rec, rnd(&seed) % 70);
                    ma->mem = cstl_shared_ptr_get(&q_sp[a]);
                    ma->owners = 1;
                    m_sp[a] = m_nalloc++;
                }
                m_drop_owner(old);
            }
            break;
        case 1:
        case 2:
        case 3:
            cstl_shared_ptr_share(&q_sp[a], &q_sp[b]);
            m_drop_owner(m_sp[b]);
            m_sp[b] = -1;
            if (a != b) {
                m_sp[b] = m_sp[a];
                if (m_sp[b] >= 0) {
                    m_alloc[m_sp[b]].owners++;
                }
            }
            break;
        case 4:
        case 5:
            cstl_weak_ptr_from(&q_wp[a], &q_sp[b]);
            m_drop_weak(m_wp[a]);
            m_wp[a] = m_sp[b];
            if (m_wp[a] >= 0) {
                m_alloc[m_wp[a]].weaks++;
            }
            break;
        case 6:
        case 7:
        case 8:
            cstl_weak_ptr_lock(&q_wp[a], &q_sp[b]);
            m_drop_owner(m_sp[b]);
            m_sp[b] = -1;
            if (m_wp[a] >= 0 && m_alloc[m_wp[a]].owners > 0) {
                m_sp[b] = m_wp[a];
                m_alloc[m_sp[b]].owners++;
            }
            break;
        case 9:
        case 10:
        case 11:
            cstl_shared_ptr_reset(&q_sp[a]);
            m_drop_owner(m_sp[a]);
            m_sp[a] = -1;
            break;
        case 12:
        case 13:
            cstl_weak_ptr_reset(&q_wp[a]);
            m_drop_weak(m_wp[a]);
            m_wp[a] = -1;
            break;
        case 14:
            cstl_shared_ptr_swap(&q_sp[a], &q_sp[b]);
            i = m_sp[a];
            m_sp[a] = m_sp[b];
            m_sp[b] = i;
            break;
        default:
            cstl_weak_ptr_swap(&q_wp[a], &q_wp[b]);
            i = m_wp[a];
            m_wp[a] = m_wp[b];
            m_wp[b] = i;
            break;
        }

        m_check();
    }

    for (i = 0; i < NOBJ; i++) {
        cstl_shared_ptr_reset(&q_sp[i]);
        m_drop_owner(m_sp[i]);
        m_sp[i] = -1;
        m_check();
    }
    for (i = 0; i < NOBJ; i++) {
        cstl_weak_ptr_reset(&q_wp[i]);
        m_drop_weak(m_wp[i]);
        m_wp[i] = -1;
        m_check();
    }
    CHECK(atomic_load(&g_out) == m_base);
}

/* ------------------------------------------------------------------ */
/* part 2: real threads                                                */

#define MAXT 4
#define NSP 2
#define NWP 2

enum
{
    S_RANDOM,       /* random operations, final state left alone */
    S_RANDOM_DROP,  /* random operations, then drop everything */
    S_DROP,         /* reset everything */
    S_LOCK,         /* lock / verify / reset, a few times */
    S_SHARE,        /* share / verify / reset churn, then drop */
    S_WEAK,         /* weak_from / weak_reset churn, then drop */
};

struct tctx
{
    int id;
    pthread_t thr;
    cstl_shared_ptr_t sp[NSP];
    cstl_weak_ptr_t wp[NWP];
    uint64_t rng;
    int script;
    int nops;
    long lock_ok, lock_fail;
};

static struct tctx g_t[MAXT];
static pthread_barrier_t g_bar;
static atomic_int g_go;
static int g_T;
static int g_stop;
static const void * g_mem;
/* an owner/any reference that is certain to exist for the whole round */
static int g_main_owner, g_main_ref;

static void spin_start(const int parties)
{
    atomic_fetch_add(&g_go, 1);
    while (atomic_load(&g_go) < parties) {
        /* there may be fewer cores than threads */
        sched_yield();
    }
}

static int nonempty(cstl_shared_ptr_t * const p)
{
    return cstl_shared_ptr_get(p) != NULL;
}

/*
 * whether a cstl_weak_ptr_t refers to something can't be asked through
 * the API, so each thread tracks it
 */
struct wtrack
{
    int set[NWP];
};

static void t_lock(struct tctx * const t, struct wtrack * const w,
                   const int i, const int j)
{
    int other_owner = g_main_owner, k;

    for (k = 0; k < NSP; k++) {
        if (k != j && nonempty(&t->sp[k])) {
            other_owner = 1;
        }
    }

    cstl_weak_ptr_lock(&t->wp[i], &t->sp[j]);

    if (!w->set[i]) {
        CHECK(!nonempty(&t->sp[j]));
    } else if (other_owner) {
        /* an owner existed during the whole call: the lock must succeed */
        CHECK(nonempty(&t->sp[j]));
    }
    if (nonempty(&t->sp[j])) {
        t->lock_ok++;
        payload_verify(&t->sp[j], g_mem);
    } else {
        t->lock_fail++;
    }
}

static void t_verify_all(struct tctx * const t)
{
    int k;
    for (k = 0; k < NSP; k++) {
        if (nonempty(&t->sp[k])) {
            payload_verify(&t->sp[k], g_mem);
            if (g_main_ref) {
                CHECK(!cstl_shared_ptr_unique(&t->sp[k]));
            }
        } else {
            CHECK(cstl_shared_ptr_unique(&t->sp[k]));
        }
    }
}

static void t_drop(struct tctx * const t, struct wtrack * const w)
{
    int k;
    for (k = 0; k < NSP; k++) {
        if (nonempty(&t->sp[k])) {
            payload_verify(&t->sp[k], g_mem);
        }
        cstl_shared_ptr_reset(&t->sp[k]);
        CHECK(!nonempty(&t->sp[k]));
    }
    for (k = 0; k < NWP; k++) {
        cstl_weak_ptr_reset(&t->wp[k]);
        w->set[k] = 0;
    }
}

static void t_run(struct tctx * const t, struct wtrack * const w)
{
    int n;

    switch (t->script) {
    case S_RANDOM:
    case S_RANDOM_DROP:
        for (n = 0; n < t->nops; n++) {
            const unsigned op = rnd(&t->rng) % 16;
            const int a = rnd(&t->rng) % 2, b = rnd(&t->rng) % 2;
            int had;

            switch (op) {
            case 0:
            case 1:
            case 2:
                had = nonempty(&t->sp[a]);
                cstl_shared_ptr_share(&t->sp[a], &t->sp[b]);
                CHECK(nonempty(&t->sp[b]) == (had && a != b));
                if (a != b) {
                    CHECK(nonempty(&t->sp[a]) == had);
                }
                break;
            case 3:
            case 4:
                cstl_weak_ptr_from(&t->wp[a], &t->sp[b]);
                w->set[a] = nonempty(&t->sp[b]);
                break;
            case 5:
            case 6:
            case 7:
            case 8:
                t_lock(t, w, a, b);
                break;
            case 9:
            case 10:
            case 11:
                if (nonempty(&t->sp[a])) {
                    payload_verify(&t->sp[a], g_mem);
                }
                cstl_shared_ptr_reset(&t->sp[a]);
                CHECK(!nonempty(&t->sp[a]));
                break;
            case 12:
                cstl_weak_ptr_reset(&t->wp[a]);
                w->set[a] = 0;
                break;
            case 13:
                cstl_shared_ptr_swap(&t->sp[0], &t->sp[1]);
                break;
            case 14:
                cstl_weak_ptr_swap(&t->wp[0], &t->wp[1]);
                had = w->set[0];
                w->set[0] = w->set[1];
                w->set[1] = had;
                break;
            default:
                t_verify_all(t);
                break;
            }
        }
        if (t->script == S_RANDOM_DROP) {
            t_drop(t, w);
        }
        break;

    case S_DROP:
        t_drop(t, w);
        break;

    case S_LOCK:
        for (n = 0; n < t->nops; n++) {
            t_lock(t, w, 0, 0);
            if (nonempty(&t->sp[0])) {
                t_verify_all(t);
            }
            cstl_shared_ptr_reset(&t->sp[0]);
        }
        t_drop(t, w);
        break;

    case S_SHARE:
        for (n = 0; n < t->nops && nonempty(&t->sp[0]); n++) {
            cstl_shared_ptr_share(&t->sp[0], &t->sp[1]);
            CHECK(nonempty(&t->sp[1]));
            CHECK(!cstl_shared_ptr_unique(&t->sp[1]));
            payload_verify(&t->sp[1], g_mem);
            if ((n & 1) != 0) {
                cstl_shared_ptr_swap(&t->sp[0], &t->sp[1]);
            }
            cstl_shared_ptr_reset(&t->sp[1]);
            payload_verify(&t->sp[0], g_mem);
        }
        t_drop(t, w);
        break;

    default:
        for (n = 0; n < t->nops; n++) {
            int k;
            for (k = 0; k < NSP; k++) {
                if (nonempty(&t->sp[k])) {
                    cstl_weak_ptr_from(&t->wp[1], &t->sp[k]);
                    w->set[1] = 1;
                    CHECK(!cstl_shared_ptr_unique(&t->sp[k]));
                }
            }
            cstl_weak_ptr_swap(&t->wp[0], &t->wp[1]);
            k = w->set[0];
            w->set[0] = w->set[1];
            w->set[1] = k;
            cstl_weak_ptr_reset(&t->wp[1]);
            w->set[1] = 0;
        }
        t_drop(t, w);
        break;
    }
}

/* what main put into the thread's objects for this round */
static struct wtrack g_w[MAXT];

static void * t_main(void * const arg)
{
    struct tctx * const t = arg;

    for (;;) {
        pthread_barrier_wait(&g_bar);
        if (g_stop) {
            break;
        }
        if (t->id < g_T) {
            spin_start(g_T + 1);
            t_run(t, &g_w[t->id]);
        }
        pthread_barrier_wait(&g_bar);
    }
    return NULL;
}

static struct rec g_rec[64];

static void part2(const long rounds, uint64_t seed)
{
    DECLARE_CSTL_SHARED_PTR(msp);
    DECLARE_CSTL_SHARED_PTR(tmp);
    DECLARE_CSTL_WEAK_PTR(pin);
    long r, tot_ok = 0, tot_fail = 0;
    int i, k;
    const long base = atomic_load(&g_out);

    g_stop = 0;
    CHECK(pthread_barrier_init(&g_bar, NULL, MAXT + 1) == 0);
    for (i = 0; i < MAXT; i++) {
        struct tctx * const t = &g_t[i];
        t->id = i;
        t->rng = seed * 2654435761u + i * 977 + 1;
        for (k = 0; k < NSP; k++) {
            cstl_shared_ptr_init(&t->sp[k]);
        }
        for (k = 0; k < NWP; k++) {
            cstl_weak_ptr_init(&t->wp[k]);
        }
        CHECK(pthread_create(&t->thr, NULL, t_main, t) == 0);
    }

    for (r = 0; r < rounds; r++) {
        struct rec * const rec = &g_rec[r % 64];
        const unsigned kind = rnd(&seed) % 8;
        /* 0: main lets go before the threads start; 1: concurrently;
         * 2: main owns the memory during the whole round */
        const unsigned mmode = rnd(&seed) % 3;
        const int pinned = rnd(&seed) % 3 == 0;
        int owners, weaks, pin_set;
        long expect;

        g_T = 2 + rnd(&seed) % (MAXT - 1);
        CHECK(atomic_load(&g_out) == base);

        payload_make(&msp, rec, rnd(&seed) % 48);
        g_mem = cstl_shared_ptr_get(&msp);
        CHECK(cstl_shared_ptr_unique(&msp));
        CHECK(atomic_load(&g_out) == base + 2);

        if (pinned) {
            cstl_weak_ptr_from(&pin, &msp);
            CHECK(!cstl_shared_ptr_unique(&msp));
        }

        /* hand out the initial references */
        for (i = 0; i < g_T; i++) {
            struct tctx * const t = &g_t[i];
            unsigned cfg = 1 + rnd(&seed) % 7; /* bit0 sp0, bit1 wp0, bit2 sp1 */

            t->nops = 4 + rnd(&seed) % 40;
            switch (kind) {
            case 0:
            case 1:
            case 2:
                t->script = (rnd(&seed) & 1) ? S_RANDOM : S_RANDOM_DROP;
                break;
            case 3:
                /* the last owner goes away while the others lock */
                t->script = (i == 0) ? S_DROP : S_LOCK;
                cfg = (i == 0) ? 1 : 2;
                t->nops = 1 + rnd(&seed) % 3;
                break;
            case 4:
                t->script = (i & 1) ? S_SHARE : S_LOCK;
                cfg = (i & 1) ? 1 : 3;
                break;
            case 5:
                t->script = (i == 0) ? S_SHARE : ((i & 1) ? S_DROP : S_WEAK);
                cfg = (i == 0) ? 1 : 7;
                break;
            case 6:
                t->script = (i == 0) ? S_WEAK : S_LOCK;
                cfg = (i == 0) ? 1 : 2;
                break;
            default:
                t->script = (rnd(&seed) % 6);
                break;
            }

            if (cfg & 1) {
                cstl_shared_ptr_share(&msp, &t->sp[0]);
            }
            if (cfg & 4) {
                cstl_shared_ptr_share(&msp, &t->sp[1]);
            }
            g_w[i].set[0] = g_w[i].set[1] = 0;
            if (cfg & 2) {
                cstl_weak_ptr_from(&t->wp[0], &msp);
                g_w[i].set[0] = 1;
            }
            CHECK(!cstl_shared_ptr_unique(&msp));
        }

        g_main_owner = (mmode == 2);
        g_main_ref = g_main_owner || pinned;
        if (mmode == 0) {
            cstl_shared_ptr_reset(&msp);
        }

        atomic_store(&g_go, 0);
        pthread_barrier_wait(&g_bar);
        spin_start(g_T + 1);

        if (mmode == 1) {
            cstl_shared_ptr_reset(&msp);
        }
        if (pinned) {
            /* main takes part through its own weak pointer */
            for (k = 0; k < 3; k++) {
                cstl_weak_ptr_lock(&pin, &tmp);
                if (nonempty(&tmp)) {
                    payload_verify(&tmp, g_mem);
                    CHECK(!cstl_shared_ptr_unique(&tmp));
                } else {
                    CHECK(!g_main_owner);
                }
                cstl_shared_ptr_reset(&tmp);
            }
        }
        if (mmode == 2) {
            payload_verify(&msp, g_mem);
            CHECK(!cstl_shared_ptr_unique(&msp) || !pinned);
        }

        pthread_barrier_wait(&g_bar);

        /* everything is quiet now: take stock */
        owners = nonempty(&msp);
        weaks = pin_set = pinned;
        for (i = 0; i < g_T; i++) {
            for (k = 0; k < NSP; k++) {
                owners += nonempty(&g_t[i].sp[k]);
            }
            for (k = 0; k < NWP; k++) {
                weaks += g_w[i].set[k];
            }
            tot_ok += g_t[i].lock_ok;
            tot_fail += g_t[i].lock_fail;
            g_t[i].lock_ok = g_t[i].lock_fail = 0;
        }

        /* then take the references away one by one, in some order */
        for (;;) {
            unsigned pick, n;

            expect = base + (owners > 0) + (owners + weaks > 0);
            CHECK(atomic_load(&g_out) == expect);
            CHECK(atomic_load(&rec->cleared) == (owners == 0));
            {
                cstl_weak_ptr_lock(&pin, &tmp);
                CHECK(nonempty(&tmp) == (pin_set && owners > 0));
                if (nonempty(&tmp)) {
                    payload_verify(&tmp, g_mem);
                }
                cstl_shared_ptr_reset(&tmp);
                CHECK(atomic_load(&g_out) == expect);
                CHECK(atomic_load(&rec->cleared) == (owners == 0));
            }
            if (owners == 1 && weaks == 0) {
                for (i = 0; i < g_T; i++) {
                    for (k = 0; k < NSP; k++) {
                        CHECK(cstl_shared_ptr_unique(&g_t[i].sp[k]));
                    }
                }
                CHECK(cstl_shared_ptr_unique(&msp));
            }
            if (owners + weaks == 0) {
                break;
            }

            pick = rnd(&seed) % (owners + weaks);
            n = 0;
            if (nonempty(&msp) && n++ == pick) {
                payload_verify(&msp, g_mem);
                CHECK(cstl_shared_ptr_unique(&msp)
                      == (owners + weaks == 1));
                cstl_shared_ptr_reset(&msp);
                owners--;
                continue;
            }
            if (pin_set && n++ == pick) {
                cstl_weak_ptr_reset(&pin);
                pin_set = 0;
                weaks--;
                /* a second reset is harmless */
                cstl_weak_ptr_reset(&pin);
                continue;
            }
            for (i = 0; i < g_T; i++) {
                int done = 0;
                for (k = 0; k < NSP && !done; k++) {
                    if (nonempty(&g_t[i].sp[k]) && n++ == pick) {
                        payload_verify(&g_t[i].sp[k], g_mem);
                        CHECK(cstl_shared_ptr_unique(&g_t[i].sp[k])
                              == (owners + weaks == 1));
                        cstl_shared_ptr_reset(&g_t[i].sp[k]);
                        owners--;
                        done = 1;
                    }
                }
                for (k = 0; k < NWP && !done; k++) {
                    if (g_w[i].set[k] && n++ == pick) {
                        cstl_weak_ptr_reset(&g_t[i].wp[k]);
                        g_w[i].set[k] = 0;
                        weaks--;
                        done = 1;
                    }
                }
                if (done) {
                    break;
                }
            }
            CHECK(n > pick);
        }
        CHECK(!pin_set);
        CHECK(atomic_load(&g_out) == base);
        CHECK(atomic_load(&rec->cleared) == 1);
    }

    g_stop = 1;
    pthread_barrier_wait(&g_bar);
    for (i = 0; i < MAXT; i++) {
        CHECK(pthread_join(g_t[i].thr, NULL) == 0);
    }
    pthread_barrier_destroy(&g_bar);
    CHECK(atomic_load(&g_out) == base);
    printf("part2: %ld rounds, locks ok %ld, failed %ld\n",
           rounds, tot_ok, tot_fail);
}

int main(int argc, char ** argv)
{
    long rounds = 80000;
    struct sigaction sa;

    if (argc > 1) {
        rounds = atol(argv[1]);
    }

    memset(&sa, 0, sizeof(sa));
    sa.sa_handler = on_alarm;
    sigaction(SIGALRM, &sa, NULL);
    alarm(300);

    /* empty objects: every operation is a no-op */
    {
        DECLARE_CSTL_SHARED_PTR(a);
        DECLARE_CSTL_SHARED_PTR(b);
        DECLARE_CSTL_WEAK_PTR(w);
        const long base = atomic_load(&g_out);

        cstl_shared_ptr_reset(&a);
        cstl_weak_ptr_reset(&w);
        cstl_shared_ptr_share(&a, &b);
        cstl_weak_ptr_from(&w, &a);
        cstl_weak_ptr_lock(&w, &b);
        cstl_shared_ptr_alloc(&a, 0, NULL);
        CHECK(cstl_shared_ptr_get(&a) == NULL);
        CHECK(cstl_shared_ptr_get(&b) == NULL);
        CHECK(cstl_shared_ptr_unique(&a));
        CHECK(atomic_load(&g_out) == base);
    }

    part1(60000, 0x9e3779b97f4a7c15ull);
    part1(20000, 12345);
    printf("part1 ok\n");
    part2(rounds, 0xc0ffee1234567ull);
    part2(rounds / 4, 42);
    printf("ok\n");
    return 0;
}
