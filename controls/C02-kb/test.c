/*
 * C02 / change b: red-black erase fix-up tracks (child, parent) explicitly,
 * with a missing child represented by NULL, instead of linking a fake black
 * sentinel node that lives on the stack.
 *
 * Build + run (from the worktree root, i.e. the directory with the Makefile):
 *   make build && gcc -std=c99 -Wall -Wextra -Iinclude -o _keep/b/test _keep/b/test.c build/libcstl.a -lm && ./_keep/b/test
 *
 * Drives cstl_rbtree_insert (hinted / unhinted) and cstl_rbtree_erase and,
 * after EVERY operation, checks the documented red-black rules through the
 * node fields declared in the public headers: root black, no red node with
 * a red child, equal black count on every root-to-missing-child path, child
 * parent links pointing back, weak search order, size == model count, and
 * cstl_rbtree_height max <= 2*log2(n+1). Focus: erasing black leaves (the
 * "missing child is short one black" case) on the left and on the right, at
 * every depth, draining trees of 1..48 elements down to empty in several
 * orders; plus all shapes of 7 keys, exhaustive short histories and long
 * seeded random histories with heavy duplication.
 * The checks never assume a particular shape or colouring.
 */
#include "cstl/rbtree.h"

#include <stdio.h>
#include <stdlib.h>
#include <string.h>

#define MAXE 8192

struct elem {
    int key;
    int live;
    int mark;
    struct cstl_rbtree_node rn;
};

static int cmp_elem(const void * a, const void * b, void * p)
{
    const int x = ((const struct elem *)a)->key;
    const int y = ((const struct elem *)b)->key;
    (void)p;
    return (x > y) - (x < y);
}

#define CHECK(c) do { if (!(c)) { \
    fprintf(stderr, "%s:%d: CHECK failed: %s\n", __FILE__, __LINE__, #c); \
    exit(1); } } while (0)

struct T {
    struct cstl_rbtree rt;
    struct elem * pool;
    size_t npool, cap, nlive;
};

static void T_init(struct T * t, struct elem * pool, size_t cap)
{
    cstl_rbtree_init(&t->rt, cmp_elem, NULL, offsetof(struct elem, rn));
    t->pool = pool;
    t->cap = cap;
    t->npool = 0;
    t->nlive = 0;
}

static struct elem * elem_of(const struct cstl_bintree_node * bn)
{
    return (struct elem *)((char *)bn
                           - offsetof(struct cstl_rbtree_node, n)
                           - offsetof(struct elem, rn));
}

static size_t model_count(const struct T * t, int key)
{
    size_t i, n = 0;
    for (i = 0; i < t->npool; i++) {
        n += (t->pool[i].live && t->pool[i].key == key);
    }
    return n;
}

/* returns the black height of the subtree; counts nodes into *n */
static size_t validate_node(const struct T * t,
                            const struct cstl_bintree_node * bn,
                            const struct cstl_bintree_node * parent,
                            int have_lo, int lo, int have_hi, int hi,
                            size_t * n)
{
    struct elem * e;
    size_t hl, hr;

    if (bn == NULL) {
        return 1; /* a missing child counts as black */
    }
    e = elem_of(bn);
    CHECK(e >= t->pool && e < t->pool + t->npool);
    CHECK(&e->rn.n == bn);
    CHECK(e->live == 1);
    CHECK(e->mark == 0);            /* reachable once only */
    e->mark = 1;
    (*n)++;
    CHECK(bn->p == parent);         /* parent link points back */
    CHECK(e->rn.c == CSTL_RBTREE_COLOR_R || e->rn.c == CSTL_RBTREE_COLOR_B);
    if (parent == NULL) {
        CHECK(e->rn.c == CSTL_RBTREE_COLOR_B);  /* root is black */
    }
    if (e->rn.c == CSTL_RBTREE_COLOR_R) {
        CHECK(bn->l == NULL || elem_of(bn->l)->rn.c == CSTL_RBTREE_COLOR_B);
        CHECK(bn->r == NULL || elem_of(bn->r)->rn.c == CSTL_RBTREE_COLOR_B);
    }
    if (have_lo) {
        CHECK(e->key >= lo);
    }
    if (have_hi) {
        CHECK(e->key <= hi);
    }
    hl = validate_node(t, bn->l, bn, have_lo, lo, 1, e->key, n);
    hr = validate_node(t, bn->r, bn, 1, e->key, have_hi, hi, n);
    CHECK(hl == hr);                /* same number of blacks on every path */
    return hl + (e->rn.c == CSTL_RBTREE_COLOR_B);
}

static void validate(const struct T * t)
{
    size_t i, n = 0, mn, mx;

    for (i = 0; i < t->npool; i++) {
        t->pool[i].mark = 0;
    }
    (void)validate_node(t, t->rt.t.root, NULL, 0, 0, 0, 0, &n);
    CHECK(n == t->nlive);
    CHECK(cstl_rbtree_size(&t->rt) == t->nlive);
    for (i = 0; i < t->npool; i++) {
        CHECK(t->pool[i].mark == t->pool[i].live);
    }

    cstl_rbtree_height(&t->rt, &mn, &mx);
    if (n == 0) {
        CHECK(mn == 0 && mx == 0);
    } else {
        /* mx <= 2*log2(n+1)  <=>  2^mx <= (n+1)^2 */
        CHECK(mx < 60);
        CHECK(((unsigned long long)1 << mx)
              <= (unsigned long long)(n + 1) * (unsigned long long)(n + 1));
        CHECK(mn >= 1 && mn <= mx && mx <= 2 * mn);
    }
}

static void op_insert(struct T * t, int key, int hinted)
{
    struct elem * const e = &t->pool[t->npool];
    const void * par = NULL;

    CHECK(t->npool < t->cap);
    t->npool++;
    memset(e, 0, sizeof(*e));
    e->key = key;
    if (hinted) {
        (void)cstl_rbtree_find(&t->rt, e, &par);
    }
    cstl_rbtree_insert(&t->rt, e, (void *)par);
    e->live = 1;
    t->nlive++;
    validate(t);
}

static void op_erase(struct T * t, int key)
{
    struct elem probe, * got;
    const size_t had = model_count(t, key);

    probe.key = key;
    got = cstl_rbtree_erase(&t->rt, &probe);
    if (had == 0) {
        CHECK(got == NULL);
    } else {
        CHECK(got != NULL);
        CHECK(got >= t->pool && got < t->pool + t->npool);
        CHECK(got->live == 1 && got->key == key);
        got->live = 0;
        t->nlive--;
        /* the erased element is ours now */
        memset(&got->rn, 0x5a, sizeof(got->rn));
    }
    validate(t);
}

static void clear_cb(void * e, void * p)
{
    struct elem * const el = e;
    size_t * const n = p;
    CHECK(el->live == 1);
    el->live = 0;
    (*n)++;
}

static void op_clear(struct T * t)
{
    size_t n = 0;
    cstl_rbtree_clear(&t->rt, clear_cb, &n);
    CHECK(n == t->nlive);
    t->nlive = 0;
    validate(t);
}

/* --- all shapes of N inserts x all pairs of erased keys ------------------ */
#define NPERM 7

static void shapes_one(const int * perm, int n, int div)
{
    static struct elem pool[32];
    int i, j, k;

    for (i = 0; i < n; i++) {
        for (j = 0; j < n; j++) {
            struct T t;
            T_init(&t, pool, 32);
            for (k = 0; k < n; k++) {
                op_insert(&t, perm[k] / div, (k + i + j) & 1);
            }
            op_erase(&t, i / div);
            op_erase(&t, j / div);
            /* drain alternately from both ends */
            for (k = 0; k < n; k++) {
                op_erase(&t, ((k & 1) ? n - 1 - k / 2 : k / 2) / div);
            }
            for (k = 0; k < n; k++) {
                op_erase(&t, k / div);
            }
            CHECK(t.nlive == 0);
        }
    }
}

static void permute(int * perm, int at, int n)
{
    int i;
    if (at == n) {
        shapes_one(perm, n, 1);
        shapes_one(perm, n, 2);
        shapes_one(perm, n, 4);
        return;
    }
    for (i = at; i < n; i++) {
        int x = perm[at];
        perm[at] = perm[i];
        perm[i] = x;
        permute(perm, at + 1, n);
        x = perm[at];
        perm[at] = perm[i];
        perm[i] = x;
    }
}

/* --- exhaustive short histories ------------------------------------------- */
#define NKEYS 3
#define NOPS (3 * NKEYS)

static void exhaustive(int len)
{
    static struct elem pool[16];
    long n = 1, s;
    int i;

    for (i = 0; i < len; i++) {
        n *= NOPS;
    }
    for (s = 0; s < n; s++) {
        struct T t;
        long v = s;
        T_init(&t, pool, 16);
        for (i = 0; i < len; i++) {
            const int op = (int)(v % NOPS);
            v /= NOPS;
            if (op / NKEYS == 2) {
                op_erase(&t, op % NKEYS);
            } else {
                op_insert(&t, op % NKEYS, op / NKEYS);
            }
        }
        op_clear(&t);
    }
}

/* --- build a full tree, erase every key of it in turn --------------------- */
static void erase_each_from(int n, int step, int div)
{
    static struct elem pool[256];
    int victim, k;

    for (victim = 0; victim < n; victim++) {
        struct T t;
        T_init(&t, pool, 256);
        for (k = 0; k < n; k++) {
            op_insert(&t, ((k * step) % n) / div, k & 1);
        }
        op_erase(&t, victim / div);
        /* and keep going from there, walking outward from the victim */
        for (k = 1; k < n; k++) {
            op_erase(&t, ((victim + k) % n) / div);
        }
        CHECK(t.nlive == (size_t)0 || div > 1);
        op_clear(&t);
    }
}

/* --- seeded random histories ---------------------------------------------- */
static unsigned long rng;
static unsigned int rnd(void)
{
    rng = rng * 6364136223846793005UL + 1442695040888963407UL;
    return (unsigned int)(rng >> 33);
}

static void random_history(unsigned long seed, int nkeys, int steps, int bias)
{
    static struct elem pool[MAXE];
    struct T t;
    int i;

    rng = seed;
    T_init(&t, pool, MAXE);
    for (i = 0; i < steps && t.npool < MAXE; i++) {
        const unsigned int r = rnd() % 100;
        const int key = (int)(rnd() % (unsigned)nkeys);
        if (r < (unsigned)bias / 2) {
            op_insert(&t, key, 0);
        } else if (r < (unsigned)bias) {
            op_insert(&t, key, 1);
        } else {
            op_erase(&t, key);
        }
    }
    /* drain completely through erase */
    for (i = 0; i < nkeys; i++) {
        while (model_count(&t, i) > 0) {
            op_erase(&t, i);
        }
    }
    CHECK(t.nlive == 0);
    op_clear(&t);
}

/* --- drain trees of every small size in several orders -------------------- */
static void drain_orders(int maxn)
{
    static struct elem pool[128];
    int n, build, order, k;

    for (n = 1; n <= maxn; n++) {
        for (build = 0; build < 3; build++) {
            for (order = 0; order < 4; order++) {
                struct T t;
                T_init(&t, pool, 128);
                for (k = 0; k < n; k++) {
                    const int key = build == 0 ? k
                                    : build == 1 ? n - 1 - k
                                    : (k * 11) % n;
                    op_insert(&t, key, k & 1);
                }
                for (k = 0; k < n; k++) {
                    const int key = order == 0 ? k             /* min first */
                                    : order == 1 ? n - 1 - k   /* max first */
                                    : order == 2 ? ((k & 1) ? n - 1 - k / 2
                                                    : k / 2)   /* both ends */
                                    : (n / 2 + ((k & 1) ? -(k + 1) / 2
                                                : (k + 1) / 2) + n) % n;
                    op_erase(&t, key);
                }
                /* keys may repeat (n a multiple of 11) or be revisited: finish the job */
                for (k = 0; k < n; k++) {
                    do {
                        op_erase(&t, k);
                    } while (model_count(&t, k) > 0);
                }
                CHECK(t.nlive == 0);
                CHECK(t.rt.t.root == NULL);
            }
        }
    }
}

int main(void)
{
    int perm[NPERM], i;
    unsigned long seed;

    for (i = 0; i < NPERM; i++) {
        perm[i] = i;
    }
    permute(perm, 0, NPERM);
    exhaustive(6);
    drain_orders(48);
    erase_each_from(15, 1, 1);
    erase_each_from(31, 7, 1);
    erase_each_from(63, 1, 1);
    erase_each_from(64, 27, 1);
    erase_each_from(100, 37, 3);
    for (seed = 1; seed <= 5; seed++) {
        random_history(seed, 5, 2000, 55);          /* heavy duplication */
        random_history(seed + 100, 40, 2500, 60);
        random_history(seed + 200, 1000, 3000, 70); /* larger trees */
        random_history(seed + 300, 2, 800, 52);
    }
    printf("ok\n");
    return 0;
}
