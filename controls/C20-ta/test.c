/*
 * C20: bitwise-copied smart pointers are caught before they can double-free.
 *
 * Standalone test, public API only. Every "stray copy" call is made in a
 * forked child which must die with SIGABRT; the same call made on the
 * original (properly initialised) object is the control and must not abort.
 * Then long random histories of properly moved objects are checked against
 * a model (never abort, destructor called exactly once, values right), and
 * finally a multi-threaded share/lock/reset storm is run.
 */
#define _POSIX_C_SOURCE 200809L

#include <stdio.h>
#include <stdlib.h>
#include <string.h>
#include <stdint.h>
#include <signal.h>
#include <unistd.h>
#include <pthread.h>
#include <sched.h>
#include <time.h>
#include <sys/types.h>
#include <sys/wait.h>
#include <sys/resource.h>

#include "cstl/memory.h"
#include "cstl/array.h"

static int failures;

#define CHECK(c)                                                        \
    do {                                                                \
        if (!(c)) {                                                     \
            fprintf(stderr, "%s:%d: CHECK failed: %s\n",                \
                    __FILE__, __LINE__, #c);                            \
            failures++;                                                 \
        }                                                               \
    } while (0)

/* used inside forked children: a wrong value is reported as exit code 3 */
#define CCHECK(c)                                                       \
    do {                                                                \
        if (!(c)) {                                                     \
            fprintf(stderr, "%s:%d: child check failed: %s\n",          \
                    __FILE__, __LINE__, #c);                            \
            _exit(3);                                                   \
        }                                                               \
    } while (0)

/* ------------------------------------------------------------------ */
/* scenario parameters, set by the parent before fork()                 */

static int g_state;     /* object state, meaning depends on the type     */
static int g_mode;      /* 0: plain assignment, 1: memcpy, 2: relocation */
static int g_alt;       /* state of the other (proper) operand           */
static int g_ctl;       /* 1: control run, no stray copy is made         */

/*
 * make DST a bitwise copy of SRC. mode 2 moves the bytes through an
 * intermediate buffer and then wipes the original, i.e. the object has
 * been relocated the way realloc() or a struct copy would do it.
 */
#define STRAY(DST, SRC)                                                 \
    do {                                                                \
        if (g_mode == 0) {                                              \
            (DST) = (SRC);                                              \
        } else if (g_mode == 1) {                                       \
            memcpy(&(DST), &(SRC), sizeof(DST));                        \
        } else {                                                        \
            unsigned char bytes__[sizeof(DST)];                         \
            memcpy(bytes__, &(SRC), sizeof(DST));                       \
            memset(&(SRC), 0, sizeof(DST));                             \
            memmove(&(DST), bytes__, sizeof(DST));                      \
        }                                                               \
    } while (0)

static int clr_calls;
static void count_clr(void * const p, void * const priv)
{
    (void)p; (void)priv;
    clr_calls++;
}

/* ------------------------------------------------------------------ */
/* guarded pointers: state 0 NULL, 1 non-NULL                           */

static int g_target;

struct genv
{
    struct cstl_guarded_ptr pad0, gp, pad1, stray, fresh;
    struct cstl_guarded_ptr * S;
};

static void genv_make(struct genv * const e)
{
    cstl_guarded_ptr_init(&e->pad0);
    cstl_guarded_ptr_init(&e->pad1);
    if (g_state == 0) {
        cstl_guarded_ptr_init(&e->gp);
    } else {
        cstl_guarded_ptr_set(&e->gp, &g_target);
    }
    cstl_guarded_ptr_set(&e->fresh, g_alt ? (void *)&e->fresh : NULL);
    cstl_guarded_ptr_init(&e->stray);
    if (g_ctl) {
        e->S = &e->gp;
    } else {
        STRAY(e->stray, e->gp);
        e->S = &e->stray;
    }
}

static void g_get(void)
{
    struct genv e; genv_make(&e);
    CCHECK(cstl_guarded_ptr_get(e.S) == (g_state ? &g_target : NULL));
}
static void g_getc(void)
{
    struct genv e; genv_make(&e);
    CCHECK(cstl_guarded_ptr_get_const(e.S) == (g_state ? &g_target : NULL));
}
static void g_copy_src(void)
{
    struct genv e; genv_make(&e);
    cstl_guarded_ptr_copy(&e.fresh, e.S);
    CCHECK(cstl_guarded_ptr_get(&e.fresh) == (g_state ? &g_target : NULL));
}
static void g_swap1(void)
{
    struct genv e; genv_make(&e);
    cstl_guarded_ptr_swap(e.S, &e.fresh);
    CCHECK(cstl_guarded_ptr_get(&e.fresh) == (g_state ? &g_target : NULL));
}
static void g_swap2(void)
{
    struct genv e; genv_make(&e);
    cstl_guarded_ptr_swap(&e.fresh, e.S);
    CCHECK(cstl_guarded_ptr_get(&e.fresh) == (g_state ? &g_target : NULL));
}
static void g_swap_self(void)
{
    struct genv e; genv_make(&e);
    cstl_guarded_ptr_swap(e.S, e.S);
    CCHECK(cstl_guarded_ptr_get(e.S) == (g_state ? &g_target : NULL));
}

/* ------------------------------------------------------------------ */
/* unique pointers: state 0 empty, 1 owning                             */

struct uenv
{
    cstl_unique_ptr_t up, stray, fresh;
    cstl_unique_ptr_t * S;
};

static void uenv_make(struct uenv * const e)
{
    cstl_unique_ptr_init(&e->up);
    cstl_unique_ptr_init(&e->fresh);
    cstl_unique_ptr_init(&e->stray);
    if (g_state) {
        cstl_unique_ptr_alloc(&e->up, 40, count_clr, &g_target);
        CCHECK(cstl_unique_ptr_get(&e->up) != NULL);
    }
    if (g_alt) {
        cstl_unique_ptr_alloc(&e->fresh, 24, NULL, NULL);
    }
    if (g_ctl) {
        e->S = &e->up;
    } else {
        STRAY(e->stray, e->up);
        e->S = &e->stray;
    }
}

static void u_get(void)
{
    struct uenv e; uenv_make(&e);
    CCHECK((cstl_unique_ptr_get(e.S) != NULL) == (g_state != 0));
}
static void u_getc(void)
{
    struct uenv e; uenv_make(&e);
    CCHECK((cstl_unique_ptr_get_const(e.S) != NULL) == (g_state != 0));
}
static void u_release(void)
{
    struct uenv e; cstl_xtor_func_t * f = NULL; void * pv = NULL; void * p;
    uenv_make(&e);
    p = cstl_unique_ptr_release(e.S, &f, &pv);
    CCHECK((p != NULL) == (g_state != 0));
    CCHECK(f == (g_state ? count_clr : NULL));
    CCHECK(pv == (g_state ? (void *)&g_target : NULL));
    CCHECK(cstl_unique_ptr_get(e.S) == NULL);
    free(p);
}
static void u_release_null(void)
{
    struct uenv e; void * p;
    uenv_make(&e);
    p = cstl_unique_ptr_release(e.S, NULL, NULL);
    CCHECK((p != NULL) == (g_state != 0));
    free(p);
}
static void u_swap1(void)
{
    struct uenv e; uenv_make(&e);
    cstl_unique_ptr_swap(e.S, &e.fresh);
    CCHECK((cstl_unique_ptr_get(&e.fresh) != NULL) == (g_state != 0));
    CCHECK((cstl_unique_ptr_get(e.S) != NULL) == (g_alt != 0));
}
static void u_swap2(void)
{
    struct uenv e; uenv_make(&e);
    cstl_unique_ptr_swap(&e.fresh, e.S);
    CCHECK((cstl_unique_ptr_get(&e.fresh) != NULL) == (g_state != 0));
}
static void u_swap_self(void)
{
    struct uenv e; uenv_make(&e);
    cstl_unique_ptr_swap(e.S, e.S);
    CCHECK((cstl_unique_ptr_get(e.S) != NULL) == (g_state != 0));
}
static void u_reset(void)
{
    struct uenv e; uenv_make(&e);
    clr_calls = 0;
    cstl_unique_ptr_reset(e.S);
    CCHECK(clr_calls == g_state);
    CCHECK(cstl_unique_ptr_get(e.S) == NULL);
}
static void u_alloc(void)
{
    struct uenv e; uenv_make(&e);
    clr_calls = 0;
    cstl_unique_ptr_alloc(e.S, 16, NULL, NULL);
    CCHECK(clr_calls == g_state);
    CCHECK(cstl_unique_ptr_get(e.S) != NULL);
}
static void u_alloc0(void)
{
    struct uenv e; uenv_make(&e);
    cstl_unique_ptr_alloc(e.S, 0, NULL, NULL);
    CCHECK(cstl_unique_ptr_get(e.S) == NULL);
}

/* ------------------------------------------------------------------ */
/* shared pointers: state 0 empty, 1 sole owner, 2 shared with another  */
/* shared pointer, 3 owner with a weak pointer outstanding              */

struct senv
{
    cstl_shared_ptr_t sp, other, stray, fresh;
    cstl_weak_ptr_t wp, wfresh;
    cstl_shared_ptr_t * S;
};

static void senv_make(struct senv * const e)
{
    cstl_shared_ptr_init(&e->sp);
    cstl_shared_ptr_init(&e->other);
    cstl_shared_ptr_init(&e->stray);
    cstl_shared_ptr_init(&e->fresh);
    cstl_weak_ptr_init(&e->wp);
    cstl_weak_ptr_init(&e->wfresh);
    if (g_state >= 1) {
        cstl_shared_ptr_alloc(&e->sp, 64, count_clr);
        CCHECK(cstl_shared_ptr_get(&e->sp) != NULL);
        memset(cstl_shared_ptr_get(&e->sp), 0x5a, 64);
    }
    if (g_state == 2) {
        cstl_shared_ptr_share(&e->sp, &e->other);
    }
    if (g_state == 3) {
        cstl_weak_ptr_from(&e->wp, &e->sp);
    }
    if (g_alt) {
        cstl_shared_ptr_alloc(&e->fresh, 32, NULL);
        CCHECK(cstl_shared_ptr_get(&e->fresh) != NULL);
    }
    if (g_ctl) {
        e->S = &e->sp;
    } else {
        STRAY(e->stray, e->sp);
        e->S = &e->stray;
    }
}

static void s_alloc(void)
{
    struct senv e; senv_make(&e);
    clr_calls = 0;
    cstl_shared_ptr_alloc(e.S, 8, NULL);
    CCHECK(clr_calls == (g_state == 1 || g_state == 3));
    CCHECK(cstl_shared_ptr_get(e.S) != NULL);
}
static void s_unique(void)
{
    struct senv e; senv_make(&e);
    CCHECK(cstl_shared_ptr_unique(e.S) == (g_state < 2));
}
static void s_get(void)
{
    struct senv e; senv_make(&e);
    CCHECK((cstl_shared_ptr_get(e.S) != NULL) == (g_state != 0));
}
static void s_getc(void)
{
    struct senv e; senv_make(&e);
    CCHECK((cstl_shared_ptr_get_const(e.S) != NULL) == (g_state != 0));
}
static void s_share_ex(void)
{
    struct senv e; senv_make(&e);
    cstl_shared_ptr_share(e.S, &e.fresh);
    CCHECK(cstl_shared_ptr_get(&e.fresh) == cstl_shared_ptr_get(e.S));
    CCHECK(cstl_shared_ptr_unique(e.S) == (g_state == 0));
}
static void s_share_n(void)
{
    struct senv e; senv_make(&e);
    clr_calls = 0;
    cstl_shared_ptr_share(&e.fresh, e.S);
    CCHECK(clr_calls == (g_state == 1 || g_state == 3));
    CCHECK(cstl_shared_ptr_get(&e.fresh) == cstl_shared_ptr_get(e.S));
}
static void s_share_self(void)
{
    /* not meaningful on a proper object (it would be released first) */
    struct senv e; senv_make(&e);
    if (!g_ctl || g_state == 0) {
        cstl_shared_ptr_share(e.S, e.S);
    }
}
static void s_swap1(void)
{
    struct senv e; senv_make(&e);
    cstl_shared_ptr_swap(e.S, &e.fresh);
    CCHECK((cstl_shared_ptr_get(&e.fresh) != NULL) == (g_state != 0));
    CCHECK((cstl_shared_ptr_get(e.S) != NULL) == (g_alt != 0));
}
static void s_swap2(void)
{
    struct senv e; senv_make(&e);
    cstl_shared_ptr_swap(&e.fresh, e.S);
    CCHECK((cstl_shared_ptr_get(&e.fresh) != NULL) == (g_state != 0));
}
static void s_swap_self(void)
{
    struct senv e; senv_make(&e);
    cstl_shared_ptr_swap(e.S, e.S);
    CCHECK((cstl_shared_ptr_get(e.S) != NULL) == (g_state != 0));
}
static void s_reset(void)
{
    struct senv e; senv_make(&e);
    clr_calls = 0;
    cstl_shared_ptr_reset(e.S);
    CCHECK(clr_calls == (g_state == 1 || g_state == 3));
    CCHECK(cstl_shared_ptr_get(e.S) == NULL);
    if (g_state == 2) {
        CCHECK(cstl_shared_ptr_unique(&e.other));
        CCHECK(*(unsigned char *)cstl_shared_ptr_get(&e.other) == 0x5a);
    }
}
static void s_weak_from(void)
{
    /* the stray shared pointer is the source of a new weak pointer */
    struct senv e; senv_make(&e);
    cstl_weak_ptr_from(&e.wfresh, e.S);
    cstl_weak_ptr_lock(&e.wfresh, &e.other);
    CCHECK(cstl_shared_ptr_get(&e.other) == cstl_shared_ptr_get(e.S));
}
static void s_lock_into(void)
{
    /* the stray shared pointer is the destination of a lock */
    struct senv e; senv_make(&e);
    cstl_weak_ptr_lock(&e.wp, e.S);
    /* a proper destination is released first, so the lock finds nothing */
    CCHECK(cstl_shared_ptr_get(e.S) == NULL);
}

/* ------------------------------------------------------------------ */
/* weak pointers: state 0 empty, 1 live (a shared pointer exists),      */
/* 2 weak-only (the memory is gone, the control block is not)           */

struct wenv
{
    cstl_shared_ptr_t sp, fresh;
    cstl_weak_ptr_t wp, stray, wfresh;
    cstl_weak_ptr_t * W;
};

static void wenv_make(struct wenv * const e)
{
    cstl_shared_ptr_init(&e->sp);
    cstl_shared_ptr_init(&e->fresh);
    cstl_weak_ptr_init(&e->wp);
    cstl_weak_ptr_init(&e->stray);
    cstl_weak_ptr_init(&e->wfresh);
    if (g_state >= 1) {
        cstl_shared_ptr_alloc(&e->sp, 48, count_clr);
        CCHECK(cstl_shared_ptr_get(&e->sp) != NULL);
        cstl_weak_ptr_from(&e->wp, &e->sp);
    }
    if (g_state == 2) {
        cstl_shared_ptr_reset(&e->sp);
    }
    if (g_alt) {
        cstl_shared_ptr_alloc(&e->fresh, 32, NULL);
        cstl_weak_ptr_from(&e->wfresh, &e->fresh);
    }
    if (g_ctl) {
        e->W = &e->wp;
    } else {
        STRAY(e->stray, e->wp);
        e->W = &e->stray;
    }
}

static void w_from_dst(void)
{
    struct wenv e; wenv_make(&e);
    cstl_weak_ptr_from(e.W, &e.fresh);
    cstl_weak_ptr_lock(e.W, &e.sp);
    CCHECK(cstl_shared_ptr_get(&e.sp) == cstl_shared_ptr_get(&e.fresh));
}
static void w_lock_src(void)
{
    struct wenv e; wenv_make(&e);
    cstl_weak_ptr_lock(e.W, &e.fresh);
    CCHECK((cstl_shared_ptr_get(&e.fresh) != NULL) == (g_state == 1));
    if (g_state == 1) {
        CCHECK(cstl_shared_ptr_get(&e.fresh) == cstl_shared_ptr_get(&e.sp));
    }
}
static void w_swap1(void)
{
    struct wenv e; wenv_make(&e);
    cstl_weak_ptr_swap(e.W, &e.wfresh);
    cstl_weak_ptr_lock(&e.wfresh, &e.fresh);
    CCHECK((cstl_shared_ptr_get(&e.fresh) != NULL) == (g_state == 1));
}
static void w_swap2(void)
{
    struct wenv e; wenv_make(&e);
    cstl_weak_ptr_swap(&e.wfresh, e.W);
    cstl_weak_ptr_lock(&e.wfresh, &e.fresh);
    CCHECK((cstl_shared_ptr_get(&e.fresh) != NULL) == (g_state == 1));
}
static void w_swap_self(void)
{
    struct wenv e; wenv_make(&e);
    cstl_weak_ptr_swap(e.W, e.W);
}
static void w_reset(void)
{
    struct wenv e; wenv_make(&e);
    cstl_weak_ptr_reset(e.W);
    cstl_weak_ptr_lock(e.W, &e.fresh);
    CCHECK(cstl_shared_ptr_get(&e.fresh) == NULL);
    if (g_state == 1) {
        CCHECK(cstl_shared_ptr_unique(&e.sp));
    }
}
static void w_unique(void)
{
    /* same type as a shared pointer: the query reads the pointer */
    struct wenv e; wenv_make(&e);
    (void)cstl_shared_ptr_unique(e.W);
}

/* ------------------------------------------------------------------ */
/* arrays: state 0 empty, 1 owning, 2 a slice of memory also referred   */
/* to by another array object, 3 externally supplied buffer             */

static int * g_ext, * g_ext2;   /* heap buffers handed to cstl_array_set() */

struct aenv
{
    cstl_array_t arr, other, stray, fresh, src;
    cstl_array_t * S;
};

static void aenv_make(struct aenv * const e)
{
    size_t i;

    cstl_array_init(&e->arr);
    cstl_array_init(&e->other);
    cstl_array_init(&e->stray);
    cstl_array_init(&e->fresh);
    cstl_array_init(&e->src);

    g_ext = malloc(10 * sizeof(int));
    g_ext2 = malloc(8 * sizeof(int));
    CCHECK(g_ext != NULL && g_ext2 != NULL);
    for (i = 0; i < 10; i++) {
        g_ext[i] = 1000 + (int)i;
    }
    cstl_array_alloc(&e->src, 5, sizeof(int));
    CCHECK(cstl_array_size(&e->src) == 5);

    if (g_state == 1 || g_state == 2) {
        cstl_array_alloc(&e->arr, 10, sizeof(int));
        CCHECK(cstl_array_size(&e->arr) == 10);
        for (i = 0; i < 10; i++) {
            *(int *)cstl_array_at(&e->arr, i) = 3 * (int)i;
        }
    } else if (g_state == 3) {
        cstl_array_set(&e->arr, g_ext, 10, sizeof(int));
        CCHECK(cstl_array_size(&e->arr) == 10);
    }
    if (g_state == 2) {
        cstl_array_slice(&e->arr, 2, 8, &e->other);
        cstl_array_slice(&e->arr, 1, 9, &e->arr);
        CCHECK(cstl_array_size(&e->arr) == 8);
        CCHECK(cstl_array_size(&e->other) == 6);
    }
    if (g_alt) {
        cstl_array_alloc(&e->fresh, 6, sizeof(short));
    }
    if (g_ctl) {
        e->S = &e->arr;
    } else {
        STRAY(e->stray, e->arr);
        e->S = &e->stray;
    }
}

static int a_first(void)
{
    return g_state == 1 ? 0 : g_state == 2 ? 3 : 1000;
}

static void a_alloc(void)
{
    struct aenv e; aenv_make(&e);
    cstl_array_alloc(e.S, 4, 4);
    CCHECK(cstl_array_size(e.S) == 4);
}
static void a_alloc_ovf(void)
{
    struct aenv e; aenv_make(&e);
    cstl_array_alloc(e.S, SIZE_MAX, 8);
    CCHECK(cstl_array_size(e.S) == 0);
    CCHECK(cstl_array_data(e.S) == NULL);
}
static void a_set(void)
{
    struct aenv e; void * p = NULL; aenv_make(&e);
    cstl_array_set(e.S, g_ext2, 8, sizeof(int));
    CCHECK(cstl_array_size(e.S) == 8);
    CCHECK(cstl_array_data(e.S) == g_ext2);
    cstl_array_release(e.S, &p);
    CCHECK(p == g_ext2);
}
static void a_release(void)
{
    struct aenv e; void * p = &e; aenv_make(&e);
    cstl_array_release(e.S, &p);
    CCHECK(p == (g_state == 3 ? (void *)g_ext : NULL));
    CCHECK(cstl_array_size(e.S)
           == (size_t)(g_state == 1 ? 10 : g_state == 2 ? 8 : 0));
}
static void a_release_null(void)
{
    struct aenv e; aenv_make(&e);
    cstl_array_release(e.S, NULL);
}
static void a_data(void)
{
    struct aenv e; aenv_make(&e);
    if (g_state == 3) {
        CCHECK(cstl_array_data(e.S) == g_ext);
    } else {
        CCHECK((cstl_array_data(e.S) != NULL) == (g_state != 0));
    }
}
static void a_datac(void)
{
    struct aenv e; aenv_make(&e);
    CCHECK((cstl_array_data_const(e.S) != NULL) == (g_state != 0));
}
static void a_at(void)
{
    struct aenv e; aenv_make(&e);
    CCHECK(*(int *)cstl_array_at(e.S, 0) == a_first());
}
static void a_atc(void)
{
    struct aenv e; aenv_make(&e);
    CCHECK(*(const int *)cstl_array_at_const(e.S, 0) == a_first());
}
static void a_at_last(void)
{
    struct aenv e; size_t n; aenv_make(&e);
    n = cstl_array_size(e.S);       /* size never looks at the pointer */
    CCHECK(n == (size_t)(g_state == 0 ? 0 : g_state == 2 ? 8 : 10));
    CCHECK(*(int *)cstl_array_at(e.S, n - 1)
           == a_first() + (int)(n - 1) * (g_state == 3 ? 1 : 3));
}
static void a_slice_src(void)
{
    struct aenv e; aenv_make(&e);
    cstl_array_slice(e.S, 0, 1, &e.fresh);
    CCHECK(cstl_array_size(&e.fresh) == 1);
    CCHECK(*(int *)cstl_array_at(&e.fresh, 0) == a_first());
}
static void a_slice_dst(void)
{
    struct aenv e; aenv_make(&e);
    cstl_array_slice(&e.src, 1, 3, e.S);
    CCHECK(cstl_array_size(e.S) == 2);
    CCHECK(cstl_array_at(e.S, 0) == cstl_array_at(&e.src, 1));
}
static void a_slice_self(void)
{
    struct aenv e; aenv_make(&e);
    cstl_array_slice(e.S, 1, 2, e.S);
    CCHECK(cstl_array_size(e.S) == 1);
}
static void a_slice_empty(void)
{
    /* an empty slice of a non-empty array still goes through the pointer */
    struct aenv e; aenv_make(&e);
    cstl_array_slice(e.S, 0, 0, &e.fresh);
    CCHECK(cstl_array_size(&e.fresh) == 0);
}
static void a_unslice_src(void)
{
    struct aenv e; aenv_make(&e);
    cstl_array_unslice(e.S, &e.fresh);
    CCHECK(cstl_array_size(&e.fresh) == 10);
    CCHECK(*(int *)cstl_array_at(&e.fresh, 0) == (g_state == 3 ? 1000 : 0));
}
static void a_unslice_dst(void)
{
    struct aenv e; aenv_make(&e);
    cstl_array_unslice(&e.src, e.S);
    CCHECK(cstl_array_size(e.S) == 5);
    CCHECK(cstl_array_data(e.S) == cstl_array_data(&e.src));
}
static void a_unslice_self(void)
{
    struct aenv e; aenv_make(&e);
    cstl_array_unslice(e.S, e.S);
    CCHECK(cstl_array_size(e.S) == 10);
}
static void a_reset(void)
{
    struct aenv e; aenv_make(&e);
    cstl_array_reset(e.S);
    CCHECK(cstl_array_size(e.S) == 0);
    CCHECK(cstl_array_data(e.S) == NULL);
    if (g_state == 2) {
        CCHECK(*(int *)cstl_array_at(&e.other, 0) == 6);
    }
}

/* ------------------------------------------------------------------ */
/* the runner                                                           */

/* 1: died with SIGABRT, 0: exit(0), anything else: unexpected */
static int run_child(void (* const fn)(void))
{
    int status = 0;
    pid_t pid;

    fflush(NULL);
    pid = fork();
    if (pid < 0) {
        perror("fork");
        exit(2);
    }
    if (pid == 0) {
        struct rlimit rl;
        rl.rlim_cur = rl.rlim_max = 0;
        setrlimit(RLIMIT_CORE, &rl);
        fn();
        _exit(0);
    }
    if (waitpid(pid, &status, 0) != pid) {
        perror("waitpid");
        exit(2);
    }
    if (WIFSIGNALED(status)) {
        return WTERMSIG(status) == SIGABRT ? 1 : -WTERMSIG(status);
    }
    return WEXITSTATUS(status) == 0 ? 0 : 100 + WEXITSTATUS(status);
}

struct scen
{
    void (* fn)(void);
    const char * name;
    int nstates;
    unsigned inherent;  /* bit s: the call aborts in state s even when
                           made on a proper object (documented abort)  */
};

#define SC(f, n, inh) { f, #f, n, inh }

static const struct scen scens[] = {
    SC(g_get, 2, 0), SC(g_getc, 2, 0), SC(g_copy_src, 2, 0),
    SC(g_swap1, 2, 0), SC(g_swap2, 2, 0), SC(g_swap_self, 2, 0),

    SC(u_get, 2, 0), SC(u_getc, 2, 0), SC(u_release, 2, 0),
    SC(u_release_null, 2, 0), SC(u_swap1, 2, 0), SC(u_swap2, 2, 0),
    SC(u_swap_self, 2, 0), SC(u_reset, 2, 0), SC(u_alloc, 2, 0),
    SC(u_alloc0, 2, 0),

    SC(s_alloc, 4, 0), SC(s_unique, 4, 0), SC(s_get, 4, 0),
    SC(s_getc, 4, 0), SC(s_share_ex, 4, 0), SC(s_share_n, 4, 0),
    SC(s_share_self, 4, 0), SC(s_swap1, 4, 0), SC(s_swap2, 4, 0),
    SC(s_swap_self, 4, 0), SC(s_reset, 4, 0), SC(s_weak_from, 4, 0),
    SC(s_lock_into, 4, 0),

    SC(w_from_dst, 3, 0), SC(w_lock_src, 3, 0), SC(w_swap1, 3, 0),
    SC(w_swap2, 3, 0), SC(w_swap_self, 3, 0), SC(w_reset, 3, 0),
    SC(w_unique, 3, 0),

    SC(a_alloc, 4, 0), SC(a_alloc_ovf, 4, 0), SC(a_set, 4, 0),
    SC(a_release, 4, 0), SC(a_release_null, 4, 0),
    SC(a_data, 4, 0), SC(a_datac, 4, 0),
    SC(a_at, 4, 1), SC(a_atc, 4, 1), SC(a_at_last, 4, 1),
    SC(a_slice_src, 4, 1), SC(a_slice_dst, 4, 0), SC(a_slice_self, 4, 1),
    SC(a_slice_empty, 4, 1),
    SC(a_unslice_src, 4, 1), SC(a_unslice_dst, 4, 0),
    SC(a_unslice_self, 4, 1), SC(a_reset, 4, 0),
};

static unsigned long n_forks;

static void run_matrix(void)
{
    size_t i;

    for (i = 0; i < sizeof(scens) / sizeof(*scens); i++) {
        const struct scen * const sc = &scens[i];

        for (g_state = 0; g_state < sc->nstates; g_state++) {
            for (g_alt = 0; g_alt < 2; g_alt++) {
                int r, want;

                /* control: the very same call on the original object */
                g_ctl = 1; g_mode = 0;
                want = (sc->inherent >> g_state) & 1;
                r = run_child(sc->fn);
                n_forks++;
                if (r != want) {
                    fprintf(stderr,
                            "control %s state %d alt %d: got %d want %d\n",
                            sc->name, g_state, g_alt, r, want);
                    failures++;
                }

                /* the call on a stray copy must abort */
                g_ctl = 0;
                for (g_mode = 0; g_mode < 3; g_mode++) {
                    r = run_child(sc->fn);
                    n_forks++;
                    if (r != 1) {
                        fprintf(stderr,
                                "stray %s state %d alt %d mode %d: "
                                "no abort (%d)\n",
                                sc->name, g_state, g_alt, g_mode, r);
                        failures++;
                    }
                }
            }
        }
    }
}

/* ------------------------------------------------------------------ */
/* objects set up with the static initialiser macros                    */
/* state: 0 guarded, 1 unique, 2 shared, 3 weak, 4 array                */

static DECLARE_CSTL_GUARDED_PTR(st_gp);
static DECLARE_CSTL_UNIQUE_PTR(st_up);
static DECLARE_CSTL_SHARED_PTR(st_sp);
static DECLARE_CSTL_WEAK_PTR(st_wp);
static DECLARE_CSTL_ARRAY(st_arr);

static void t_static(void)
{
    DECLARE_CSTL_SHARED_PTR(tmp);

    if (g_alt) {
        /* give the objects something to own */
        cstl_guarded_ptr_set(&st_gp, &g_target);
        cstl_unique_ptr_alloc(&st_up, 8, count_clr, NULL);
        cstl_shared_ptr_alloc(&st_sp, 8, count_clr);
        cstl_weak_ptr_from(&st_wp, &st_sp);
        cstl_array_alloc(&st_arr, 3, 5);
    }

    switch (g_state) {
    case 0: {
        struct cstl_guarded_ptr c, * S = &st_gp;
        if (!g_ctl) { STRAY(c, st_gp); S = &c; }
        CCHECK(cstl_guarded_ptr_get(S) == (g_alt ? &g_target : NULL));
        break;
    }
    case 1: {
        cstl_unique_ptr_t c, * S = &st_up;
        if (!g_ctl) { STRAY(c, st_up); S = &c; }
        cstl_unique_ptr_reset(S);
        CCHECK(cstl_unique_ptr_get(S) == NULL);
        break;
    }
    case 2: {
        cstl_shared_ptr_t c, * S = &st_sp;
        if (!g_ctl) { STRAY(c, st_sp); S = &c; }
        cstl_shared_ptr_share(S, &tmp);
        CCHECK((cstl_shared_ptr_get(&tmp) != NULL) == (g_alt != 0));
        break;
    }
    case 3: {
        cstl_weak_ptr_t c, * S = &st_wp;
        if (!g_ctl) { STRAY(c, st_wp); S = &c; }
        cstl_weak_ptr_lock(S, &tmp);
        CCHECK((cstl_shared_ptr_get(&tmp) != NULL) == (g_alt != 0));
        break;
    }
    default: {
        cstl_array_t c, * S = &st_arr;
        if (!g_ctl) { STRAY(c, st_arr); S = &c; }
        CCHECK((cstl_array_data(S) != NULL) == (g_alt != 0));
        cstl_array_reset(S);
        break;
    }
    }
}

/* ------------------------------------------------------------------ */
/* the original keeps working while stray copies of it lie around, and  */
/* a stray that is (re)initialised becomes an ordinary object           */

static void t_original(void)
{
    struct cstl_guarded_ptr gp, gc, g2;
    cstl_unique_ptr_t up, uc, u2;
    cstl_shared_ptr_t sp, sc, s2;
    cstl_weak_ptr_t wp, wc;
    cstl_array_t ar, ac, a2;
    cstl_xtor_func_t * f; void * pv; void * p;
    int round;

    cstl_guarded_ptr_init(&gp); cstl_guarded_ptr_init(&g2);
    cstl_unique_ptr_init(&up); cstl_unique_ptr_init(&u2);
    cstl_shared_ptr_init(&sp); cstl_shared_ptr_init(&s2);
    cstl_weak_ptr_init(&wp);
    cstl_array_init(&ar); cstl_array_init(&a2);

    for (round = 0; round < 4; round++) {
        /* round 0/2: copies of empty objects, 1/3: of owning objects */
        if (round & 1) {
            cstl_guarded_ptr_set(&gp, &g_target);
            cstl_unique_ptr_alloc(&up, 16, count_clr, &round);
            cstl_shared_ptr_alloc(&sp, 16, count_clr);
            cstl_weak_ptr_from(&wp, &sp);
            cstl_array_alloc(&ar, 7, sizeof(long));
        } else {
            cstl_guarded_ptr_init(&gp);
        }

        STRAY(gc, gp); STRAY(uc, up); STRAY(sc, sp);
        STRAY(wc, wp); STRAY(ac, ar);

        /* originals: every function, repeatedly */
        CCHECK(cstl_guarded_ptr_get(&gp) == ((round & 1) ? &g_target : NULL));
        cstl_guarded_ptr_copy(&g2, &gp);
        cstl_guarded_ptr_swap(&g2, &gp);
        cstl_guarded_ptr_swap(&gp, &gp);
        CCHECK(cstl_guarded_ptr_get_const(&gp) == cstl_guarded_ptr_get(&g2));

        CCHECK((cstl_unique_ptr_get(&up) != NULL) == (round & 1));
        cstl_unique_ptr_swap(&up, &u2);
        CCHECK(cstl_unique_ptr_get(&up) == NULL);
        cstl_unique_ptr_swap(&u2, &up);
        CCHECK(cstl_unique_ptr_get_const(&u2) == NULL);
        clr_calls = 0;
        if (round == 1) {
            p = cstl_unique_ptr_release(&up, &f, &pv);
            CCHECK(p != NULL && f == count_clr && pv == &round);
            free(p);
        } else {
            cstl_unique_ptr_reset(&up);
            CCHECK(clr_calls == (round == 3));
        }
        cstl_unique_ptr_alloc(&up, SIZE_MAX / 2, count_clr, NULL);
        CCHECK(cstl_unique_ptr_get(&up) == NULL);

        CCHECK(cstl_shared_ptr_unique(&sp) == !(round & 1));
        cstl_shared_ptr_share(&sp, &s2);
        CCHECK(cstl_shared_ptr_get(&sp) == cstl_shared_ptr_get_const(&s2));
        cstl_shared_ptr_swap(&sp, &s2);
        cstl_shared_ptr_reset(&s2);
        cstl_weak_ptr_lock(&wp, &s2);
        CCHECK(cstl_shared_ptr_get(&sp) == cstl_shared_ptr_get(&s2));
        cstl_weak_ptr_swap(&wp, &wp);
        clr_calls = 0;
        cstl_shared_ptr_reset(&s2);
        cstl_shared_ptr_reset(&sp);
        CCHECK(clr_calls == (round & 1));
        cstl_weak_ptr_lock(&wp, &s2);
        CCHECK(cstl_shared_ptr_get(&s2) == NULL);
        cstl_weak_ptr_reset(&wp);
        cstl_shared_ptr_alloc(&sp, SIZE_MAX / 2, count_clr);
        CCHECK(cstl_shared_ptr_get(&sp) == NULL);

        CCHECK(cstl_array_size(&ar) == (size_t)((round & 1) ? 7 : 0));
        if (round & 1) {
            *(long *)cstl_array_at(&ar, 6) = 77;
            cstl_array_slice(&ar, 5, 7, &a2);
            CCHECK(*(const long *)cstl_array_at_const(&a2, 1) == 77);
            cstl_array_unslice(&a2, &a2);
            CCHECK(cstl_array_data(&a2) == cstl_array_data_const(&ar));
            cstl_array_release(&ar, &p);
            CCHECK(p == NULL && cstl_array_size(&ar) == 7);
        }
        cstl_array_reset(&a2);
        cstl_array_reset(&ar);
        CCHECK(cstl_array_data(&ar) == NULL);

        if (round >= 2) {
            /*
             * the strays are dangling by now. initialising them makes
             * them ordinary objects again: no abort from here on.
             */
            cstl_guarded_ptr_init(&gc);
            cstl_unique_ptr_init(&uc);
            cstl_shared_ptr_init(&sc);
            cstl_weak_ptr_init(&wc);
            cstl_array_init(&ac);

            CCHECK(cstl_guarded_ptr_get(&gc) == NULL);
            cstl_guarded_ptr_set(&gc, &round);
            CCHECK(cstl_guarded_ptr_get(&gc) == &round);
            cstl_unique_ptr_alloc(&uc, 8, NULL, NULL);
            CCHECK(cstl_unique_ptr_get(&uc) != NULL);
            cstl_unique_ptr_reset(&uc);
            cstl_shared_ptr_alloc(&sc, 8, NULL);
            cstl_weak_ptr_from(&wc, &sc);
            CCHECK(!cstl_shared_ptr_unique(&sc));
            cstl_weak_ptr_reset(&wc);
            CCHECK(cstl_shared_ptr_unique(&sc));
            cstl_shared_ptr_reset(&sc);
            cstl_array_alloc(&ac, 2, 2);
            CCHECK(cstl_array_size(&ac) == 2);
            cstl_array_reset(&ac);
        } else {
            /* a copy made by the library overwrites a stray destination */
            cstl_guarded_ptr_copy(&gc, &gp);
            CCHECK(cstl_guarded_ptr_get(&gc) == cstl_guarded_ptr_get(&gp));
        }
    }
}

/* ------------------------------------------------------------------ */
/* random histories of properly moved objects, checked against a model  */

static unsigned long rng_state = 88172645463325252UL;
static unsigned rnd(const unsigned n)
{
    rng_state ^= rng_state << 13;
    rng_state ^= rng_state >> 7;
    rng_state ^= rng_state << 17;
    return (unsigned)((rng_state >> 11) % n);
}

#define NS 6
#define NW 4
#define NU 4
#define NA 5
#define MAXOBJ 200000

struct payload { int id; unsigned magic; };

static struct { int nshared, nweak, clr; void * mem; } sobj[MAXOBJ];
static int n_sobj;
static int model_clr_total, real_clr_total;

static cstl_shared_ptr_t m_sp[NS];
static cstl_weak_ptr_t m_wp[NW];
static int m_sid[NS], m_wid[NW];

static void model_clr(void * const p, void * const priv)
{
    const struct payload * const pl = p;
    CHECK(priv == NULL);
    CHECK(pl->magic == 0xfeedbeefu);
    CHECK(pl->id >= 0 && pl->id < n_sobj);
    sobj[pl->id].clr++;
    real_clr_total++;
}

static void m_drop_shared(const int i)
{
    const int id = m_sid[i];
    if (id >= 0) {
        if (--sobj[id].nshared == 0) {
            model_clr_total++;
        }
        m_sid[i] = -1;
    }
}

static void m_drop_weak(const int i)
{
    if (m_wid[i] >= 0) {
        sobj[m_wid[i]].nweak--;
        m_wid[i] = -1;
    }
}

static void m_verify_shared(void)
{
    int i;

    for (i = 0; i < NS; i++) {
        const int id = m_sid[i];
        if (id < 0) {
            CHECK(cstl_shared_ptr_get(&m_sp[i]) == NULL);
            CHECK(cstl_shared_ptr_unique(&m_sp[i]));
        } else {
            const struct payload * const pl =
                cstl_shared_ptr_get_const(&m_sp[i]);
            CHECK(pl == sobj[id].mem);
            CHECK(pl != NULL && pl->id == id);
            CHECK(sobj[id].clr == 0);
            CHECK(cstl_shared_ptr_unique(&m_sp[i])
                  == (sobj[id].nshared + sobj[id].nweak == 1));
        }
    }
    CHECK(model_clr_total == real_clr_total);
}

static void m_shared_step(void)
{
    const int i = rnd(NS), j = rnd(NS), w = rnd(NW), v = rnd(NW);

    switch (rnd(12)) {
    case 0: {
        struct payload * pl;
        m_drop_shared(i);
        if (rnd(8) == 0) {
            /* an allocation that cannot succeed leaves it empty */
            cstl_shared_ptr_alloc(&m_sp[i], SIZE_MAX / 2, model_clr);
            CHECK(cstl_shared_ptr_get(&m_sp[i]) == NULL);
            break;
        }
        cstl_shared_ptr_alloc(&m_sp[i], sizeof(*pl) + rnd(64), model_clr);
        pl = cstl_shared_ptr_get(&m_sp[i]);
        CHECK(pl != NULL && n_sobj < MAXOBJ);
        if (pl == NULL || n_sobj >= MAXOBJ) {
            exit(1);
        }
        pl->id = n_sobj; pl->magic = 0xfeedbeefu;
        sobj[n_sobj].nshared = 1; sobj[n_sobj].nweak = 0;
        sobj[n_sobj].clr = 0; sobj[n_sobj].mem = pl;
        m_sid[i] = n_sobj++;
        break;
    }
    case 1: case 2:
        if (i != j) {
            const int id = m_sid[i];
            m_drop_shared(j);
            m_sid[j] = id;
            if (id >= 0) {
                sobj[id].nshared++;
            }
        } else {
            /* sharing with itself releases the object first */
            m_drop_shared(i);
        }
        cstl_shared_ptr_share(&m_sp[i], &m_sp[j]);
        break;
    case 3: {
        const int t = m_sid[i]; m_sid[i] = m_sid[j]; m_sid[j] = t;
        cstl_shared_ptr_swap(&m_sp[i], &m_sp[j]);
        break;
    }
    case 4:
        m_drop_shared(i);
        cstl_shared_ptr_reset(&m_sp[i]);
        break;
    case 5: case 6:
        m_drop_weak(w);
        m_wid[w] = m_sid[i];
        if (m_sid[i] >= 0) {
            sobj[m_sid[i]].nweak++;
        }
        cstl_weak_ptr_from(&m_wp[w], &m_sp[i]);
        break;
    case 7: case 8:
        m_drop_shared(i);
        if (m_wid[w] >= 0 && sobj[m_wid[w]].nshared > 0) {
            m_sid[i] = m_wid[w];
            sobj[m_wid[w]].nshared++;
        }
        cstl_weak_ptr_lock(&m_wp[w], &m_sp[i]);
        break;
    case 9: {
        const int t = m_wid[w]; m_wid[w] = m_wid[v]; m_wid[v] = t;
        cstl_weak_ptr_swap(&m_wp[w], &m_wp[v]);
        break;
    }
    case 10:
        m_drop_weak(w);
        cstl_weak_ptr_reset(&m_wp[w]);
        break;
    default:
        /* re-initialising an EMPTY object in place is always allowed */
        if (m_sid[i] < 0) {
            cstl_shared_ptr_init(&m_sp[i]);
        }
        if (m_wid[w] < 0) {
            cstl_weak_ptr_init(&m_wp[w]);
        }
        break;
    }
    m_verify_shared();
}

/* unique pointers */
static cstl_unique_ptr_t m_up[NU];
static struct { void * mem; long tag; } m_uo[NU];
static long u_tag, u_clr_seen;

static void uniq_clr(void * const p, void * const priv)
{
    CHECK(*(long *)p == (long)(intptr_t)priv);
    u_clr_seen++;
}

static void m_unique_step(void)
{
    const int i = rnd(NU), j = rnd(NU);
    const long before = u_clr_seen;
    long want = 0;

    switch (rnd(6)) {
    case 0: case 1:
        want = m_uo[i].mem != NULL;
        if (rnd(6) == 0) {
            cstl_unique_ptr_alloc(&m_up[i], SIZE_MAX / 2, uniq_clr, NULL);
            m_uo[i].mem = NULL; m_uo[i].tag = 0;
            CHECK(cstl_unique_ptr_get(&m_up[i]) == NULL);
        } else {
            u_tag++;
            cstl_unique_ptr_alloc(&m_up[i], sizeof(long) + rnd(40),
                                  uniq_clr, (void *)(intptr_t)u_tag);
            m_uo[i].mem = cstl_unique_ptr_get(&m_up[i]);
            CHECK(m_uo[i].mem != NULL);
            if (m_uo[i].mem == NULL) {
                exit(1);
            }
            *(long *)m_uo[i].mem = u_tag;
            m_uo[i].tag = u_tag;
        }
        break;
    case 2: {
        void * const m = m_uo[i].mem; const long t = m_uo[i].tag;
        m_uo[i] = m_uo[j]; m_uo[j].mem = m; m_uo[j].tag = t;
        cstl_unique_ptr_swap(&m_up[i], &m_up[j]);
        break;
    }
    case 3:
        want = m_uo[i].mem != NULL;
        cstl_unique_ptr_reset(&m_up[i]);
        m_uo[i].mem = NULL; m_uo[i].tag = 0;
        break;
    case 4: {
        cstl_xtor_func_t * f = uniq_clr; void * pv = &f;
        void * const p = cstl_unique_ptr_release(&m_up[i], &f, &pv);
        CHECK(p == m_uo[i].mem);
        if (p != NULL) {
            CHECK(f == uniq_clr);
            CHECK((long)(intptr_t)pv == m_uo[i].tag);
            free(p);
        } else {
            CHECK(f == NULL && pv == NULL);
        }
        m_uo[i].mem = NULL; m_uo[i].tag = 0;
        break;
    }
    default:
        if (m_uo[i].mem == NULL) {
            cstl_unique_ptr_init(&m_up[i]);
        }
        break;
    }
    CHECK(u_clr_seen - before == want);
    for (want = 0; want < NU; want++) {
        CHECK(cstl_unique_ptr_get_const(&m_up[want]) == m_uo[want].mem);
    }
}

/* arrays */
static struct { size_t nm, sz; int refs; void * ext; unsigned char * base; }
aobj[MAXOBJ];
static int n_aobj;
static cstl_array_t m_ar[NA];
static struct { int id; size_t off, len; } m_as[NA];

static void m_fill(const int id)
{
    size_t k;
    for (k = 0; k < aobj[id].nm * aobj[id].sz; k++) {
        aobj[id].base[k] = (unsigned char)(id * 31 + k);
    }
}

/*
 * the model drops slot i's reference. an externally supplied buffer is
 * taken back with cstl_array_release() before its last reference goes.
 */
static void m_drop_array(const int i)
{
    const int id = m_as[i].id;
    if (id >= 0) {
        if (aobj[id].ext != NULL && aobj[id].refs == 1) {
            void * p = NULL;
            cstl_array_release(&m_ar[i], &p);
            CHECK(p == aobj[id].ext);
            CHECK(cstl_array_size(&m_ar[i]) == 0);
            free(p);
        }
        aobj[id].refs--;
        m_as[i].id = -1; m_as[i].off = m_as[i].len = 0;
    }
}

static void m_verify_arrays(void)
{
    int i;

    for (i = 0; i < NA; i++) {
        const int id = m_as[i].id;
        CHECK(cstl_array_size(&m_ar[i]) == m_as[i].len);
        if (id < 0) {
            CHECK(cstl_array_data(&m_ar[i]) == NULL);
        } else {
            const size_t len = m_as[i].len, sz = aobj[id].sz;
            CHECK(cstl_array_data_const(&m_ar[i]) == aobj[id].base);
            if (len > 0) {
                const size_t k = rnd((unsigned)len);
                const unsigned char * const p =
                    cstl_array_at_const(&m_ar[i], k);
                CHECK(p == aobj[id].base + (m_as[i].off + k) * sz);
                CHECK(cstl_array_at(&m_ar[i], len - 1)
                      == aobj[id].base + (m_as[i].off + len - 1) * sz);
                CHECK(*p == (unsigned char)
                      (id * 31 + (m_as[i].off + k) * sz));
            }
        }
    }
}

static void m_array_step(void)
{
    static const size_t sizes[] = { 1, 2, 4, 8, 24 };
    const int i = rnd(NA), j = rnd(NA);
    const int id = m_as[i].id;

    switch (rnd(10)) {
    case 0: case 1: {
        const size_t nm = rnd(13), sz = sizes[rnd(5)];
        m_drop_array(i);
        if (rnd(8) == 0) {
            cstl_array_alloc(&m_ar[i], SIZE_MAX / 2 - rnd(9), sz);
            CHECK(cstl_array_size(&m_ar[i]) == 0);
            break;
        }
        if (rnd(3) == 0) {
            void * const buf = malloc(nm * sz + 1);
            cstl_array_set(&m_ar[i], buf, nm, sz);
            aobj[n_aobj].ext = buf;
        } else {
            cstl_array_alloc(&m_ar[i], nm, sz);
            aobj[n_aobj].ext = NULL;
        }
        CHECK(cstl_array_data(&m_ar[i]) != NULL && n_aobj < MAXOBJ);
        if (cstl_array_data(&m_ar[i]) == NULL || n_aobj >= MAXOBJ) {
            exit(1);
        }
        aobj[n_aobj].nm = nm; aobj[n_aobj].sz = sz; aobj[n_aobj].refs = 1;
        aobj[n_aobj].base = cstl_array_data(&m_ar[i]);
        if (aobj[n_aobj].ext != NULL) {
            CHECK(aobj[n_aobj].base == aobj[n_aobj].ext);
        }
        m_as[i].id = n_aobj; m_as[i].off = 0; m_as[i].len = nm;
        m_fill(n_aobj++);
        break;
    }
    case 2: case 3: case 4:
        if (id >= 0) {
            /* bounds are those of the underlying array, not the slice */
            const size_t room = aobj[id].nm - m_as[i].off;
            const size_t end = rnd((unsigned)room + 1);
            const size_t beg = rnd((unsigned)end + 1);
            const size_t off = m_as[i].off + beg;
            if (i != j) {
                m_drop_array(j);
                aobj[id].refs++;
            }
            cstl_array_slice(&m_ar[i], beg, end, &m_ar[j]);
            m_as[j].id = id; m_as[j].off = off; m_as[j].len = end - beg;
        }
        break;
    case 5:
        if (id >= 0) {
            if (i != j) {
                m_drop_array(j);
                aobj[id].refs++;
            }
            cstl_array_unslice(&m_ar[i], &m_ar[j]);
            m_as[j].id = id; m_as[j].off = 0; m_as[j].len = aobj[id].nm;
        }
        break;
    case 6:
        m_drop_array(i);
        cstl_array_reset(&m_ar[i]);
        break;
    case 7: {
        void * p = &p;
        if (id >= 0 && aobj[id].ext != NULL && aobj[id].refs == 1) {
            m_drop_array(i);    /* performs and checks the release */
        } else {
            cstl_array_release(&m_ar[i], &p);
            CHECK(p == NULL);
        }
        break;
    }
    default:
        if (id < 0) {
            cstl_array_init(&m_ar[i]);
        }
        break;
    }
    m_verify_arrays();
}

static void run_model(const unsigned long steps)
{
    unsigned long n;
    int i;

    for (i = 0; i < NS; i++) { cstl_shared_ptr_init(&m_sp[i]); m_sid[i] = -1; }
    for (i = 0; i < NW; i++) { cstl_weak_ptr_init(&m_wp[i]); m_wid[i] = -1; }
    for (i = 0; i < NU; i++) { cstl_unique_ptr_init(&m_up[i]); }
    for (i = 0; i < NA; i++) { cstl_array_init(&m_ar[i]); m_as[i].id = -1; }

    for (n = 0; n < steps && failures == 0; n++) {
        m_shared_step();
        m_unique_step();
        m_array_step();
    }

    /* wind everything down: every destructor must have run exactly once */
    for (i = 0; i < NS; i++) { m_drop_shared(i); cstl_shared_ptr_reset(&m_sp[i]); }
    for (i = 0; i < NW; i++) { m_drop_weak(i); cstl_weak_ptr_reset(&m_wp[i]); }
    for (i = 0; i < NU; i++) { cstl_unique_ptr_reset(&m_up[i]); }
    for (i = 0; i < NA; i++) { m_drop_array(i); cstl_array_reset(&m_ar[i]); }
    CHECK(model_clr_total == real_clr_total);
    CHECK(real_clr_total == n_sobj);
    for (i = 0; i < n_sobj; i++) {
        if (sobj[i].clr != 1) {
            CHECK(sobj[i].clr == 1);
            break;
        }
    }
}

/* ------------------------------------------------------------------ */
/* threads: every thread moves its own objects with the provided        */
/* functions only; nothing may abort, and the memory dies exactly once  */

#define NTHREADS 4
#define TITER 20000

static cstl_shared_ptr_t t_root, t_root2;
static cstl_weak_ptr_t t_weak;
static volatile int t_phase;
static int t_clr_count;
static unsigned long t_locked[NTHREADS], t_missed[NTHREADS];

static void t_clr(void * const p, void * const priv)
{
    (void)priv;
    *(volatile unsigned *)p = 0xdeadu;
    __sync_fetch_and_add(&t_clr_count, 1);
}

static void * t_worker(void * const arg)
{
    const int me = (int)(intptr_t)arg;
    DECLARE_CSTL_SHARED_PTR(sp);
    DECLARE_CSTL_SHARED_PTR(sp2);
    DECLARE_CSTL_WEAK_PTR(wp);
    DECLARE_CSTL_WEAK_PTR(wp2);
    DECLARE_CSTL_SHARED_PTR(mine);
    DECLARE_CSTL_SHARED_PTR(sp3);
    DECLARE_CSTL_WEAK_PTR(wp3);
    int i, bad = 0;

    /* phase 0: the root is alive throughout */
    for (i = 0; i < TITER; i++) {
        cstl_shared_ptr_share(&t_root, &sp);
        cstl_weak_ptr_from(&wp, &sp);
        bad += cstl_shared_ptr_unique(&sp);
        cstl_shared_ptr_reset(&sp);
        cstl_weak_ptr_lock(&wp, &sp);
        bad += cstl_shared_ptr_get(&sp) != cstl_shared_ptr_get(&t_root);
        cstl_shared_ptr_swap(&sp, &sp2);
        cstl_weak_ptr_swap(&wp, &wp2);
        bad += cstl_shared_ptr_get(&sp) != NULL;
        cstl_weak_ptr_lock(&wp2, &sp);
        bad += *(unsigned *)cstl_shared_ptr_get(&sp) != 0x600du;
        cstl_shared_ptr_reset(&sp2);
        cstl_weak_ptr_reset(&wp2);
        cstl_shared_ptr_reset(&sp);

        /*
         * the second root has no long-lived weak pointer: uniqueness
         * queries, weak pointers coming and going, and shared pointers
         * coming and going all meet on one control block
         */
        cstl_shared_ptr_share(&t_root2, &sp3);
        bad += cstl_shared_ptr_unique(&sp3);
        bad += cstl_shared_ptr_unique(&t_root2);
        cstl_weak_ptr_from(&wp3, (i & 1) ? &sp3 : &t_root2);
        bad += cstl_shared_ptr_unique(&sp3);
        cstl_shared_ptr_reset(&sp3);
        cstl_weak_ptr_lock(&wp3, &sp3);
        bad += cstl_shared_ptr_get(&sp3) != cstl_shared_ptr_get(&t_root2);
        cstl_weak_ptr_reset(&wp3);
        cstl_shared_ptr_reset(&sp3);

        /* an object nobody else knows about */
        if ((i & 63) == 0) {
            cstl_shared_ptr_alloc(&mine, 16, NULL);
        }
        if (cstl_shared_ptr_get(&mine) != NULL) {
            bad += !cstl_shared_ptr_unique(&mine);
            cstl_weak_ptr_from(&wp3, &mine);
            bad += cstl_shared_ptr_unique(&mine);
            bad += cstl_shared_ptr_unique(&wp3);
            cstl_shared_ptr_share(&mine, &sp3);
            cstl_weak_ptr_reset(&wp3);
            bad += cstl_shared_ptr_unique(&mine);
            cstl_shared_ptr_reset(&sp3);
            bad += !cstl_shared_ptr_unique(&mine);
        }
    }
    cstl_shared_ptr_reset(&mine);

    __sync_fetch_and_add(&t_phase, 1);

    /* phase 1: the main thread drops the root while we keep locking */
    for (i = 0; i < TITER; i++) {
        cstl_weak_ptr_lock(&t_weak, &sp);
        if (cstl_shared_ptr_get(&sp) != NULL) {
            bad += *(unsigned *)cstl_shared_ptr_get(&sp) != 0x600du;
            cstl_weak_ptr_from(&wp, &sp);
            cstl_shared_ptr_share(&sp, &sp2);
            cstl_shared_ptr_reset(&sp);
            cstl_shared_ptr_reset(&sp2);
            cstl_weak_ptr_reset(&wp);
            t_locked[me]++;
        } else {
            t_missed[me]++;
        }
    }

    return (void *)(intptr_t)bad;
}

static void run_threads(void)
{
    pthread_t th[NTHREADS];
    int i;

    cstl_shared_ptr_init(&t_root);
    cstl_weak_ptr_init(&t_weak);
    cstl_shared_ptr_alloc(&t_root, 64, t_clr);
    CHECK(cstl_shared_ptr_get(&t_root) != NULL);
    if (cstl_shared_ptr_get(&t_root) == NULL) {
        return;
    }
    *(unsigned *)cstl_shared_ptr_get(&t_root) = 0x600du;
    cstl_shared_ptr_init(&t_root2);
    cstl_shared_ptr_alloc(&t_root2, 8, t_clr);
    CHECK(cstl_shared_ptr_get(&t_root2) != NULL);
    cstl_weak_ptr_from(&t_weak, &t_root);

    for (i = 0; i < NTHREADS; i++) {
        if (pthread_create(&th[i], NULL, t_worker, (void *)(intptr_t)i)) {
            perror("pthread_create");
            exit(2);
        }
    }

    /* phase 0 needs the root: wait until every thread has left it */
    while (__sync_fetch_and_add(&t_phase, 0) < NTHREADS) {
        sched_yield();
    }
    {
        struct timespec ts;
        ts.tv_sec = 0; ts.tv_nsec = 2000000;
        nanosleep(&ts, NULL);
    }
    cstl_shared_ptr_reset(&t_root);

    for (i = 0; i < NTHREADS; i++) {
        void * r = NULL;
        pthread_join(th[i], &r);
        CHECK(r == NULL);
        CHECK(t_locked[i] + t_missed[i] == TITER);
    }
    CHECK(t_clr_count == 1);
    CHECK(cstl_shared_ptr_unique(&t_root2));
    cstl_shared_ptr_reset(&t_root2);
    CHECK(t_clr_count == 2);

    /* the weak pointer outlives the memory; it just cannot be locked */
    cstl_weak_ptr_lock(&t_weak, &t_root);
    CHECK(cstl_shared_ptr_get(&t_root) == NULL);
    cstl_weak_ptr_reset(&t_weak);
    CHECK(t_clr_count == 2);
}

int main(void)
{
    static const struct scen extra[] = {
        SC(t_static, 5, 0),
    };
    int mode;

    run_matrix();

    /* the static initialiser objects, empty (alt 0) and owning (alt 1) */
    for (g_state = 0; g_state < extra[0].nstates; g_state++) {
        for (g_alt = 0; g_alt < 2; g_alt++) {
            g_ctl = 1; g_mode = 0;
            n_forks++;
            if (run_child(extra[0].fn) != 0) {
                fprintf(stderr, "control t_static %d %d\n", g_state, g_alt);
                failures++;
            }
            g_ctl = 0;
            for (g_mode = 0; g_mode < 3; g_mode++) {
                n_forks++;
                if (run_child(extra[0].fn) != 1) {
                    fprintf(stderr, "stray t_static %d %d %d: no abort\n",
                            g_state, g_alt, g_mode);
                    failures++;
                }
            }
        }
    }

    /* originals keep working next to (unused) stray copies */
    g_ctl = 0; g_state = 0; g_alt = 0;
    for (mode = 0; mode < 2; mode++) {
        int r;
        g_mode = mode;
        n_forks++;
        r = run_child(t_original);
        if (r != 0) {
            fprintf(stderr, "t_original mode %d: %d\n", mode, r);
            failures++;
        }
    }
    /* and in this very process too */
    g_mode = 1;
    t_original();

    run_model(60000);
    run_threads();

    if (failures != 0) {
        fprintf(stderr, "FAILED: %d failure(s)\n", failures);
        return 1;
    }
    printf("ok: %lu forked calls, %d shared objects, %d arrays\n",
           n_forks, n_sobj, n_aobj);
    return 0;
}
