/*
 * C18: public headers are usable by client programs that link the library.
 *
 * This one file is compiled many times with different -DTU=<n>; all the
 * resulting objects are linked into ONE program, once against libcstl.a and
 * once against libcstl.so (see build_cmd in meta.json):
 *
 *   TU=0        main(); every public header, ascending order
 *   TU=1        every public header, descending order, each included twice
 *   TU=2..13    exactly one public header each ("alone")
 *   TU=100+12*i+j (i != j)  header i followed by header j (every ordered pair)
 *
 * The cstl header(s) under test always come first in the translation unit,
 * before any libc header, so a header that is not self-contained fails to
 * compile.  Every translation unit that sees a header takes the address of
 * every function that header declares and calls a good part of them, so a
 * function that is declared but neither inline nor in the library is an
 * undefined symbol at link time, and a header that defines a symbol with
 * external linkage is a duplicate symbol at link time.
 *
 * Only the documented public API is used; nothing here depends on whether a
 * given function is inline, a macro, or a library symbol.
 */
#ifndef TU
#define TU 0
#endif

#if TU >= 100
#define C18_HA ((TU - 100) / 12)
#define C18_HB ((TU - 100) % 12)
#if C18_HA == 0
#include "cstl/array.h"
#elif C18_HA == 1
#include "cstl/bintree.h"
#elif C18_HA == 2
#include "cstl/common.h"
#elif C18_HA == 3
#include "cstl/dlist.h"
#elif C18_HA == 4
#include "cstl/hash.h"
#elif C18_HA == 5
#include "cstl/heap.h"
#elif C18_HA == 6
#include "cstl/map.h"
#elif C18_HA == 7
#include "cstl/memory.h"
#elif C18_HA == 8
#include "cstl/rbtree.h"
#elif C18_HA == 9
#include "cstl/slist.h"
#elif C18_HA == 10
#include "cstl/string.h"
#elif C18_HA == 11
#include "cstl/vector.h"
#else
#error "bad header index"
#endif
#if C18_HB == 0
#include "cstl/array.h"
#elif C18_HB == 1
#include "cstl/bintree.h"
#elif C18_HB == 2
#include "cstl/common.h"
#elif C18_HB == 3
#include "cstl/dlist.h"
#elif C18_HB == 4
#include "cstl/hash.h"
#elif C18_HB == 5
#include "cstl/heap.h"
#elif C18_HB == 6
#include "cstl/map.h"
#elif C18_HB == 7
#include "cstl/memory.h"
#elif C18_HB == 8
#include "cstl/rbtree.h"
#elif C18_HB == 9
#include "cstl/slist.h"
#elif C18_HB == 10
#include "cstl/string.h"
#elif C18_HB == 11
#include "cstl/vector.h"
#else
#error "bad header index"
#endif
#elif TU >= 2
#define C18_HA (TU - 2)
#define C18_HB (-1)
#if C18_HA == 0
#include "cstl/array.h"
#elif C18_HA == 1
#include "cstl/bintree.h"
#elif C18_HA == 2
#include "cstl/common.h"
#elif C18_HA == 3
#include "cstl/dlist.h"
#elif C18_HA == 4
#include "cstl/hash.h"
#elif C18_HA == 5
#include "cstl/heap.h"
#elif C18_HA == 6
#include "cstl/map.h"
#elif C18_HA == 7
#include "cstl/memory.h"
#elif C18_HA == 8
#include "cstl/rbtree.h"
#elif C18_HA == 9
#include "cstl/slist.h"
#elif C18_HA == 10
#include "cstl/string.h"
#elif C18_HA == 11
#include "cstl/vector.h"
#else
#error "bad header index"
#endif
#elif TU == 1
#define C18_HA (-1)
#define C18_HB (-1)
#include "cstl/vector.h"
#include "cstl/vector.h"
#include "cstl/string.h"
#include "cstl/string.h"
#include "cstl/slist.h"
#include "cstl/slist.h"
#include "cstl/rbtree.h"
#include "cstl/rbtree.h"
#include "cstl/memory.h"
#include "cstl/memory.h"
#include "cstl/map.h"
#include "cstl/map.h"
#include "cstl/heap.h"
#include "cstl/heap.h"
#include "cstl/hash.h"
#include "cstl/hash.h"
#include "cstl/dlist.h"
#include "cstl/dlist.h"
#include "cstl/common.h"
#include "cstl/common.h"
#include "cstl/bintree.h"
#include "cstl/bintree.h"
#include "cstl/array.h"
#include "cstl/array.h"
#else
#define C18_HA (-1)
#define C18_HB (-1)
#include "cstl/array.h"
#include "cstl/bintree.h"
#include "cstl/common.h"
#include "cstl/dlist.h"
#include "cstl/hash.h"
#include "cstl/heap.h"
#include "cstl/map.h"
#include "cstl/memory.h"
#include "cstl/rbtree.h"
#include "cstl/slist.h"
#include "cstl/string.h"
#include "cstl/vector.h"
#endif

#include <stddef.h>
#include <stdint.h>
#include <stdio.h>
#include <stdlib.h>
#include <string.h>
#include <wchar.h>

#define CHECK(C)                                                        \
    do {                                                                \
        if (!(C)) {                                                     \
            fprintf(stderr, "test.c:%d: TU %d: CHECK failed: %s\n",     \
                    __LINE__, (int)(TU), #C);                           \
            exit(1);                                                    \
        }                                                               \
    } while (0)

typedef void c18_fn_t(void);
struct c18_sym
{
    const char * name;
    c18_fn_t * addr;
};
#define C18_SYM(NAME)   { #NAME, (c18_fn_t *)NAME },

/* every function declared by each public header */
#define FUNCS_array(X) \
    X(cstl_array_init) \
    X(cstl_array_size) \
    X(cstl_array_set) \
    X(cstl_array_release) \
    X(cstl_array_alloc) \
    X(cstl_array_reset) \
    X(cstl_array_data_const) \
    X(cstl_array_data) \
    X(cstl_array_at_const) \
    X(cstl_array_at) \
    X(cstl_array_slice) \
    X(cstl_array_unslice) \
    X(cstl_raw_array_reverse) \
    X(cstl_raw_array_search) \
    X(cstl_raw_array_find) \
    X(cstl_raw_array_sort)
#define FUNCS_bintree(X) \
    X(cstl_bintree_init) \
    X(cstl_bintree_size) \
    X(cstl_bintree_insert) \
    X(cstl_bintree_find) \
    X(cstl_bintree_erase) \
    X(cstl_bintree_clear) \
    X(cstl_bintree_swap) \
    X(cstl_bintree_foreach) \
    X(cstl_bintree_height) \
    X(__cstl_bintree_cmp) \
    X(__cstl_bintree_erase) \
    X(__cstl_bintree_left) \
    X(__cstl_bintree_right) \
    X(__cstl_bintree_rotate)
#define FUNCS_common(X) \
    X(cstl_swap) \
    X(cstl_fls)
#define FUNCS_dlist(X) \
    X(cstl_dlist_init) \
    X(cstl_dlist_size) \
    X(cstl_dlist_insert) \
    X(cstl_dlist_erase) \
    X(cstl_dlist_front) \
    X(cstl_dlist_back) \
    X(cstl_dlist_push_front) \
    X(cstl_dlist_push_back) \
    X(cstl_dlist_pop_front) \
    X(cstl_dlist_pop_back) \
    X(cstl_dlist_reverse) \
    X(cstl_dlist_sort) \
    X(cstl_dlist_concat) \
    X(cstl_dlist_foreach) \
    X(cstl_dlist_find) \
    X(cstl_dlist_clear) \
    X(cstl_dlist_swap)
#define FUNCS_hash(X) \
    X(cstl_hash_init) \
    X(cstl_hash_size) \
    X(cstl_hash_load) \
    X(cstl_hash_shrink_to_fit) \
    X(cstl_hash_resize) \
    X(cstl_hash_rehash) \
    X(cstl_hash_insert) \
    X(cstl_hash_find) \
    X(cstl_hash_erase) \
    X(cstl_hash_foreach) \
    X(cstl_hash_foreach_const) \
    X(cstl_hash_clear) \
    X(cstl_hash_swap) \
    X(cstl_hash_div) \
    X(cstl_hash_mul)
#define FUNCS_heap(X) \
    X(cstl_heap_init) \
    X(cstl_heap_size) \
    X(cstl_heap_push) \
    X(cstl_heap_get) \
    X(cstl_heap_pop) \
    X(cstl_heap_clear) \
    X(cstl_heap_swap)
#define FUNCS_map(X) \
    X(cstl_map_iterator_end) \
    X(cstl_map_iterator_eq) \
    X(cstl_map_init) \
    X(cstl_map_size) \
    X(cstl_map_insert) \
    X(cstl_map_find) \
    X(cstl_map_erase) \
    X(cstl_map_erase_iterator) \
    X(cstl_map_clear)
#define FUNCS_memory(X) \
    X(cstl_guarded_ptr_set) \
    X(cstl_guarded_ptr_init) \
    X(cstl_guarded_ptr_get_const) \
    X(cstl_guarded_ptr_get) \
    X(cstl_guarded_ptr_copy) \
    X(cstl_guarded_ptr_swap) \
    X(cstl_unique_ptr_init) \
    X(cstl_unique_ptr_alloc) \
    X(cstl_unique_ptr_get_const) \
    X(cstl_unique_ptr_get) \
    X(cstl_unique_ptr_release) \
    X(cstl_unique_ptr_swap) \
    X(cstl_unique_ptr_reset) \
    X(cstl_shared_ptr_init) \
    X(cstl_shared_ptr_alloc) \
    X(cstl_shared_ptr_unique) \
    X(cstl_shared_ptr_get_const) \
    X(cstl_shared_ptr_get) \
    X(cstl_shared_ptr_share) \
    X(cstl_shared_ptr_swap) \
    X(cstl_shared_ptr_reset) \
    X(cstl_weak_ptr_init) \
    X(cstl_weak_ptr_from) \
    X(cstl_weak_ptr_lock) \
    X(cstl_weak_ptr_swap) \
    X(cstl_weak_ptr_reset)
#define FUNCS_rbtree(X) \
    X(cstl_rbtree_init) \
    X(cstl_rbtree_size) \
    X(cstl_rbtree_insert) \
    X(cstl_rbtree_find) \
    X(cstl_rbtree_erase) \
    X(__cstl_rbtree_erase) \
    X(cstl_rbtree_clear) \
    X(cstl_rbtree_swap) \
    X(cstl_rbtree_foreach) \
    X(cstl_rbtree_height)
#define FUNCS_slist(X) \
    X(cstl_slist_init) \
    X(cstl_slist_size) \
    X(cstl_slist_insert_after) \
    X(cstl_slist_erase_after) \
    X(cstl_slist_push_front) \
    X(cstl_slist_push_back) \
    X(cstl_slist_pop_front) \
    X(cstl_slist_front) \
    X(cstl_slist_back) \
    X(cstl_slist_reverse) \
    X(cstl_slist_sort) \
    X(cstl_slist_concat) \
    X(cstl_slist_foreach) \
    X(cstl_slist_clear) \
    X(cstl_slist_swap)
#define FUNCS_string(X) \
    X(cstl_string_init) \
    X(cstl_string_size) \
    X(cstl_string_capacity) \
    X(cstl_string_reserve) \
    X(cstl_string_resize) \
    X(cstl_string_at) \
    X(cstl_string_at_const) \
    X(cstl_string_data) \
    X(cstl_string_str) \
    X(cstl_string_compare_str) \
    X(cstl_string_compare) \
    X(cstl_string_clear) \
    X(cstl_string_insert_ch) \
    X(cstl_string_insert_str_n) \
    X(cstl_string_insert_str) \
    X(cstl_string_insert) \
    X(cstl_string_append) \
    X(cstl_string_append_ch) \
    X(cstl_string_append_str_n) \
    X(cstl_string_append_str) \
    X(cstl_string_set_str) \
    X(cstl_string_erase) \
    X(cstl_string_substr) \
    X(cstl_string_find_ch) \
    X(cstl_string_find_str) \
    X(cstl_string_find) \
    X(cstl_string_swap) \
    X(cstl_wstring_init) \
    X(cstl_wstring_size) \
    X(cstl_wstring_capacity) \
    X(cstl_wstring_reserve) \
    X(cstl_wstring_resize) \
    X(cstl_wstring_at) \
    X(cstl_wstring_at_const) \
    X(cstl_wstring_data) \
    X(cstl_wstring_str) \
    X(cstl_wstring_compare_str) \
    X(cstl_wstring_compare) \
    X(cstl_wstring_clear) \
    X(cstl_wstring_insert_ch) \
    X(cstl_wstring_insert_str_n) \
    X(cstl_wstring_insert_str) \
    X(cstl_wstring_insert) \
    X(cstl_wstring_append) \
    X(cstl_wstring_append_ch) \
    X(cstl_wstring_append_str_n) \
    X(cstl_wstring_append_str) \
    X(cstl_wstring_set_str) \
    X(cstl_wstring_erase) \
    X(cstl_wstring_substr) \
    X(cstl_wstring_find_ch) \
    X(cstl_wstring_find_str) \
    X(cstl_wstring_find) \
    X(cstl_wstring_swap)
#define FUNCS_vector(X) \
    X(cstl_vector_init_complex) \
    X(cstl_vector_init) \
    X(cstl_vector_size) \
    X(cstl_vector_capacity) \
    X(cstl_vector_data) \
    X(cstl_vector_at) \
    X(cstl_vector_at_const) \
    X(cstl_vector_reserve) \
    X(cstl_vector_shrink_to_fit) \
    X(cstl_vector_resize) \
    X(__cstl_vector_sort) \
    X(cstl_vector_sort) \
    X(cstl_vector_search) \
    X(cstl_vector_find) \
    X(__cstl_vector_reverse) \
    X(cstl_vector_reverse) \
    X(cstl_vector_swap) \
    X(cstl_vector_clear)
#define FUNCS_ALL(X) \
    FUNCS_array(X) FUNCS_bintree(X) FUNCS_common(X) FUNCS_dlist(X) \
    FUNCS_hash(X) FUNCS_heap(X) FUNCS_map(X) FUNCS_memory(X) \
    FUNCS_rbtree(X) FUNCS_slist(X) FUNCS_string(X) FUNCS_vector(X)

/* the functions of the headers this translation unit includes itself */
#if TU < 2 || C18_HA == 0 || C18_HB == 0
#define SEE_array(X) FUNCS_array(X)
#else
#define SEE_array(X)
#endif
#if TU < 2 || C18_HA == 1 || C18_HB == 1
#define SEE_bintree(X) FUNCS_bintree(X)
#else
#define SEE_bintree(X)
#endif
#if TU < 2 || C18_HA == 2 || C18_HB == 2
#define SEE_common(X) FUNCS_common(X)
#else
#define SEE_common(X)
#endif
#if TU < 2 || C18_HA == 3 || C18_HB == 3
#define SEE_dlist(X) FUNCS_dlist(X)
#else
#define SEE_dlist(X)
#endif
#if TU < 2 || C18_HA == 4 || C18_HB == 4
#define SEE_hash(X) FUNCS_hash(X)
#else
#define SEE_hash(X)
#endif
#if TU < 2 || C18_HA == 5 || C18_HB == 5
#define SEE_heap(X) FUNCS_heap(X)
#else
#define SEE_heap(X)
#endif
#if TU < 2 || C18_HA == 6 || C18_HB == 6
#define SEE_map(X) FUNCS_map(X)
#else
#define SEE_map(X)
#endif
#if TU < 2 || C18_HA == 7 || C18_HB == 7
#define SEE_memory(X) FUNCS_memory(X)
#else
#define SEE_memory(X)
#endif
#if TU < 2 || C18_HA == 8 || C18_HB == 8
#define SEE_rbtree(X) FUNCS_rbtree(X)
#else
#define SEE_rbtree(X)
#endif
#if TU < 2 || C18_HA == 9 || C18_HB == 9
#define SEE_slist(X) FUNCS_slist(X)
#else
#define SEE_slist(X)
#endif
#if TU < 2 || C18_HA == 10 || C18_HB == 10
#define SEE_string(X) FUNCS_string(X)
#else
#define SEE_string(X)
#endif
#if TU < 2 || C18_HA == 11 || C18_HB == 11
#define SEE_vector(X) FUNCS_vector(X)
#else
#define SEE_vector(X)
#endif
#define FUNCS_SEEN(X) \
    SEE_array(X) SEE_bintree(X) SEE_common(X) SEE_dlist(X) SEE_hash(X) SEE_heap(X) SEE_map(X) SEE_memory(X) SEE_rbtree(X) SEE_slist(X) SEE_string(X) SEE_vector(X)


#define C18_PASTE2(A, B) A ## B
#define C18_PASTE(A, B) C18_PASTE2(A, B)

/* the addresses of everything this translation unit's headers declare */
static const struct c18_sym c18_seen[] = {
    FUNCS_SEEN(C18_SYM)
    { NULL, NULL }
};

static unsigned c18_rnd(unsigned * const s)
{
    *s = *s * 1103515245u + 12345u;
    return (*s >> 8) & 0xffffff;
}

static size_t c18_count_seen(void)
{
    size_t n = 0;
    unsigned s = 1;
    (void)c18_rnd(&s);
    while (c18_seen[n].name != NULL) {
        CHECK(c18_seen[n].addr != NULL);
        n++;
    }
    return n;
}

/* prototypes of what the translation units offer each other */
size_t c18_solo_array(void);
size_t c18_solo_bintree(void);
size_t c18_solo_common(void);
size_t c18_solo_dlist(void);
size_t c18_solo_hash(void);
size_t c18_solo_heap(void);
size_t c18_solo_map(void);
size_t c18_solo_memory(void);
size_t c18_solo_rbtree(void);
size_t c18_solo_slist(void);
size_t c18_solo_string(void);
size_t c18_solo_vector(void);

#if TU >= 100
/* ------------------------------------------------------------------ */
/* an ordered pair of headers: nothing but the address table          */
size_t C18_PASTE(c18_pair_, TU)(void);
size_t C18_PASTE(c18_pair_, TU)(void)
{
    unsigned s = TU;
    (void)c18_rnd(&s);
    return c18_count_seen();
}
#endif

#if TU == 2 + 2
/* ------------------------------------------------------------------ */
/* cstl/common.h alone                                                */
static cstl_compare_func_t c18_cmp;
static cstl_visit_func_t c18_visit;
static cstl_const_visit_func_t c18_cvisit;
static cstl_xtor_func_t c18_xtor;
static cstl_swap_func_t c18_myswap;
static int c18_cmp(const void * a, const void * b, void * p)
{
    (void)p;
    return (*(const int *)a > *(const int *)b)
        - (*(const int *)a < *(const int *)b);
}
static int c18_visit(void * e, void * p)
{
    *(int *)p += *(int *)e;
    return 0;
}
static int c18_cvisit(const void * e, void * p)
{
    *(int *)p += *(const int *)e;
    return 0;
}
static void c18_xtor(void * e, void * p)
{
    *(int *)e = 0;
    (void)p;
}
static void c18_myswap(void * a, void * b, void * t, size_t n)
{
    memcpy(t, a, n);
    memcpy(a, b, n);
    memcpy(b, t, n);
}

size_t c18_solo_common(void)
{
    unsigned i;
    size_t sz;
    cstl_swap_func_t * const sw = cstl_swap;
    int x = 3, y = 4, acc = 0;
    cstl_sort_algorithm_t algo = CSTL_SORT_ALGORITHM_DEFAULT;

    CHECK(cstl_fls(0) == -1);
    for (i = 0; i < 8 * sizeof(unsigned long); i++) {
        const unsigned long b = 1UL << i;
        CHECK(cstl_fls(b) == (int)i);
        CHECK(cstl_fls(b | 1UL) == (int)i);
        CHECK(cstl_fls(b | (b >> 1)) == (int)i);
        CHECK(cstl_fls(b | (b - 1)) == (int)i);
        CHECK(cstl_fls(b - 1) == (int)i - 1);
    }
    CHECK(cstl_fls(~0UL) == (int)(8 * sizeof(unsigned long)) - 1);
    CHECK((cstl_fls)(0x5a5a5a5aUL) == 30);

    for (sz = 0; sz <= 64; sz++) {
        uint64_t X[9], Y[9], T[9], X0[9], Y0[9];
        unsigned char * const xb = (unsigned char *)X;
        unsigned char * const yb = (unsigned char *)Y;
        size_t k;
        for (k = 0; k < sizeof(X); k++) {
            xb[k] = (unsigned char)(k * 7 + sz);
            yb[k] = (unsigned char)(k * 13 + 5 * sz + 1);
        }
        memcpy(X0, X, sizeof(X));
        memcpy(Y0, Y, sizeof(Y));
        memset(T, 0, sizeof(T));
        if ((sz & 1) == 0) {
            cstl_swap(X, Y, T, sz);
        } else {
            sw(X, Y, T, sz);
        }
        CHECK(memcmp(X, Y0, sz) == 0);
        CHECK(memcmp(Y, X0, sz) == 0);
        /* nothing beyond sz bytes is touched */
        CHECK(memcmp(xb + sz, (unsigned char *)X0 + sz, sizeof(X) - sz) == 0);
        CHECK(memcmp(yb + sz, (unsigned char *)Y0 + sz, sizeof(Y) - sz) == 0);
    }

    CHECK(CSTL_MAX_T(int, 3, 7) == 7);
    CHECK(CSTL_MAX_T(int, -3, -7) == -3);
    CHECK(CSTL_MAX_T(unsigned char, 200, 100) == 200);
    CHECK(algo == CSTL_SORT_ALGORITHM_QUICK_M);
    CHECK(CSTL_SORT_ALGORITHM_QUICK != CSTL_SORT_ALGORITHM_QUICK_R);
    CHECK(CSTL_SORT_ALGORITHM_HEAP != CSTL_SORT_ALGORITHM_QUICK_M);
    CHECK(CSTL_TOKCAT(ac, c) == 0);

    CHECK(c18_cmp(&x, &y, NULL) < 0);
    c18_visit(&x, &acc);
    c18_cvisit(&y, &acc);
    CHECK(acc == 7);
    c18_myswap(&x, &y, &acc, sizeof(x));
    CHECK(x == 4 && y == 3);
    c18_xtor(&x, NULL);
    CHECK(x == 0);

    return c18_count_seen();
}
#endif

#if TU == 2 + 11
/* ------------------------------------------------------------------ */
/* cstl/vector.h alone                                                */
static int c18_cmp(const void * a, const void * b, void * p)
{
    if (p != NULL) {
        ++*(unsigned long *)p;
    }
    return (*(const int *)a > *(const int *)b)
        - (*(const int *)a < *(const int *)b);
}
static unsigned long c18_swaps;
static void c18_myswap(void * a, void * b, void * t, size_t n)
{
    c18_swaps++;
    memcpy(t, a, n);
    memcpy(a, b, n);
    memcpy(b, t, n);
}
static void c18_cons(void * e, void * p)
{
    *(int *)e = 7;
    ++*(int *)p;
}
static void c18_dest(void * e, void * p)
{
    CHECK(*(int *)e == 7);
    *(int *)e = -1;
    --*(int *)p;
}
struct c18_big
{
    int key;
    char pad[37];
};

size_t c18_solo_vector(void)
{
    static const size_t sizes[] = {
        0, 1, 2, 3, 4, 5, 7, 8, 9, 15, 16, 17, 31, 32, 33,
        63, 64, 65, 100, 255, 256, 257, 1000
    };
    DECLARE_CSTL_VECTOR(v, int);
    struct cstl_vector w, c, b;
    unsigned seed = 1;
    size_t si;
    int alive = 0;

    CHECK(cstl_vector_size(&v) == 0);
    CHECK(cstl_vector_capacity(&v) == 0);
    CHECK(cstl_vector_data(&v) == NULL);

    for (si = 0; si < sizeof(sizes) / sizeof(sizes[0]); si++) {
        const size_t n = sizes[si];
        int how;
        for (how = 0; how < 6; how++) {
            unsigned long sum = 0, sum2 = 0, ncmp = 0;
            size_t i;
            const int missing = -5;

            cstl_vector_resize(&v, n);
            CHECK(cstl_vector_size(&v) == n);
            CHECK(cstl_vector_capacity(&v) >= n);
            for (i = 0; i < n; i++) {
                int * const e = cstl_vector_at(&v, i);
                *e = (int)(c18_rnd(&seed) % (n / 2 + 1));
                sum += (unsigned long)*e;
                CHECK(e == (int *)cstl_vector_data(&v) + i);
                CHECK(e == cstl_vector_at_const(&v, i));
            }

            c18_swaps = 0;
            switch (how) {
            case 0:
                cstl_vector_sort(&v, c18_cmp, &ncmp);
                break;
            case 1:
                __cstl_vector_sort(&v, c18_cmp, &ncmp, cstl_swap,
                                   CSTL_SORT_ALGORITHM_QUICK);
                break;
            case 2:
                __cstl_vector_sort(&v, c18_cmp, &ncmp, c18_myswap,
                                   CSTL_SORT_ALGORITHM_QUICK_R);
                break;
            case 3:
                __cstl_vector_sort(&v, c18_cmp, &ncmp, c18_myswap,
                                   CSTL_SORT_ALGORITHM_QUICK_M);
                break;
            case 4:
                __cstl_vector_sort(&v, c18_cmp, &ncmp, cstl_swap,
                                   CSTL_SORT_ALGORITHM_HEAP);
                break;
            default:
                (cstl_vector_sort)(&v, c18_cmp, NULL);
                break;
            }
            CHECK(cstl_vector_size(&v) == n);
            if (n > 1 && how < 5) {
                CHECK(ncmp > 0);
            }
            for (i = 0; i < n; i++) {
                const int e = *(const int *)cstl_vector_at_const(&v, i);
                sum2 += (unsigned long)e;
                if (i > 0) {
                    CHECK(*(const int *)cstl_vector_at_const(&v, i - 1) <= e);
                }
            }
            CHECK(sum == sum2);

            for (i = 0; i < n; i++) {
                const int e = *(const int *)cstl_vector_at_const(&v, i);
                ssize_t at = cstl_vector_search(&v, &e, c18_cmp, NULL);
                CHECK(at >= 0 && (size_t)at < n);
                CHECK(*(int *)cstl_vector_at(&v, at) == e);
                at = cstl_vector_find(&v, &e, c18_cmp, NULL);
                CHECK(at >= 0 && (size_t)at <= i);
                CHECK(*(int *)cstl_vector_at(&v, at) == e);
                if (at > 0) {
                    CHECK(*(int *)cstl_vector_at(&v, at - 1) != e);
                }
            }
            CHECK(cstl_vector_search(&v, &missing, c18_cmp, NULL) == -1);
            CHECK(cstl_vector_find(&v, &missing, c18_cmp, NULL) == -1);

            if ((how & 1) == 0) {
                cstl_vector_reverse(&v);
            } else {
                __cstl_vector_reverse(&v, c18_myswap);
            }
            for (i = 1; i < n; i++) {
                CHECK(*(int *)cstl_vector_at(&v, i - 1)
                      >= *(int *)cstl_vector_at(&v, i));
            }
            (cstl_vector_reverse)(&v);
            for (i = 1; i < n; i++) {
                CHECK(*(int *)cstl_vector_at(&v, i - 1)
                      <= *(int *)cstl_vector_at(&v, i));
            }
        }
    }

    /* capacity management */
    {
        const size_t sz = cstl_vector_size(&v);
        size_t cap;
        cstl_vector_reserve(&v, 5000);
        CHECK(cstl_vector_capacity(&v) >= 5000);
        CHECK(cstl_vector_size(&v) == sz);
        cap = cstl_vector_capacity(&v);
        cstl_vector_reserve(&v, 10);
        CHECK(cstl_vector_capacity(&v) == cap);
        /* impossible requests fail quietly */
        cstl_vector_reserve(&v, SIZE_MAX);
        CHECK(cstl_vector_capacity(&v) == cap);
        cstl_vector_reserve(&v, SIZE_MAX / 2);
        CHECK(cstl_vector_capacity(&v) == cap);
        cstl_vector_shrink_to_fit(&v);
        CHECK(cstl_vector_capacity(&v) >= sz);
        CHECK(cstl_vector_capacity(&v) <= cap);
        CHECK(cstl_vector_size(&v) == sz);
    }

    /* swap and clear */
    cstl_vector_init(&w, sizeof(double));
    CHECK(cstl_vector_size(&w) == 0 && cstl_vector_capacity(&w) == 0);
    cstl_vector_resize(&w, 3);
    *(double *)cstl_vector_at(&w, 2) = 2.5;
    {
        const size_t vs = cstl_vector_size(&v);
        void * const vd = cstl_vector_data(&v);
        void * const wd = cstl_vector_data(&w);
        cstl_vector_swap(&v, &w);
        CHECK(cstl_vector_size(&v) == 3 && cstl_vector_size(&w) == vs);
        CHECK(cstl_vector_data(&v) == wd && cstl_vector_data(&w) == vd);
        CHECK(*(double *)cstl_vector_at(&v, 2) == 2.5);
        cstl_vector_swap(&w, &v);
        CHECK(cstl_vector_size(&w) == 3 && cstl_vector_size(&v) == vs);
    }
    cstl_vector_clear(&v);
    cstl_vector_clear(&w);
    CHECK(cstl_vector_size(&v) == 0 && cstl_vector_capacity(&v) == 0);
    CHECK(cstl_vector_size(&w) == 0 && cstl_vector_capacity(&w) == 0);
    CHECK(cstl_vector_data(&v) == NULL);
    /* a cleared vector is as good as new */
    cstl_vector_resize(&v, 2);
    *(int *)cstl_vector_at(&v, 1) = 11;
    CHECK(*(const int *)cstl_vector_at_const(&v, 1) == 11);
    cstl_vector_clear(&v);

    /* constructors and destructors */
    cstl_vector_init_complex(&c, sizeof(int), c18_cons, c18_dest, &alive);
    cstl_vector_resize(&c, 10);
    CHECK(alive == 10);
    CHECK(*(int *)cstl_vector_at(&c, 9) == 7);
    cstl_vector_resize(&c, 4);
    CHECK(alive == 4 && cstl_vector_size(&c) == 4);
    cstl_vector_reserve(&c, 100);
    CHECK(alive == 4);
    cstl_vector_resize(&c, 50);
    CHECK(alive == 50);
    cstl_vector_sort(&c, c18_cmp, NULL);
    cstl_vector_reverse(&c);
    CHECK(alive == 50);
    cstl_vector_clear(&c);
    CHECK(alive == 0);
    (cstl_vector_init_complex)(&c, sizeof(int), NULL, c18_dest, &alive);
    cstl_vector_resize(&c, 5);
    CHECK(alive == 0);
    {
        size_t i;
        for (i = 0; i < 5; i++) {
            *(int *)cstl_vector_at(&c, i) = 7;
        }
    }
    cstl_vector_clear(&c);
    CHECK(alive == -5);

    /* a second element type, bigger than any integer */
    (cstl_vector_init)(&b, sizeof(struct c18_big));
    cstl_vector_resize(&b, 300);
    {
        size_t i;
        for (i = 0; i < 300; i++) {
            struct c18_big * const e = cstl_vector_at(&b, i);
            e->key = (int)(c18_rnd(&seed) % 1000);
            memset(e->pad, e->key & 0xff, sizeof(e->pad));
        }
        cstl_vector_sort(&b, c18_cmp, NULL);
        for (i = 0; i < 300; i++) {
            const struct c18_big * const e = cstl_vector_at_const(&b, i);
            CHECK(e->pad[0] == (char)(e->key & 0xff));
            CHECK(e->pad[36] == (char)(e->key & 0xff));
            if (i > 0) {
                CHECK(((const struct c18_big *)
                       cstl_vector_at_const(&b, i - 1))->key <= e->key);
            }
        }
    }
    cstl_vector_clear(&b);

    return c18_count_seen();
}
#endif

#if TU == 2 + 10
/* ------------------------------------------------------------------ */
/* cstl/string.h alone                                                */
#define C18_NARROW(S)   S
#define C18_WIDE(S)     L ## S
#define C18_STRING_TEST(P, T, STRLEN, STRCMP)                           \
    static void c18_test_ ## P(void)                                    \
    {                                                                   \
        DECLARE_CSTL_STRING(P, s);                                      \
        struct cstl_ ## P t, u;                                         \
        cstl_ ## P ## _t * const sp = &s;                               \
        size_t i;                                                       \
                                                                        \
        cstl_ ## P ## _init(&t);                                        \
        (cstl_ ## P ## _init)(&u);                                      \
        CHECK(cstl_ ## P ## _size(&s) == 0);                            \
        CHECK(STRLEN(cstl_ ## P ## _str(&s)) == 0);                     \
        CHECK(cstl_ ## P ## _compare(&s, &t) == 0);                     \
        CHECK(cstl_ ## P ## _compare_str(&s, T("")) == 0);              \
        CHECK(cstl_ ## P ## _nul == T('\0'));                           \
                                                                        \
        cstl_ ## P ## _set_str(&s, T("hello"));                         \
        cstl_ ## P ## _append_str(&s, T(", world"));                    \
        CHECK(cstl_ ## P ## _size(&s) == 12);                           \
        CHECK(cstl_ ## P ## _capacity(&s) >= 12);                       \
        CHECK(cstl_ ## P ## _compare_str(&s, T("hello, world")) == 0);  \
        CHECK(STRCMP(cstl_ ## P ## _str(&s), T("hello, world")) == 0);  \
        cstl_ ## P ## _insert_str(&s, 0, T(">> "));                     \
        cstl_ ## P ## _insert_ch(&s, cstl_ ## P ## _size(&s), 3, T('!')); \
        cstl_ ## P ## _append_ch(&s, 1, T('?'));                        \
        CHECK(cstl_ ## P ## _compare_str(                               \
                  &s, T(">> hello, world!!!?")) == 0);                  \
        CHECK(cstl_ ## P ## _find_ch(&s, T('w'), 0) == 10);             \
        CHECK(cstl_ ## P ## _find_ch(&s, T('w'), 10) == 10);            \
        CHECK(cstl_ ## P ## _find_ch(&s, T('w'), 11) == -1);            \
        CHECK(cstl_ ## P ## _find_ch(&s, T('Z'), 0) == -1);             \
        CHECK(cstl_ ## P ## _find_str(&s, T("world"), 0) == 10);        \
        CHECK(cstl_ ## P ## _find_str(&s, T("l"), 6) == 6);             \
        CHECK(cstl_ ## P ## _find_str(&s, T("l"), 7) == 13);            \
        CHECK(cstl_ ## P ## _find_str(&s, T("xyz"), 0) == -1);          \
        cstl_ ## P ## _set_str(&t, T("world"));                         \
        CHECK(cstl_ ## P ## _find(&s, &t, 0) == 10);                    \
        CHECK(cstl_ ## P ## _find(&s, &t, 11) == -1);                   \
        cstl_ ## P ## _substr(&s, 3, 5, &u);                            \
        CHECK(cstl_ ## P ## _compare_str(&u, T("hello")) == 0);         \
        CHECK(cstl_ ## P ## _size(&u) == 5);                            \
        cstl_ ## P ## _substr(&s, 15, 1000, &u);                        \
        CHECK(cstl_ ## P ## _compare_str(&u, T("!!!?")) == 0);          \
        cstl_ ## P ## _erase(&s, 0, 3);                                 \
        cstl_ ## P ## _erase(&s, 12, 100);                              \
        CHECK(cstl_ ## P ## _compare_str(&s, T("hello, world")) == 0);  \
        cstl_ ## P ## _insert(&s, 5, &t);                               \
        CHECK(cstl_ ## P ## _compare_str(                               \
                  &s, T("helloworld, world")) == 0);                    \
        cstl_ ## P ## _append(&s, &t);                                  \
        cstl_ ## P ## _append_str_n(&s, T("abcdef"), 3);                \
        cstl_ ## P ## _insert_str_n(sp, 0, T("xyz"), 2);                \
        CHECK(cstl_ ## P ## _compare_str(                               \
                  &s, T("xyhelloworld, worldworldabc")) == 0);          \
        CHECK(*cstl_ ## P ## _at(&s, 0) == T('x'));                     \
        CHECK(*cstl_ ## P ## _at_const(&s, 26) == T('c'));              \
        CHECK(cstl_ ## P ## _data(&s) == cstl_ ## P ## _at(&s, 0));     \
        *cstl_ ## P ## _at(&s, 1) = T('Y');                             \
        CHECK(cstl_ ## P ## _find_ch(&s, T('Y'), 0) == 1);              \
                                                                        \
        CHECK(cstl_ ## P ## _compare_str(&t, T("world")) == 0);         \
        CHECK(cstl_ ## P ## _compare_str(&t, T("worle")) < 0);          \
        CHECK(cstl_ ## P ## _compare_str(&t, T("worlc")) > 0);          \
        CHECK(cstl_ ## P ## _compare_str(&t, T("worl")) > 0);           \
        CHECK(cstl_ ## P ## _compare_str(&t, T("worlds")) < 0);         \
        CHECK(cstl_ ## P ## _compare(&t, &s) < 0);                      \
        CHECK(cstl_ ## P ## _compare(&s, &t) > 0);                      \
        CHECK(cstl_ ## P ## _compare(&t, &t) == 0);                     \
                                                                        \
        cstl_ ## P ## _resize(&s, 3);                                   \
        CHECK(cstl_ ## P ## _compare_str(&s, T("xYh")) == 0);           \
        cstl_ ## P ## _resize(&s, 6);                                   \
        CHECK(cstl_ ## P ## _size(&s) == 6);                            \
        CHECK(STRLEN(cstl_ ## P ## _str(&s)) == 3);                     \
        CHECK(*cstl_ ## P ## _at(&s, 5) == cstl_ ## P ## _nul);         \
        cstl_ ## P ## _reserve(&s, 100);                                \
        CHECK(cstl_ ## P ## _capacity(&s) >= 100);                      \
        CHECK(cstl_ ## P ## _size(&s) == 6);                            \
                                                                        \
        cstl_ ## P ## _swap(&s, &t);                                    \
        CHECK(cstl_ ## P ## _compare_str(&s, T("world")) == 0);         \
        CHECK(cstl_ ## P ## _size(&t) == 6);                            \
                                                                        \
        cstl_ ## P ## _clear(&t);                                       \
        CHECK(cstl_ ## P ## _size(&t) == 0);                            \
        for (i = 0; i < 300; i++) {                                     \
            cstl_ ## P ## _append_ch(&t, 1, (cstl_ ## P ## _char_t)     \
                                     (T('a') + (int)(i % 26)));         \
            CHECK(cstl_ ## P ## _size(&t) == i + 1);                    \
            CHECK(STRLEN(cstl_ ## P ## _str(&t)) == i + 1);             \
        }                                                               \
        for (i = 0; i < 300; i++) {                                     \
            CHECK(*cstl_ ## P ## _at_const(&t, i)                       \
                  == (cstl_ ## P ## _char_t)(T('a') + (int)(i % 26)));  \
        }                                                               \
        CHECK(cstl_ ## P ## _find_str(&t, T("xyzabc"), 30) == 49);      \
        cstl_ ## P ## _erase(&t, 0, 299);                               \
        CHECK(cstl_ ## P ## _size(&t) == 1);                            \
        cstl_ ## P ## _clear(&s);                                       \
        cstl_ ## P ## _clear(&t);                                       \
        cstl_ ## P ## _clear(&u);                                       \
        CHECK(cstl_ ## P ## _size(&s) == 0);                            \
        CHECK(STRLEN(cstl_ ## P ## _str(&u)) == 0);                     \
    }

C18_STRING_TEST(string, C18_NARROW, strlen, strcmp)
C18_STRING_TEST(wstring, C18_WIDE, wcslen, wcscmp)

size_t c18_solo_string(void)
{
    cstl_string_char_t c = 'c';
    cstl_wstring_char_t w = L'w';
    c18_test_string();
    c18_test_wstring();
    CHECK(c == 'c' && w == L'w');
    return c18_count_seen();
}
#endif

#if TU == 2 + 3
/* ------------------------------------------------------------------ */
/* cstl/dlist.h alone                                                 */
struct c18_ditem
{
    int key;
    struct cstl_dlist_node n;
    int seen;
};
static int c18_cmp(const void * a, const void * b, void * p)
{
    (void)p;
    return (((const struct c18_ditem *)a)->key
            > ((const struct c18_ditem *)b)->key)
        - (((const struct c18_ditem *)a)->key
           < ((const struct c18_ditem *)b)->key);
}
struct c18_dwalk
{
    int prev, n, stop_at, dir;
};
static int c18_visit(void * e, void * p)
{
    struct c18_ditem * const it = e;
    struct c18_dwalk * const w = p;
    if (w->n > 0) {
        CHECK(w->dir > 0 ? w->prev <= it->key : w->prev >= it->key);
    }
    w->prev = it->key;
    w->n++;
    return (w->n == w->stop_at) ? 42 : 0;
}
static void c18_clr(void * e, void * p)
{
    (void)p;
    ((struct c18_ditem *)e)->seen++;
}

size_t c18_solo_dlist(void)
{
    enum { N = 300 };
    static struct c18_ditem items[N];
    static DECLARE_CSTL_DLIST(sl, struct c18_ditem, n);
    struct cstl_dlist l, m;
    struct c18_dwalk w;
    struct c18_ditem probe;
    unsigned seed = 3;
    int i;

    cstl_dlist_init(&l, offsetof(struct c18_ditem, n));
    (cstl_dlist_init)(&m, offsetof(struct c18_ditem, n));
    CHECK(cstl_dlist_size(&l) == 0 && cstl_dlist_size(&sl) == 0);
    CHECK(cstl_dlist_front(&l) == NULL && cstl_dlist_back(&l) == NULL);
    CHECK(cstl_dlist_pop_front(&sl) == NULL);
    CHECK(cstl_dlist_pop_back(&sl) == NULL);

    for (i = 0; i < N; i++) {
        items[i].key = (int)(c18_rnd(&seed) % 100);
        items[i].seen = 0;
        if (i % 3 == 0) {
            cstl_dlist_push_back(&l, &items[i]);
            CHECK(cstl_dlist_back(&l) == &items[i]);
        } else if (i % 3 == 1) {
            cstl_dlist_push_front(&l, &items[i]);
            CHECK(cstl_dlist_front(&l) == &items[i]);
        } else {
            cstl_dlist_push_back(&sl, &items[i]);
        }
        CHECK(cstl_dlist_size(&l) + cstl_dlist_size(&sl) == (size_t)i + 1);
    }
    CHECK(cstl_dlist_size(&l) == 200 && cstl_dlist_size(&sl) == 100);

    cstl_dlist_concat(&l, &sl);
    CHECK(cstl_dlist_size(&l) == N);
    cstl_dlist_init(&sl, offsetof(struct c18_ditem, n));

    cstl_dlist_sort(&l, c18_cmp, NULL);
    CHECK(cstl_dlist_size(&l) == N);
    memset(&w, 0, sizeof(w));
    w.dir = 1;
    CHECK(cstl_dlist_foreach(&l, c18_visit, &w,
                             CSTL_DLIST_FOREACH_DIR_FWD) == 0);
    CHECK(w.n == N);
    memset(&w, 0, sizeof(w));
    w.dir = -1;
    CHECK(cstl_dlist_foreach(&l, c18_visit, &w,
                             CSTL_DLIST_FOREACH_DIR_REV) == 0);
    CHECK(w.n == N);
    memset(&w, 0, sizeof(w));
    w.dir = 1;
    w.stop_at = 17;
    CHECK(cstl_dlist_foreach(&l, c18_visit, &w,
                             CSTL_DLIST_FOREACH_DIR_FWD) == 42);
    CHECK(w.n == 17);

    cstl_dlist_reverse(&l);
    memset(&w, 0, sizeof(w));
    w.dir = -1;
    cstl_dlist_foreach(&l, c18_visit, &w, CSTL_DLIST_FOREACH_DIR_FWD);
    CHECK(w.n == N);
    cstl_dlist_reverse(&l);

    for (i = 0; i < N; i++) {
        const struct c18_ditem * f;
        probe.key = items[i].key;
        f = cstl_dlist_find(&l, &probe, c18_cmp, NULL,
                            CSTL_DLIST_FOREACH_DIR_FWD);
        CHECK(f != NULL && f->key == probe.key);
        f = cstl_dlist_find(&l, &probe, c18_cmp, NULL,
                            CSTL_DLIST_FOREACH_DIR_REV);
        CHECK(f != NULL && f->key == probe.key);
    }
    probe.key = 1000;
    CHECK(cstl_dlist_find(&l, &probe, c18_cmp, NULL,
                          CSTL_DLIST_FOREACH_DIR_FWD) == NULL);

    /* erase every other item, and put each back after its neighbour */
    for (i = 0; i + 1 < N; i += 2) {
        cstl_dlist_erase(&l, &items[i]);
        CHECK(cstl_dlist_size(&l) == N - 1);
        cstl_dlist_insert(&l, &items[i + 1], &items[i]);
        CHECK(cstl_dlist_size(&l) == N);
    }

    cstl_dlist_swap(&l, &m);
    CHECK(cstl_dlist_size(&l) == 0 && cstl_dlist_size(&m) == N);
    CHECK(cstl_dlist_front(&l) == NULL);
    cstl_dlist_swap(&l, &m);
    CHECK(cstl_dlist_size(&m) == 0 && cstl_dlist_size(&l) == N);

    for (i = 0; i < 100; i++) {
        struct c18_ditem * const f = cstl_dlist_front(&l);
        struct c18_ditem * const b = cstl_dlist_back(&l);
        CHECK(cstl_dlist_pop_front(&l) == f);
        CHECK(cstl_dlist_pop_back(&l) == b);
        cstl_dlist_push_back(&m, f);
        cstl_dlist_push_front(&m, b);
    }
    CHECK(cstl_dlist_size(&l) == 100 && cstl_dlist_size(&m) == 200);
    cstl_dlist_clear(&l, c18_clr);
    cstl_dlist_clear(&m, c18_clr);
    CHECK(cstl_dlist_size(&l) == 0 && cstl_dlist_size(&m) == 0);
    for (i = 0; i < N; i++) {
        CHECK(items[i].seen == 1);
    }
    /* cleared lists are as good as new */
    cstl_dlist_push_back(&l, &items[0]);
    CHECK(cstl_dlist_pop_front(&l) == &items[0]);

    return c18_count_seen();
}
#endif

#if TU == 2 + 9
/* ------------------------------------------------------------------ */
/* cstl/slist.h alone                                                 */
struct c18_sitem
{
    struct cstl_slist_node n;
    int key;
    int seen;
};
static int c18_cmp(const void * a, const void * b, void * p)
{
    (void)p;
    return (((const struct c18_sitem *)a)->key
            > ((const struct c18_sitem *)b)->key)
        - (((const struct c18_sitem *)a)->key
           < ((const struct c18_sitem *)b)->key);
}
struct c18_swalk
{
    int prev, n, stop_at, dir;
};
static int c18_visit(void * e, void * p)
{
    struct c18_sitem * const it = e;
    struct c18_swalk * const w = p;
    if (w->n > 0) {
        CHECK(w->dir > 0 ? w->prev <= it->key : w->prev >= it->key);
    }
    w->prev = it->key;
    w->n++;
    return (w->n == w->stop_at) ? -9 : 0;
}
static void c18_clr(void * e, void * p)
{
    (void)p;
    ((struct c18_sitem *)e)->seen++;
}

size_t c18_solo_slist(void)
{
    enum { N = 300 };
    static struct c18_sitem items[N];
    static DECLARE_CSTL_SLIST(sl, struct c18_sitem, n);
    struct cstl_slist l, m;
    struct c18_swalk w;
    unsigned seed = 4;
    int i;

    cstl_slist_init(&l, offsetof(struct c18_sitem, n));
    (cstl_slist_init)(&m, offsetof(struct c18_sitem, n));
    CHECK(cstl_slist_size(&l) == 0 && cstl_slist_size(&sl) == 0);
    CHECK(cstl_slist_front(&l) == NULL && cstl_slist_back(&sl) == NULL);
    CHECK(cstl_slist_pop_front(&sl) == NULL);

    for (i = 0; i < N; i++) {
        items[i].key = (int)(c18_rnd(&seed) % 100);
        items[i].seen = 0;
        if (i % 3 == 0) {
            cstl_slist_push_back(&l, &items[i]);
            CHECK(cstl_slist_back(&l) == &items[i]);
        } else if (i % 3 == 1) {
            cstl_slist_push_front(&l, &items[i]);
            CHECK(cstl_slist_front(&l) == &items[i]);
        } else {
            cstl_slist_push_front(&sl, &items[i]);
        }
        CHECK(cstl_slist_size(&l) + cstl_slist_size(&sl) == (size_t)i + 1);
    }
    cstl_slist_concat(&l, &sl);
    CHECK(cstl_slist_size(&l) == N);
    cstl_slist_init(&sl, offsetof(struct c18_sitem, n));

    cstl_slist_sort(&l, c18_cmp, NULL);
    CHECK(cstl_slist_size(&l) == N);
    memset(&w, 0, sizeof(w));
    w.dir = 1;
    CHECK(cstl_slist_foreach(&l, c18_visit, &w) == 0);
    CHECK(w.n == N);
    memset(&w, 0, sizeof(w));
    w.dir = 1;
    w.stop_at = 5;
    CHECK(cstl_slist_foreach(&l, c18_visit, &w) == -9);
    CHECK(w.n == 5);
    cstl_slist_reverse(&l);
    memset(&w, 0, sizeof(w));
    w.dir = -1;
    CHECK(cstl_slist_foreach(&l, c18_visit, &w) == 0);
    CHECK(w.n == N);
    CHECK(((struct c18_sitem *)cstl_slist_front(&l))->key
          >= ((struct c18_sitem *)cstl_slist_back(&l))->key);

    /* take the second out and put it back, again and again */
    for (i = 0; i < 50; i++) {
        struct c18_sitem * const f = cstl_slist_front(&l);
        struct c18_sitem * const s = cstl_slist_erase_after(&l, f);
        CHECK(s != NULL && s != f);
        CHECK(cstl_slist_size(&l) == N - 1);
        cstl_slist_insert_after(&l, f, s);
        CHECK(cstl_slist_size(&l) == N);
        CHECK(cstl_slist_front(&l) == f);
    }

    cstl_slist_swap(&l, &m);
    CHECK(cstl_slist_size(&l) == 0 && cstl_slist_size(&m) == N);
    CHECK(cstl_slist_front(&l) == NULL && cstl_slist_back(&l) == NULL);
    /* both must be usable after the swap */
    cstl_slist_push_back(&l, cstl_slist_pop_front(&m));
    cstl_slist_push_back(&m, cstl_slist_pop_front(&l));
    CHECK(cstl_slist_size(&l) == 0 && cstl_slist_size(&m) == N);
    cstl_slist_swap(&m, &l);

    for (i = 0; i < 100; i++) {
        struct c18_sitem * const f = cstl_slist_front(&l);
        CHECK(cstl_slist_pop_front(&l) == f);
        cstl_slist_push_back(&m, f);
        CHECK(cstl_slist_back(&m) == f);
    }
    CHECK(cstl_slist_size(&l) == 200 && cstl_slist_size(&m) == 100);
    cstl_slist_clear(&l, c18_clr);
    cstl_slist_clear(&m, c18_clr);
    CHECK(cstl_slist_size(&l) == 0 && cstl_slist_size(&m) == 0);
    for (i = 0; i < N; i++) {
        CHECK(items[i].seen == 1);
    }
    cstl_slist_push_back(&l, &items[0]);
    CHECK(cstl_slist_pop_front(&l) == &items[0]);

    return c18_count_seen();
}
#endif

#if TU == 2 + 1 || TU == 2 + 8
/* ------------------------------------------------------------------ */
/* cstl/bintree.h alone, cstl/rbtree.h alone: the same exercise       */
#if TU == 2 + 1
#define C18_T(NAME)     cstl_bintree_ ## NAME
#define C18_TREE        cstl_bintree
#define C18_NODE        cstl_bintree_node
#define C18_DECLARE     DECLARE_CSTL_BINTREE
#define C18_SOLO        c18_solo_bintree
#else
#define C18_T(NAME)     cstl_rbtree_ ## NAME
#define C18_TREE        cstl_rbtree
#define C18_NODE        cstl_rbtree_node
#define C18_DECLARE     DECLARE_CSTL_RBTREE
#define C18_SOLO        c18_solo_rbtree
#endif
struct c18_titem
{
    int key;
    int seen;
    struct C18_NODE n;
};
static int c18_cmp(const void * a, const void * b, void * p)
{
    if (p != NULL) {
        ++*(unsigned long *)p;
    }
    return (((const struct c18_titem *)a)->key
            > ((const struct c18_titem *)b)->key)
        - (((const struct c18_titem *)a)->key
           < ((const struct c18_titem *)b)->key);
}
struct c18_twalk
{
    int prev, n, stop_at, dir, visits;
};
static int c18_visit(const void * e, cstl_bintree_visit_order_t ord, void * p)
{
    const struct c18_titem * const it = e;
    struct c18_twalk * const w = p;
    w->visits++;
    if (ord == CSTL_BINTREE_VISIT_ORDER_MID
        || ord == CSTL_BINTREE_VISIT_ORDER_LEAF) {
        if (w->n > 0) {
            CHECK(w->dir > 0 ? w->prev < it->key : w->prev > it->key);
        }
        w->prev = it->key;
        w->n++;
        return (w->n == w->stop_at) ? 5 : 0;
    }
    CHECK(ord == CSTL_BINTREE_VISIT_ORDER_PRE
          || ord == CSTL_BINTREE_VISIT_ORDER_POST);
    return 0;
}
static void c18_clr(void * e, void * p)
{
    ((struct c18_titem *)e)->seen++;
    ++*(int *)p;
}
static unsigned long c18_ncmp;

size_t C18_SOLO(void)
{
    enum { N = 500 };
    static struct c18_titem items[N];
    static C18_DECLARE(st, struct c18_titem, n, c18_cmp, &c18_ncmp);
    struct C18_TREE t;
    struct c18_twalk w;
    struct c18_titem probe;
    size_t hmin, hmax;
    int i, cleared = 0;

    C18_T(init)(&t, c18_cmp, NULL, offsetof(struct c18_titem, n));
    CHECK(C18_T(size)(&t) == 0 && C18_T(size)(&st) == 0);
    probe.key = 1;
    CHECK(C18_T(find)(&t, &probe, NULL) == NULL);
    CHECK(C18_T(erase)(&st, &probe) == NULL);
    C18_T(height)(&t, &hmin, &hmax);
    CHECK(hmin == 0 && hmax == 0);

    /* distinct keys in a scrambled order: 7 is coprime to 500 */
    for (i = 0; i < N; i++) {
        const void * parent = NULL;
        items[i].key = (i * 7 + 3) % N;
        items[i].seen = 0;
        if (i % 2 == 0) {
            C18_T(insert)(&t, &items[i], NULL);
        } else {
            CHECK(C18_T(find)(&t, &items[i], &parent) == NULL);
            C18_T(insert)(&t, &items[i], (void *)parent);
        }
        CHECK(C18_T(size)(&t) == (size_t)i + 1);
        CHECK(C18_T(find)(&t, &items[i], NULL) == &items[i]);
    }
    C18_T(height)(&t, &hmin, &hmax);
    CHECK(hmin >= 1 && hmin <= hmax && hmax <= N);
#if TU == 2 + 8
    /* a red-black tree is never more than twice as deep as it must be */
    CHECK(hmax <= 2 * hmin);
    CHECK(hmax <= 2 * 9 + 2);
#endif

    memset(&w, 0, sizeof(w));
    w.dir = 1;
    CHECK(C18_T(foreach)(&t, c18_visit, &w,
                         CSTL_BINTREE_FOREACH_DIR_FWD) == 0);
    CHECK(w.n == N && w.visits >= N);
    memset(&w, 0, sizeof(w));
    w.dir = -1;
    CHECK(C18_T(foreach)(&t, c18_visit, &w,
                         CSTL_BINTREE_FOREACH_DIR_REV) == 0);
    CHECK(w.n == N);
    memset(&w, 0, sizeof(w));
    w.dir = 1;
    w.stop_at = 33;
    CHECK(C18_T(foreach)(&t, c18_visit, &w,
                         CSTL_BINTREE_FOREACH_DIR_FWD) == 5);
    CHECK(w.n == 33 && w.prev == 32);

    C18_T(swap)(&t, &st);
    CHECK(C18_T(size)(&t) == 0 && C18_T(size)(&st) == N);
    c18_ncmp = 0;
    for (i = 0; i < N; i++) {
        probe.key = i;
        CHECK(C18_T(find)(&t, &probe, NULL) == NULL);
        CHECK(((const struct c18_titem *)
               C18_T(find)(&st, &probe, NULL))->key == i);
    }
    C18_T(swap)(&st, &t);
    CHECK(C18_T(size)(&t) == N && C18_T(size)(&st) == 0);
    CHECK(c18_ncmp == 0);

    for (i = 0; i < N; i += 2) {
        struct c18_titem * e;
        probe.key = i;
        e = C18_T(erase)(&t, &probe);
        CHECK(e != NULL && e->key == i);
        CHECK(C18_T(erase)(&t, &probe) == NULL);
        CHECK(C18_T(find)(&t, &probe, NULL) == NULL);
        C18_T(insert)(&st, e, NULL);
    }
    CHECK(C18_T(size)(&t) == N / 2 && C18_T(size)(&st) == N / 2);
    /* the statically initialised tree kept its comparison's private pointer */
    CHECK(c18_ncmp > 0);
    memset(&w, 0, sizeof(w));
    w.dir = 1;
    C18_T(foreach)(&t, c18_visit, &w, CSTL_BINTREE_FOREACH_DIR_FWD);
    CHECK(w.n == N / 2 && w.prev == N - 1);
    memset(&w, 0, sizeof(w));
    w.dir = 1;
    C18_T(foreach)(&st, c18_visit, &w, CSTL_BINTREE_FOREACH_DIR_FWD);
    CHECK(w.n == N / 2 && w.prev == N - 2);

    C18_T(clear)(&t, c18_clr, &cleared);
    CHECK(cleared == N / 2 && C18_T(size)(&t) == 0);
    C18_T(clear)(&st, c18_clr, &cleared);
    CHECK(cleared == N && C18_T(size)(&st) == 0);
    for (i = 0; i < N; i++) {
        CHECK(items[i].seen == 1);
    }
    C18_T(insert)(&t, &items[0], NULL);
    CHECK(C18_T(erase)(&t, &items[0]) == &items[0]);

    return c18_count_seen();
}
#endif

#if TU == 2 + 5
/* ------------------------------------------------------------------ */
/* cstl/heap.h alone                                                  */
struct c18_hitem
{
    struct cstl_heap_node n;
    int key;
    int seen;
};
static int c18_cmp(const void * a, const void * b, void * p)
{
    (void)p;
    return (((const struct c18_hitem *)a)->key
            > ((const struct c18_hitem *)b)->key)
        - (((const struct c18_hitem *)a)->key
           < ((const struct c18_hitem *)b)->key);
}
static void c18_clr(void * e, void * p)
{
    (void)p;
    ((struct c18_hitem *)e)->seen++;
}

size_t c18_solo_heap(void)
{
    enum { N = 400 };
    static struct c18_hitem items[N];
    static DECLARE_CSTL_HEAP(sh, struct c18_hitem, n, c18_cmp, NULL);
    struct cstl_heap h;
    unsigned seed = 6;
    int i, max = -1, prev;

    cstl_heap_init(&h, c18_cmp, NULL, offsetof(struct c18_hitem, n));
    CHECK(cstl_heap_size(&h) == 0 && cstl_heap_size(&sh) == 0);
    CHECK(cstl_heap_get(&h) == NULL && cstl_heap_pop(&sh) == NULL);

    for (i = 0; i < N; i++) {
        items[i].key = (int)(c18_rnd(&seed) % 150);
        items[i].seen = 0;
        if (items[i].key > max) {
            max = items[i].key;
        }
        cstl_heap_push((i < N / 2) ? &h : &sh, &items[i]);
        if (i < N / 2) {
            CHECK(((const struct c18_hitem *)cstl_heap_get(&h))->key == max);
            CHECK(cstl_heap_size(&h) == (size_t)i + 1);
        }
    }
    CHECK(cstl_heap_size(&sh) == N / 2);
    cstl_heap_swap(&h, &sh);
    cstl_heap_swap(&sh, &h);

    prev = 1000;
    for (i = 0; i < 100; i++) {
        const struct c18_hitem * const top = cstl_heap_get(&h);
        struct c18_hitem * const e = cstl_heap_pop(&h);
        CHECK(e == top && e->key <= prev);
        prev = e->key;
        cstl_heap_push(&sh, e);
    }
    CHECK(cstl_heap_size(&h) == 100 && cstl_heap_size(&sh) == 300);
    prev = 1000;
    for (i = 0; i < 300; i++) {
        struct c18_hitem * const e = (cstl_heap_pop)(&sh);
        CHECK(e != NULL && e->key <= prev);
        prev = e->key;
        if (i < 250) {
            e->seen = 1;
        } else {
            cstl_heap_push(&h, e);
        }
    }
    CHECK(cstl_heap_pop(&sh) == NULL && cstl_heap_size(&sh) == 0);
    CHECK(cstl_heap_size(&h) == 150);
    cstl_heap_clear(&h, c18_clr);
    CHECK(cstl_heap_size(&h) == 0 && cstl_heap_get(&h) == NULL);
    for (i = 0; i < N; i++) {
        CHECK(items[i].seen == 1);
    }
    cstl_heap_push(&h, &items[0]);
    CHECK(cstl_heap_pop(&h) == &items[0]);

    return c18_count_seen();
}
#endif

#if TU == 2 + 4
/* ------------------------------------------------------------------ */
/* cstl/hash.h alone                                                  */
struct c18_hsitem
{
    int val;
    struct cstl_hash_node n;
    int seen;
};
static size_t c18_myhash(size_t k, size_t m)
{
    return (k * 31 + 7) % m;
}
static int c18_match(const void * e, void * p)
{
    return ((const struct c18_hsitem *)e)->val == *(int *)p;
}
static int c18_sum(void * e, void * p)
{
    *(long *)p += ((struct c18_hsitem *)e)->val;
    return 0;
}
static int c18_csum(const void * e, void * p)
{
    *(long *)p += ((const struct c18_hsitem *)e)->val;
    return 0;
}
static int c18_stop(const void * e, void * p)
{
    (void)e;
    return ++*(int *)p == 10 ? 77 : 0;
}
struct c18_drop
{
    struct cstl_hash * h;
    int n;
};
static int c18_drop_odd(void * e, void * p)
{
    struct c18_drop * const d = p;
    if (((struct c18_hsitem *)e)->val & 1) {
        cstl_hash_erase(d->h, e);
        d->n++;
    }
    return 0;
}
static void c18_clr(void * e, void * p)
{
    (void)p;
    ((struct c18_hsitem *)e)->seen++;
}

size_t c18_solo_hash(void)
{
    enum { N = 600 };
    static struct c18_hsitem items[N];
    static DECLARE_CSTL_HASH(sh, struct c18_hsitem, n);
    struct cstl_hash h;
    struct c18_drop drop;
    long sum, want = 0;
    int i, cnt;

    cstl_hash_init(&h, offsetof(struct c18_hsitem, n));
    CHECK(cstl_hash_size(&h) == 0 && cstl_hash_size(&sh) == 0);
    cstl_hash_resize(&h, 0, NULL);
    CHECK(cstl_hash_size(&h) == 0);

    cstl_hash_resize(&h, 32, NULL);
    cstl_hash_resize(&sh, 7, cstl_hash_div);
    for (i = 0; i < N; i++) {
        items[i].val = i;
        items[i].seen = 0;
        want += i;
        /* two items share every key */
        cstl_hash_insert((i % 3) ? &h : &sh, (size_t)(i / 2), &items[i]);
        CHECK(cstl_hash_size(&h) + cstl_hash_size(&sh) == (size_t)i + 1);
        if (i == 100) {
            cstl_hash_resize(&h, 64, c18_myhash);
        } else if (i == 200) {
            cstl_hash_resize(&h, 16, cstl_hash_mul);
            cstl_hash_shrink_to_fit(&h);
        } else if (i == 300) {
            cstl_hash_resize(&sh, 101, NULL);
            cstl_hash_rehash(&sh);
            CHECK(cstl_hash_load(&sh)
                  == (float)cstl_hash_size(&sh) / 101);
        }
    }
    CHECK(cstl_hash_size(&h) == 400 && cstl_hash_size(&sh) == 200);
    CHECK(cstl_hash_load(&h) > 0);

    for (i = 0; i < N; i++) {
        struct cstl_hash * const in = (i % 3) ? &h : &sh;
        struct cstl_hash * const out = (i % 3) ? &sh : &h;
        int v = i;
        const struct c18_hsitem * f;
        f = cstl_hash_find(in, (size_t)(i / 2), c18_match, &v);
        CHECK(f == &items[i]);
        f = cstl_hash_find(out, (size_t)(i / 2), c18_match, &v);
        CHECK(f == NULL);
        f = cstl_hash_find(in, (size_t)(i / 2), NULL, NULL);
        CHECK(f != NULL && f->val / 2 == i / 2);
        v = -1;
        CHECK(cstl_hash_find(in, (size_t)(i / 2), c18_match, &v) == NULL);
    }
    CHECK(cstl_hash_find(&h, 100000, NULL, NULL) == NULL);

    sum = 0;
    CHECK(cstl_hash_foreach_const(&h, c18_csum, &sum) == 0);
    CHECK(cstl_hash_foreach(&sh, c18_sum, &sum) == 0);
    CHECK(sum == want);
    cnt = 0;
    CHECK(cstl_hash_foreach_const(&h, c18_stop, &cnt) == 77);
    CHECK(cnt == 10);

    cstl_hash_swap(&h, &sh);
    CHECK(cstl_hash_size(&sh) == 400 && cstl_hash_size(&h) == 200);
    {
        int v = 1;
        CHECK(cstl_hash_find(&sh, 0, c18_match, &v) == &items[1]);
        v = 0;
        CHECK(cstl_hash_find(&h, 0, c18_match, &v) == &items[0]);
    }
    (cstl_hash_swap)(&sh, &h);
    CHECK(cstl_hash_size(&h) == 400 && cstl_hash_size(&sh) == 200);

    /* erasing the current item from within foreach is allowed */
    drop.h = &h;
    drop.n = 0;
    CHECK(cstl_hash_foreach(&h, c18_drop_odd, &drop) == 0);
    CHECK(drop.n == 200 && cstl_hash_size(&h) == 200);
    for (i = 0; i < N; i++) {
        if (i % 3) {
            int v = i;
            const void * const f =
                cstl_hash_find(&h, (size_t)(i / 2), c18_match, &v);
            CHECK(f == ((i & 1) ? NULL : (const void *)&items[i]));
            if (i & 1) {
                items[i].seen = 1;
            }
        }
    }
    for (i = 0; i < N; i += 3) {
        cstl_hash_erase(&sh, &items[i]);
        cstl_hash_insert(&h, (size_t)(i / 2), &items[i]);
    }
    CHECK(cstl_hash_size(&sh) == 0 && cstl_hash_size(&h) == 400);
    cstl_hash_clear(&sh, NULL);
    cstl_hash_clear(&h, c18_clr);
    CHECK(cstl_hash_size(&h) == 0 && cstl_hash_size(&sh) == 0);
    for (i = 0; i < N; i++) {
        CHECK(items[i].seen == 1);
    }
    /* a cleared hash is as good as new */
    cstl_hash_resize(&h, 3, NULL);
    cstl_hash_insert(&h, 5, &items[5]);
    CHECK(cstl_hash_find(&h, 5, NULL, NULL) == &items[5]);
    cstl_hash_clear(&h, NULL);

    for (i = 1; i < 200; i++) {
        size_t k;
        for (k = 0; k < 50; k++) {
            CHECK(cstl_hash_div(k * 977, (size_t)i) == (k * 977) % (size_t)i);
            CHECK(cstl_hash_mul(k * 977, (size_t)i) < (size_t)i);
        }
    }

    return c18_count_seen();
}
#endif

#if TU == 2 + 6
/* ------------------------------------------------------------------ */
/* cstl/map.h alone                                                   */
static int c18_cmp(const void * a, const void * b, void * p)
{
    if (p != NULL) {
        ++*(unsigned long *)p;
    }
    return (*(const int *)a > *(const int *)b)
        - (*(const int *)a < *(const int *)b);
}
static void c18_clr(void * e, void * p)
{
    const cstl_map_iterator_t * const i = e;
    *(long *)p += *(const int *)i->key * 1000L + *(int *)i->val;
}

size_t c18_solo_map(void)
{
    enum { N = 300 };
    static int keys[N], vals[N];
    cstl_map_t m, m2;
    cstl_map_iterator_t it, it2;
    unsigned long ncmp = 0;
    long sum = 0, want = 0;
    int i, k;

    cstl_map_init(&m, c18_cmp, &ncmp);
    cstl_map_init(&m2, c18_cmp, NULL);
    CHECK(cstl_map_size(&m) == 0);
    k = 5;
    cstl_map_find(&m, &k, &it);
    CHECK(cstl_map_iterator_eq(&it, cstl_map_iterator_end(&m)));
    CHECK(cstl_map_erase(&m, &k, NULL) == -1);
    CHECK(cstl_map_erase(&m, &k, &it) == -1);
    CHECK(cstl_map_iterator_eq(&it, cstl_map_iterator_end(&m)));

    for (i = 0; i < N; i++) {
        keys[i] = (i * 11 + 1) % N;
        vals[i] = i;
        CHECK(cstl_map_insert(&m, &keys[i], &vals[i], &it) == 0);
        CHECK(it.key == &keys[i] && it.val == &vals[i]);
        CHECK(!cstl_map_iterator_eq(&it, cstl_map_iterator_end(&m)));
        CHECK(cstl_map_size(&m) == (size_t)i + 1);
        /* the same key again is refused and the old pair reported */
        k = keys[i];
        CHECK(cstl_map_insert(&m, &k, &k, &it2) == 1);
        CHECK(it2.key == &keys[i] && it2.val == &vals[i]);
        CHECK(cstl_map_iterator_eq(&it, &it2));
        CHECK(cstl_map_insert(&m, &k, &k, NULL) == 1);
        CHECK(cstl_map_insert(&m2, &keys[i], &vals[i], NULL) == 0);
    }
    CHECK(ncmp > 0);
    CHECK(cstl_map_size(&m2) == N);

    for (i = 0; i < N; i++) {
        k = keys[i];
        cstl_map_find(&m, &k, &it);
        CHECK(!cstl_map_iterator_eq(&it, cstl_map_iterator_end(&m)));
        CHECK(it.key == &keys[i] && *(int *)it.val == i);
        k = keys[i] + N;
        cstl_map_find(&m, &k, &it);
        CHECK((cstl_map_iterator_eq)(&it, cstl_map_iterator_end(&m)));
    }

    for (i = 0; i < N; i++) {
        if (i % 3 == 0) {
            k = keys[i];
            CHECK(cstl_map_erase(&m, &k, &it) == 0);
            CHECK(it.key == &keys[i] && it.val == &vals[i]);
            CHECK(cstl_map_iterator_eq(&it, cstl_map_iterator_end(&m)));
            CHECK(cstl_map_erase(&m, &k, NULL) == -1);
        } else if (i % 3 == 1) {
            cstl_map_find(&m, &keys[i], &it);
            CHECK(it.val == &vals[i]);
            cstl_map_erase_iterator(&m, &it);
            cstl_map_find(&m, &keys[i], &it);
            CHECK(cstl_map_iterator_eq(&it, cstl_map_iterator_end(&m)));
        } else {
            want += keys[i] * 1000L + vals[i];
        }
    }
    CHECK(cstl_map_size(&m) == N / 3);
    cstl_map_clear(&m, c18_clr, &sum);
    CHECK(sum == want && cstl_map_size(&m) == 0);
    sum = 0;
    cstl_map_clear(&m2, c18_clr, &sum);
    CHECK(cstl_map_size(&m2) == 0 && sum != 0);
    cstl_map_init(&m, c18_cmp, NULL);
    CHECK(cstl_map_insert(&m, &keys[0], &vals[0], NULL) == 0);
    CHECK(cstl_map_erase(&m, &keys[0], NULL) == 0);
    cstl_map_clear(&m, c18_clr, &sum);

    return c18_count_seen();
}
#endif

#if TU == 2 + 7
/* ------------------------------------------------------------------ */
/* cstl/memory.h alone                                                */
static int c18_cleared;
static void * c18_cleared_ptr;
static void c18_clr(void * e, void * p)
{
    c18_cleared++;
    c18_cleared_ptr = e;
    if (p != NULL) {
        ++*(int *)p;
    }
}

size_t c18_solo_memory(void)
{
    static DECLARE_CSTL_GUARDED_PTR(sg);
    static DECLARE_CSTL_UNIQUE_PTR(su);
    static DECLARE_CSTL_SHARED_PTR(ss);
    static DECLARE_CSTL_WEAK_PTR(sw);
    struct cstl_guarded_ptr g, g2;
    cstl_unique_ptr_t u, u2;
    cstl_shared_ptr_t s, s2, s3;
    cstl_weak_ptr_t w, w2;
    cstl_xtor_func_t * clr;
    void * priv, * p;
    int x = 1, y = 2, hits = 0;

    /* guarded pointers */
    CHECK(cstl_guarded_ptr_get(&sg) == NULL);
    CHECK(cstl_guarded_ptr_get_const(&sg) == NULL);
    cstl_guarded_ptr_init(&g);
    (cstl_guarded_ptr_init)(&g2);
    CHECK(cstl_guarded_ptr_get(&g) == NULL);
    cstl_guarded_ptr_set(&g, &x);
    cstl_guarded_ptr_set(&sg, &y);
    CHECK(cstl_guarded_ptr_get(&g) == &x);
    CHECK((cstl_guarded_ptr_get)(&g) == &x);
    CHECK(cstl_guarded_ptr_get_const(&sg) == &y);
    cstl_guarded_ptr_copy(&g2, &g);
    CHECK(cstl_guarded_ptr_get(&g2) == &x && cstl_guarded_ptr_get(&g) == &x);
    cstl_guarded_ptr_swap(&g2, &sg);
    CHECK(cstl_guarded_ptr_get(&g2) == &y && cstl_guarded_ptr_get(&sg) == &x);

    /* unique pointers */
    CHECK(cstl_unique_ptr_get(&su) == NULL);
    cstl_unique_ptr_init(&u);
    cstl_unique_ptr_init(&u2);
    CHECK(cstl_unique_ptr_get(&u) == NULL);
    CHECK(cstl_unique_ptr_get_const(&u) == NULL);
    cstl_unique_ptr_reset(&u);
    CHECK(cstl_unique_ptr_release(&u, &clr, &priv) == NULL);
    cstl_unique_ptr_alloc(&u, 64, c18_clr, &hits);
    p = cstl_unique_ptr_get(&u);
    CHECK(p != NULL && p == cstl_unique_ptr_get_const(&u));
    CHECK((cstl_unique_ptr_get)(&u) == p);
    memset(p, 0x5a, 64);
    cstl_unique_ptr_alloc(&su, 16, NULL, NULL);
    CHECK(cstl_unique_ptr_get(&su) != NULL);
    cstl_unique_ptr_swap(&u, &su);
    CHECK(cstl_unique_ptr_get(&su) == p && cstl_unique_ptr_get(&u) != p);
    cstl_unique_ptr_reset(&u);
    CHECK(c18_cleared == 0 && cstl_unique_ptr_get(&u) == NULL);
    cstl_unique_ptr_swap(&u2, &su);
    CHECK(cstl_unique_ptr_get(&u2) == p && cstl_unique_ptr_get(&su) == NULL);
    cstl_unique_ptr_reset(&u2);
    CHECK(c18_cleared == 1 && hits == 1 && c18_cleared_ptr == p);
    CHECK(cstl_unique_ptr_get(&u2) == NULL);
    cstl_unique_ptr_alloc(&u, 8, c18_clr, &hits);
    p = cstl_unique_ptr_get(&u);
    clr = NULL;
    priv = NULL;
    CHECK(cstl_unique_ptr_release(&u, &clr, &priv) == p);
    CHECK(clr == c18_clr && priv == &hits);
    CHECK(cstl_unique_ptr_get(&u) == NULL);
    cstl_unique_ptr_reset(&u);
    CHECK(c18_cleared == 1);
    clr(p, priv);
    free(p);
    CHECK(c18_cleared == 2 && hits == 2);
    cstl_unique_ptr_alloc(&u, 8, c18_clr, NULL);
    p = cstl_unique_ptr_release(&u, NULL, NULL);
    CHECK(p != NULL);
    free(p);
    cstl_unique_ptr_alloc(&u, 8, c18_clr, NULL);
    cstl_unique_ptr_reset(&u);
    CHECK(c18_cleared == 3);

    /* shared and weak pointers */
    c18_cleared = 0;
    CHECK(cstl_shared_ptr_get(&ss) == NULL && cstl_shared_ptr_unique(&ss));
    cstl_shared_ptr_init(&s);
    cstl_shared_ptr_init(&s2);
    cstl_shared_ptr_init(&s3);
    cstl_weak_ptr_init(&w);
    cstl_weak_ptr_init(&w2);
    CHECK(cstl_shared_ptr_get(&s) == NULL);
    CHECK(cstl_shared_ptr_get_const(&s) == NULL);
    cstl_shared_ptr_reset(&s);
    cstl_weak_ptr_reset(&w);
    cstl_weak_ptr_lock(&sw, &s);
    CHECK(cstl_shared_ptr_get(&s) == NULL);

    cstl_shared_ptr_alloc(&s, 128, c18_clr);
    p = cstl_shared_ptr_get(&s);
    CHECK(p != NULL && cstl_shared_ptr_get_const(&s) == p);
    memset(p, 0xa5, 128);
    CHECK(cstl_shared_ptr_unique(&s));
    cstl_shared_ptr_share(&s, &s2);
    CHECK(cstl_shared_ptr_get(&s2) == p);
    CHECK(!cstl_shared_ptr_unique(&s) && !cstl_shared_ptr_unique(&s2));
    cstl_shared_ptr_share(&s2, &ss);
    CHECK(cstl_shared_ptr_get(&ss) == p);
    cstl_shared_ptr_reset(&s2);
    CHECK(cstl_shared_ptr_get(&s2) == NULL && c18_cleared == 0);
    cstl_shared_ptr_reset(&ss);
    CHECK(cstl_shared_ptr_unique(&s) && c18_cleared == 0);

    cstl_weak_ptr_from(&w, &s);
    cstl_weak_ptr_from(&sw, &s);
    CHECK(!cstl_shared_ptr_unique(&s));
    cstl_weak_ptr_lock(&w, &s2);
    CHECK(cstl_shared_ptr_get(&s2) == p);
    cstl_weak_ptr_swap(&w, &w2);
    cstl_weak_ptr_lock(&w, &s3);
    CHECK(cstl_shared_ptr_get(&s3) == NULL);
    cstl_weak_ptr_lock(&w2, &s3);
    CHECK(cstl_shared_ptr_get(&s3) == p);
    cstl_shared_ptr_swap(&s3, &ss);
    CHECK(cstl_shared_ptr_get(&ss) == p && cstl_shared_ptr_get(&s3) == NULL);

    cstl_shared_ptr_reset(&s);
    cstl_shared_ptr_reset(&s2);
    CHECK(c18_cleared == 0);
    CHECK(((unsigned char *)cstl_shared_ptr_get(&ss))[127] == 0xa5);
    cstl_shared_ptr_reset(&ss);
    CHECK(c18_cleared == 1 && c18_cleared_ptr == p);
    /* the memory is gone; the weak pointers cannot bring it back */
    cstl_weak_ptr_lock(&w2, &s);
    CHECK(cstl_shared_ptr_get(&s) == NULL);
    cstl_weak_ptr_lock(&sw, &s);
    CHECK(cstl_shared_ptr_get(&s) == NULL);
    cstl_weak_ptr_reset(&w);
    cstl_weak_ptr_reset(&w2);
    cstl_weak_ptr_reset(&sw);
    CHECK(c18_cleared == 1);

    /* a new allocation through an object that already owns one */
    cstl_shared_ptr_alloc(&s, 4, c18_clr);
    cstl_shared_ptr_alloc(&s, 4, NULL);
    CHECK(c18_cleared == 2);
    cstl_shared_ptr_reset(&s);
    CHECK(c18_cleared == 2);

    return c18_count_seen();
}
#endif

#if TU == 2 + 0
/* ------------------------------------------------------------------ */
/* cstl/array.h alone                                                 */
static int c18_cmp(const void * a, const void * b, void * p)
{
    (void)p;
    return (*(const int *)a > *(const int *)b)
        - (*(const int *)a < *(const int *)b);
}
static void c18_myswap(void * a, void * b, void * t, size_t n)
{
    memcpy(t, a, n);
    memcpy(a, b, n);
    memcpy(b, t, n);
}

size_t c18_solo_array(void)
{
    static DECLARE_CSTL_ARRAY(sa);
    static const cstl_sort_algorithm_t algos[] = {
        CSTL_SORT_ALGORITHM_QUICK, CSTL_SORT_ALGORITHM_QUICK_R,
        CSTL_SORT_ALGORITHM_QUICK_M, CSTL_SORT_ALGORITHM_HEAP,
        CSTL_SORT_ALGORITHM_DEFAULT
    };
    cstl_array_t a, s;
    unsigned seed = 9;
    size_t i, n, k;
    int ext[10], tmp;
    void * buf;

    cstl_array_init(&a);
    cstl_array_init(&s);
    CHECK(cstl_array_size(&a) == 0 && cstl_array_size(&sa) == 0);
    CHECK(cstl_array_data(&a) == NULL);
    CHECK(cstl_array_data_const(&sa) == NULL);
    cstl_array_reset(&a);
    cstl_array_release(&a, &buf);
    CHECK(buf == NULL);

    cstl_array_alloc(&a, 100, sizeof(int));
    CHECK(cstl_array_size(&a) == 100);
    CHECK(cstl_array_data(&a) != NULL);
    CHECK(cstl_array_data(&a) == cstl_array_data_const(&a));
    CHECK((cstl_array_data)(&a) == cstl_array_at(&a, 0));
    for (i = 0; i < 100; i++) {
        int * const e = cstl_array_at(&a, i);
        CHECK(e == (int *)cstl_array_data(&a) + i);
        CHECK(e == cstl_array_at_const(&a, i));
        CHECK(e == (cstl_array_at)(&a, i));
        *e = (int)i;
    }
    cstl_array_slice(&a, 10, 60, &s);
    CHECK(cstl_array_size(&s) == 50 && cstl_array_size(&a) == 100);
    for (i = 0; i < 50; i++) {
        CHECK(cstl_array_at(&s, i) == cstl_array_at(&a, i + 10));
    }
    cstl_array_slice(&s, 5, 15, &sa);
    CHECK(cstl_array_size(&sa) == 10);
    CHECK(*(int *)cstl_array_at(&sa, 0) == 15);
    CHECK(*(const int *)cstl_array_at_const(&sa, 9) == 24);
    cstl_array_slice(&s, 50, 50, &s);
    CHECK(cstl_array_size(&s) == 0);
    cstl_array_unslice(&s, &s);
    CHECK(cstl_array_size(&s) == 100);
    CHECK(cstl_array_at(&s, 99) == cstl_array_at(&a, 99));
    /* the memory lives as long as somebody refers to it */
    cstl_array_reset(&a);
    CHECK(cstl_array_size(&a) == 0 && cstl_array_data(&a) == NULL);
    cstl_array_reset(&s);
    CHECK(*(int *)cstl_array_at(&sa, 3) == 18);
    cstl_array_release(&sa, &buf);
    CHECK(buf == NULL && cstl_array_size(&sa) == 10);
    cstl_array_reset(&sa);
    CHECK(cstl_array_size(&sa) == 0);

    /* external memory */
    for (i = 0; i < 10; i++) {
        ext[i] = (int)(10 - i);
    }
    cstl_array_set(&a, ext, 10, sizeof(ext[0]));
    CHECK(cstl_array_size(&a) == 10 && cstl_array_data(&a) == ext);
    CHECK(cstl_array_at(&a, 7) == &ext[7]);
    cstl_array_slice(&a, 2, 4, &s);
    cstl_array_release(&a, &buf);
    CHECK(buf == NULL && cstl_array_size(&a) == 10);
    cstl_array_reset(&s);
    cstl_array_release(&a, &buf);
    CHECK(buf == ext && cstl_array_size(&a) == 0);
    cstl_array_release(&a, NULL);

    /* requests that cannot be represented leave the object initialised */
    cstl_array_alloc(&a, SIZE_MAX, 2);
    CHECK(cstl_array_size(&a) == 0 && cstl_array_data(&a) == NULL);
    cstl_array_alloc(&a, 0, sizeof(int));
    CHECK(cstl_array_size(&a) == 0);
    cstl_array_reset(&a);

    /* the raw array functions */
    for (n = 0; n <= 130; n += (n < 20 ? 1 : 11)) {
        for (k = 0; k < sizeof(algos) / sizeof(algos[0]); k++) {
            int * d;
            long sum = 0, sum2 = 0;
            const int missing = -1;
            cstl_array_alloc(&a, n, sizeof(int));
            CHECK(cstl_array_size(&a) == n);
            d = cstl_array_data(&a);
            for (i = 0; i < n; i++) {
                d[i] = (int)(c18_rnd(&seed) % (n + 1));
                sum += d[i];
            }
            cstl_raw_array_sort(d, n, sizeof(int), c18_cmp, NULL,
                                (k & 1) ? c18_myswap : cstl_swap,
                                &tmp, algos[k]);
            for (i = 0; i < n; i++) {
                sum2 += d[i];
                CHECK(i == 0 || d[i - 1] <= d[i]);
                CHECK(d[cstl_raw_array_search(d, n, sizeof(int), &d[i],
                                              c18_cmp, NULL)] == d[i]);
                CHECK(d[cstl_raw_array_find(d, n, sizeof(int), &d[i],
                                            c18_cmp, NULL)] == d[i]);
            }
            CHECK(sum == sum2);
            CHECK(cstl_raw_array_search(d, n, sizeof(int), &missing,
                                        c18_cmp, NULL) == -1);
            CHECK(cstl_raw_array_find(d, n, sizeof(int), &missing,
                                      c18_cmp, NULL) == -1);
            cstl_raw_array_reverse(d, n, sizeof(int),
                                   (k & 1) ? cstl_swap : c18_myswap, &tmp);
            for (i = 1; i < n; i++) {
                CHECK(d[i - 1] >= d[i]);
            }
        }
    }
    cstl_array_reset(&a);

    return c18_count_seen();
}
#endif

#if TU < 2
/* ------------------------------------------------------------------ */
/* two translation units that see everything and share live objects   */
struct c18_item
{
    int key;
    struct cstl_dlist_node dn;
    struct cstl_slist_node sn;
    struct cstl_bintree_node bn;
    struct cstl_rbtree_node rn;
    struct cstl_heap_node hn;
    struct cstl_hash_node hsn;
    int seen;
};
struct c18_world
{
    struct cstl_vector * v;
    cstl_string_t * s;
    cstl_wstring_t * ws;
    struct cstl_dlist * dl;
    struct cstl_slist * sl;
    struct cstl_bintree * bt;
    struct cstl_rbtree * rb;
    struct cstl_heap * hp;
    struct cstl_hash * hs;
    cstl_map_t * mp;
    struct cstl_guarded_ptr * gp;
    cstl_unique_ptr_t * up;
    cstl_shared_ptr_t * sp;
    cstl_weak_ptr_t * wp;
    cstl_array_t * ar;
    struct c18_item * items;
    size_t n;
};

const struct c18_sym * c18_tu1_syms(size_t * n);
int c18_tu1_cmp_item(const void * a, const void * b, void * p);
int c18_tu1_cmp_int(const void * a, const void * b, void * p);
cstl_swap_func_t * c18_tu1_swap(void);
void c18_tu1_fill(const struct c18_world * w);
void c18_tu1_check(const struct c18_world * w, size_t n);
void c18_tu1_drain(const struct c18_world * w);
#endif

#if TU == 1
const struct c18_sym * c18_tu1_syms(size_t * const n)
{
    *n = c18_count_seen();
    return c18_seen;
}

int c18_tu1_cmp_item(const void * a, const void * b, void * p)
{
    if (p != NULL) {
        ++*(unsigned long *)p;
    }
    return (((const struct c18_item *)a)->key
            > ((const struct c18_item *)b)->key)
        - (((const struct c18_item *)a)->key
           < ((const struct c18_item *)b)->key);
}

int c18_tu1_cmp_int(const void * a, const void * b, void * p)
{
    (void)p;
    return (*(const int *)a > *(const int *)b)
        - (*(const int *)a < *(const int *)b);
}

cstl_swap_func_t * c18_tu1_swap(void)
{
    return cstl_swap;
}

void c18_tu1_fill(const struct c18_world * const w)
{
    size_t i;

    cstl_vector_resize(w->v, w->n);
    cstl_hash_resize(w->hs, 16, NULL);
    cstl_array_alloc(w->ar, w->n, sizeof(int));
    CHECK(cstl_array_size(w->ar) == w->n);
    for (i = 0; i < w->n; i++) {
        struct c18_item * const it = &w->items[i];
        /* distinct keys, scrambled: 37 is coprime to every n used */
        it->key = (int)((i * 37 + 11) % w->n);
        it->seen = 0;
        *(int *)cstl_vector_at(w->v, i) = it->key;
        *(int *)cstl_array_at(w->ar, i) = it->key;
        cstl_dlist_push_front(w->dl, it);
        cstl_slist_push_back(w->sl, it);
        cstl_bintree_insert(w->bt, it, NULL);
        cstl_rbtree_insert(w->rb, it, NULL);
        cstl_heap_push(w->hp, it);
        cstl_hash_insert(w->hs, (size_t)it->key, it);
        CHECK(cstl_map_insert(w->mp, &it->key, it, NULL) == 0);
    }
    cstl_vector_sort(w->v, c18_tu1_cmp_int, NULL);

    cstl_string_set_str(w->s, "translation");
    cstl_string_append_ch(w->s, 1, ' ');
    cstl_wstring_set_str(w->ws, L"unit");
    cstl_wstring_insert_ch(w->ws, 0, 2, L'#');

    cstl_guarded_ptr_set(w->gp, w->items);
    cstl_unique_ptr_alloc(w->up, 32, NULL, NULL);
    memset(cstl_unique_ptr_get(w->up), 0x11, 32);
    cstl_shared_ptr_alloc(w->sp, 48, NULL);
    memset(cstl_shared_ptr_get(w->sp), 0x22, 48);
    cstl_weak_ptr_from(w->wp, w->sp);

    c18_tu1_check(w, w->n);
}

void c18_tu1_check(const struct c18_world * const w, const size_t n)
{
    size_t hmin, hmax;
    CHECK(cstl_vector_size(w->v) == n);
    CHECK(cstl_vector_capacity(w->v) >= n);
    CHECK(cstl_dlist_size(w->dl) == n);
    CHECK(cstl_slist_size(w->sl) == n);
    CHECK(cstl_bintree_size(w->bt) == n);
    CHECK(cstl_rbtree_size(w->rb) == n);
    CHECK(cstl_heap_size(w->hp) == n);
    CHECK(cstl_hash_size(w->hs) == n);
    CHECK(cstl_map_size(w->mp) == n);
    CHECK(cstl_array_size(w->ar) == n);
    cstl_rbtree_height(w->rb, &hmin, &hmax);
    CHECK(hmin <= hmax && hmax <= 2 * hmin);
    CHECK(cstl_hash_load(w->hs) >= 0);
    CHECK(cstl_guarded_ptr_get(w->gp) == w->items);
    CHECK(cstl_unique_ptr_get(w->up) != NULL);
    CHECK(cstl_shared_ptr_get(w->sp) != NULL);
    CHECK(!cstl_shared_ptr_unique(w->sp));
}

static void c18_tu1_clr(void * e, void * p)
{
    (void)p;
    ((struct c18_item *)e)->seen++;
}
static void c18_tu1_clr_map(void * e, void * p)
{
    const cstl_map_iterator_t * const i = e;
    (void)p;
    CHECK(i->key == &((struct c18_item *)i->val)->key);
    ((struct c18_item *)i->val)->seen++;
}

void c18_tu1_drain(const struct c18_world * const w)
{
    cstl_shared_ptr_t sp;

    cstl_vector_clear(w->v);
    cstl_string_clear(w->s);
    cstl_wstring_clear(w->ws);
    cstl_dlist_clear(w->dl, c18_tu1_clr);
    cstl_slist_clear(w->sl, c18_tu1_clr);
    cstl_bintree_clear(w->bt, c18_tu1_clr, NULL);
    cstl_rbtree_clear(w->rb, c18_tu1_clr, NULL);
    cstl_heap_clear(w->hp, c18_tu1_clr);
    cstl_hash_clear(w->hs, c18_tu1_clr);
    cstl_map_clear(w->mp, c18_tu1_clr_map, NULL);
    cstl_guarded_ptr_init(w->gp);
    cstl_unique_ptr_reset(w->up);
    cstl_shared_ptr_init(&sp);
    cstl_weak_ptr_lock(w->wp, &sp);
    CHECK(cstl_shared_ptr_get(&sp) == cstl_shared_ptr_get(w->sp));
    cstl_shared_ptr_reset(w->sp);
    CHECK(((unsigned char *)cstl_shared_ptr_get(&sp))[47] == 0x22);
    cstl_shared_ptr_reset(&sp);
    cstl_weak_ptr_reset(w->wp);
    cstl_array_reset(w->ar);
}
#endif

#if TU == 0
static const struct c18_sym * c18_lookup(
    const struct c18_sym * tab, const char * const name)
{
    for (; tab->name != NULL; tab++) {
        if (strcmp(tab->name, name) == 0) {
            return tab;
        }
    }
    /* no such function in the table */
    CHECK(tab->name != NULL);
    return NULL;
}

struct c18_walk
{
    int prev, n;
};
static int c18_visit_tree(const void * e, cstl_bintree_visit_order_t ord,
                          void * p)
{
    struct c18_walk * const w = p;
    if (ord == CSTL_BINTREE_VISIT_ORDER_MID
        || ord == CSTL_BINTREE_VISIT_ORDER_LEAF) {
        CHECK(w->prev < ((const struct c18_item *)e)->key);
        w->prev = ((const struct c18_item *)e)->key;
        w->n++;
    }
    return 0;
}
static int c18_visit_list(void * e, void * p)
{
    struct c18_walk * const w = p;
    CHECK(w->prev < ((struct c18_item *)e)->key);
    w->prev = ((struct c18_item *)e)->key;
    w->n++;
    return 0;
}
static int c18_match_item(const void * e, void * p)
{
    return e == p;
}

/* call the same function through the addresses two translation units took */
static void c18_through_tables(const struct c18_sym * const tab)
{
    typedef void vinit_t(struct cstl_vector *, size_t);
    typedef size_t vsize_t(const struct cstl_vector *);
    typedef void vsort_t(struct cstl_vector *, cstl_compare_func_t *, void *);
    typedef void vrev_t(struct cstl_vector *);
    typedef void * vdata_t(struct cstl_vector *);
    typedef void * aat_t(cstl_array_t *, size_t);
    typedef void * adata_t(cstl_array_t *);
    typedef void ainit_t(cstl_array_t *);
    typedef void ginit_t(struct cstl_guarded_ptr *);
    typedef void * gget_t(struct cstl_guarded_ptr *);
    typedef void * uget_t(cstl_unique_ptr_t *);
    typedef int fls_t(unsigned long);
    typedef size_t ssize_fn_t(const struct cstl_string *);
    typedef size_t wsize_fn_t(const struct cstl_wstring *);
    typedef size_t msize_t(const cstl_map_t *);
    typedef size_t hsize_t(const struct cstl_hash *);
    typedef float hload_t(const struct cstl_hash *);
    typedef size_t hpsize_t(const struct cstl_heap *);
    typedef void winit_t(struct cstl_wstring *);
    typedef void wappend_t(struct cstl_wstring *,
                           const cstl_wstring_char_t *);

    struct cstl_vector v;
    cstl_array_t a;
    struct cstl_guarded_ptr g;
    cstl_unique_ptr_t u;
    cstl_string_t s;
    cstl_wstring_t ws;
    cstl_map_t m;
    struct cstl_hash h;
    struct cstl_heap hp;
    int i, x = 1, y = 2, t = 0;

    memset(&v, 0xff, sizeof(v));
    ((vinit_t *)c18_lookup(tab, "cstl_vector_init")->addr)(&v, sizeof(int));
    CHECK(((vsize_t *)c18_lookup(tab, "cstl_vector_size")->addr)(&v) == 0);
    CHECK(((vsize_t *)
           c18_lookup(tab, "cstl_vector_capacity")->addr)(&v) == 0);
    CHECK(((vdata_t *)c18_lookup(tab, "cstl_vector_data")->addr)(&v) == NULL);
    cstl_vector_resize(&v, 50);
    CHECK(((vsize_t *)c18_lookup(tab, "cstl_vector_size")->addr)(&v) == 50);
    for (i = 0; i < 50; i++) {
        *(int *)cstl_vector_at(&v, i) = (i * 7) % 50;
    }
    ((vsort_t *)c18_lookup(tab, "cstl_vector_sort")->addr)(
        &v, c18_tu1_cmp_int, NULL);
    for (i = 0; i < 50; i++) {
        CHECK(*(int *)cstl_vector_at(&v, i) == i);
    }
    ((vrev_t *)c18_lookup(tab, "cstl_vector_reverse")->addr)(&v);
    for (i = 0; i < 50; i++) {
        CHECK(*(int *)cstl_vector_at(&v, i) == 49 - i);
    }
    CHECK(((vdata_t *)c18_lookup(tab, "cstl_vector_data")->addr)(&v)
          == cstl_vector_at(&v, 0));
    ((vrev_t *)c18_lookup(tab, "cstl_vector_clear")->addr)(&v);
    CHECK(cstl_vector_size(&v) == 0);

    ((ainit_t *)c18_lookup(tab, "cstl_array_init")->addr)(&a);
    CHECK(((adata_t *)c18_lookup(tab, "cstl_array_data")->addr)(&a) == NULL);
    cstl_array_alloc(&a, 5, sizeof(int));
    CHECK(((adata_t *)c18_lookup(tab, "cstl_array_data")->addr)(&a)
          == cstl_array_data_const(&a));
    CHECK(((aat_t *)c18_lookup(tab, "cstl_array_at")->addr)(&a, 4)
          == cstl_array_at_const(&a, 4));
    ((ainit_t *)c18_lookup(tab, "cstl_array_reset")->addr)(&a);
    CHECK(cstl_array_size(&a) == 0);

    ((ginit_t *)c18_lookup(tab, "cstl_guarded_ptr_init")->addr)(&g);
    CHECK(((gget_t *)c18_lookup(tab, "cstl_guarded_ptr_get")->addr)(&g)
          == NULL);
    cstl_guarded_ptr_set(&g, &x);
    CHECK(((gget_t *)c18_lookup(tab, "cstl_guarded_ptr_get")->addr)(&g)
          == &x);

    cstl_unique_ptr_init(&u);
    CHECK(((uget_t *)c18_lookup(tab, "cstl_unique_ptr_get")->addr)(&u)
          == NULL);
    cstl_unique_ptr_alloc(&u, 4, NULL, NULL);
    CHECK(((uget_t *)c18_lookup(tab, "cstl_unique_ptr_get")->addr)(&u)
          == cstl_unique_ptr_get_const(&u));
    cstl_unique_ptr_reset(&u);

    ((cstl_swap_func_t *)c18_lookup(tab, "cstl_swap")->addr)(
        &x, &y, &t, sizeof(x));
    CHECK(x == 2 && y == 1);
    CHECK(((fls_t *)c18_lookup(tab, "cstl_fls")->addr)(0x80) == 7);

    cstl_string_init(&s);
    cstl_string_set_str(&s, "abc");
    CHECK(((ssize_fn_t *)c18_lookup(tab, "cstl_string_size")->addr)(&s) == 3);
    cstl_string_clear(&s);
    ((winit_t *)c18_lookup(tab, "cstl_wstring_init")->addr)(&ws);
    ((wappend_t *)c18_lookup(tab, "cstl_wstring_append_str")->addr)(
        &ws, L"wide");
    ((wappend_t *)c18_lookup(tab, "cstl_wstring_append_str")->addr)(
        &ws, L"r");
    CHECK(((wsize_fn_t *)
           c18_lookup(tab, "cstl_wstring_size")->addr)(&ws) == 5);
    CHECK(cstl_wstring_compare_str(&ws, L"wider") == 0);
    cstl_wstring_clear(&ws);

    cstl_map_init(&m, c18_tu1_cmp_int, NULL);
    CHECK(cstl_map_insert(&m, &x, &y, NULL) == 0);
    CHECK(((msize_t *)c18_lookup(tab, "cstl_map_size")->addr)(&m) == 1);
    CHECK(cstl_map_erase(&m, &x, NULL) == 0);

    cstl_hash_init(&h, offsetof(struct c18_item, hsn));
    CHECK(((hsize_t *)c18_lookup(tab, "cstl_hash_size")->addr)(&h) == 0);
    cstl_hash_resize(&h, 4, NULL);
    CHECK(((hload_t *)c18_lookup(tab, "cstl_hash_load")->addr)(&h) == 0);
    cstl_hash_clear(&h, NULL);

    cstl_heap_init(&hp, c18_tu1_cmp_item, NULL,
                   offsetof(struct c18_item, hn));
    CHECK(((hpsize_t *)c18_lookup(tab, "cstl_heap_size")->addr)(&hp) == 0);
}

static void c18_shared_world(const size_t n)
{
    static struct c18_item items[1000];
    static unsigned long ncmp;
    static DECLARE_CSTL_VECTOR(v, int);
    static DECLARE_CSTL_STRING(string, s);
    static DECLARE_CSTL_STRING(wstring, ws);
    static DECLARE_CSTL_DLIST(dl, struct c18_item, dn);
    static DECLARE_CSTL_SLIST(sl, struct c18_item, sn);
    static DECLARE_CSTL_BINTREE(bt, struct c18_item, bn,
                                c18_tu1_cmp_item, &ncmp);
    static DECLARE_CSTL_RBTREE(rb, struct c18_item, rn,
                               c18_tu1_cmp_item, NULL);
    static DECLARE_CSTL_HEAP(hp, struct c18_item, hn,
                             c18_tu1_cmp_item, NULL);
    static DECLARE_CSTL_HASH(hs, struct c18_item, hsn);
    static DECLARE_CSTL_GUARDED_PTR(gp);
    static DECLARE_CSTL_UNIQUE_PTR(up);
    static DECLARE_CSTL_SHARED_PTR(sp);
    static DECLARE_CSTL_WEAK_PTR(wp);
    static DECLARE_CSTL_ARRAY(ar);
    cstl_map_t mp;
    struct c18_world w;
    struct c18_walk walk;
    cstl_map_iterator_t it;
    size_t i;

    CHECK(n <= sizeof(items) / sizeof(items[0]) && n % 2 == 0);
    cstl_map_init(&mp, c18_tu1_cmp_int, NULL);
    w.v = &v; w.s = &s; w.ws = &ws; w.dl = &dl; w.sl = &sl;
    w.bt = &bt; w.rb = &rb; w.hp = &hp; w.hs = &hs; w.mp = &mp;
    w.gp = &gp; w.up = &up; w.sp = &sp; w.wp = &wp; w.ar = &ar;
    w.items = items; w.n = n;

    /* the other translation unit fills, this one looks */
    ncmp = 0;
    c18_tu1_fill(&w);
    CHECK(ncmp > 0);
    CHECK(cstl_vector_size(&v) == n && cstl_dlist_size(&dl) == n);
    CHECK(cstl_slist_size(&sl) == n && cstl_bintree_size(&bt) == n);
    CHECK(cstl_rbtree_size(&rb) == n && cstl_heap_size(&hp) == n);
    CHECK(cstl_hash_size(&hs) == n && cstl_map_size(&mp) == n);
    CHECK(cstl_array_size(&ar) == n);
    CHECK(cstl_string_compare_str(&s, "translation ") == 0);
    CHECK(cstl_wstring_compare_str(&ws, L"##unit") == 0);
    CHECK(cstl_string_size(&s) == 12 && cstl_wstring_size(&ws) == 6);
    CHECK(cstl_guarded_ptr_get(&gp) == items);
    CHECK(((unsigned char *)cstl_unique_ptr_get(&up))[31] == 0x11);
    CHECK(((unsigned char *)cstl_shared_ptr_get(&sp))[47] == 0x22);
    CHECK(((const struct c18_item *)cstl_heap_get(&hp))->key == (int)n - 1);
    CHECK(cstl_dlist_front(&dl) == &items[n - 1]);
    CHECK(cstl_dlist_back(&dl) == &items[0]);
    CHECK(cstl_slist_front(&sl) == &items[0]);
    CHECK(cstl_slist_back(&sl) == &items[n - 1]);
    for (i = 0; i < n; i++) {
        const int k = items[i].key;
        CHECK(*(const int *)cstl_vector_at_const(&v, i) == (int)i);
        CHECK(cstl_vector_search(&v, &k, c18_tu1_cmp_int, NULL) == k);
        CHECK(*(const int *)cstl_array_at_const(&ar, i) == k);
        CHECK(cstl_bintree_find(&bt, &items[i], NULL) == &items[i]);
        CHECK(cstl_rbtree_find(&rb, &items[i], NULL) == &items[i]);
        CHECK(cstl_hash_find(&hs, (size_t)k, c18_match_item, &items[i])
              == &items[i]);
        cstl_map_find(&mp, &k, &it);
        CHECK(!cstl_map_iterator_eq(&it, cstl_map_iterator_end(&mp)));
        CHECK(it.val == &items[i] && it.key == &items[i].key);
    }
    walk.prev = -1;
    walk.n = 0;
    CHECK(cstl_bintree_foreach(&bt, c18_visit_tree, &walk,
                               CSTL_BINTREE_FOREACH_DIR_FWD) == 0);
    CHECK(walk.n == (int)n);
    walk.prev = -1;
    walk.n = 0;
    CHECK(cstl_rbtree_foreach(&rb, c18_visit_tree, &walk,
                              CSTL_BINTREE_FOREACH_DIR_FWD) == 0);
    CHECK(walk.n == (int)n);

    /* this translation unit takes half of everything out again */
    cstl_dlist_sort(&dl, c18_tu1_cmp_item, NULL);
    cstl_slist_sort(&sl, c18_tu1_cmp_item, NULL);
    walk.prev = -1;
    walk.n = 0;
    cstl_dlist_foreach(&dl, c18_visit_list, &walk,
                       CSTL_DLIST_FOREACH_DIR_FWD);
    CHECK(walk.n == (int)n);
    walk.prev = -1;
    walk.n = 0;
    cstl_slist_foreach(&sl, c18_visit_list, &walk);
    CHECK(walk.n == (int)n);
    __cstl_vector_reverse(&v, c18_tu1_swap());
    CHECK(*(int *)cstl_vector_at(&v, 0) == (int)n - 1);
    __cstl_vector_sort(&v, c18_tu1_cmp_int, NULL, c18_tu1_swap(),
                       CSTL_SORT_ALGORITHM_HEAP);
    CHECK(*(int *)cstl_vector_at(&v, 0) == 0);
    cstl_vector_resize(&v, n / 2);
    cstl_array_slice(&ar, 0, n / 2, &ar);
    for (i = 0; i < n / 2; i++) {
        struct c18_item * const top = cstl_heap_pop(&hp);
        struct c18_item probe;
        CHECK(top->key == (int)(n - 1 - i));
        probe.key = top->key;
        CHECK(cstl_dlist_pop_back(&dl) == top);
        CHECK(cstl_bintree_erase(&bt, &probe) == top);
        CHECK(cstl_rbtree_erase(&rb, &probe) == top);
        cstl_hash_erase(&hs, top);
        CHECK(cstl_map_erase(&mp, &probe.key, &it) == 0);
        CHECK(it.val == top);
        CHECK(((struct c18_item *)cstl_slist_pop_front(&sl))->key == (int)i);
        top->seen = 1;
    }
    /* the single list now holds the upper half, everything else the lower */
    c18_tu1_check(&w, n / 2);
    for (i = 0; i < n / 2; i++) {
        struct c18_item * const e = cstl_slist_pop_front(&sl);
        CHECK(e != NULL && e->seen == 1);
        e->seen = 0;
    }
    for (i = 0; i < n; i++) {
        if (items[i].key < (int)(n / 2)) {
            cstl_slist_push_front(&sl, &items[i]);
        }
    }
    c18_tu1_check(&w, n / 2);

    c18_tu1_drain(&w);
    CHECK(cstl_vector_size(&v) == 0 && cstl_dlist_size(&dl) == 0);
    CHECK(cstl_slist_size(&sl) == 0 && cstl_bintree_size(&bt) == 0);
    CHECK(cstl_rbtree_size(&rb) == 0 && cstl_heap_size(&hp) == 0);
    CHECK(cstl_hash_size(&hs) == 0 && cstl_map_size(&mp) == 0);
    CHECK(cstl_array_size(&ar) == 0);
    CHECK(cstl_string_size(&s) == 0 && cstl_wstring_size(&ws) == 0);
    CHECK(cstl_guarded_ptr_get(&gp) == NULL);
    CHECK(cstl_unique_ptr_get(&up) == NULL);
    CHECK(cstl_shared_ptr_get(&sp) == NULL);
    for (i = 0; i < n; i++) {
        /* once by hand, or once per container that still held it */
        CHECK(items[i].seen == (items[i].key < (int)(n / 2) ? 7 : 0));
    }
}

int main(void)
{
    const struct c18_sym * tu1;
    size_t n0, n1, i, solo = 0;

    /* each header alone, in a translation unit of its own */
    solo += c18_solo_array();
    solo += c18_solo_bintree();
    solo += c18_solo_common();
    solo += c18_solo_dlist();
    solo += c18_solo_hash();
    solo += c18_solo_heap();
    solo += c18_solo_map();
    solo += c18_solo_memory();
    solo += c18_solo_rbtree();
    solo += c18_solo_slist();
    solo += c18_solo_string();
    solo += c18_solo_vector();

    /* every declared function has an address in both translation units */
    n0 = c18_count_seen();
    tu1 = c18_tu1_syms(&n1);
    CHECK(n0 == 203 && n1 == 203 && solo == 203);
    for (i = 0; i < n0; i++) {
        CHECK(strcmp(c18_seen[i].name, tu1[i].name) == 0);
        CHECK(c18_seen[i].addr != NULL && tu1[i].addr != NULL);
    }
    /* data the headers declare */
    CHECK(cstl_string_nul == '\0' && cstl_wstring_nul == L'\0');

    c18_through_tables(c18_seen);
    c18_through_tables(tu1);

    c18_shared_world(2);
    c18_shared_world(64);
    c18_shared_world(1000);

    printf("C18 ok: %lu functions, %lu in single-header units\n",
           (unsigned long)n0, (unsigned long)solo);
    return 0;
}
#endif
