/*
 * C02: red-black trees satisfy the red-black rules after every insert
 * and erase.
 *
 * Only the public API is used.  The colours are private, so the rules are
 * checked through what the public API shows:
 *
 *  - cstl_rbtree_foreach() reports every element with its visit order
 *    (PRE/MID/POST/LEAF), from which the exact shape of the tree is
 *    rebuilt;
 *  - the shape must ADMIT a red-black colouring with a black root (a
 *    dynamic programme over the shape decides this exactly); a tree that
 *    obeys the rules necessarily has such a shape;
 *  - cstl_rbtree_height() must agree with the rebuilt shape and obey
 *    max <= 2*log2(n+1) and max <= 2*min;
 *  - the in-order sequence must be sorted, hold exactly the elements of a
 *    reference model, and the reverse walk must be its mirror image;
 *  - find/erase must return elements of the right key that really are in
 *    the tree (which they can only do if the links are coherent).
 *
 * Exit status 0 means every check passed.
 */

#include "cstl/rbtree.h"
#include "cstl/map.h"

#include <stdio.h>
#include <stdlib.h>
#include <string.h>
#include <limits.h>
#include <stdint.h>

static unsigned long checks;

#define REQUIRE(COND)                                                   \
    do {                                                                \
        checks++;                                                       \
        if (!(COND)) {                                                  \
            fprintf(stderr, "%s:%d: requirement failed: %s\n",          \
                    __FILE__, __LINE__, #COND);                         \
            exit(1);                                                    \
        }                                                               \
    } while (0)

/* ------------------------------------------------------------------ */
/* deterministic pseudo random numbers                                  */

static uint64_t rng_state = 0x9e3779b97f4a7c15ull;

static uint32_t rnd(void)
{
    rng_state ^= rng_state << 13;
    rng_state ^= rng_state >> 7;
    rng_state ^= rng_state << 17;
    return (uint32_t)(rng_state >> 16);
}

/* ------------------------------------------------------------------ */
/* element types                                                        */

/* node in the middle of the element */
struct item
{
    long key;
    int in_tree;
    struct cstl_rbtree_node node;
    int serial;
};

/* node at the very start of the element, different key type */
struct item2
{
    struct cstl_rbtree_node node;
    double weight;
    int in_tree;
    short key;
};

/* node at the very end of the element, after an odd sized member */
struct item3
{
    char tag[5];
    int key;
    int in_tree;
    struct cstl_rbtree_node node;
};

static unsigned long cmp_calls;

static int cmp_item(const void * const a, const void * const b, void * const p)
{
    const long x = ((const struct item *)a)->key;
    const long y = ((const struct item *)b)->key;
    if (p != NULL) {
        (*(unsigned long *)p)++;
    }
    return (x > y) - (x < y);
}

static int cmp_item2(const void * const a, const void * const b,
                     void * const p)
{
    (void)p;
    return (int)((const struct item2 *)a)->key
        - (int)((const struct item2 *)b)->key;
}

static int cmp_item3(const void * const a, const void * const b,
                     void * const p)
{
    const int x = ((const struct item3 *)a)->key;
    const int y = ((const struct item3 *)b)->key;
    (void)p;
    return (x > y) - (x < y);
}

static long key_item(const void * const e)
{
    return ((const struct item *)e)->key;
}
static long key_item2(const void * const e)
{
    return ((const struct item2 *)e)->key;
}
static long key_item3(const void * const e)
{
    return ((const struct item3 *)e)->key;
}
static int in_item(const void * const e)
{
    return ((const struct item *)e)->in_tree;
}
static int in_item2(const void * const e)
{
    return ((const struct item2 *)e)->in_tree;
}
static int in_item3(const void * const e)
{
    return ((const struct item3 *)e)->in_tree;
}

/* ------------------------------------------------------------------ */
/* rebuilding the shape of a tree from cstl_rbtree_foreach              */

#define MAXN    40000
#define MAXD    256

struct shape
{
    int n;
    const void * e[MAXN];
    int l[MAXN], r[MAXN];
    int root;

    int stack[MAXD];
    int seen_mid[MAXD];
    int sp;

    int inorder[MAXN];
    int nin;

    int mirrored;
};

static struct shape S;

static const void * rev_seq[MAXN];
static int rev_n;

static void shape_completed(struct shape * const s, const int idx)
{
    if (s->sp == 0) {
        REQUIRE(s->root == -1);
        s->root = idx;
    } else {
        const int top = s->stack[s->sp - 1];
        if (!s->seen_mid[s->sp - 1]) {
            REQUIRE(s->l[top] == -1);
            s->l[top] = idx;
        } else {
            REQUIRE(s->r[top] == -1);
            s->r[top] = idx;
        }
    }
}

static int shape_visit(const void * const e,
                       const cstl_bintree_visit_order_t order,
                       void * const priv)
{
    struct shape * const s = priv;

    switch (order) {
    case CSTL_BINTREE_VISIT_ORDER_PRE:
        REQUIRE(s->n < MAXN);
        REQUIRE(s->sp < MAXD);
        s->e[s->n] = e;
        s->l[s->n] = s->r[s->n] = -1;
        s->stack[s->sp] = s->n;
        s->seen_mid[s->sp] = 0;
        s->sp++;
        s->n++;
        break;
    case CSTL_BINTREE_VISIT_ORDER_MID:
        REQUIRE(s->sp > 0);
        REQUIRE(s->e[s->stack[s->sp - 1]] == e);
        REQUIRE(!s->seen_mid[s->sp - 1]);
        s->seen_mid[s->sp - 1] = 1;
        s->inorder[s->nin++] = s->stack[s->sp - 1];
        break;
    case CSTL_BINTREE_VISIT_ORDER_POST:
        REQUIRE(s->sp > 0);
        REQUIRE(s->e[s->stack[s->sp - 1]] == e);
        REQUIRE(s->seen_mid[s->sp - 1]);
        /* an element visited three times has at least one child */
        REQUIRE(s->l[s->stack[s->sp - 1]] != -1
                || s->r[s->stack[s->sp - 1]] != -1);
        s->sp--;
        shape_completed(s, s->stack[s->sp]);
        break;
    case CSTL_BINTREE_VISIT_ORDER_LEAF:
        REQUIRE(s->n < MAXN);
        s->e[s->n] = e;
        s->l[s->n] = s->r[s->n] = -1;
        s->inorder[s->nin++] = s->n;
        s->n++;
        shape_completed(s, s->n - 1);
        break;
    default:
        REQUIRE(0);
    }

    return 0;
}

static int rev_visit(const void * const e,
                     const cstl_bintree_visit_order_t order,
                     void * const priv)
{
    (void)priv;
    if (order == CSTL_BINTREE_VISIT_ORDER_MID
        || order == CSTL_BINTREE_VISIT_ORDER_LEAF) {
        REQUIRE(rev_n < MAXN);
        rev_seq[rev_n++] = e;
    }
    return 0;
}

/*
 * for the subtree at idx compute the set of black heights it can have
 * when its root is coloured black (*b) and red (*r), as bit masks; also
 * the depth of its shallowest and deepest leaf.  iterative (post order
 * over the index arrays: children always have larger indices than their
 * parents, so walking the indices downwards sees children first)
 */
static uint64_t mask_b[MAXN], mask_r[MAXN];
static int leaf_min[MAXN], leaf_max[MAXN];

static void shape_solve(const struct shape * const s)
{
    int i;

    for (i = s->n - 1; i >= 0; i--) {
        const int l = s->l[i], r = s->r[i];
        const uint64_t lb = l < 0 ? 1u : mask_b[l];
        const uint64_t lr = l < 0 ? 0u : mask_r[l];
        const uint64_t rb = r < 0 ? 1u : mask_b[r];
        const uint64_t rr = r < 0 ? 0u : mask_r[r];

        REQUIRE(l < 0 || l > i);
        REQUIRE(r < 0 || r > i);

        /* black: children of any colour, equal black height */
        mask_b[i] = ((lb | lr) & (rb | rr)) << 1;
        /* red: both children black, equal black height */
        mask_r[i] = lb & rb;

        if (l < 0 && r < 0) {
            leaf_min[i] = leaf_max[i] = 1;
        } else {
            int mn = INT_MAX, mx = 0;
            if (l >= 0) {
                mn = leaf_min[l];
                mx = leaf_max[l];
            }
            if (r >= 0) {
                if (leaf_min[r] < mn) {
                    mn = leaf_min[r];
                }
                if (leaf_max[r] > mx) {
                    mx = leaf_max[r];
                }
            }
            leaf_min[i] = mn + 1;
            leaf_max[i] = mx + 1;
        }
    }
}

static unsigned long verifies;

/*
 * the complete check of one tree
 */
static void verify(const struct cstl_rbtree * const t,
                   long (* const keyof)(const void *),
                   int (* const inof)(const void *),
                   const size_t expect)
{
    struct shape * const s = &S;
    size_t hmin = 12345, hmax = 54321;
    int i;

    verifies++;

    REQUIRE(cstl_rbtree_size(t) == expect);
    REQUIRE(expect <= MAXN);

    s->n = 0;
    s->sp = 0;
    s->nin = 0;
    s->root = -1;
    REQUIRE(cstl_rbtree_foreach(t, shape_visit, s,
                                CSTL_BINTREE_FOREACH_DIR_FWD) == 0);
    REQUIRE(s->sp == 0);
    REQUIRE((size_t)s->n == expect);
    REQUIRE((size_t)s->nin == expect);
    REQUIRE((expect == 0) == (s->root == -1));

    /* sorted, and only elements the model says are in the tree */
    for (i = 0; i < s->nin; i++) {
        REQUIRE(inof(s->e[s->inorder[i]]) == 1);
        if (i > 0) {
            REQUIRE(keyof(s->e[s->inorder[i - 1]])
                    <= keyof(s->e[s->inorder[i]]));
            /* no element twice */
            REQUIRE(s->e[s->inorder[i - 1]] != s->e[s->inorder[i]]);
        }
    }

    /* the reverse walk is the mirror image */
    rev_n = 0;
    REQUIRE(cstl_rbtree_foreach(t, rev_visit, NULL,
                                CSTL_BINTREE_FOREACH_DIR_REV) == 0);
    REQUIRE((size_t)rev_n == expect);
    for (i = 0; i < rev_n; i++) {
        REQUIRE(rev_seq[i] == s->e[s->inorder[s->nin - 1 - i]]);
    }

    cstl_rbtree_height(t, &hmin, &hmax);
    if (expect == 0) {
        REQUIRE(hmin == 0 && hmax == 0);
        return;
    }

    shape_solve(s);

    /* the shape can be coloured by the rules, with a black root */
    REQUIRE(s->root == 0);
    REQUIRE(mask_b[0] != 0);

    /* the reported heights are those of the shape */
    REQUIRE(hmin == (size_t)leaf_min[0]);
    REQUIRE(hmax == (size_t)leaf_max[0]);

    /* max <= 2*log2(n+1)  <=>  2^max <= (n+1)^2 */
    REQUIRE(hmax < 63);
    REQUIRE(((uint64_t)1 << hmax)
            <= ((uint64_t)expect + 1) * ((uint64_t)expect + 1));
    REQUIRE(hmax <= 2 * hmin);
    REQUIRE(hmin >= 1);
}

/* ------------------------------------------------------------------ */
/* a pool of items and a model of one tree                              */

#define POOL 40000

static struct item pool[POOL];

struct world
{
    struct cstl_rbtree * t;
    size_t n;
    int first_free;
    int nspare;
};

/* items that have been in the tree and were erased again */
static int spare[POOL];

static void world_reset(struct world * const w, struct cstl_rbtree * const t)
{
    w->t = t;
    w->n = 0;
    w->first_free = 0;
    w->nspare = 0;
}

static long count_key(const struct world * const w, const long k)
{
    long c = 0;
    int i;
    for (i = 0; i < w->first_free; i++) {
        if (pool[i].in_tree && pool[i].key == k) {
            c++;
        }
    }
    return c;
}

/* get an item that is not in the tree */
static struct item * world_item(struct world * const w)
{
    if (w->nspare > 0) {
        struct item * const it = &pool[spare[--w->nspare]];
        REQUIRE(!it->in_tree);
        return it;
    }
    REQUIRE(w->first_free < POOL);
    pool[w->first_free].in_tree = 0;
    pool[w->first_free].serial = w->first_free;
    return &pool[w->first_free++];
}

static void world_insert(struct world * const w, const long k, const int hint)
{
    struct item * const it = world_item(w);
    const void * par = (const void *)&par;
    void * p = NULL;

    it->key = k;
    /* stale, hostile link values must not matter */
    memset(&it->node, 0xa5, sizeof(it->node));

    if (hint) {
        const struct item * const f = cstl_rbtree_find(w->t, it, &par);
        if (f != NULL) {
            REQUIRE(f->key == k && f->in_tree);
        }
        if (par != NULL) {
            REQUIRE(((const struct item *)par)->in_tree);
        }
        p = (void *)par;
    }

    cstl_rbtree_insert(w->t, it, p);
    it->in_tree = 1;
    w->n++;
}

/* returns 1 if something was erased */
static int world_erase(struct world * const w, const long k, const long have)
{
    struct item probe;
    struct item * got;

    probe.key = k;
    probe.in_tree = 0;
    got = cstl_rbtree_erase(w->t, &probe);
    if (have == 0) {
        REQUIRE(got == NULL);
        return 0;
    }
    REQUIRE(got != NULL);
    REQUIRE(got >= pool && got < pool + POOL);
    REQUIRE(got->key == k);
    REQUIRE(got->in_tree == 1);
    got->in_tree = 0;
    spare[w->nspare++] = (int)(got - pool);
    w->n--;
    return 1;
}

static void world_check(const struct world * const w)
{
    verify(w->t, key_item, in_item, w->n);
}

static void world_find_all(const struct world * const w,
                           const long lo, const long hi)
{
    long k;
    for (k = lo; k <= hi; k++) {
        struct item probe;
        const struct item * f;
        const void * par = (const void *)&probe;

        probe.key = k;
        f = cstl_rbtree_find(w->t, &probe, &par);
        if (count_key(w, k) > 0) {
            REQUIRE(f != NULL && f->key == k && f->in_tree);
        } else {
            REQUIRE(f == NULL);
        }
        REQUIRE(par == NULL || ((const struct item *)par)->in_tree);
        REQUIRE(f == cstl_rbtree_find(w->t, &probe, NULL));
    }
}

static void world_drain(struct world * const w)
{
    int i;
    /* erase whatever is left, by element */
    for (i = 0; i < w->first_free; i++) {
        while (pool[i].in_tree) {
            /* may well remove another element with the same key */
            world_erase(w, pool[i].key, 1);
        }
    }
    REQUIRE(w->n == 0);
    world_check(w);
}

/* ------------------------------------------------------------------ */
/* 1. every sequence of operations up to a bound, in a small scope      */

/*
 * operations are numbered: 3*k + 0 insert key k (no hint),
 * 3*k + 1 insert key k (with the parent reported by find as the hint),
 * 3*k + 2 erase key k.  every sequence of `depth` operations is run
 * from an empty tree, the whole check applied after every operation.
 */
static unsigned long sequences;

static void replay(struct world * const w, const int * const ops,
                   const int len)
{
    struct cstl_rbtree * const t = w->t;
    int i;

    /* back to an empty tree: everything still in it is erased */
    world_drain(w);
    world_reset(w, t);

    for (i = 0; i < len; i++) {
        const long k = ops[i] / 3;
        switch (ops[i] % 3) {
        case 0: world_insert(w, k, 0); break;
        case 1: world_insert(w, k, 1); break;
        case 2: world_erase(w, k, count_key(w, k)); break;
        }
    }
}

static void explore(struct world * const w, int * const ops, const int len,
                    const int depth, const int nops)
{
    int o;

    if (len == depth) {
        sequences++;
        return;
    }

    for (o = 0; o < nops; o++) {
        ops[len] = o;
        replay(w, ops, len + 1);
        world_check(w);
        explore(w, ops, len + 1, depth, nops);
    }
}

static void test_small_scope(void)
{
    DECLARE_CSTL_RBTREE(t, struct item, node, cmp_item, NULL);
    struct world w;
    int ops[16];

    world_reset(&w, &t);

    /* 3 keys, hinted and unhinted inserts, erases: 9 ops, 6 deep */
    explore(&w, ops, 0, 6, 9);
    /* 2 keys, 6 ops, 8 deep: piles of duplicates */
    explore(&w, ops, 0, 8, 6);

    world_drain(&w);
}

/* ------------------------------------------------------------------ */
/* 2. every insertion order followed by every erase order               */

static int next_perm(int * const a, const int n)
{
    int i = n - 2, j = n - 1, k;
    while (i >= 0 && a[i] >= a[i + 1]) {
        i--;
    }
    if (i < 0) {
        return 0;
    }
    while (a[j] <= a[i]) {
        j--;
    }
    k = a[i]; a[i] = a[j]; a[j] = k;
    for (j = i + 1, k = n - 1; j < k; j++, k--) {
        const int x = a[j]; a[j] = a[k]; a[k] = x;
    }
    return 1;
}

static void test_permutations(const int n, const int dupes)
{
    struct cstl_rbtree t;
    struct world w;
    int ins[12], ers[12];
    int i;

    cstl_rbtree_init(&t, cmp_item, &cmp_calls, offsetof(struct item, node));
    world_reset(&w, &t);

    for (i = 0; i < n; i++) {
        ins[i] = i;
    }
    do {
        for (i = 0; i < n; i++) {
            ers[i] = i;
        }
        do {
            for (i = 0; i < n; i++) {
                world_insert(&w, ins[i] / dupes, (ins[i] ^ ers[0]) & 1);
                if (n <= 5) {
                    world_check(&w);
                }
            }
            world_check(&w);
            for (i = 0; i < n; i++) {
                const long k = ers[i] / dupes;
                world_erase(&w, k, count_key(&w, k));
                world_check(&w);
            }
            REQUIRE(w.n == 0);
            world_reset(&w, &t);
        } while (next_perm(ers, n));
    } while (next_perm(ins, n));
}

/* ------------------------------------------------------------------ */
/* 3. long random histories, heavy duplication, larger trees            */

static void test_random(const unsigned int range, const unsigned int target,
                        const unsigned long nops, const unsigned int every)
{
    DECLARE_CSTL_RBTREE(t, struct item, node, cmp_item, &cmp_calls);
    struct world w;
    unsigned long i;
    static long counts[70000];

    REQUIRE(range <= 70000);
    memset(counts, 0, sizeof(counts));
    world_reset(&w, &t);

    for (i = 0; i < nops; i++) {
        const long k = rnd() % range;
        /* hover around the target size, with long excursions */
        const unsigned int bias = (i / 5000) % 3 == 2 ? 30 : 55;
        int ins;

        if (w.n == 0) {
            ins = 1;
        } else if (w.n >= 2 * target || w.n >= POOL - 1) {
            ins = 0;
        } else if (w.n < target) {
            ins = rnd() % 100 < bias + 10;
        } else {
            ins = rnd() % 100 < bias - 10;
        }

        if (ins) {
            world_insert(&w, k, rnd() & 1);
            counts[k]++;
        } else {
            if (world_erase(&w, k, counts[k])) {
                counts[k]--;
            }
        }

        if (i % every == 0) {
            world_check(&w);
        } else if (w.n <= 128 || i % 101 == 0) {
            /* the height is costly to ask for on big trees */
            size_t mn, mx;
            REQUIRE(cstl_rbtree_size(&t) == w.n);
            cstl_rbtree_height(&t, &mn, &mx);
            REQUIRE(mx < 63 && ((uint64_t)1 << mx)
                    <= ((uint64_t)w.n + 1) * ((uint64_t)w.n + 1));
            REQUIRE(mx <= 2 * mn);
        } else {
            REQUIRE(cstl_rbtree_size(&t) == w.n);
        }
    }
    world_check(&w);

    /* take it apart again, checking all the way down */
    while (w.n > 0) {
        long k = rnd() % range;
        while (counts[k] == 0) {
            k = (k + 1) % range;
        }
        world_erase(&w, k, counts[k]);
        counts[k]--;
        if (w.n % every == 0 || w.n < 40) {
            world_check(&w);
        }
    }
    world_check(&w);
}

/* ------------------------------------------------------------------ */
/* 4. ordered fills and ordered drains of big trees, extreme keys       */

static void test_ordered(const int n)
{
    DECLARE_CSTL_RBTREE(t, struct item, node, cmp_item, NULL);
    struct world w;
    int i, pass;

    for (pass = 0; pass < 6; pass++) {
        world_reset(&w, &t);
        for (i = 0; i < n; i++) {
            long k;
            switch (pass) {
            case 0: k = i; break;                           /* ascending */
            case 1: k = n - i; break;                       /* descending */
            case 2: k = (i & 1) ? i : -i; break;            /* outside in */
            case 3: k = 7; break;                           /* all equal */
            case 4: k = (i & 1) ? LONG_MAX - i / 2          /* extremes */
                                : LONG_MIN + i / 2; break;
            default: k = i / 4; break;                      /* runs */
            }
            world_insert(&w, k, pass & 1);
            if ((i & (i + 1)) == 0 || i % 997 == 0 || i < 70) {
                world_check(&w);
            }
        }
        world_check(&w);

        /* drain: front, back, middle out by turns */
        i = 0;
        while (w.n > 0) {
            const struct item * victim = NULL;
            size_t rank;
            int j;

            switch ((pass + i) % 3) {
            case 0: rank = 0; break;
            case 1: rank = w.n - 1; break;
            default: rank = w.n / 2; break;
            }
            if (w.n % 500 == 0 || w.n < 70) {
                /* pick by rank using the verified in-order sequence */
                world_check(&w);
                victim = S.e[S.inorder[rank]];
            } else {
                /* any element still in the tree */
                for (j = (int)(rnd() % (unsigned)w.first_free);
                     !pool[j].in_tree;
                     j = (j + 1) % w.first_free)
                    ;
                victim = &pool[j];
            }
            world_erase(&w, victim->key, 1);
            i++;
        }
        world_check(&w);
    }
}

/* ------------------------------------------------------------------ */
/* 5. several trees of different element types, swap, clear             */

static unsigned long cleared;

static void clear_item2(void * const e, void * const p)
{
    struct item2 * const it = e;
    REQUIRE(p == &cleared);
    REQUIRE(it->in_tree == 1);
    it->in_tree = 0;
    /* the callee owns the element now: wreck it */
    memset(&it->node, 0xff, sizeof(it->node));
    cleared++;
}

static int stop_visit(const void * const e,
                      const cstl_bintree_visit_order_t order,
                      void * const priv)
{
    int * const left = priv;
    (void)e;
    if (order == CSTL_BINTREE_VISIT_ORDER_MID
        || order == CSTL_BINTREE_VISIT_ORDER_LEAF) {
        REQUIRE(*left > 0);
        if (--*left == 0) {
            return 42;
        }
    }
    return 0;
}

static void test_mixed(void)
{
    static struct item2 a2[3000];
    static struct item3 a3[3000];
    static DECLARE_CSTL_RBTREE(t2, struct item2, node, cmp_item2, NULL);
    struct cstl_rbtree t3, u2, u3;
    size_t n2 = 0, n3 = 0;
    int i, left;

    cstl_rbtree_init(&t3, cmp_item3, NULL, offsetof(struct item3, node));
    cstl_rbtree_init(&u2, cmp_item2, NULL, offsetof(struct item2, node));
    cstl_rbtree_init(&u3, cmp_item3, NULL, offsetof(struct item3, node));

    for (i = 0; i < 3000; i++) {
        a2[i].key = (short)((int)(rnd() % 400) - 200);
        a2[i].in_tree = 1;
        cstl_rbtree_insert(&t2, &a2[i], NULL);
        n2++;

        a3[i].key = (i % 3 == 0) ? INT_MAX - (int)(rnd() % 3)
            : (i % 3 == 1) ? INT_MIN + (int)(rnd() % 3) : (int)(rnd() >> 1);
        a3[i].in_tree = 1;
        cstl_rbtree_insert(&t3, &a3[i], NULL);
        n3++;

        if (i % 3 == 2) {
            /* erase from each, interleaved */
            struct item2 p2;
            struct item3 p3;
            struct item2 * g2;
            struct item3 * g3;

            p2.key = a2[rnd() % (unsigned)(i + 1)].key;
            g2 = cstl_rbtree_erase(&t2, &p2);
            if (g2 != NULL) {
                REQUIRE(g2->key == p2.key && g2->in_tree);
                g2->in_tree = 0;
                n2--;
            }
            p3.key = a3[rnd() % (unsigned)(i + 1)].key;
            g3 = cstl_rbtree_erase(&t3, &p3);
            if (g3 != NULL) {
                REQUIRE(g3->key == p3.key && g3->in_tree);
                g3->in_tree = 0;
                n3--;
            }
        }
        if (i % 100 == 0) {
            verify(&t2, key_item2, in_item2, n2);
            verify(&t3, key_item3, in_item3, n3);
        }
    }
    verify(&t2, key_item2, in_item2, n2);
    verify(&t3, key_item3, in_item3, n3);

    /* swapping moves whole trees, rules and all */
    cstl_rbtree_swap(&t2, &u2);
    cstl_rbtree_swap(&u3, &t3);
    verify(&t2, key_item2, in_item2, 0);
    verify(&t3, key_item3, in_item3, 0);
    verify(&u2, key_item2, in_item2, n2);
    verify(&u3, key_item3, in_item3, n3);

    /* and the swapped trees keep working */
    for (i = 0; i < 3000; i++) {
        if (!a2[i].in_tree) {
            a2[i].in_tree = 1;
            cstl_rbtree_insert(&u2, &a2[i], NULL);
            n2++;
        }
        if (a3[i].in_tree && (i & 1)) {
            struct item3 * const g3 = cstl_rbtree_erase(&u3, &a3[i]);
            REQUIRE(g3 != NULL && g3->key == a3[i].key && g3->in_tree);
            g3->in_tree = 0;
            n3--;
        }
        if (i % 250 == 0) {
            verify(&u2, key_item2, in_item2, n2);
            verify(&u3, key_item3, in_item3, n3);
        }
    }
    verify(&u2, key_item2, in_item2, n2);
    verify(&u3, key_item3, in_item3, n3);

    /* a walk can be cut short */
    left = 17;
    REQUIRE(cstl_rbtree_foreach(&u2, stop_visit, &left,
                                CSTL_BINTREE_FOREACH_DIR_FWD) == 42);
    REQUIRE(left == 0);
    left = 1;
    REQUIRE(cstl_rbtree_foreach(&u3, stop_visit, &left,
                                CSTL_BINTREE_FOREACH_DIR_REV) == 42);
    REQUIRE(left == 0);

    /* clear hands every element over exactly once */
    cleared = 0;
    cstl_rbtree_clear(&u2, clear_item2, &cleared);
    REQUIRE(cleared == n2);
    verify(&u2, key_item2, in_item2, 0);
    /* and the tree is as good as new */
    for (i = 0; i < 200; i++) {
        a2[i].key = (short)(i % 10);
        a2[i].in_tree = 1;
        cstl_rbtree_insert(&u2, &a2[i], NULL);
        verify(&u2, key_item2, in_item2, (size_t)i + 1);
    }
    for (i = 0; i < 200; i++) {
        struct item2 * const g2 = cstl_rbtree_erase(&u2, &a2[199 - i]);
        REQUIRE(g2 != NULL && g2->in_tree);
        g2->in_tree = 0;
        verify(&u2, key_item2, in_item2, (size_t)(199 - i));
    }

    while (n3 > 0) {
        for (i = 0; i < 3000; i++) {
            if (a3[i].in_tree) {
                struct item3 * const g3 = cstl_rbtree_erase(&u3, &a3[i]);
                REQUIRE(g3 != NULL && g3->key == a3[i].key && g3->in_tree);
                g3->in_tree = 0;
                n3--;
                if (n3 % 64 == 0) {
                    verify(&u3, key_item3, in_item3, n3);
                }
            }
        }
    }
}

/* ------------------------------------------------------------------ */
/* 6. a comparison function that itself searches another tree           */

struct rank
{
    long key;
    long rank;
    struct cstl_rbtree_node rn;
};

static int cmp_rank(const void * const a, const void * const b, void * const p)
{
    const long x = ((const struct rank *)a)->key;
    const long y = ((const struct rank *)b)->key;
    (void)p;
    return (x > y) - (x < y);
}

static int cmp_by_rank(const void * const a, const void * const b,
                       void * const p)
{
    const struct cstl_rbtree * const ranks = p;
    struct rank pa, pb;
    const struct rank * ra, * rb;

    pa.key = ((const struct item *)a)->key;
    pb.key = ((const struct item *)b)->key;
    ra = cstl_rbtree_find(ranks, &pa, NULL);
    rb = cstl_rbtree_find(ranks, &pb, NULL);
    REQUIRE(ra != NULL && rb != NULL);
    return (ra->rank > rb->rank) - (ra->rank < rb->rank);
}

static long key_by_rank(const void * const e)
{
    /* rank is 1000 - key: the tree is sorted by descending key */
    return 1000 - ((const struct item *)e)->key;
}

static void test_nested(void)
{
    static struct rank rk[300];
    DECLARE_CSTL_RBTREE(ranks, struct rank, rn, cmp_rank, NULL);
    struct cstl_rbtree t;
    struct world w;
    long counts[300];
    int i;

    for (i = 0; i < 300; i++) {
        rk[i].key = i;
        rk[i].rank = 1000 - i;
        cstl_rbtree_insert(&ranks, &rk[i], NULL);
        counts[i] = 0;
    }

    cstl_rbtree_init(&t, cmp_by_rank, &ranks, offsetof(struct item, node));
    world_reset(&w, &t);

    for (i = 0; i < 20000; i++) {
        const long k = rnd() % 300;
        if (rnd() % 100 < 52) {
            world_insert(&w, k, rnd() & 1);
            counts[k]++;
        } else if (world_erase(&w, k, counts[k])) {
            counts[k]--;
        }
        if (i % 50 == 0) {
            verify(&t, key_by_rank, in_item, w.n);
        }
    }
    verify(&t, key_by_rank, in_item, w.n);
    for (i = 0; i < 300; i++) {
        while (counts[i] > 0) {
            world_erase(&w, i, counts[i]);
            counts[i]--;
        }
        verify(&t, key_by_rank, in_item, w.n);
    }
    REQUIRE(w.n == 0);
}

/* ------------------------------------------------------------------ */
/* 7. the map, which sits on the red-black tree                         */

static int cmp_long(const void * const a, const void * const b, void * const p)
{
    const long x = *(const long *)a, y = *(const long *)b;
    (void)p;
    return (x > y) - (x < y);
}

static void test_map(void)
{
    static long keys[4000];
    static char present[4000];
    cstl_map_t m;
    size_t n = 0;
    int i;

    cstl_map_init(&m, cmp_long, NULL);
    for (i = 0; i < 4000; i++) {
        keys[i] = i;
    }
    for (i = 0; i < 60000; i++) {
        const int k = (int)(rnd() % 4000);
        cstl_map_iterator_t it;
        if (rnd() & 1) {
            const int err = cstl_map_insert(&m, &keys[k], &present[k], &it);
            REQUIRE(err == (present[k] ? 1 : 0));
            REQUIRE(it.key == &keys[k]);
            if (!present[k]) {
                present[k] = 1;
                n++;
            }
        } else {
            const int err = cstl_map_erase(&m, &keys[k], &it);
            REQUIRE(err == (present[k] ? 0 : -1));
            if (present[k]) {
                REQUIRE(it.key == &keys[k] && it.val == &present[k]);
                present[k] = 0;
                n--;
            }
        }
        REQUIRE(cstl_map_size(&m) == n);
    }
    for (i = 0; i < 4000; i++) {
        cstl_map_iterator_t it;
        cstl_map_find(&m, &keys[i], &it);
        REQUIRE(cstl_map_iterator_eq(&it, cstl_map_iterator_end(&m))
                == !present[i]);
    }
    cstl_map_clear(&m, NULL, NULL);
    REQUIRE(cstl_map_size(&m) == 0);
}

/* ------------------------------------------------------------------ */
/* 8. erasing elements that have two children: the root, over and over, */
/*    and every inner element of every tree grown in order              */

static void test_two_children(void)
{
    DECLARE_CSTL_RBTREE(t, struct item, node, cmp_item, NULL);
    struct world w;
    int n, i, victim;

    /* erase the root until nothing is left */
    for (n = 1; n <= 130; n++) {
        world_reset(&w, &t);
        for (i = 0; i < n; i++) {
            /* distinct keys, in a scrambled order */
            world_insert(&w, (i * 37) % n + ((i * 37) / n) * 1000, i & 1);
        }
        world_check(&w);
        while (w.n > 0) {
            /* the first element visited is the root */
            const struct item * const root = S.e[0];
            REQUIRE(count_key(&w, root->key) == 1);
            world_erase(&w, root->key, 1);
            REQUIRE(!root->in_tree);
            world_check(&w);
        }
    }

    /* from each of a series of trees, erase each element in turn */
    for (n = 1; n <= 48; n++) {
        for (victim = 0; victim < n; victim++) {
            world_reset(&w, &t);
            for (i = 0; i < n; i++) {
                world_insert(&w, (n & 1) ? i : n - i, 0);
            }
            world_erase(&w, (n & 1) ? victim : n - victim, 1);
            world_check(&w);
            /* and then the root, twice */
            for (i = 0; i < 2 && w.n > 0; i++) {
                world_erase(&w, ((const struct item *)S.e[0])->key, 1);
                world_check(&w);
            }
            world_drain(&w);
        }
    }
}

/* ------------------------------------------------------------------ */

int main(void)
{
    struct cstl_rbtree t;
    struct world w;

    test_small_scope();

    test_permutations(5, 1);
    test_permutations(6, 1);
    test_permutations(6, 2);
    test_permutations(6, 3);

    test_random(8, 40, 60000, 1);
    test_random(50, 300, 120000, 7);
    test_random(1000, 3000, 200000, 211);
    test_random(70000, 15000, 300000, 4999);
    test_random(3, 12000, 150000, 3001);

    test_ordered(20000);

    test_mixed();
    test_nested();
    test_map();
    test_two_children();

    /* finds in a tree with holes */
    cstl_rbtree_init(&t, cmp_item, NULL, offsetof(struct item, node));
    world_reset(&w, &t);
    {
        long k;
        for (k = 0; k < 400; k += 2) {
            world_insert(&w, k, 1);
            world_insert(&w, k, 0);
        }
        world_find_all(&w, -3, 403);
        for (k = 0; k < 400; k += 4) {
            world_erase(&w, k, 2);
        }
        world_find_all(&w, -3, 403);
        world_check(&w);
        world_drain(&w);
    }

    printf("ok: %lu sequences, %lu tree verifications, %lu checks, "
           "%lu counted comparisons\n",
           sequences, verifies, checks, cmp_calls);
    return 0;
}
