/*
 * C06: reference counting is correct under every thread interleaving.
 *
 * Standalone test, public API only (cstl/memory.h).
 *
 * Build (from the worktree root, after `make build`):
 *   gcc -std=gnu11 -O1 -Iinclude -Wl,--wrap=malloc -Wl,--wrap=free \
 *       -o _keep/c/test _keep/c/test.c build/libcstl.a -lm -lpthread
 *
 * malloc()/free() as used by the test and by the (statically linked)
 * library are wrapped: every block carries a header with a live/dead
 * magic, freed blocks are poisoned and kept in a quarantine, and at
 * quiescent points the quarantine is scanned, so that the test sees
 *   - double frees (magic already dead),
 *   - leaks (live block count does not return to the baseline),
 *   - writes to a block after it has been freed (poison damaged),
 * for both the managed memory and the library's bookkeeping block.
 *
 * Part 1 is a sequential random walk against a reference model (C05).
 * Part 2 runs 2, 3 and 4 real threads, each on its own shared/weak
 * pointer objects, through many short random programs of
 * share/lock/reset/weak-reset/weak-from against one allocation.
 * Part 3 are directed hot loops (lockers against the last owner).
 */
#define _GNU_SOURCE
#include <pthread.h>
#include <sched.h>
#include <stdatomic.h>
#include <stdint.h>
#include <stdio.h>
#include <stdlib.h>
#include <string.h>
#include <unistd.h>

#include "cstl/memory.h"

/* ------------------------------------------------------------------ */
/* failure reporting                                                   */

#define FAIL(...)                                                       \
    do {                                                                \
        fprintf(stderr, "FAIL %s:%d: ", __FILE__, __LINE__);            \
        fprintf(stderr, __VA_ARGS__);                                   \
        fprintf(stderr, "\n");                                          \
        fflush(stderr);                                                 \
        _exit(1);                                                       \
    } while (0)

#define CHECK(COND)                                                     \
    do {                                                                \
        if (!(COND)) {                                                  \
            FAIL("check failed: %s", #COND);                            \
        }                                                               \
    } while (0)

/* ------------------------------------------------------------------ */
/* wrapped allocator                                                   */

void * __real_malloc(size_t);
void __real_free(void *);

#define MAGIC_LIVE      UINT64_C(0x4c4956454c495645)
#define MAGIC_DEAD      UINT64_C(0x4445414444454144)
#define POISON          0xdd

struct hdr
{
    _Atomic uint64_t magic;
    uint64_t size;
    struct hdr * _Atomic next;
    uint64_t pad;
};

static atomic_long g_live;
static atomic_long g_mallocs;
static atomic_long g_frees;
static struct hdr * _Atomic g_quarantine;
/* when > 0, the n-th malloc from now on fails (sequential part only) */
static atomic_long g_fail_countdown;

void * __wrap_malloc(size_t sz)
{
    struct hdr * h;

    if (atomic_load(&g_fail_countdown) > 0) {
        if (atomic_fetch_sub(&g_fail_countdown, 1) == 1) {
            return NULL;
        }
    }

    h = __real_malloc(sizeof(*h) + sz);
    if (h == NULL) {
        return NULL;
    }
    atomic_init(&h->magic, MAGIC_LIVE);
    h->size = sz;
    atomic_init(&h->next, NULL);
    h->pad = 0;
    memset(h + 1, 0xcd, sz);
    atomic_fetch_add(&g_live, 1);
    atomic_fetch_add(&g_mallocs, 1);
    return h + 1;
}

void __wrap_free(void * p)
{
    struct hdr * h;
    struct hdr * head;

    if (p == NULL) {
        return;
    }
    h = (struct hdr *)p - 1;
    if (atomic_exchange(&h->magic, MAGIC_DEAD) != MAGIC_LIVE) {
        FAIL("double free or free of a foreign block %p", p);
    }
    memset(p, POISON, h->size);
    atomic_fetch_sub(&g_live, 1);
    atomic_fetch_add(&g_frees, 1);

    head = atomic_load(&g_quarantine);
    do {
        atomic_store(&h->next, head);
    } while (!atomic_compare_exchange_weak(&g_quarantine, &head, h));
}

/* only when no other thread is inside the allocator or the library */
static void quarantine_flush(void)
{
    struct hdr * h = atomic_exchange(&g_quarantine, NULL);
    while (h != NULL) {
        struct hdr * const n = atomic_load(&h->next);
        const unsigned char * const b = (const unsigned char *)(h + 1);
        uint64_t i;
        if (atomic_load(&h->magic) != MAGIC_DEAD) {
            FAIL("freed block %p came back to life", (void *)(h + 1));
        }
        for (i = 0; i < h->size; i++) {
            if (b[i] != POISON) {
                FAIL("block %p (size %lu) written at offset %lu after free",
                     (void *)(h + 1), (unsigned long)h->size,
                     (unsigned long)i);
            }
        }
        __real_free(h);
        h = n;
    }
}

/* ------------------------------------------------------------------ */
/* the managed object                                                  */

#define CANARY_LIVE     UINT64_C(0xfeedfacecafebeef)
#define CANARY_DEAD     UINT64_C(0x0badc0de0badc0de)
#define MAXT            8

struct ctl
{
    atomic_int cleared;         /* number of times the clear func ran */
    atomic_int owners;          /* lower bound of live owners */
    atomic_int lock_failed;     /* some lock has come back empty */
    int main_holds;             /* coordinator keeps an owner all round */
    void * mem;                 /* address of the managed memory */
};

struct payload
{
    uint64_t canary;
    struct ctl * ctl;
    unsigned char slot[MAXT + 1];
    unsigned char tail[3];
};

static atomic_long g_clears;

static void payload_clear(void * const mem, void * const priv)
{
    struct payload * const p = mem;
    struct ctl * c;

    (void)priv;
    CHECK(p != NULL);
    if (p->canary != CANARY_LIVE) {
        FAIL("clear function called on dead/foreign memory %p", mem);
    }
    c = p->ctl;
    CHECK(c != NULL);
    CHECK(c->mem == mem);
    if (atomic_fetch_add(&c->cleared, 1) != 0) {
        FAIL("memory %p cleared more than once", mem);
    }
    if (atomic_load(&c->owners) != 0) {
        FAIL("memory %p cleared while %d owner(s) remain",
             mem, atomic_load(&c->owners));
    }
    p->canary = CANARY_DEAD;
    atomic_fetch_add(&g_clears, 1);
}

static void payload_init(cstl_shared_ptr_t * const sp, struct ctl * const c,
                         const size_t extra)
{
    struct payload * p;

    atomic_init(&c->cleared, 0);
    atomic_init(&c->owners, 0);
    atomic_init(&c->lock_failed, 0);
    c->main_holds = 0;
    c->mem = NULL;

    cstl_shared_ptr_alloc(sp, sizeof(*p) + extra, payload_clear);
    p = cstl_shared_ptr_get(sp);
    CHECK(p != NULL);
    memset(p, 0, sizeof(*p) + extra);
    p->canary = CANARY_LIVE;
    p->ctl = c;
    c->mem = p;
    atomic_store(&c->owners, 1);
}

/* the caller holds an owner in sp: the memory must be live right now */
static void payload_verify_live(cstl_shared_ptr_t * const sp,
                                struct ctl * const c, const int who)
{
    struct payload * const p = cstl_shared_ptr_get(sp);
    const struct payload * const q = cstl_shared_ptr_get_const(sp);

    if (p == NULL || p != c->mem || (const void *)q != (const void *)p) {
        FAIL("owner sees %p, expected %p", (void *)p, c->mem);
    }
    if (atomic_load(&c->cleared) != 0) {
        FAIL("memory %p cleared while thread %d owns it", (void *)p, who);
    }
    if (p->canary != CANARY_LIVE || p->ctl != c) {
        FAIL("memory %p damaged/dead while thread %d owns it",
             (void *)p, who);
    }
    /* a private byte per thread: no race, but a write into the memory */
    p->slot[who]++;
    if (atomic_load(&c->cleared) != 0) {
        FAIL("memory %p cleared while thread %d owns it", (void *)p, who);
    }
}

/* ------------------------------------------------------------------ */
/* random numbers (per thread state, xorshift)                         */

static uint32_t rnd(uint64_t * const s)
{
    uint64_t x = *s;
    x ^= x << 13;
    x ^= x >> 7;
    x ^= x << 17;
    *s = x;
    return (uint32_t)(x >> 16);
}

/* ------------------------------------------------------------------ */
/* part 1: sequential walk against a model                              */

#define SEQ_SP  5
#define SEQ_WP  4
#define SEQ_AL  64

struct seq_alloc
{
    struct ctl ctl;
    int hard, weak;
};

static void seq_check_all(cstl_shared_ptr_t * const sp, const int * const sref,
                          struct seq_alloc * const al)
{
    int i;
    for (i = 0; i < SEQ_SP; i++) {
        if (sref[i] < 0) {
            CHECK(cstl_shared_ptr_get(&sp[i]) == NULL);
            CHECK(cstl_shared_ptr_get_const(&sp[i]) == NULL);
            CHECK(cstl_shared_ptr_unique(&sp[i]));
        } else {
            struct seq_alloc * const a = &al[sref[i]];
            CHECK(a->hard > 0);
            CHECK(cstl_shared_ptr_get(&sp[i]) == a->ctl.mem);
            CHECK(atomic_load(&a->ctl.cleared) == 0);
            CHECK(((struct payload *)a->ctl.mem)->canary == CANARY_LIVE);
            CHECK(cstl_shared_ptr_unique(&sp[i])
                  == (a->hard + a->weak == 1));
        }
    }
}

static void seq_drop_hard(struct seq_alloc * const al, const int id)
{
    if (id >= 0) {
        al[id].hard--;
        atomic_fetch_sub(&al[id].ctl.owners, 1);
    }
}

static void seq_after_drop(struct seq_alloc * const al, const int id)
{
    if (id >= 0) {
        CHECK(atomic_load(&al[id].ctl.cleared) == (al[id].hard == 0));
    }
}

static void sequential_walk(const uint64_t seed, const int steps)
{
    static struct seq_alloc al[SEQ_AL];
    cstl_shared_ptr_t sp[SEQ_SP];
    cstl_weak_ptr_t wp[SEQ_WP];
    int sref[SEQ_SP], wref[SEQ_WP];
    int nal = 0, i, step;
    uint64_t s = seed | 1;
    const long base_live = atomic_load(&g_live);
    const long base_clears = atomic_load(&g_clears);
    long expect_clears = 0;

    for (i = 0; i < SEQ_SP; i++) {
        if (i & 1) {
            cstl_shared_ptr_init(&sp[i]);
        } else {
            /* the documented static initialiser */
            const cstl_shared_ptr_t t = CSTL_SHARED_PTR_INITIALIZER(sp[i]);
            memcpy(&sp[i], &t, sizeof(t));
        }
        sref[i] = -1;
    }
    for (i = 0; i < SEQ_WP; i++) {
        cstl_weak_ptr_init(&wp[i]);
        wref[i] = -1;
    }

    for (step = 0; step < steps; step++) {
        const unsigned op = rnd(&s) % 9;
        const int a = rnd(&s) % SEQ_SP;
        int b = rnd(&s) % SEQ_SP;
        const int w = rnd(&s) % SEQ_WP;
        int v = rnd(&s) % SEQ_WP;
        int old;

        if (b == a) {
            b = (a + 1) % SEQ_SP;
        }
        if (v == w) {
            v = (w + 1) % SEQ_WP;
        }

        switch (op) {
        case 0: /* alloc */
            if (nal == SEQ_AL) {
                break;
            }
            old = sref[a];
            seq_drop_hard(al, old);
            if (rnd(&s) % 8 == 0) {
                /* allocation failure, first or second malloc */
                const long m = atomic_load(&g_mallocs);
                atomic_store(&g_fail_countdown, 1 + rnd(&s) % 2);
                cstl_shared_ptr_alloc(&sp[a], sizeof(struct payload),
                                      payload_clear);
                atomic_store(&g_fail_countdown, 0);
                CHECK(cstl_shared_ptr_get(&sp[a]) == NULL);
                CHECK(atomic_load(&g_mallocs) - m <= 1);
                sref[a] = -1;
            } else if (rnd(&s) % 8 == 0) {
                /* zero bytes: no memory is managed */
                cstl_shared_ptr_alloc(&sp[a], 0, payload_clear);
                CHECK(cstl_shared_ptr_get(&sp[a]) == NULL);
                sref[a] = -1;
            } else {
                static const size_t extra[] = { 0, 1, 7, 64, 4096, 100000 };
                struct seq_alloc * const n = &al[nal];
                /* the old referent must be released before the new
                 * one is looked at; owners is set by payload_init */
                cstl_shared_ptr_reset(&sp[a]);
                payload_init(&sp[a], &n->ctl, extra[rnd(&s) % 6]);
                n->hard = 1;
                n->weak = 0;
                sref[a] = nal++;
            }
            if (old >= 0 && al[old].hard == 0) {
                expect_clears++;
            }
            seq_after_drop(al, old);
            break;
        case 1: /* share a -> b */
            old = sref[b];
            seq_drop_hard(al, old);
            cstl_shared_ptr_share(&sp[a], &sp[b]);
            sref[b] = sref[a];
            if (sref[b] >= 0) {
                al[sref[b]].hard++;
                atomic_fetch_add(&al[sref[b]].ctl.owners, 1);
            }
            if (old >= 0 && al[old].hard == 0) {
                expect_clears++;
            }
            seq_after_drop(al, old);
            break;
        case 2: /* reset a */
            old = sref[a];
            seq_drop_hard(al, old);
            cstl_shared_ptr_reset(&sp[a]);
            sref[a] = -1;
            if (old >= 0 && al[old].hard == 0) {
                expect_clears++;
            }
            seq_after_drop(al, old);
            /* resetting an empty pointer again is harmless */
            cstl_shared_ptr_reset(&sp[a]);
            break;
        case 3: /* weak from */
            if (wref[w] >= 0) {
                al[wref[w]].weak--;
            }
            cstl_weak_ptr_from(&wp[w], &sp[a]);
            wref[w] = sref[a];
            if (wref[w] >= 0) {
                al[wref[w]].weak++;
            }
            break;
        case 4: /* lock w -> a */
            old = sref[a];
            seq_drop_hard(al, old);
            cstl_weak_ptr_lock(&wp[w], &sp[a]);
            if (wref[w] >= 0 && al[wref[w]].hard > 0) {
                sref[a] = wref[w];
                al[sref[a]].hard++;
                atomic_fetch_add(&al[sref[a]].ctl.owners, 1);
            } else {
                sref[a] = -1;
            }
            if (old >= 0 && al[old].hard == 0) {
                expect_clears++;
            }
            seq_after_drop(al, old);
            break;
        case 5: /* weak reset */
            if (wref[w] >= 0) {
                al[wref[w]].weak--;
            }
            cstl_weak_ptr_reset(&wp[w]);
            wref[w] = -1;
            cstl_weak_ptr_reset(&wp[w]);
            break;
        case 6: /* swap shared */
            cstl_shared_ptr_swap(&sp[a], &sp[b]);
            old = sref[a];
            sref[a] = sref[b];
            sref[b] = old;
            break;
        case 7: /* swap weak */
            cstl_weak_ptr_swap(&wp[w], &wp[v]);
            old = wref[w];
            wref[w] = wref[v];
            wref[v] = old;
            break;
        default: /* a weak pointer alone never keeps or revives memory */
            if (wref[w] >= 0 && al[wref[w]].hard == 0) {
                CHECK(atomic_load(&al[wref[w]].ctl.cleared) == 1);
            }
            break;
        }

        seq_check_all(sp, sref, al);
        CHECK(atomic_load(&g_clears) - base_clears == expect_clears);
    }

    for (i = 0; i < SEQ_SP; i++) {
        seq_drop_hard(al, sref[i]);
        cstl_shared_ptr_reset(&sp[i]);
        if (sref[i] >= 0 && al[sref[i]].hard == 0) {
            expect_clears++;
        }
        seq_after_drop(al, sref[i]);
        sref[i] = -1;
    }
    /* every memory is gone, only weak pointers (and their blocks) left */
    for (i = 0; i < nal; i++) {
        CHECK(al[i].hard == 0);
        CHECK(atomic_load(&al[i].ctl.cleared) == 1);
    }
    for (i = 0; i < SEQ_WP; i++) {
        cstl_shared_ptr_t t;
        cstl_shared_ptr_init(&t);
        cstl_weak_ptr_lock(&wp[i], &t);
        CHECK(cstl_shared_ptr_get(&t) == NULL);
        cstl_weak_ptr_reset(&wp[i]);
    }
    CHECK(atomic_load(&g_clears) - base_clears == expect_clears);
    CHECK(expect_clears == nal);
    if (atomic_load(&g_live) != base_live) {
        FAIL("sequential walk leaked %ld block(s)",
             atomic_load(&g_live) - base_live);
    }
    quarantine_flush();
}

/* ------------------------------------------------------------------ */
/* spinning barrier                                                    */

struct barrier
{
    atomic_int count;
    atomic_int gen;
    int n;
};

static void barrier_init(struct barrier * const b, const int n)
{
    atomic_init(&b->count, 0);
    atomic_init(&b->gen, 0);
    b->n = n;
}

static void barrier_wait(struct barrier * const b)
{
    const int gen = atomic_load(&b->gen);
    if (atomic_fetch_add(&b->count, 1) == b->n - 1) {
        atomic_store(&b->count, 0);
        atomic_fetch_add(&b->gen, 1);
    } else {
        unsigned spins = 0;
        while (atomic_load(&b->gen) == gen) {
            if (++spins > 2000) {
                sched_yield();
            }
        }
    }
}

/* ------------------------------------------------------------------ */
/* part 2: random concurrent programs                                  */

#define NSP     2
#define NWP     2

struct worker
{
    int id;                     /* 1 .. nthreads */
    pthread_t thr;
    struct round * rd;
    uint64_t seed;
    cstl_shared_ptr_t sp[NSP];
    cstl_weak_ptr_t wp[NWP];
    int held[NSP];
    int wvalid[NWP];
    unsigned long ops, lock_ok, lock_fail;
};

struct round
{
    int nthreads;
    int rounds;
    int maxlen;
    struct barrier bar;
    struct ctl * ctl;           /* the current round's control block */
    struct worker w[MAXT];
};

static int holds_any(const struct worker * const w)
{
    int i;
    for (i = 0; i < NSP; i++) {
        if (w->held[i]) {
            return 1;
        }
    }
    return 0;
}

static void drop_owner(struct worker * const w, struct ctl * const c,
                       const int i)
{
    if (w->held[i]) {
        payload_verify_live(&w->sp[i], c, w->id);
        /* announce before the library gets to see the reset */
        atomic_fetch_sub(&c->owners, 1);
        w->held[i] = 0;
    }
}

static void took_owner(struct worker * const w, struct ctl * const c,
                       const int i)
{
    atomic_fetch_add(&c->owners, 1);
    w->held[i] = 1;
    payload_verify_live(&w->sp[i], c, w->id);
}

static void worker_op(struct worker * const w, struct ctl * const c,
                      const unsigned op, const int a, const int b,
                      const int v)
{
    int had;

    w->ops++;
    switch (op) {
    case 0: /* share a -> b (a != b) */
        had = w->held[a];
        drop_owner(w, c, b);
        cstl_shared_ptr_share(&w->sp[a], &w->sp[b]);
        if (had) {
            CHECK(cstl_shared_ptr_get(&w->sp[b]) == c->mem);
            took_owner(w, c, b);
            payload_verify_live(&w->sp[a], c, w->id);
            /* at least two owners: never unique */
            CHECK(!cstl_shared_ptr_unique(&w->sp[a]));
            CHECK(!cstl_shared_ptr_unique(&w->sp[b]));
        } else {
            CHECK(cstl_shared_ptr_get(&w->sp[b]) == NULL);
        }
        break;
    case 1: /* lock v -> a */
    case 2:
        drop_owner(w, c, a);
        had = holds_any(w);
        cstl_weak_ptr_lock(&w->wp[v], &w->sp[a]);
        if (cstl_shared_ptr_get(&w->sp[a]) != NULL) {
            if (!w->wvalid[v]) {
                FAIL("empty weak pointer produced an owner");
            }
            if (atomic_load(&c->lock_failed)) {
                /*
                 * a failed lock means the owner count was zero at some
                 * point; nothing can have raised it again
                 */
                if (!c->main_holds) {
                    /* (only exact if failures are real, see below) */
                    FAIL("lock succeeded after an earlier lock found "
                         "the memory dead");
                }
            }
            took_owner(w, c, a);
            CHECK(!cstl_shared_ptr_unique(&w->sp[a]));
            w->lock_ok++;
        } else {
            if (w->wvalid[v]) {
                if (had || c->main_holds) {
                    FAIL("lock failed although an owner exists");
                }
                /* nobody owned it at the moment of the failure */
                atomic_store(&c->lock_failed, 1);
                if (atomic_load(&c->owners) != 0) {
                    FAIL("lock failed but %d owner(s) are announced",
                         atomic_load(&c->owners));
                }
                w->lock_fail++;
            }
        }
        break;
    case 3: /* reset a */
        drop_owner(w, c, a);
        cstl_shared_ptr_reset(&w->sp[a]);
        CHECK(cstl_shared_ptr_get(&w->sp[a]) == NULL);
        CHECK(cstl_shared_ptr_unique(&w->sp[a]));
        break;
    case 4: /* weak reset v */
        cstl_weak_ptr_reset(&w->wp[v]);
        w->wvalid[v] = 0;
        break;
    case 5: /* weak from a -> v */
        cstl_weak_ptr_from(&w->wp[v], &w->sp[a]);
        w->wvalid[v] = w->held[a];
        if (w->held[a]) {
            payload_verify_live(&w->sp[a], c, w->id);
            CHECK(!cstl_shared_ptr_unique(&w->sp[a]));
        }
        break;
    case 6: /* look */
        if (w->held[a]) {
            payload_verify_live(&w->sp[a], c, w->id);
            (void)cstl_shared_ptr_unique(&w->sp[a]);
            if (w->held[b] || w->wvalid[0] || w->wvalid[1]) {
                CHECK(!cstl_shared_ptr_unique(&w->sp[a]));
            }
        } else {
            CHECK(cstl_shared_ptr_get(&w->sp[a]) == NULL);
        }
        break;
    default: /* swap own objects */
        cstl_shared_ptr_swap(&w->sp[0], &w->sp[1]);
        had = w->held[0];
        w->held[0] = w->held[1];
        w->held[1] = had;
        cstl_weak_ptr_swap(&w->wp[0], &w->wp[1]);
        had = w->wvalid[0];
        w->wvalid[0] = w->wvalid[1];
        w->wvalid[1] = had;
        break;
    }
}

static void * worker_main(void * const arg)
{
    struct worker * const w = arg;
    struct round * const rd = w->rd;
    int r, i;

    for (r = 0; r < rd->rounds; r++) {
        struct ctl * c;
        int len;

        barrier_wait(&rd->bar);         /* round set up by coordinator */
        c = rd->ctl;

        len = 1 + rnd(&w->seed) % rd->maxlen;
        for (i = 0; i < len; i++) {
            const unsigned op = rnd(&w->seed) % 8;
            const int a = rnd(&w->seed) % NSP;
            const int v = rnd(&w->seed) % NWP;
            worker_op(w, c, op, a, 1 - a, v);
        }

        /* let go of everything, in a random order, still concurrently */
        {
            unsigned order = rnd(&w->seed);
            for (i = 0; i < NSP + NWP; i++) {
                const int k = (order + i) % (NSP + NWP);
                if (k < NSP) {
                    worker_op(w, c, 3, k, 1 - k, 0);
                } else {
                    worker_op(w, c, 4, 0, 1, k - NSP);
                }
            }
        }

        barrier_wait(&rd->bar);         /* coordinator inspects */
    }

    return NULL;
}

static void concurrent_programs(const int nthreads, const int rounds,
                                const int maxlen, const uint64_t seed)
{
    static struct round rd;
    static struct ctl ctls[2];
    uint64_t s = seed | 1;
    int r, t;
    unsigned long ops = 0, ok = 0, fail = 0;
    const long base_live = atomic_load(&g_live);

    memset(&rd, 0, sizeof(rd));
    rd.nthreads = nthreads;
    rd.rounds = rounds;
    rd.maxlen = maxlen;
    barrier_init(&rd.bar, nthreads + 1);

    for (t = 0; t < nthreads; t++) {
        struct worker * const w = &rd.w[t];
        int i;
        w->id = t + 1;
        w->rd = &rd;
        w->seed = (seed * 0x9e3779b97f4a7c15ULL + 77 * (t + 1)) | 1;
        for (i = 0; i < NSP; i++) {
            cstl_shared_ptr_init(&w->sp[i]);
        }
        for (i = 0; i < NWP; i++) {
            cstl_weak_ptr_init(&w->wp[i]);
        }
        if (pthread_create(&w->thr, NULL, worker_main, w) != 0) {
            FAIL("pthread_create");
        }
    }

    for (r = 0; r < rounds; r++) {
        DECLARE_CSTL_SHARED_PTR(mine);
        struct ctl * const c = &ctls[r & 1];
        const long clears = atomic_load(&g_clears);
        int keep;
        int any_owner = 0;

        payload_init(&mine, c, rnd(&s) % 3 == 0 ? rnd(&s) % 200 : 0);

        /* hand out the initial references */
        for (t = 0; t < nthreads; t++) {
            struct worker * const w = &rd.w[t];
            const unsigned cfg = rnd(&s) % 8;
            /*
             * 0: nothing, 1,2: weak only, 3: shared only,
             * 4,5: shared + weak, 6: two shared, 7: two weak
             */
            if (cfg == 3 || cfg == 4 || cfg == 5 || cfg == 6) {
                cstl_shared_ptr_share(&mine, &w->sp[0]);
                atomic_fetch_add(&c->owners, 1);
                w->held[0] = 1;
                any_owner = 1;
            }
            if (cfg == 6) {
                cstl_shared_ptr_share(&w->sp[0], &w->sp[1]);
                atomic_fetch_add(&c->owners, 1);
                w->held[1] = 1;
            }
            if (cfg == 1 || cfg == 2 || cfg == 4 || cfg == 5 || cfg == 7) {
                cstl_weak_ptr_from(&w->wp[0], &mine);
                w->wvalid[0] = 1;
            }
            if (cfg == 7) {
                cstl_weak_ptr_from(&w->wp[1], &mine);
                w->wvalid[1] = 1;
            }
        }

        /*
         * 0: the coordinator lets go before the threads start
         *    (possibly clearing the memory right here),
         * 1: it lets go concurrently with the threads,
         * 2: it keeps its owner until they are done
         */
        keep = rnd(&s) % 3;
        if (keep == 0) {
            atomic_fetch_sub(&c->owners, 1);
            cstl_shared_ptr_reset(&mine);
            CHECK(atomic_load(&c->cleared) == !any_owner);
        } else if (keep == 2) {
            c->main_holds = 1;
        }

        rd.ctl = c;
        barrier_wait(&rd.bar);          /* go */

        if (keep == 1) {
            unsigned spin = rnd(&s) % 64;
            while (spin-- > 0) {
                (void)cstl_shared_ptr_unique(&mine);
            }
            payload_verify_live(&mine, c, 0);
            atomic_fetch_sub(&c->owners, 1);
            cstl_shared_ptr_reset(&mine);
        } else if (keep == 2) {
            payload_verify_live(&mine, c, 0);
        }

        barrier_wait(&rd.bar);          /* all threads let go */

        if (keep == 2) {
            CHECK(atomic_load(&c->cleared) == 0);
            payload_verify_live(&mine, c, 0);
            /* every other reference is gone again */
            CHECK(cstl_shared_ptr_unique(&mine));
            CHECK(atomic_load(&c->owners) == 1);
            atomic_fetch_sub(&c->owners, 1);
            cstl_shared_ptr_reset(&mine);
        }

        if (atomic_load(&c->cleared) != 1
            || atomic_load(&g_clears) - clears != 1) {
            FAIL("round %d: memory cleared %d time(s)", r,
                 atomic_load(&c->cleared));
        }
        CHECK(atomic_load(&c->owners) == 0);
        if (atomic_load(&g_live) != base_live) {
            FAIL("round %d: %ld block(s) not freed", r,
                 atomic_load(&g_live) - base_live);
        }
        if ((r & 63) == 63) {
            quarantine_flush();
        }
    }

    for (t = 0; t < nthreads; t++) {
        pthread_join(rd.w[t].thr, NULL);
        ops += rd.w[t].ops;
        ok += rd.w[t].lock_ok;
        fail += rd.w[t].lock_fail;
    }
    quarantine_flush();
    CHECK(atomic_load(&g_live) == base_live);
    printf("  %d threads, %d rounds: %lu ops, %lu locks ok, %lu locks empty\n",
           nthreads, rounds, ops, ok, fail);
}

/* ------------------------------------------------------------------ */
/* part 3: directed hot loops                                          */

struct hot
{
    struct barrier bar;
    int rounds;
    int nlockers;
    struct ctl * ctl;
    cstl_weak_ptr_t wp[MAXT];           /* one per locker, its own */
    cstl_shared_ptr_t own;              /* the owner thread's */
    atomic_int stop;
};

struct hot_arg
{
    struct hot * h;
    int id;
    unsigned long ok, fail;
};

static void * hot_locker(void * const arg)
{
    struct hot_arg * const ha = arg;
    struct hot * const h = ha->h;
    cstl_weak_ptr_t * const wp = &h->wp[ha->id - 1];
    int r;

    for (r = 0; r < h->rounds; r++) {
        DECLARE_CSTL_SHARED_PTR(sp);
        DECLARE_CSTL_SHARED_PTR(sp2);
        struct ctl * c;
        int dead = 0;
        unsigned n = 0;

        barrier_wait(&h->bar);
        c = h->ctl;

        /* lock and let go over and over until the memory has died */
        while (!dead) {
            n++;
            cstl_weak_ptr_lock(wp, &sp);
            if (cstl_shared_ptr_get(&sp) != NULL) {
                CHECK(!dead);
                atomic_fetch_add(&c->owners, 1);
                payload_verify_live(&sp, c, ha->id);
                if (n & 1) {
                    cstl_shared_ptr_share(&sp, &sp2);
                    atomic_fetch_add(&c->owners, 1);
                    payload_verify_live(&sp2, c, ha->id);
                    atomic_fetch_sub(&c->owners, 1);
                    cstl_shared_ptr_reset(&sp);
                    payload_verify_live(&sp2, c, ha->id);
                    atomic_fetch_sub(&c->owners, 1);
                    cstl_shared_ptr_reset(&sp2);
                } else {
                    atomic_fetch_sub(&c->owners, 1);
                    cstl_shared_ptr_reset(&sp);
                }
                ha->ok++;
            } else {
                dead = 1;
                ha->fail++;
            }
        }
        CHECK(dead);
        /* dead stays dead */
        for (n = 0; n < 8; n++) {
            cstl_weak_ptr_lock(wp, &sp);
            CHECK(cstl_shared_ptr_get(&sp) == NULL);
        }
        cstl_weak_ptr_reset(wp);

        barrier_wait(&h->bar);
    }
    return NULL;
}

static void * hot_owner(void * const arg)
{
    struct hot_arg * const ha = arg;
    struct hot * const h = ha->h;
    uint64_t s = 0x1234567 + ha->id;
    int r;

    for (r = 0; r < h->rounds; r++) {
        struct ctl * c;
        unsigned spin;

        barrier_wait(&h->bar);
        c = h->ctl;

        spin = rnd(&s) % 400;
        while (spin-- > 0) {
            payload_verify_live(&h->own, c, 0);
        }
        atomic_fetch_sub(&c->owners, 1);
        cstl_shared_ptr_reset(&h->own);

        barrier_wait(&h->bar);
    }
    return NULL;
}

static void hot_loops(const int nlockers, const int rounds)
{
    static struct hot h;
    static struct ctl ctls[2];
    struct hot_arg args[MAXT + 1];
    pthread_t thr[MAXT + 1];
    int r, t;
    unsigned long ok = 0, fail = 0;
    const long base_live = atomic_load(&g_live);

    memset(&h, 0, sizeof(h));
    barrier_init(&h.bar, nlockers + 2);
    h.rounds = rounds;
    h.nlockers = nlockers;
    cstl_shared_ptr_init(&h.own);
    for (t = 0; t < MAXT; t++) {
        cstl_weak_ptr_init(&h.wp[t]);
    }

    for (t = 0; t <= nlockers; t++) {
        args[t].h = &h;
        args[t].id = t;
        args[t].ok = args[t].fail = 0;
        if (pthread_create(&thr[t], NULL,
                           t == 0 ? hot_owner : hot_locker, &args[t]) != 0) {
            FAIL("pthread_create");
        }
    }

    for (r = 0; r < rounds; r++) {
        struct ctl * const c = &ctls[r & 1];
        const long clears = atomic_load(&g_clears);

        payload_init(&h.own, c, 0);
        for (t = 0; t < nlockers; t++) {
            cstl_weak_ptr_from(&h.wp[t], &h.own);
        }
        CHECK(!cstl_shared_ptr_unique(&h.own));
        h.ctl = c;

        barrier_wait(&h.bar);
        barrier_wait(&h.bar);

        CHECK(atomic_load(&c->cleared) == 1);
        CHECK(atomic_load(&g_clears) - clears == 1);
        CHECK(atomic_load(&c->owners) == 0);
        CHECK(atomic_load(&g_live) == base_live);
        if ((r & 63) == 63) {
            quarantine_flush();
        }
    }

    for (t = 0; t <= nlockers; t++) {
        pthread_join(thr[t], NULL);
        ok += args[t].ok;
        fail += args[t].fail;
    }
    quarantine_flush();
    printf("  hot: %d lockers, %d rounds: %lu locks ok, %lu locks empty\n",
           nlockers, rounds, ok, fail);
}

/* ------------------------------------------------------------------ */

int main(void)
{
    int i;

    /* "no thread waits forever": give up loudly instead of hanging */
    alarm(600);

    /* unique pointers are what the shared memory is kept in */
    {
        DECLARE_CSTL_UNIQUE_PTR(up);
        const long live = atomic_load(&g_live);
        cstl_unique_ptr_alloc(&up, 24, NULL, NULL);
        CHECK(cstl_unique_ptr_get(&up) != NULL);
        CHECK(atomic_load(&g_live) == live + 1);
        cstl_unique_ptr_reset(&up);
        CHECK(cstl_unique_ptr_get(&up) == NULL);
        CHECK(atomic_load(&g_live) == live);
        cstl_unique_ptr_reset(&up);
        quarantine_flush();
    }

    printf("part 1: sequential walks against the model\n");
    for (i = 0; i < 300; i++) {
        sequential_walk(0xabcdef12345ULL + 7919u * (unsigned)i, 400);
    }

    printf("part 2: concurrent random programs\n");
    concurrent_programs(2, 120000, 4, 1);
    concurrent_programs(2, 60000, 10, 2);
    concurrent_programs(3, 80000, 5, 3);
    concurrent_programs(4, 60000, 6, 4);

    printf("part 3: lockers against the last owner\n");
    hot_loops(1, 15000);
    hot_loops(2, 15000);
    hot_loops(3, 10000);
    /* many lockers queueing up for their turn */
    hot_loops(6, 4000);
    hot_loops(8, 2000);

    printf("mallocs %ld, frees %ld, clears %ld\n",
           atomic_load(&g_mallocs), atomic_load(&g_frees),
           atomic_load(&g_clears));
    CHECK(atomic_load(&g_mallocs) == atomic_load(&g_frees));
    printf("OK\n");
    return 0;
}
