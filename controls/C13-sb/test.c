/*
 * C13: a singly-linked list equals a reference sequence and its tail is
 * the true last element.
 *
 * Model based test that only uses the public API of cstl/slist.h. Every
 * list is mirrored by a plain array of element pointers; after every
 * operation the traversal (foreach), front, back and size are compared
 * with the mirror, and a "probe" element is appended with push_back to
 * see that it lands behind the true last element (and is then removed
 * again with erase_after/pop_front, which is itself an "erase the last
 * element, then push_back" scenario).
 *
 * Nothing is assumed that the headers do not say: sort is only required
 * to produce a nondecreasing permutation (no stability assumed), clear
 * may call the callback in any order, no private member is looked at.
 */

#include "cstl/slist.h"

#include <stdio.h>
#include <stdlib.h>
#include <string.h>

#define MAXLISTS  3
#define MAXLEN    6000

/* two element types with the node at different offsets */
struct item
{
    int key;
    int id;
    int seen;
    struct cstl_slist_node node;
    int cleared;
};

struct other
{
    struct cstl_slist_node node;
    long pad[3];
    int key;
};

static unsigned long nchecks;

#define FAIL(...)                                               \
    do {                                                        \
        fprintf(stderr, "FAIL %s:%d: ", __FILE__, __LINE__);    \
        fprintf(stderr, __VA_ARGS__);                           \
        fprintf(stderr, "\n");                                  \
        exit(1);                                                \
    } while (0)

#define CHECK(C)                                        \
    do {                                                \
        nchecks++;                                      \
        if (!(C)) { FAIL("check failed: %s", #C); }     \
    } while (0)

/* ------------------------------------------------------------------ */
/* deterministic random numbers                                        */

static unsigned long long rng_state = 88172645463325252ull;

static unsigned int rnd(void)
{
    rng_state ^= rng_state << 13;
    rng_state ^= rng_state >> 7;
    rng_state ^= rng_state << 17;
    return (unsigned int)(rng_state >> 11);
}

static unsigned int rndn(const unsigned int n)
{
    return rnd() % n;
}

/* ------------------------------------------------------------------ */
/* the model                                                           */

struct model
{
    struct cstl_slist * sl;
    struct item ** v;
    size_t n, cap;
};

static void model_init(struct model * const m, struct cstl_slist * const sl)
{
    m->sl = sl;
    m->cap = 16;
    m->v = malloc(m->cap * sizeof(*m->v));
    m->n = 0;
}

static void model_fini(struct model * const m)
{
    free(m->v);
    m->v = NULL;
}

static void model_room(struct model * const m, const size_t n)
{
    if (n > m->cap) {
        while (m->cap < n) {
            m->cap *= 2;
        }
        m->v = realloc(m->v, m->cap * sizeof(*m->v));
        if (m->v == NULL) {
            FAIL("out of memory");
        }
    }
}

static void model_insert(struct model * const m,
                         const size_t at, struct item * const it)
{
    model_room(m, m->n + 1);
    memmove(&m->v[at + 1], &m->v[at], (m->n - at) * sizeof(*m->v));
    m->v[at] = it;
    m->n++;
}

static struct item * model_remove(struct model * const m, const size_t at)
{
    struct item * const it = m->v[at];
    memmove(&m->v[at], &m->v[at + 1], (m->n - at - 1) * sizeof(*m->v));
    m->n--;
    return it;
}

/* ------------------------------------------------------------------ */
/* element pool                                                        */

static struct item * pool_free[MAXLEN * 4];
static size_t pool_nfree;
static int next_id;

static struct item * item_new(const int key)
{
    struct item * it;

    if (pool_nfree > 0) {
        it = pool_free[--pool_nfree];
    } else {
        it = malloc(sizeof(*it));
        if (it == NULL) {
            FAIL("out of memory");
        }
    }
    /* garbage in the node: the list must not depend on its old content */
    memset(&it->node, 0xa5, sizeof(it->node));
    it->key = key;
    it->id = next_id++;
    it->seen = 0;
    it->cleared = 0;
    return it;
}

static void item_del(struct item * const it)
{
    if (pool_nfree < sizeof(pool_free) / sizeof(pool_free[0])) {
        memset(&it->node, 0x5a, sizeof(it->node));
        pool_free[pool_nfree++] = it;
    } else {
        free(it);
    }
}

static void pool_drain(void)
{
    while (pool_nfree > 0) {
        free(pool_free[--pool_nfree]);
    }
}

/* ------------------------------------------------------------------ */
/* verification                                                        */

struct walk
{
    const struct model * m;
    size_t i;
    size_t stop_at;     /* return nonzero when reaching this index */
    int stop_val;
};

static int walk_visit(void * const e, void * const p)
{
    struct walk * const w = p;

    if (w->i >= w->m->n) {
        FAIL("traversal yields more than the %lu reference elements",
             (unsigned long)w->m->n);
    }
    if (w->m->v[w->i] != e) {
        FAIL("traversal differs from the reference at index %lu of %lu",
             (unsigned long)w->i, (unsigned long)w->m->n);
    }
    w->i++;
    if (w->i - 1 == w->stop_at) {
        return w->stop_val;
    }
    return 0;
}

static void verify_plain(const struct model * const m)
{
    struct walk w;
    int res;

    w.m = m;
    w.i = 0;
    w.stop_at = (size_t)-1;
    w.stop_val = 0;

    res = cstl_slist_foreach(m->sl, walk_visit, &w);
    CHECK(res == 0);
    CHECK(w.i == m->n);
    CHECK(cstl_slist_size(m->sl) == m->n);
    if (m->n == 0) {
        CHECK(cstl_slist_front(m->sl) == NULL);
        CHECK(cstl_slist_back(m->sl) == NULL);
    } else {
        CHECK(cstl_slist_front(m->sl) == m->v[0]);
        CHECK(cstl_slist_back(m->sl) == m->v[m->n - 1]);
    }
}

/*
 * append a probe with push_back, see that it is the new true last
 * element, and take it out again.
 */
static void verify_probe(struct model * const m)
{
    struct item * const probe = item_new(1 << 20);
    void * out;

    cstl_slist_push_back(m->sl, probe);
    model_insert(m, m->n, probe);
    verify_plain(m);

    if (m->n == 1) {
        out = cstl_slist_pop_front(m->sl);
    } else {
        out = cstl_slist_erase_after(m->sl, m->v[m->n - 2]);
    }
    CHECK(out == probe);
    model_remove(m, m->n - 1);
    verify_plain(m);

    item_del(probe);
}

static void verify(struct model * const m)
{
    verify_plain(m);
    verify_probe(m);
}

/* ------------------------------------------------------------------ */
/* callbacks                                                           */

struct cmp_ctx
{
    unsigned long calls;
    struct cstl_slist * scratch;     /* another container used inside */
    struct other spare[4];
    unsigned int nspare;
};

static int cmp_item(const void * const a, const void * const b, void * const p)
{
    const struct item * const ia = a;
    const struct item * const ib = b;
    struct cmp_ctx * const c = p;

    if (c != NULL) {
        c->calls++;
        if (c->scratch != NULL) {
            /* play with a different list of a different element type */
            if (cstl_slist_size(c->scratch) < 4) {
                cstl_slist_push_back(
                    c->scratch,
                    &c->spare[cstl_slist_size(c->scratch)]);
            } else {
                cstl_slist_reverse(c->scratch);
                (void)cstl_slist_pop_front(c->scratch);
                (void)cstl_slist_pop_front(c->scratch);
                (void)cstl_slist_pop_front(c->scratch);
                (void)cstl_slist_pop_front(c->scratch);
            }
        }
    }

    return (ia->key > ib->key) - (ia->key < ib->key);
}

static void clr_count(void * const e, void * const p)
{
    struct item * const it = e;
    (void)p;
    it->cleared++;
}

/* clear callback that takes ownership by moving the element elsewhere */
static struct cstl_slist * clr_target;
static void clr_move(void * const e, void * const p)
{
    struct item * const it = e;
    (void)p;
    it->cleared++;
    cstl_slist_push_front(clr_target, it);
}

/* foreach callback that uses another list */
struct copy_ctx
{
    struct cstl_slist * dst;
    struct model * dm;
};

static int visit_copy(void * const e, void * const p)
{
    struct copy_ctx * const c = p;
    const struct item * const it = e;
    struct item * const cp = item_new(it->key);

    cstl_slist_push_back(c->dst, cp);
    model_insert(c->dm, c->dm->n, cp);
    return 0;
}

/* ------------------------------------------------------------------ */
/* operations on (list, model)                                         */

static int key_range = 4;

static int new_key(void)
{
    return (int)rndn((unsigned int)key_range);
}

static void op_push_front(struct model * const m)
{
    struct item * const it = item_new(new_key());
    cstl_slist_push_front(m->sl, it);
    model_insert(m, 0, it);
}

static void op_push_back(struct model * const m)
{
    struct item * const it = item_new(new_key());
    cstl_slist_push_back(m->sl, it);
    model_insert(m, m->n, it);
}

static void op_insert_after(struct model * const m, const size_t pos)
{
    struct item * const it = item_new(new_key());
    cstl_slist_insert_after(m->sl, m->v[pos], it);
    model_insert(m, pos + 1, it);
}

static void op_erase_after(struct model * const m, const size_t pos)
{
    void * const out = cstl_slist_erase_after(m->sl, m->v[pos]);
    struct item * const exp = model_remove(m, pos + 1);
    CHECK(out == exp);
    item_del(exp);
}

static void op_pop_front(struct model * const m)
{
    void * const out = cstl_slist_pop_front(m->sl);
    if (m->n == 0) {
        CHECK(out == NULL);
        CHECK(cstl_slist_size(m->sl) == 0);
        CHECK(cstl_slist_front(m->sl) == NULL);
        CHECK(cstl_slist_back(m->sl) == NULL);
    } else {
        struct item * const exp = model_remove(m, 0);
        CHECK(out == exp);
        item_del(exp);
    }
}

static void op_reverse(struct model * const m)
{
    size_t i;

    cstl_slist_reverse(m->sl);
    for (i = 0; i < m->n / 2; i++) {
        struct item * const t = m->v[i];
        m->v[i] = m->v[m->n - 1 - i];
        m->v[m->n - 1 - i] = t;
    }
}

struct collect
{
    struct item ** v;
    size_t n, max;
};

static int visit_collect(void * const e, void * const p)
{
    struct collect * const c = p;
    if (c->n >= c->max) {
        FAIL("sorted list is longer than it was (%lu)",
             (unsigned long)c->max);
    }
    c->v[c->n++] = e;
    return 0;
}

static void op_sort(struct model * const m, struct cmp_ctx * const ctx)
{
    struct collect c;
    size_t i;

    for (i = 0; i < m->n; i++) {
        m->v[i]->seen = 0;
    }

    cstl_slist_sort(m->sl, cmp_item, ctx);

    CHECK(cstl_slist_size(m->sl) == m->n);

    c.max = m->n;
    c.n = 0;
    c.v = malloc((m->n + 1) * sizeof(*c.v));
    cstl_slist_foreach(m->sl, visit_collect, &c);
    CHECK(c.n == m->n);

    /* a permutation of the elements, in nondecreasing order */
    for (i = 0; i < c.n; i++) {
        CHECK(c.v[i]->seen == 0);
        c.v[i]->seen = 1;
        if (i > 0) {
            CHECK(c.v[i - 1]->key <= c.v[i]->key);
        }
    }
    for (i = 0; i < m->n; i++) {
        CHECK(m->v[i]->seen == 1);
    }
    /* the order among equal elements is not documented; adopt it */
    memcpy(m->v, c.v, m->n * sizeof(*m->v));
    free(c.v);
}

static void op_concat(struct model * const d, struct model * const s)
{
    size_t i;

    cstl_slist_concat(d->sl, s->sl);
    model_room(d, d->n + s->n);
    for (i = 0; i < s->n; i++) {
        d->v[d->n++] = s->v[i];
    }
    s->n = 0;
}

static void op_swap(struct model * const a, struct model * const b)
{
    struct item ** const v = a->v;
    const size_t n = a->n, cap = a->cap;

    cstl_slist_swap(a->sl, b->sl);

    a->v = b->v; a->n = b->n; a->cap = b->cap;
    b->v = v; b->n = n; b->cap = cap;
}

static void op_foreach_stop(struct model * const m, const size_t at)
{
    struct walk w;
    int res;

    w.m = m;
    w.i = 0;
    w.stop_at = at;
    w.stop_val = 7 + (int)at;

    res = cstl_slist_foreach(m->sl, walk_visit, &w);
    if (at < m->n) {
        CHECK(res == 7 + (int)at);
        CHECK(w.i == at + 1);
    } else {
        CHECK(res == 0);
        CHECK(w.i == m->n);
    }
}

static void op_clear(struct model * const m)
{
    size_t i;

    for (i = 0; i < m->n; i++) {
        m->v[i]->cleared = 0;
    }
    cstl_slist_clear(m->sl, clr_count);
    for (i = 0; i < m->n; i++) {
        CHECK(m->v[i]->cleared == 1);
        item_del(m->v[i]);
    }
    m->n = 0;
}

/* ------------------------------------------------------------------ */
/* exhaustive, single list                                             */

/*
 * operation codes for one list whose length is at most 5 (+1 for the
 * probe): every position of insert_after and erase_after is enumerated.
 */
enum {
    S_PUSH_FRONT, S_PUSH_BACK,
    S_INS0, S_INS1, S_INS2, S_INS3, S_INS4,
    S_ERA0, S_ERA1, S_ERA2, S_ERA3,
    S_POP, S_REV, S_SORT, S_FOREACH, S_CLEAR,
    S_NOPS
};

static int single_apply(struct model * const m, const int op)
{
    switch (op) {
    case S_PUSH_FRONT:
        if (m->n >= 5) return 0;
        op_push_front(m);
        break;
    case S_PUSH_BACK:
        if (m->n >= 5) return 0;
        op_push_back(m);
        break;
    case S_INS0: case S_INS1: case S_INS2: case S_INS3: case S_INS4:
        if (m->n >= 5 || (size_t)(op - S_INS0) >= m->n) return 0;
        op_insert_after(m, (size_t)(op - S_INS0));
        break;
    case S_ERA0: case S_ERA1: case S_ERA2: case S_ERA3:
        if ((size_t)(op - S_ERA0) + 1 >= m->n) return 0;
        op_erase_after(m, (size_t)(op - S_ERA0));
        break;
    case S_POP:
        op_pop_front(m);
        break;
    case S_REV:
        op_reverse(m);
        break;
    case S_SORT:
        op_sort(m, NULL);
        break;
    case S_FOREACH:
        op_foreach_stop(m, m->n / 2);
        op_foreach_stop(m, m->n == 0 ? 0 : m->n - 1);
        break;
    case S_CLEAR:
        op_clear(m);
        break;
    default:
        return 0;
    }
    return 1;
}

static unsigned long exhaustive_single(const size_t start, const int depth,
                                       const int use_static)
{
    static struct cstl_slist st_sl =
        CSTL_SLIST_INITIALIZER(st_sl, struct item, node);
    int seq[8];
    unsigned long nseq = 0;
    int d;

    for (d = 0; d < depth; d++) {
        seq[d] = 0;
    }

    for (;;) {
        struct cstl_slist loc_sl;
        struct cstl_slist * sl;
        struct model m;
        size_t i;
        int ok = 1;

        if (use_static) {
            sl = &st_sl;
        } else {
            /* poison: init must set up everything that matters */
            memset(&loc_sl, 0x77, sizeof(loc_sl));
            cstl_slist_init(&loc_sl, offsetof(struct item, node));
            sl = &loc_sl;
        }
        model_init(&m, sl);
        verify(&m);

        /* descending keys so that sort has something to do */
        for (i = 0; i < start; i++) {
            struct item * const it = item_new((int)(start - i) % 3);
            cstl_slist_push_back(sl, it);
            model_insert(&m, m.n, it);
        }
        verify(&m);

        for (d = 0; d < depth && ok; d++) {
            ok = single_apply(&m, seq[d]);
            if (ok) {
                verify(&m);
            }
        }
        if (ok) {
            nseq++;
            /* and the list is still fully usable */
            op_push_back(&m);
            verify(&m);
        }

        op_clear(&m);
        verify(&m);
        model_fini(&m);

        /* next sequence */
        for (d = depth - 1; d >= 0; d--) {
            if (++seq[d] < S_NOPS) {
                break;
            }
            seq[d] = 0;
        }
        if (d < 0) {
            break;
        }
    }

    return nseq;
}

/* ------------------------------------------------------------------ */
/* exhaustive, several lists                                           */

enum {
    M_PUSH_BACK, M_PUSH_FRONT, M_POP, M_ERASE_LAST, M_INS_LAST,
    M_REV, M_SORT, M_CLEAR,
    M_PERLIST
};

static int multi_nops(const int nl)
{
    /* per list ops, ordered pairs for concat, unordered pairs for swap */
    return nl * M_PERLIST + nl * (nl - 1) + nl * (nl - 1) / 2;
}

static int multi_apply(struct model * const m, const int nl, int op)
{
    int i, j;

    if (op < nl * M_PERLIST) {
        struct model * const x = &m[op / M_PERLIST];
        switch (op % M_PERLIST) {
        case M_PUSH_BACK:
            if (x->n >= 4) return 0;
            op_push_back(x);
            break;
        case M_PUSH_FRONT:
            if (x->n >= 4) return 0;
            op_push_front(x);
            break;
        case M_POP:
            op_pop_front(x);
            break;
        case M_ERASE_LAST:
            if (x->n < 2) return 0;
            op_erase_after(x, x->n - 2);
            break;
        case M_INS_LAST:
            if (x->n < 1 || x->n >= 4) return 0;
            op_insert_after(x, x->n - 1);
            break;
        case M_REV:
            op_reverse(x);
            break;
        case M_SORT:
            op_sort(x, NULL);
            break;
        case M_CLEAR:
            op_clear(x);
            break;
        }
        return 1;
    }
    op -= nl * M_PERLIST;

    if (op < nl * (nl - 1)) {
        i = op / (nl - 1);
        j = op % (nl - 1);
        if (j >= i) {
            j++;
        }
        op_concat(&m[i], &m[j]);
        return 1;
    }
    op -= nl * (nl - 1);

    for (i = 0; i < nl; i++) {
        for (j = i + 1; j < nl; j++) {
            if (op-- == 0) {
                op_swap(&m[i], &m[j]);
                return 1;
            }
        }
    }
    return 0;
}

static unsigned long exhaustive_multi(const int nl, const int depth,
                                      const unsigned int startmask)
{
    const int nops = multi_nops(nl);
    int seq[8];
    unsigned long nseq = 0;
    int d, i;

    for (d = 0; d < depth; d++) {
        seq[d] = 0;
    }

    for (;;) {
        DECLARE_CSTL_SLIST(l0, struct item, node);
        struct cstl_slist l1;
        struct cstl_slist * const l2 = malloc(sizeof(*l2));
        struct cstl_slist * ls[MAXLISTS];
        struct model m[MAXLISTS];
        int ok = 1;

        cstl_slist_init(&l1, offsetof(struct item, node));
        cstl_slist_init(l2, offsetof(struct item, node));
        ls[0] = &l0; ls[1] = &l1; ls[2] = l2;

        for (i = 0; i < nl; i++) {
            size_t k;
            model_init(&m[i], ls[i]);
            /* start lengths 0..3 taken from two bits each */
            for (k = 0; k < ((startmask >> (2 * i)) & 3u); k++) {
                op_push_front(&m[i]);
            }
        }

        for (d = 0; d < depth && ok; d++) {
            ok = multi_apply(m, nl, seq[d]);
            if (ok) {
                for (i = 0; i < nl; i++) {
                    verify(&m[i]);
                }
            }
        }
        if (ok) {
            nseq++;
        }

        for (i = 0; i < nl; i++) {
            op_clear(&m[i]);
            verify(&m[i]);
            model_fini(&m[i]);
        }
        free(l2);

        for (d = depth - 1; d >= 0; d--) {
            if (++seq[d] < nops) {
                break;
            }
            seq[d] = 0;
        }
        if (d < 0) {
            break;
        }
    }

    return nseq;
}

/* ------------------------------------------------------------------ */
/* seeded random, long                                                 */

static void random_run(const unsigned int seed, const int nl,
                       const unsigned long nops, const size_t maxlen,
                       const int keys)
{
    DECLARE_CSTL_SLIST(l0, struct item, node);
    DECLARE_CSTL_SLIST(scratch, struct other, node);
    struct cstl_slist l1;
    struct cstl_slist * const l2 = malloc(sizeof(*l2));
    struct cstl_slist * ls[MAXLISTS];
    struct model m[MAXLISTS];
    struct cmp_ctx ctx;
    unsigned long n;
    int i;

    rng_state = 0x9e3779b97f4a7c15ull ^ ((unsigned long long)seed << 17)
        ^ seed;
    (void)rnd(); (void)rnd();
    key_range = keys;

    memset(&l1, 0xee, sizeof(l1));
    memset(l2, 0x11, sizeof(*l2));
    cstl_slist_init(&l1, offsetof(struct item, node));
    cstl_slist_init(l2, offsetof(struct item, node));
    ls[0] = &l0; ls[1] = &l1; ls[2] = l2;
    for (i = 0; i < nl; i++) {
        model_init(&m[i], ls[i]);
        verify(&m[i]);
    }

    memset(&ctx, 0, sizeof(ctx));
    ctx.scratch = &scratch;

    for (n = 0; n < nops; n++) {
        struct model * const x = &m[rndn((unsigned int)nl)];
        struct model * y = &m[rndn((unsigned int)nl)];
        const unsigned int op = rndn(100);

        if (op < 14) {
            if (x->n < maxlen) op_push_front(x);
        } else if (op < 30) {
            if (x->n < maxlen) op_push_back(x);
        } else if (op < 42) {
            if (x->n > 0 && x->n < maxlen) {
                /* favour the tail */
                const size_t pos =
                    (rndn(3) == 0) ? x->n - 1 : rndn((unsigned int)x->n);
                op_insert_after(x, pos);
            }
        } else if (op < 56) {
            if (x->n > 1) {
                const size_t pos =
                    (rndn(3) == 0)
                    ? x->n - 2 : rndn((unsigned int)(x->n - 1));
                op_erase_after(x, pos);
            }
        } else if (op < 66) {
            op_pop_front(x);
        } else if (op < 72) {
            op_reverse(x);
        } else if (op < 78) {
            ctx.calls = 0;
            op_sort(x, rndn(2) ? &ctx : NULL);
        } else if (op < 84) {
            if (nl > 1) {
                if (y == x) {
                    y = &m[(size_t)((x - m) + 1) % (size_t)nl];
                }
                if (x->n + y->n <= maxlen) {
                    op_concat(x, y);
                    verify(y);
                }
            }
        } else if (op < 90) {
            if (nl > 1) {
                if (y == x) {
                    y = &m[(size_t)((x - m) + 1) % (size_t)nl];
                }
                op_swap(x, y);
                verify(y);
            }
        } else if (op < 95) {
            op_foreach_stop(x, x->n == 0 ? 0 : rndn((unsigned int)x->n));
            op_foreach_stop(x, x->n);
        } else if (op < 97) {
            /* pop until empty, and once more */
            while (x->n > 0) {
                op_pop_front(x);
            }
            op_pop_front(x);
            op_pop_front(x);
        } else {
            op_clear(x);
        }

        /* the probe is comparatively expensive on long lists */
        if (x->n <= 64 || rndn(8) == 0) {
            verify(x);
        } else {
            CHECK(cstl_slist_size(x->sl) == x->n);
            CHECK(cstl_slist_back(x->sl) == x->v[x->n - 1]);
            CHECK(cstl_slist_front(x->sl) == x->v[0]);
        }
    }

    for (i = 0; i < nl; i++) {
        verify(&m[i]);
        op_clear(&m[i]);
        verify(&m[i]);
        model_fini(&m[i]);
    }
    while (cstl_slist_pop_front(&scratch) != NULL)
        ;
    free(l2);
    key_range = 4;
}

/* ------------------------------------------------------------------ */
/* directed scenarios                                                  */

static void directed_empty(void)
{
    DECLARE_CSTL_SLIST(l, struct item, node);
    struct cstl_slist h;
    struct model m;
    int i;

    model_init(&m, &l);
    for (i = 0; i < 3; i++) {
        CHECK(cstl_slist_pop_front(&l) == NULL);
        verify(&m);
    }
    cstl_slist_reverse(&l);
    verify(&m);
    cstl_slist_sort(&l, cmp_item, NULL);
    verify(&m);
    cstl_slist_clear(&l, clr_count);
    verify(&m);
    op_foreach_stop(&m, 0);

    /* empty with empty, empty with itself */
    cstl_slist_init(&h, offsetof(struct item, node));
    cstl_slist_concat(&l, &h);
    verify(&m);
    cstl_slist_swap(&l, &h);
    verify(&m);
    CHECK(cstl_slist_size(&h) == 0);
    CHECK(cstl_slist_pop_front(&h) == NULL);
    CHECK(cstl_slist_front(&h) == NULL);
    CHECK(cstl_slist_back(&h) == NULL);

    /* one element: every way of getting back to empty, then push_back */
    op_push_back(&m); verify(&m);
    op_pop_front(&m); verify(&m);
    op_pop_front(&m); verify(&m);
    op_push_front(&m); verify(&m);
    op_clear(&m); verify(&m);
    op_push_back(&m); op_push_back(&m); verify(&m);
    op_erase_after(&m, 0); verify(&m);
    op_push_back(&m); verify(&m);
    op_reverse(&m); verify(&m);
    op_sort(&m, NULL); verify(&m);
    op_clear(&m);
    verify(&m);
    model_fini(&m);
}

/* lists of two different element types in one program, incl. swap */
static void directed_types(void)
{
    DECLARE_CSTL_SLIST(li, struct item, node);
    DECLARE_CSTL_SLIST(lo, struct other, node);
    struct other o[5];
    struct model m;
    struct collect c;
    void * p;
    int i;

    model_init(&m, &li);
    for (i = 0; i < 5; i++) {
        o[i].key = i;
        cstl_slist_push_back(&lo, &o[i]);
        op_push_back(&m);
    }
    verify(&m);
    CHECK(cstl_slist_size(&lo) == 5);
    CHECK(cstl_slist_front(&lo) == &o[0]);
    CHECK(cstl_slist_back(&lo) == &o[4]);

    /* after the swap, li holds the struct others and vice versa */
    cstl_slist_swap(&li, &lo);
    m.sl = &lo;
    verify(&m);
    CHECK(cstl_slist_size(&li) == 5);
    CHECK(cstl_slist_front(&li) == &o[0]);
    CHECK(cstl_slist_back(&li) == &o[4]);
    cstl_slist_reverse(&li);
    CHECK(cstl_slist_front(&li) == &o[4]);
    CHECK(cstl_slist_back(&li) == &o[0]);
    for (i = 4; i >= 0; i--) {
        p = cstl_slist_pop_front(&li);
        CHECK(p == &o[i]);
    }
    CHECK(cstl_slist_pop_front(&li) == NULL);
    cstl_slist_push_back(&li, &o[2]);
    CHECK(cstl_slist_back(&li) == &o[2]);
    CHECK(cstl_slist_front(&li) == &o[2]);
    CHECK(cstl_slist_pop_front(&li) == &o[2]);

    /* swap an empty with a non-empty list, both ways */
    cstl_slist_swap(&li, &lo);
    m.sl = &li;
    verify(&m);
    CHECK(cstl_slist_size(&lo) == 0);
    CHECK(cstl_slist_back(&lo) == NULL);
    cstl_slist_push_back(&lo, &o[1]);
    cstl_slist_push_back(&lo, &o[3]);
    CHECK(cstl_slist_front(&lo) == &o[1]);
    CHECK(cstl_slist_back(&lo) == &o[3]);
    CHECK(cstl_slist_erase_after(&lo, &o[1]) == &o[3]);
    CHECK(cstl_slist_back(&lo) == &o[1]);
    CHECK(cstl_slist_pop_front(&lo) == &o[1]);
    CHECK(cstl_slist_pop_front(&lo) == NULL);

    /* foreach that fills another list; clear that moves to another */
    {
        DECLARE_CSTL_SLIST(cp, struct item, node);
        DECLARE_CSTL_SLIST(tgt, struct item, node);
        struct model cm, tm;
        struct copy_ctx cc;
        size_t k;

        model_init(&cm, &cp);
        model_init(&tm, &tgt);
        cc.dst = &cp;
        cc.dm = &cm;
        CHECK(cstl_slist_foreach(&li, visit_copy, &cc) == 0);
        verify(&m);
        verify(&cm);
        CHECK(cm.n == m.n);
        for (k = 0; k < m.n; k++) {
            CHECK(cm.v[k]->key == m.v[k]->key);
        }

        clr_target = &tgt;
        for (k = 0; k < cm.n; k++) {
            cm.v[k]->cleared = 0;
        }
        cstl_slist_clear(&cp, clr_move);
        CHECK(cstl_slist_size(&tgt) == cm.n);
        c.max = cm.n;
        c.n = 0;
        c.v = malloc((cm.n + 1) * sizeof(*c.v));
        cstl_slist_foreach(&tgt, visit_collect, &c);
        CHECK(c.n == cm.n);
        for (k = 0; k < cm.n; k++) {
            CHECK(cm.v[k]->cleared == 1);
        }
        for (k = 0; k < c.n; k++) {
            model_insert(&tm, tm.n, c.v[k]);
        }
        free(c.v);
        cm.n = 0;
        verify(&cm);
        verify(&tm);
        op_push_back(&cm);
        verify(&cm);
        op_clear(&cm);
        op_clear(&tm);
        model_fini(&cm);
        model_fini(&tm);
    }

    op_clear(&m);
    verify(&m);
    model_fini(&m);
}

/* big lists: sort with few and with many distinct keys */
static void directed_big(const size_t n, const int keys,
                         const int presorted)
{
    struct cstl_slist * const sl = malloc(sizeof(*sl));
    DECLARE_CSTL_SLIST(scratch, struct other, node);
    struct cmp_ctx ctx;
    struct model m;
    size_t i;

    cstl_slist_init(sl, offsetof(struct item, node));
    model_init(&m, sl);
    key_range = keys;
    memset(&ctx, 0, sizeof(ctx));
    ctx.scratch = &scratch;

    for (i = 0; i < n; i++) {
        struct item * const it = item_new(
            presorted == 1 ? (int)i
            : presorted == 2 ? (int)(n - i)
            : new_key());
        cstl_slist_push_back(sl, it);
        model_insert(&m, m.n, it);
    }
    verify(&m);
    op_sort(&m, &ctx);
    verify(&m);
    /* a second time, now it is sorted already */
    op_sort(&m, NULL);
    verify(&m);
    op_reverse(&m);
    verify(&m);
    op_sort(&m, &ctx);
    verify(&m);
    if (m.n > 1) {
        op_erase_after(&m, m.n - 2);
        verify(&m);
    }
    op_clear(&m);
    verify(&m);
    model_fini(&m);
    while (cstl_slist_pop_front(&scratch) != NULL)
        ;
    free(sl);
    key_range = 4;
}

/* ------------------------------------------------------------------ */

int main(void)
{
    unsigned long total = 0;
    unsigned int s;
    size_t start;

    directed_empty();
    directed_types();

    /* every sequence of 4 ops from start lengths 0..5, 5 from 0..3 */
    for (start = 0; start <= 5; start++) {
        total += exhaustive_single(start, 4, (int)(start & 1));
    }
    for (start = 0; start <= 3; start++) {
        total += exhaustive_single(start, 5, (int)(~start & 1));
    }

    /* two and three lists */
    total += exhaustive_multi(2, 4, 0x0);
    total += exhaustive_multi(2, 3, 0x6);     /* lengths 2, 1 */
    total += exhaustive_multi(2, 3, 0xd);     /* lengths 1, 3 */
    total += exhaustive_multi(3, 3, 0x00);
    total += exhaustive_multi(3, 3, 0x19);    /* lengths 1, 2, 1 */
    total += exhaustive_multi(3, 2, 0x3b);    /* lengths 3, 2, 3 */

    /* seeded random */
    for (s = 1; s <= 60; s++) {
        random_run(s, 1 + (int)(s % 3), 4000, 12, 3);
    }
    for (s = 100; s <= 130; s++) {
        random_run(s, 1 + (int)(s % 3), 6000, 48, 5);
    }
    for (s = 200; s <= 208; s++) {
        random_run(s, 3, 4000, 700, 1000);
    }

    /* sizes around powers of two and small-array thresholds */
    for (start = 0; start <= 40; start++) {
        directed_big(start, 3, 0);
        directed_big(start, 1000, 0);
        directed_big(start, 1, 1);
        directed_big(start, 1, 2);
    }
    directed_big(63, 7, 0);
    directed_big(64, 7, 0);
    directed_big(65, 7, 0);
    directed_big(1000, 10, 0);
    directed_big(1000, 100000, 0);
    directed_big(1023, 2, 1);
    directed_big(1025, 2, 2);
    directed_big(5000, 50, 0);
    directed_big(5000, 1 << 30, 0);

    pool_drain();

    printf("C13 ok: %lu exhaustive sequences, %lu checks\n", total, nchecks);
    return 0;
}
