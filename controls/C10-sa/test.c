/*
 * C10: strings equal a reference string after every edit and stay
 * NUL-terminated.
 *
 * Model-based test of cstl_string and cstl_wstring through the public
 * API only. The file is a poor man's template: the first pass holds the
 * common code and main(), the second/third pass (the file includes
 * itself) holds the per-width test code.
 *
 * malloc/realloc/free of the test AND of the statically linked library
 * are routed through guard-zone wrappers (link with
 * -Wl,--wrap=malloc,--wrap=realloc,--wrap=free). The wrappers
 *   - put canaries in front of and behind every block and verify them,
 *   - can be told to fail every allocation from now on.
 * Nothing about the number, size or order of allocations is assumed.
 */
#ifndef TEMPLATE_PASS

#define _POSIX_C_SOURCE 200809L

#include <stdio.h>
#include <stdlib.h>
#include <string.h>
#include <stdint.h>
#include <wchar.h>
#include <signal.h>
#include <unistd.h>
#include <sys/types.h>
#include <sys/wait.h>

#include "cstl/string.h"

/* ------------------------------------------------------------------ */
/* guard-zone allocator                                                 */
/* ------------------------------------------------------------------ */

void * __real_malloc(size_t);
void * __real_realloc(void *, size_t);
void __real_free(void *);

#define GUARD   32
#define MAGIC   ((size_t)0x5ca1ab1ec0ffee11ull)

struct hdr {
    struct hdr * prev, * next;
    size_t n;
    size_t magic;
};

static struct hdr g_blocks = { &g_blocks, &g_blocks, 0, 0 };
static volatile int g_fail_all;         /* every allocation fails */
static unsigned long g_allocs;

static unsigned char * blk_user(struct hdr * const h)
{
    return (unsigned char *)(h + 1) + GUARD;
}

static struct hdr * blk_hdr(void * const p)
{
    return (struct hdr *)((unsigned char *)p - GUARD) - 1;
}

static int blk_ok(struct hdr * const h)
{
    const unsigned char * f = (unsigned char *)(h + 1);
    const unsigned char * r = blk_user(h) + h->n;
    int i;

    if (h->magic != MAGIC) {
        return 0;
    }
    for (i = 0; i < GUARD; i++) {
        if (f[i] != 0xFD || r[i] != 0xFB) {
            return 0;
        }
    }
    return 1;
}

static int heap_ok(void)
{
    struct hdr * h;
    for (h = g_blocks.next; h != &g_blocks; h = h->next) {
        if (!blk_ok(h)) {
            return 0;
        }
    }
    return 1;
}

static void * blk_new(const size_t n)
{
    struct hdr * h;

    if (g_fail_all || n > SIZE_MAX - sizeof(*h) - 2 * GUARD) {
        return NULL;
    }
    h = __real_malloc(sizeof(*h) + 2 * GUARD + n);
    if (h == NULL) {
        return NULL;
    }
    g_allocs++;
    h->n = n;
    h->magic = MAGIC;
    memset(h + 1, 0xFD, GUARD);
    /* fresh memory is never zero: nobody may rely on it */
    memset(blk_user(h), 0xA5, n);
    memset(blk_user(h) + n, 0xFB, GUARD);
    h->next = g_blocks.next;
    h->prev = &g_blocks;
    h->next->prev = h;
    g_blocks.next = h;
    return blk_user(h);
}

static void die(const char * const what)
{
    fprintf(stderr, "FAIL: %s\n", what);
    fflush(stderr);
    _exit(1);
}

void __wrap_free(void * const p)
{
    struct hdr * h;

    if (p == NULL) {
        return;
    }
    h = blk_hdr(p);
    if (!blk_ok(h)) {
        die("heap block corrupted (seen at free)");
    }
    h->prev->next = h->next;
    h->next->prev = h->prev;
    h->magic = 0;
    memset(blk_user(h), 0xDD, h->n);
    __real_free(h);
}

void * __wrap_malloc(const size_t n)
{
    return blk_new(n);
}

void * __wrap_realloc(void * const p, const size_t n)
{
    struct hdr * h;
    void * q;

    if (p == NULL) {
        return blk_new(n);
    }
    h = blk_hdr(p);
    if (!blk_ok(h)) {
        die("heap block corrupted (seen at realloc)");
    }
    /* always move: nobody may rely on the block staying in place */
    q = blk_new(n);
    if (q == NULL) {
        return NULL;
    }
    memcpy(q, p, h->n < n ? h->n : n);
    __wrap_free(p);
    return q;
}

/* ------------------------------------------------------------------ */
/* common helpers                                                       */
/* ------------------------------------------------------------------ */

static unsigned long g_checks, g_forks, g_seqs;

#define STR2(X) #X
#define STR1(X) STR2(X)
#define REQUIRE(COND)                                                   \
    do {                                                                \
        g_checks++;                                                     \
        if (!(COND)) {                                                  \
            die(__FILE__ ":" STR1(__LINE__) ": " #COND);                \
        }                                                               \
    } while (0)

static uint64_t g_rng = 0x9e3779b97f4a7c15ull;
static unsigned int rnd(const unsigned int n)
{
    g_rng ^= g_rng << 13;
    g_rng ^= g_rng >> 7;
    g_rng ^= g_rng << 17;
    return (unsigned int)((g_rng >> 11) % n);
}

static int sgn(const int x)
{
    return (x > 0) - (x < 0);
}

/* in a child: an abort must find the heap intact */
static void on_abort(const int sig)
{
    (void)sig;
    if (!heap_ok()) {
        _exit(99);
    }
    signal(SIGABRT, SIG_DFL);
}

enum { R_RETURNED, R_ABORTED, R_OTHER };

/* symbolic values, resolved against the current size / position */
#define HUGE_CNT        (SIZE_MAX / 64)
#define MAXM            4096

enum {
    K_SET_STR, K_INSERT_CH, K_INSERT_STR_N, K_INSERT_STR, K_INSERT,
    K_APPEND, K_APPEND_CH, K_APPEND_STR_N, K_APPEND_STR,
    K_ERASE, K_SUBSTR, K_RESIZE, K_RESERVE, K_SWAP, K_CLEAR,
    K_POKE, K_POKE_DATA, K_ASSIGN_COPY,
    /* read only; used for the abort tests */
    K_AT, K_AT_CONST, K_FIND_CH, K_FIND_STR, K_FIND,
    K_COUNT
};

struct op {
    int kind;
    int tgt, src;       /* object indices */
    int pos;            /* symbolic position */
    int cnt;            /* symbolic count / length */
    int ch;             /* index into the alphabet */
    int lit;            /* index into the literals */
};

enum { P_0, P_1, P_MID, P_LAST, P_END, P_END1, P_END2, P_MAX, P_MAX1,
       P_HALF, P_COUNT };

static size_t sym_pos(const int sym, const size_t size)
{
    switch (sym) {
    case P_0: return 0;
    case P_1: return 1;
    case P_MID: return size / 2;
    case P_LAST: return size - 1;
    case P_END: return size;
    case P_END1: return size + 1;
    case P_END2: return size + 2;
    case P_MAX: return SIZE_MAX;
    case P_MAX1: return SIZE_MAX - 1;
    case P_HALF: return SIZE_MAX / 2 + 1;
    }
    return 0;
}

enum { C_0, C_1, C_2, C_3, C_REST, C_REST_LESS, C_REST_MORE,
       C_MAX, C_MAX1, C_MAX_POS, C_MAX_POS1, C_MAX_SIZE, C_MAX_SIZE1,
       C_MAX_SIZE_LESS, C_HALF, C_ELEMS, C_ELEMS_SIZE, C_ELEMS1,
       C_COUNT };

static size_t sym_cnt(const int sym, const size_t size, const size_t pos,
                      const size_t csize)
{
    switch (sym) {
    case C_0: return 0;
    case C_1: return 1;
    case C_2: return 2;
    case C_3: return 3;
    case C_REST: return size - pos;
    case C_REST_LESS: return size - pos - 1;
    case C_REST_MORE: return size - pos + 1;
    case C_MAX: return SIZE_MAX;
    case C_MAX1: return SIZE_MAX - 1;
    case C_MAX_POS: return SIZE_MAX - pos;
    case C_MAX_POS1: return SIZE_MAX - pos + 1;
    case C_MAX_SIZE: return SIZE_MAX - size;
    case C_MAX_SIZE1: return SIZE_MAX - size + 1;
    case C_MAX_SIZE_LESS: return SIZE_MAX - size - 1;
    case C_HALF: return SIZE_MAX / 2 + 1;
    case C_ELEMS: return SIZE_MAX / csize;
    case C_ELEMS_SIZE: return SIZE_MAX / csize - size;
    case C_ELEMS1: return SIZE_MAX / csize - 1;
    }
    return 0;
}

enum { L_0, L_1, L_2, L_LESS, L_SAME, L_MORE, L_MORE2, L_DOUBLE, L_7,
       L_MAX, L_MAX1, L_MAX2, L_HALF, L_ELEMS, L_ELEMS1, L_ELEMS2,
       L_ELEMS_MORE, L_COUNT };

static size_t sym_len(const int sym, const size_t size, const size_t csize)
{
    switch (sym) {
    case L_0: return 0;
    case L_1: return 1;
    case L_2: return 2;
    case L_LESS: return size - 1;
    case L_SAME: return size;
    case L_MORE: return size + 1;
    case L_MORE2: return size + 2;
    case L_DOUBLE: return 2 * size + 1;
    case L_7: return 7;
    case L_MAX: return SIZE_MAX;
    case L_MAX1: return SIZE_MAX - 1;
    case L_MAX2: return SIZE_MAX - 2;
    case L_HALF: return SIZE_MAX / 2;
    case L_ELEMS: return SIZE_MAX / csize;
    case L_ELEMS1: return SIZE_MAX / csize - 1;
    case L_ELEMS2: return SIZE_MAX / csize - 2;
    case L_ELEMS_MORE: return SIZE_MAX / csize + 1;
    }
    return 0;
}

enum { V_OK, V_SKIP, V_ABORT };

#define NOBJ    3
#define NLIT    8
#define NALPHA  3

#define CAT_(A, B)      A##B
#define CAT(A, B)       CAT_(A, B)
#define DECL(TYPE, NAME) DECLARE_CSTL_STRING(TYPE, NAME)

#define TEMPLATE_PASS

#define T               string
#define LIT(X)          X
#define STD(NAME)       CAT(str, NAME)
#define ALPHA2          ((char)0xE9)
#include "test.c"
#undef ALPHA2
#undef STD
#undef LIT
#undef T

#define T               wstring
#define LIT(X)          CAT(L, X)
#define STD(NAME)       CAT(wcs, NAME)
#define ALPHA2          ((wchar_t)0x3b1)
#include "test.c"
#undef ALPHA2
#undef STD
#undef LIT
#undef T

int main(void)
{
    setvbuf(stdout, NULL, _IONBF, 0);

    string_t_all();
    wstring_t_all();

    REQUIRE(heap_ok());
    printf("C10 ok: %lu checks, %lu sequences, %lu forked runs, "
           "%lu allocations\n", g_checks, g_seqs, g_forks, g_allocs);
    return 0;
}

#else /* TEMPLATE_PASS */

#define S               struct CAT(cstl_, T)
#define C               CAT(CAT(cstl_, T), _char_t)
#define F(NAME)         CAT(CAT(cstl_, T), _##NAME)
#define TF(NAME)        CAT(T, _t_##NAME)
#define M               struct TF(model)

/* the reference string: plain array, always terminated */
M {
    C c[MAXM + 8];
    size_t len;
};

static const C TF(alpha)[NALPHA] = { LIT('a'), LIT('b'), ALPHA2 };
static const C TF(lit0)[] = { 0 };
static const C TF(lit1)[] = { LIT('a'), 0 };
static const C TF(lit2)[] = { LIT('b'), 0 };
static const C TF(lit3)[] = { LIT('a'), LIT('b'), 0 };
static const C TF(lit4)[] = { LIT('b'), LIT('a'), LIT('a'), 0 };
static const C TF(lit5)[] = { LIT('a'), LIT('b'), ALPHA2, LIT('a'), 0 };
static const C TF(lit6)[] = { ALPHA2, 0 };
static const C TF(lit7)[] = { LIT('a'), LIT('a'), LIT('b'), LIT('a'),
                              LIT('b'), LIT('b'), LIT('a'), 0 };
static const C * const TF(lits)[NLIT] = {
    TF(lit0), TF(lit1), TF(lit2), TF(lit3),
    TF(lit4), TF(lit5), TF(lit6), TF(lit7),
};

static size_t TF(max_len);      /* sequences never grow beyond this */

/* a heap copy of exactly the characters the library may look at */
static C * TF(dup)(const C * const p, const size_t n, const int term)
{
    const int fail = g_fail_all;
    C * q;
    g_fail_all = 0;
    q = malloc((n + (term ? 1 : 0)) * sizeof(C) + 1);
    g_fail_all = fail;
    memcpy(q, p, n * sizeof(C));
    if (term) {
        q[n] = 0;
    }
    return q;
}

static S * TF(mk)(const int mode)
{
    S * const s = malloc(sizeof(*s));
    if (mode == 0) {
        memset(s, 0x5A, sizeof(*s));
        F(init)(s);
    } else if (mode == 1) {
        DECL(T, tmp);
        *s = tmp;
    } else {
        static S stat = CSTL_STRING_INITIALIZER(C);
        memset(s, 0xC3, sizeof(*s));
        *s = stat;
    }
    return s;
}

/* size, characters, terminator, element access */
static void TF(verify)(S * const s, const M * const m)
{
    const C * const p = F(str)(s);
    size_t i;

    REQUIRE(F(size)(s) == m->len);
    REQUIRE(F(capacity)(s) >= m->len);
    REQUIRE(p != NULL);
    REQUIRE(p[m->len] == 0);
    REQUIRE(memcmp(p, m->c, (m->len + 1) * sizeof(C)) == 0);
    REQUIRE(F(nul) == 0);
    if (m->len > 0) {
        C * const d = F(data)(s);
        REQUIRE(d != NULL);
        REQUIRE(memcmp(d, m->c, (m->len + 1) * sizeof(C)) == 0);
        REQUIRE(F(at)(s, 0) == d);
        REQUIRE(F(at_const)(s, m->len - 1) == d + (m->len - 1));
        i = m->len / 2;
        REQUIRE(F(at)(s, i) == d + i);
        REQUIRE(*F(at_const)(s, i) == m->c[i]);
    }
}

/* everything readable, against the C library on the reference */
static void TF(verify_full)(S * const o[], M * const mm[], const int k)
{
    S * const s = o[k];
    const M * const m = mm[k];
    size_t i, pos;
    int j;

    TF(verify)(s, m);
    for (i = 0; i < m->len; i++) {
        REQUIRE(*F(at)(s, i) == m->c[i]);
        REQUIRE(*F(at_const)(s, i) == m->c[i]);
        REQUIRE(F(at)(s, i) == F(at)(s, 0) + i);
        REQUIRE(F(at_const)(s, i) == F(at)(s, i));
    }

    for (j = 0; j < NLIT; j++) {
        C * const raw = TF(dup)(TF(lits)[j], STD(len)(TF(lits)[j]), 1);
        REQUIRE(sgn(F(compare_str)(s, raw)) == sgn(STD(cmp)(m->c, raw)));
        free(raw);
    }
    REQUIRE(F(compare_str)(s, m->c) == 0);
    for (j = 0; j < NOBJ; j++) {
        REQUIRE(sgn(F(compare)(s, o[j]))
                == sgn(STD(cmp)(m->c, mm[j]->c)));
        REQUIRE(sgn(F(compare)(o[j], s))
                == sgn(STD(cmp)(mm[j]->c, m->c)));
    }

    for (pos = 0; pos < m->len; pos++) {
        for (j = 0; j <= NALPHA + 1; j++) {
            const C c = (j < NALPHA) ? TF(alpha)[j]
                : (j == NALPHA ? (C)0 : (C)LIT('z'));
            const C * const f = STD(chr)(m->c + pos, c);
            ssize_t want = -1;
            if (f != NULL && (size_t)(f - m->c) < m->len) {
                want = f - m->c;
            }
            REQUIRE(F(find_ch)(s, c, pos) == want);
        }
        for (j = 0; j < NLIT; j++) {
            C * const raw = TF(dup)(TF(lits)[j], STD(len)(TF(lits)[j]), 1);
            const C * const f = STD(str)(m->c + pos, raw);
            const ssize_t want = (f != NULL) ? f - m->c : -1;
            REQUIRE(F(find_str)(s, raw, pos) == want);
            free(raw);
        }
        for (j = 0; j < NOBJ; j++) {
            const C * const f = STD(str)(m->c + pos, mm[j]->c);
            const ssize_t want = (f != NULL) ? f - m->c : -1;
            REQUIRE(F(find)(s, o[j], pos) == want);
        }
    }
}

/* does the reference say the operation is fine, too big, or aborts? */
static int TF(predict)(M * const mm[], const struct op * const op)
{
    const M * const m = mm[op->tgt];
    const size_t size = m->len;
    const size_t pos = sym_pos(op->pos, size);
    const size_t lim = TF(max_len);
    size_t cnt, n;

    switch (op->kind) {
    case K_SET_STR:
    case K_CLEAR:
        return V_OK;
    case K_SWAP:
    case K_ASSIGN_COPY:
        return (op->src == op->tgt) ? V_SKIP : V_OK;
    case K_INSERT_CH:
        cnt = sym_cnt(op->cnt, size, pos, sizeof(C));
        if (pos > size) return V_ABORT;
        if (cnt == 0) return V_OK;
        if (cnt >= HUGE_CNT) return V_ABORT;
        return (cnt > lim || size + cnt > lim) ? V_SKIP : V_OK;
    case K_APPEND_CH:
        cnt = sym_cnt(op->cnt, size, size, sizeof(C));
        if (cnt == 0) return V_OK;
        if (cnt >= HUGE_CNT) return V_ABORT;
        return (cnt > lim || size + cnt > lim) ? V_SKIP : V_OK;
    case K_INSERT_STR_N:
    case K_INSERT_STR:
        if (pos > size) return V_ABORT;
        n = STD(len)(TF(lits)[op->lit]);
        return (size + n > lim) ? V_SKIP : V_OK;
    case K_APPEND_STR_N:
    case K_APPEND_STR:
        n = STD(len)(TF(lits)[op->lit]);
        return (size + n > lim) ? V_SKIP : V_OK;
    case K_INSERT:
        if (op->src == op->tgt) return V_SKIP;
        if (pos > size) return V_ABORT;
        return (size + mm[op->src]->len > lim) ? V_SKIP : V_OK;
    case K_APPEND:
        if (op->src == op->tgt) return V_SKIP;
        return (size + mm[op->src]->len > lim) ? V_SKIP : V_OK;
    case K_ERASE:
        return (pos >= size) ? V_ABORT : V_OK;
    case K_SUBSTR:
        if (op->src == op->tgt) return V_SKIP;
        return (pos >= size) ? V_ABORT : V_OK;
    case K_RESIZE:
        n = sym_len(op->cnt, size, sizeof(C));
        if (n >= HUGE_CNT) return V_ABORT;
        return (n > lim) ? V_SKIP : V_OK;
    case K_RESERVE:
        n = sym_len(op->cnt, size, sizeof(C));
        /* never aborts; a huge request fails quietly */
        return (n < HUGE_CNT && n > 4 * lim + 64) ? V_SKIP : V_OK;
    case K_POKE:
    case K_POKE_DATA:
    case K_AT:
    case K_AT_CONST:
    case K_FIND_CH:
    case K_FIND_STR:
        return (pos >= size) ? V_ABORT : V_OK;
    case K_FIND:
        return (pos >= size) ? V_ABORT : V_OK;
    }
    return V_SKIP;
}

/* the library call alone */
static void TF(call)(S * const o[], const M * const mm[],
                     const struct op * const op)
{
    S * const s = o[op->tgt];
    const size_t size = mm[op->tgt]->len;
    const size_t pos = sym_pos(op->pos, size);
    const size_t cnt = sym_cnt(op->cnt, size, pos, sizeof(C));
    const C ch = TF(alpha)[op->ch % NALPHA];
    const C * const lit = TF(lits)[op->lit % NLIT];
    const size_t ll = STD(len)(lit);
    C * raw;

    switch (op->kind) {
    case K_SET_STR:
        raw = TF(dup)(lit, ll, 1);
        F(set_str)(s, raw);
        free(raw);
        break;
    case K_INSERT_CH:
        F(insert_ch)(s, pos, cnt, ch);
        break;
    case K_APPEND_CH:
        F(append_ch)(s, sym_cnt(op->cnt, size, size, sizeof(C)), ch);
        break;
    case K_INSERT_STR_N:
        /* only the first n characters may be looked at */
        raw = TF(dup)(lit, (size_t)op->cnt <= ll ? (size_t)op->cnt : ll, 0);
        F(insert_str_n)(s, pos, raw,
                        (size_t)op->cnt <= ll ? (size_t)op->cnt : ll);
        free(raw);
        break;
    case K_APPEND_STR_N:
        raw = TF(dup)(lit, (size_t)op->cnt <= ll ? (size_t)op->cnt : ll, 0);
        F(append_str_n)(s, raw,
                        (size_t)op->cnt <= ll ? (size_t)op->cnt : ll);
        free(raw);
        break;
    case K_INSERT_STR:
        raw = TF(dup)(lit, ll, 1);
        F(insert_str)(s, pos, raw);
        free(raw);
        break;
    case K_APPEND_STR:
        raw = TF(dup)(lit, ll, 1);
        F(append_str)(s, raw);
        free(raw);
        break;
    case K_INSERT:
        F(insert)(s, pos, o[op->src]);
        break;
    case K_APPEND:
        F(append)(s, o[op->src]);
        break;
    case K_ERASE:
        F(erase)(s, pos, cnt);
        break;
    case K_SUBSTR:
        F(substr)(s, pos, cnt, o[op->src]);
        break;
    case K_RESIZE:
        F(resize)(s, sym_len(op->cnt, size, sizeof(C)));
        break;
    case K_RESERVE:
        F(reserve)(s, sym_len(op->cnt, size, sizeof(C)));
        break;
    case K_SWAP:
        F(swap)(s, o[op->src]);
        break;
    case K_CLEAR:
        F(clear)(s);
        break;
    case K_POKE:
        *F(at)(s, pos) = ch;
        break;
    case K_POKE_DATA:
        if (pos >= size) abort();
        F(data)(s)[pos] = ch;
        break;
    case K_ASSIGN_COPY:
        /*
         * the string objects themselves may be moved around in
         * memory: swap through a third, freshly initialised object
         */
        if (op->src != op->tgt) {
            S tmp;
            memset(&tmp, 0x77, sizeof(tmp));
            F(init)(&tmp);
            F(swap)(&tmp, s);
            F(swap)(s, o[op->src]);
            F(swap)(o[op->src], &tmp);
            F(clear)(&tmp);
        }
        break;
    case K_AT:
        (void)*F(at)(s, pos);
        break;
    case K_AT_CONST:
        (void)*F(at_const)(s, pos);
        break;
    case K_FIND_CH:
        (void)F(find_ch)(s, ch, pos);
        break;
    case K_FIND_STR:
        (void)F(find_str)(s, lit, pos);
        break;
    case K_FIND:
        (void)F(find)(s, o[op->src], pos);
        break;
    }
}

/* the same edit on the reference */
static void TF(edit)(M * const mm[], const struct op * const op)
{
    M * const m = mm[op->tgt];
    M * const x = mm[op->src];
    const size_t size = m->len;
    const size_t pos = sym_pos(op->pos, size);
    size_t cnt = sym_cnt(op->cnt, size, pos, sizeof(C));
    const C ch = TF(alpha)[op->ch % NALPHA];
    const C * src = TF(lits)[op->lit % NLIT];
    size_t n = STD(len)(src), i;
    size_t at = pos;

    switch (op->kind) {
    case K_SET_STR:
        memcpy(m->c, src, (n + 1) * sizeof(C));
        m->len = n;
        return;
    case K_APPEND_CH:
        cnt = sym_cnt(op->cnt, size, size, sizeof(C));
        at = size;
        /* fall through */
    case K_INSERT_CH:
        memmove(m->c + at + cnt, m->c + at, (size - at + 1) * sizeof(C));
        for (i = 0; i < cnt; i++) {
            m->c[at + i] = ch;
        }
        m->len += cnt;
        return;
    case K_APPEND_STR_N:
        at = size;
        /* fall through */
    case K_INSERT_STR_N:
        if ((size_t)op->cnt < n) {
            n = (size_t)op->cnt;
        }
        break;
    case K_APPEND_STR:
        at = size;
        break;
    case K_INSERT_STR:
        break;
    case K_APPEND:
        at = size;
        /* fall through */
    case K_INSERT:
        src = x->c;
        n = x->len;
        break;
    case K_ERASE:
        if (cnt > size - pos) {
            cnt = size - pos;
        }
        memmove(m->c + pos, m->c + pos + cnt,
                (size - pos - cnt + 1) * sizeof(C));
        m->len -= cnt;
        return;
    case K_SUBSTR:
        if (cnt > size - pos) {
            cnt = size - pos;
        }
        memcpy(x->c, m->c + pos, cnt * sizeof(C));
        x->c[cnt] = 0;
        x->len = cnt;
        return;
    case K_RESIZE:
        n = sym_len(op->cnt, size, sizeof(C));
        for (i = size; i < n; i++) {
            m->c[i] = 0;
        }
        m->c[n] = 0;
        m->len = n;
        return;
    case K_CLEAR:
        m->c[0] = 0;
        m->len = 0;
        return;
    case K_SWAP:
    case K_ASSIGN_COPY:
        if (op->src != op->tgt) {
            static M t;
            memcpy(t.c, m->c, (m->len + 1) * sizeof(C));
            t.len = m->len;
            memcpy(m->c, x->c, (x->len + 1) * sizeof(C));
            m->len = x->len;
            memcpy(x->c, t.c, (t.len + 1) * sizeof(C));
            x->len = t.len;
        }
        return;
    case K_POKE:
    case K_POKE_DATA:
        m->c[pos] = ch;
        return;
    default:
        return;
    }

    /* insertion of n characters from src at at */
    memmove(m->c + at + n, m->c + at, (size - at + 1) * sizeof(C));
    memcpy(m->c + at, src, n * sizeof(C));
    m->len += n;
}

/* apply to both and compare */
static void TF(step)(S * const o[], M * const mm[],
                     const struct op * const op)
{
    const size_t cap = F(capacity)(o[op->tgt]);
    size_t want = 0;

    if (op->kind == K_RESERVE) {
        want = sym_len(op->cnt, mm[op->tgt]->len, sizeof(C));
    }

    TF(call)(o, (const M * const *)mm, op);
    TF(edit)(mm, op);
    TF(verify)(o[op->tgt], mm[op->tgt]);
    if (op->src != op->tgt) {
        TF(verify)(o[op->src], mm[op->src]);
    }
    if (op->kind == K_RESERVE) {
        /* never shrinks; a satisfiable request is satisfied */
        REQUIRE(F(capacity)(o[op->tgt]) >= cap);
        if (want < HUGE_CNT && !g_fail_all) {
            REQUIRE(F(capacity)(o[op->tgt]) >= want);
        }
    }
}

static void TF(setup)(S * o[], M * mm[], M * const store)
{
    int i;
    for (i = 0; i < NOBJ; i++) {
        o[i] = TF(mk)(i);
        mm[i] = &store[i];
        mm[i]->len = 0;
        mm[i]->c[0] = 0;
    }
}

static void TF(teardown)(S * o[], M * mm[], const int full)
{
    int i;
    if (full) {
        for (i = 0; i < NOBJ; i++) {
            TF(verify_full)(o, mm, i);
        }
    }
    for (i = 0; i < NOBJ; i++) {
        /* clear returns the object to its initialised state */
        F(clear)(o[i]);
        mm[i]->len = 0;
        mm[i]->c[0] = 0;
        TF(verify)(o[i], mm[i]);
        if (full && i == 0) {
            const struct op again = { K_SET_STR, 0, 0, 0, 0, 0, 5 };
            TF(step)(o, mm, &again);
            F(clear)(o[i]);
        }
        free(o[i]);
    }
    REQUIRE(heap_ok());
}

/* run one operation in a child */
static int TF(forked)(S * const o[], M * const mm[],
                      const struct op * const op, const int fail_allocs)
{
    pid_t pid;
    int st = 0;

    g_forks++;
    fflush(NULL);
    pid = fork();
    if (pid < 0) {
        die("fork");
    }
    if (pid == 0) {
        signal(SIGABRT, on_abort);
        if (fail_allocs) {
            /*
             * with every allocation failing the edit either aborts
             * or (enough room already) is carried out correctly
             */
            g_fail_all = 1;
            TF(call)(o, (const M * const *)mm, op);
            g_fail_all = 0;
            TF(edit)(mm, op);
            TF(verify_full)(o, mm, op->tgt);
            TF(verify_full)(o, mm, op->src);
        } else {
            TF(call)(o, (const M * const *)mm, op);
        }
        _exit(heap_ok() ? 0 : 98);
    }
    if (waitpid(pid, &st, 0) != pid) {
        die("waitpid");
    }
    if (WIFSIGNALED(st) && WTERMSIG(st) == SIGABRT) {
        return R_ABORTED;
    }
    if (WIFEXITED(st) && WEXITSTATUS(st) == 0) {
        return R_RETURNED;
    }
    fprintf(stderr, "child: status %#x (kind %d pos %d cnt %d)\n",
            st, op->kind, op->pos, op->cnt);
    return R_OTHER;
}

/* the mutating operations of the small scope */
static struct op TF(ops)[4096];
static int TF(nops);

static void TF(add)(const int kind, const int tgt, const int src,
                    const int pos, const int cnt, const int ch,
                    const int lit)
{
    struct op * const op = &TF(ops)[TF(nops)++];
    if (TF(nops) > 4096) {
        die("too many operations");
    }
    op->kind = kind; op->tgt = tgt; op->src = src;
    op->pos = pos; op->cnt = cnt; op->ch = ch; op->lit = lit;
}

static void TF(build_ops)(const int level)
{
    static const int pos_all[] = { P_0, P_1, P_MID, P_LAST, P_END };
    static const int pos_few[] = { P_0, P_MID, P_END };
    static const int cnt_er[] = { C_1, C_REST_MORE, C_2, C_MAX, C_0,
                                  C_REST, C_MAX_POS1, C_REST_LESS,
                                  C_MAX_POS, C_HALF, C_MAX1 };
    static const int len_ok[] = { L_0, L_LESS, L_MORE2, L_SAME, L_1,
                                  L_MORE, L_DOUBLE, L_7 };
    static const int len_rs[] = { L_7, L_DOUBLE, L_MAX, L_ELEMS, L_0,
                                  L_SAME, L_MORE, L_MAX1, L_ELEMS1,
                                  L_HALF };
    const int * const pp = (level >= 2) ? pos_all : pos_few;
    const int np = (level >= 2) ? 5 : 3;
    const int ne = (level >= 2) ? 11 : 6;
    const int nl = (level >= 2) ? 8 : 4;
    const int nlit = (level >= 2) ? NLIT : 4;
    int t, i, j, k;

    TF(nops) = 0;

    if (level == 0) {
        /* a hand-picked few, for the longest sequences */
        TF(add)(K_SET_STR, 0, 0, 0, 0, 0, 3);
        TF(add)(K_SET_STR, 0, 0, 0, 0, 0, 7);
        TF(add)(K_SET_STR, 1, 1, 0, 0, 0, 4);
        TF(add)(K_INSERT_CH, 0, 0, P_0, C_1, 0, 0);
        TF(add)(K_INSERT_CH, 0, 0, P_MID, C_2, 1, 0);
        TF(add)(K_INSERT_CH, 0, 0, P_END, C_1, 1, 0);
        TF(add)(K_INSERT_STR, 0, 0, P_0, 0, 0, 3);
        TF(add)(K_INSERT, 0, 1, P_MID, 0, 0, 0);
        TF(add)(K_ERASE, 0, 0, P_0, C_1, 0, 0);
        TF(add)(K_ERASE, 0, 0, P_0, C_2, 0, 0);
        TF(add)(K_ERASE, 0, 0, P_0, C_MAX, 0, 0);
        TF(add)(K_ERASE, 0, 0, P_1, C_1, 0, 0);
        TF(add)(K_ERASE, 0, 0, P_MID, C_1, 0, 0);
        TF(add)(K_ERASE, 0, 0, P_MID, C_MAX, 0, 0);
        TF(add)(K_ERASE, 0, 0, P_LAST, C_REST_MORE, 0, 0);
        TF(add)(K_SUBSTR, 0, 1, P_0, C_2, 0, 0);
        TF(add)(K_SUBSTR, 0, 1, P_MID, C_MAX, 0, 0);
        TF(add)(K_SUBSTR, 1, 0, P_1, C_1, 0, 0);
        TF(add)(K_APPEND, 0, 1, 0, 0, 0, 0);
        TF(add)(K_APPEND_CH, 0, 0, 0, C_1, 1, 0);
        TF(add)(K_APPEND_STR, 0, 0, 0, 0, 0, 4);
        TF(add)(K_RESIZE, 0, 0, 0, L_0, 0, 0);
        TF(add)(K_RESIZE, 0, 0, 0, L_LESS, 0, 0);
        TF(add)(K_RESIZE, 0, 0, 0, L_MORE2, 0, 0);
        TF(add)(K_RESERVE, 0, 0, 0, L_7, 0, 0);
        TF(add)(K_CLEAR, 0, 0, 0, 0, 0, 0);
        TF(add)(K_SWAP, 0, 1, 0, 0, 0, 0);
        return;
    }

    for (t = 0; t < 2; t++) {
        const int u = 1 - t;
        for (i = 0; i < nlit; i++) {
            TF(add)(K_SET_STR, t, t, 0, 0, 0, i);
        }
        for (i = 0; i < np; i++) {
            const int p = pp[i];
            for (j = 0; j < 3; j++) {
                for (k = 0; k < (level >= 2 ? 2 : 1); k++) {
                    TF(add)(K_INSERT_CH, t, t, p, C_0 + j, k + (j == 2), 0);
                }
            }
            TF(add)(K_INSERT_STR, t, t, p, 0, 0, 3);
            TF(add)(K_INSERT_STR_N, t, t, p, 2, 0, 4);
            TF(add)(K_INSERT, t, u, p, 0, 0, 0);
            if (level >= 2) {
                TF(add)(K_INSERT_STR, t, t, p, 0, 0, 0);
                TF(add)(K_INSERT_STR_N, t, t, p, 0, 0, 5);
                TF(add)(K_INSERT_STR_N, t, t, p, 4, 0, 5);
                TF(add)(K_INSERT, t, 2, p, 0, 0, 0);
                TF(add)(K_POKE, t, t, p, 0, 2, 0);
                TF(add)(K_POKE_DATA, t, t, p, 0, 1, 0);
            }
            for (j = 0; j < ne; j++) {
                TF(add)(K_ERASE, t, t, p, cnt_er[j], 0, 0);
                if (level >= 2 || (j & 1)) {
                    TF(add)(K_SUBSTR, t, u, p, cnt_er[j], 0, 0);
                }
            }
        }
        TF(add)(K_APPEND, t, u, 0, 0, 0, 0);
        TF(add)(K_APPEND_CH, t, t, 0, C_1, 1, 0);
        TF(add)(K_APPEND_CH, t, t, 0, C_3, 0, 0);
        TF(add)(K_APPEND_STR, t, t, 0, 0, 0, 4);
        TF(add)(K_APPEND_STR_N, t, t, 0, 1, 0, 3);
        for (i = 0; i < nl; i++) {
            TF(add)(K_RESIZE, t, t, 0, len_ok[i], 0, 0);
        }
        for (i = 0; i < (level >= 2 ? 10 : 3); i++) {
            TF(add)(K_RESERVE, t, t, 0, len_rs[i], 0, 0);
        }
        TF(add)(K_CLEAR, t, t, 0, 0, 0, 0);
        TF(add)(K_SWAP, t, u, 0, 0, 0, 0);
        if (level >= 2) {
            TF(add)(K_SWAP, t, 2, 0, 0, 0, 0);
            TF(add)(K_ASSIGN_COPY, t, u, 0, 0, 0, 0);
            TF(add)(K_APPEND, t, 2, 0, 0, 0, 0);
            TF(add)(K_APPEND_CH, t, t, 0, C_0, 0, 0);
            TF(add)(K_APPEND_STR, t, t, 0, 0, 0, 0);
            TF(add)(K_APPEND_STR_N, t, t, 0, 0, 0, 3);
        }
    }
}

/* every sequence of the given length over the operation list */
static void TF(exhaust)(const int depth, const int level,
                        const size_t max_len)
{
    static M store[NOBJ];
    int idx[8] = { 0 };
    unsigned long n = 0;

    TF(max_len) = max_len;
    TF(build_ops)(level);

    for (;;) {
        S * o[NOBJ];
        M * mm[NOBJ];
        int d, bad = -1;

        TF(setup)(o, mm, store);
        for (d = 0; d < depth; d++) {
            const struct op * const op = &TF(ops)[idx[d]];
            if (TF(predict)(mm, op) != V_OK) {
                bad = d;
                break;
            }
            TF(step)(o, mm, op);
        }
        if (bad < 0) {
            n++;
        }
        /* the expensive comparison on a sample only */
        TF(teardown)(o, mm, bad < 0 && (depth < 3 || n % 7 == 0));

        /* next sequence; a bad prefix is skipped as a whole */
        d = (bad < 0) ? depth - 1 : bad;
        {
            int e;
            for (e = d + 1; e < depth; e++) {
                idx[e] = 0;
            }
        }
        while (d >= 0 && ++idx[d] == TF(nops)) {
            idx[d--] = 0;
        }
        if (d < 0) {
            break;
        }
    }
    g_seqs += n;
    printf("  %-7s exhaustive depth %d over %4d operations: %lu sequences\n",
           STR1(T), depth, TF(nops), n);
}

static void TF(random_op)(struct op * const op, const int wild)
{
    static const int kinds[] = {
        K_SET_STR, K_INSERT_CH, K_INSERT_CH, K_INSERT_STR_N, K_INSERT_STR,
        K_INSERT, K_APPEND, K_APPEND_CH, K_APPEND_STR_N, K_APPEND_STR,
        K_ERASE, K_ERASE, K_ERASE, K_SUBSTR, K_RESIZE, K_RESERVE, K_SWAP,
        K_CLEAR, K_POKE, K_POKE_DATA, K_ASSIGN_COPY, K_INSERT_CH, K_ERASE,
    };
    op->kind = kinds[rnd(sizeof(kinds) / sizeof(*kinds))];
    if (op->kind == K_CLEAR && rnd(4) != 0) {
        op->kind = K_ERASE;
    }
    op->tgt = rnd(NOBJ);
    op->src = rnd(NOBJ);
    op->pos = rnd(wild ? P_COUNT : P_END + 1);
    op->cnt = rnd(C_COUNT);
    if (op->kind == K_RESIZE || op->kind == K_RESERVE) {
        op->cnt = rnd(L_COUNT);
    }
    op->ch = rnd(NALPHA);
    op->lit = rnd(NLIT);
    if (op->kind == K_INSERT_STR_N || op->kind == K_APPEND_STR_N) {
        op->cnt = rnd(8);
    }
}

/* long random walks; what would abort or grow too much is left out */
static void TF(walks)(const int walks, const int steps, const size_t max_len)
{
    static M store[NOBJ];
    int w;

    TF(max_len) = max_len;
    for (w = 0; w < walks; w++) {
        S * o[NOBJ];
        M * mm[NOBJ];
        int i;

        TF(setup)(o, mm, store);
        for (i = 0; i < steps; i++) {
            struct op op;
            TF(random_op)(&op, 1);
            if (TF(predict)(mm, &op) != V_OK) {
                continue;
            }
            TF(step)(o, mm, &op);
            if (rnd(16) == 0) {
                TF(verify_full)(o, mm, op.tgt);
            }
        }
        TF(teardown)(o, mm, 1);
        g_seqs++;
    }
    printf("  %-7s %d random walks of %d steps, at most %lu characters\n",
           STR1(T), walks, steps, (unsigned long)max_len);
}

/* long strings: the same, with strings of a few thousand characters */
static void TF(long_strings)(void)
{
    static M store[NOBJ];
    S * o[NOBJ];
    M * mm[NOBJ];
    int i;

    TF(max_len) = MAXM - 8;
    TF(setup)(o, mm, store);
    for (i = 0; i < 30000; i++) {
        struct op op;
        TF(random_op)(&op, 0);
        if (op.kind == K_CLEAR || op.kind == K_SET_STR
            || (op.kind == K_RESIZE && rnd(50) != 0)) {
            /* keep them long: double instead */
            op.kind = K_INSERT;
            op.src = (op.tgt + 1) % NOBJ;
        }
        if (op.kind == K_ERASE && op.cnt >= C_REST && rnd(8) != 0) {
            op.cnt = rnd(4);
        }
        if (op.kind == K_SUBSTR && mm[op.src]->len > 100 && rnd(8) != 0) {
            continue;
        }
        if (TF(predict)(mm, &op) != V_OK) {
            continue;
        }
        TF(step)(o, mm, &op);
    }
    REQUIRE(mm[0]->len + mm[1]->len + mm[2]->len > 0);
    TF(teardown)(o, mm, 0);
    g_seqs++;
    printf("  %-7s long strings done\n", STR1(T));
}

/* bring object 0 (and 1) into one of a number of interesting states */
#define NSTATES 16
static void TF(state)(S * o[], M * mm[], const int which)
{
    static const struct op script[NSTATES][5] = {
        /* 0: never touched */
        { { K_COUNT, 0, 0, 0, 0, 0, 0 } },
        /* 1: cleared */
        { { K_SET_STR, 0, 0, 0, 0, 0, 5 }, { K_CLEAR, 0, 0, 0, 0, 0, 0 },
          { K_COUNT, 0, 0, 0, 0, 0, 0 } },
        /* 2: emptied by resize */
        { { K_SET_STR, 0, 0, 0, 0, 0, 5 }, { K_RESIZE, 0, 0, 0, L_0, 0, 0 },
          { K_COUNT, 0, 0, 0, 0, 0, 0 } },
        /* 3: only reserved */
        { { K_RESERVE, 0, 0, 0, L_7, 0, 0 }, { K_COUNT, 0, 0, 0, 0, 0, 0 } },
        /* 4: one character */
        { { K_SET_STR, 0, 0, 0, 0, 0, 1 }, { K_COUNT, 0, 0, 0, 0, 0, 0 } },
        /* 5: two characters, exactly fitting */
        { { K_SET_STR, 0, 0, 0, 0, 0, 3 }, { K_COUNT, 0, 0, 0, 0, 0, 0 } },
        /* 6: seven characters */
        { { K_SET_STR, 0, 0, 0, 0, 0, 7 }, { K_COUNT, 0, 0, 0, 0, 0, 0 } },
        /* 7: front erased */
        { { K_SET_STR, 0, 0, 0, 0, 0, 7 }, { K_ERASE, 0, 0, P_0, C_3, 0, 0 },
          { K_COUNT, 0, 0, 0, 0, 0, 0 } },
        /* 8: back erased */
        { { K_SET_STR, 0, 0, 0, 0, 0, 7 },
          { K_ERASE, 0, 0, P_MID, C_MAX, 0, 0 },
          { K_COUNT, 0, 0, 0, 0, 0, 0 } },
        /* 9: shrunk, then reserved */
        { { K_SET_STR, 0, 0, 0, 0, 0, 7 }, { K_RESIZE, 0, 0, 0, L_2, 0, 0 },
          { K_RESERVE, 0, 0, 0, L_7, 0, 0 }, { K_COUNT, 0, 0, 0, 0, 0, 0 } },
        /* 10: swapped with an untouched one */
        { { K_SET_STR, 1, 1, 0, 0, 0, 5 }, { K_SWAP, 0, 1, 0, 0, 0, 0 },
          { K_COUNT, 0, 0, 0, 0, 0, 0 } },
        /* 11: emptied by erase */
        { { K_SET_STR, 0, 0, 0, 0, 0, 4 }, { K_ERASE, 0, 0, P_0, C_MAX, 0, 0 },
          { K_COUNT, 0, 0, 0, 0, 0, 0 } },
        /* 12: grown by resize: embedded NULs */
        { { K_SET_STR, 0, 0, 0, 0, 0, 3 },
          { K_RESIZE, 0, 0, 0, L_DOUBLE, 0, 0 },
          { K_APPEND_CH, 0, 0, 0, C_2, 1, 0 },
          { K_COUNT, 0, 0, 0, 0, 0, 0 } },
        /* 13: front erased twice, middle erased, front inserted */
        { { K_SET_STR, 0, 0, 0, 0, 0, 7 }, { K_ERASE, 0, 0, P_0, C_2, 0, 0 },
          { K_ERASE, 0, 0, P_0, C_1, 0, 0 }, { K_ERASE, 0, 0, P_1, C_1, 0, 0 },
          { K_INSERT_CH, 0, 0, P_0, C_1, 2, 0 } },
        /* 14: result of substr */
        { { K_SET_STR, 1, 1, 0, 0, 0, 7 }, { K_SET_STR, 0, 0, 0, 0, 0, 5 },
          { K_SUBSTR, 1, 0, P_1, C_3, 0, 0 },
          { K_COUNT, 0, 0, 0, 0, 0, 0 } },
        /* 15: substr of everything, then reserved beyond */
        { { K_SET_STR, 1, 1, 0, 0, 0, 7 },
          { K_SUBSTR, 1, 0, P_0, C_MAX, 0, 0 },
          { K_RESERVE, 0, 0, 0, L_DOUBLE, 0, 0 },
          { K_ERASE, 0, 0, P_0, C_1, 0, 0 },
          { K_COUNT, 0, 0, 0, 0, 0, 0 } },
    };
    int i;
    for (i = 0; i < 5 && script[which][i].kind != K_COUNT; i++) {
        REQUIRE(TF(predict)(mm, &script[which][i]) == V_OK);
        TF(step)(o, mm, &script[which][i]);
    }
}

/*
 * positions beyond the end abort; counts are truncated; impossible
 * growth aborts; all with the heap intact
 */
static void TF(boundaries)(void)
{
    static M store[NOBJ];
    static const int kinds[] = {
        K_INSERT_CH, K_INSERT_STR_N, K_INSERT_STR, K_INSERT, K_ERASE,
        K_SUBSTR, K_POKE, K_AT, K_AT_CONST, K_FIND_CH, K_FIND_STR, K_FIND,
        K_APPEND_CH, K_RESIZE, K_RESERVE,
    };
    unsigned long aborted = 0, returned = 0;
    int st;

    TF(max_len) = 64;
    for (st = 0; st < NSTATES; st++) {
        S * o[NOBJ];
        M * mm[NOBJ];
        unsigned int k;

        TF(setup)(o, mm, store);
        TF(state)(o, mm, st);
        /* the source of insert/find */
        {
            const struct op src = { K_SET_STR, 2, 2, 0, 0, 0, 3 };
            TF(step)(o, mm, &src);
        }

        for (k = 0; k < sizeof(kinds) / sizeof(*kinds); k++) {
            const int kind = kinds[k];
            const int positional =
                !(kind == K_APPEND_CH || kind == K_RESIZE
                  || kind == K_RESERVE);
            const int counted =
                (kind == K_INSERT_CH || kind == K_ERASE
                 || kind == K_SUBSTR || kind == K_APPEND_CH);
            const int lengthed = (kind == K_RESIZE || kind == K_RESERVE);
            int p, c;

            for (p = 0; p < (positional ? P_COUNT : 1); p++) {
                const int nc = counted ? C_COUNT : (lengthed ? L_COUNT : 1);
                for (c = 0; c < nc; c++) {
                    struct op op;
                    int v, r;

                    op.kind = kind;
                    op.tgt = 0;
                    op.src = (kind == K_SUBSTR) ? 1 : 2;
                    op.pos = p;
                    op.cnt = c;
                    op.ch = c % NALPHA;
                    op.lit = 3;
                    if (kind == K_INSERT_STR_N) {
                        op.cnt = 2;
                    }
                    if (!counted && !lengthed && kind != K_INSERT_STR_N) {
                        op.cnt = C_1;
                    }

                    v = TF(predict)(mm, &op);
                    if (v == V_SKIP) {
                        continue;
                    }
                    if (v == V_ABORT) {
                        r = TF(forked)(o, mm, &op, 0);
                        REQUIRE(r == R_ABORTED);
                        aborted++;
                        continue;
                    }
                    /*
                     * fine according to the reference: do it on the
                     * spot, compare, and build the state again
                     */
                    if (p >= P_END || c >= C_REST) {
                        /* and once with every allocation failing */
                        r = TF(forked)(o, mm, &op, 1);
                        REQUIRE(r == R_RETURNED || r == R_ABORTED);
                    }
                    TF(step)(o, mm, &op);
                    TF(verify_full)(o, mm, 0);
                    TF(verify_full)(o, mm, 1);
                    returned++;
                    /* rebuild the state */
                    TF(teardown)(o, mm, 0);
                    TF(setup)(o, mm, store);
                    TF(state)(o, mm, st);
                    {
                        const struct op src = { K_SET_STR, 2, 2, 0, 0, 0, 3 };
                        TF(step)(o, mm, &src);
                    }
                }
            }
        }
        TF(teardown)(o, mm, 1);
    }
    g_seqs += aborted + returned;
    printf("  %-7s boundaries: %lu aborted as documented, %lu carried out\n",
           STR1(T), aborted, returned);
    REQUIRE(aborted > 500 && returned > 500);
}

/*
 * growth with every allocation failing, from many random states: abort
 * (heap intact) or a correct result, nothing else
 */
static void TF(no_memory)(void)
{
    static M store[NOBJ];
    unsigned long aborted = 0, returned = 0;
    int w;

    TF(max_len) = 40;
    for (w = 0; w < 150; w++) {
        S * o[NOBJ];
        M * mm[NOBJ];
        int i, r;
        struct op op;

        TF(setup)(o, mm, store);
        for (i = 0; i < 12; i++) {
            TF(random_op)(&op, 0);
            if (TF(predict)(mm, &op) == V_OK) {
                TF(step)(o, mm, &op);
            }
        }
        do {
            TF(random_op)(&op, 0);
        } while (TF(predict)(mm, &op) != V_OK
                 || op.kind == K_CLEAR || op.kind == K_ERASE);
        r = TF(forked)(o, mm, &op, 1);
        REQUIRE(r == R_RETURNED || r == R_ABORTED);
        if (r == R_ABORTED) {
            aborted++;
        } else {
            returned++;
        }
        TF(teardown)(o, mm, 0);
    }
    printf("  %-7s no memory: %lu aborted, %lu carried out\n",
           STR1(T), aborted, returned);
    REQUIRE(aborted + returned == 150);
}

static void TF(all)(void)
{
    printf("%s\n", STR1(T));
    TF(exhaust)(1, 2, 24);
    TF(exhaust)(2, 2, 24);
    TF(exhaust)(3, 1, 12);
    TF(exhaust)(4, 0, 8);
    TF(walks)(3000, 60, 24);
    TF(walks)(300, 400, 200);
    TF(long_strings)();
    TF(boundaries)();
    TF(no_memory)();
}

#undef M
#undef TF
#undef F
#undef C
#undef S

#endif /* TEMPLATE_PASS */
