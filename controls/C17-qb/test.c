/*
 * C17 / b: bucket selection while a rehash is pending, and fail-stop.
 *
 * Part 1 drives a table through grow / shrink / change-of-function resizes
 * and interleaves inserts, finds, erases and const traversals with the
 * incremental rehash. A wrapper hash function records every (result, m) it
 * produced; all of them must be in range, the table must never abort, and
 * at every moment every element that was inserted and not erased must be
 * reachable by key (and by traversal), no element twice.
 *
 * Part 2 checks fail-stop: for an out-of-range result of m, m + 1 and
 * SIZE_MAX, every keyed entry point (insert, find, erase) and the forced
 * rehash / foreach must end in SIGABRT, both when the bad function is the
 * table's first function and when it is installed by a resize over a
 * populated table. Each case runs in a child process.
 *
 * Nothing depends on how often the hash function is consulted, on chain
 * order, or on the size/layout of struct cstl_hash_node.
 */
#include "cstl/hash.h"

#include <stdio.h>
#include <stdlib.h>
#include <string.h>
#include <signal.h>
#include <unistd.h>
#include <sys/wait.h>

#define CHECK(X) do { if (!(X)) { \
    fprintf(stderr, "FAIL %s:%d: %s\n", __FILE__, __LINE__, #X); \
    exit(1); } } while (0)

struct item
{
    char pad[3];
    struct cstl_hash_node hn;
    size_t key;
    int in, seen;
};

#define N 600
static struct item items[N];

static unsigned long calls;

static size_t h_mul(const size_t k, const size_t m)
{
    const size_t r = cstl_hash_mul(k, m);
    CHECK(m >= 1 && r < m);
    calls++;
    return r;
}

static size_t h_div(const size_t k, const size_t m)
{
    const size_t r = cstl_hash_div(k, m);
    CHECK(m >= 1 && r < m);
    calls++;
    return r;
}

/* an odd but perfectly valid function: everything in the last bucket */
static size_t h_last(const size_t k, const size_t m)
{
    (void)k;
    calls++;
    return m - 1;
}

static int same_item(const void * const e, void * const p)
{
    return e == p;
}

static int mark_visit(const void * const e, void * const p)
{
    struct item * const it = (struct item *)e;
    CHECK(it >= items && it < items + N);
    CHECK(it->in);
    CHECK(!it->seen);
    it->seen = 1;
    ++*(size_t *)p;
    return 0;
}

static void audit(struct cstl_hash * const h, const int traverse)
{
    size_t i, n = 0, live = 0;

    for (i = 0; i < N; i++) {
        void * const f = cstl_hash_find(h, items[i].key, same_item, &items[i]);
        if (items[i].in) {
            CHECK(f == &items[i]);
            live++;
        } else {
            CHECK(f == NULL);
        }
    }
    CHECK(cstl_hash_size(h) == live);

    if (traverse) {
        for (i = 0; i < N; i++) {
            items[i].seen = 0;
        }
        cstl_hash_foreach_const(h, mark_visit, &n);
        CHECK(n == live);
    }
}

static void part1(void)
{
    static const struct
    {
        size_t count;
        cstl_hash_func_t * f;
    } step[] = {
        { 64, NULL }, { 7, h_div }, { 7, h_mul }, { 200, NULL },
        { 1, NULL }, { 33, h_last }, { 1024, h_div }, { 3, h_mul },
        { 3, h_div }, { 500, h_mul },
    };
    struct cstl_hash h;
    size_t i, s;

    cstl_hash_init(&h, offsetof(struct item, hn));
    cstl_hash_resize(&h, 16, h_mul);

    for (i = 0; i < N; i++) {
        /* duplicates on purpose: three items per key */
        items[i].key = (i / 3) * 2654435761u;
        items[i].in = 0;
    }
    for (i = 0; i < N / 2; i++) {
        cstl_hash_insert(&h, items[i].key, &items[i]);
        items[i].in = 1;
    }
    audit(&h, 1);

    for (s = 0; s < sizeof(step) / sizeof(*step); s++) {
        cstl_hash_resize(&h, step[s].count, step[s].f);

        /* traversal right after the resize: nothing moved yet */
        {
            size_t n = 0;
            for (i = 0; i < N; i++) {
                items[i].seen = 0;
            }
            cstl_hash_foreach_const(&h, mark_visit, &n);
            CHECK(n == cstl_hash_size(&h));
        }

        /* interleave modifications with the incremental rehash */
        for (i = 0; i < 40; i++) {
            const size_t a = (s * 131 + i * 17) % N;
            const size_t b = (s * 71 + i * 29 + 5) % N;

            if (!items[a].in) {
                cstl_hash_insert(&h, items[a].key, &items[a]);
                items[a].in = 1;
            }
            if (items[b].in) {
                cstl_hash_erase(&h, &items[b]);
                items[b].in = 0;
            }
            if (i % 10 == 0) {
                audit(&h, i % 20 == 0);
            }
        }

        if (s % 2 == 0) {
            cstl_hash_rehash(&h);
        }
        audit(&h, 1);
        if (s % 3 == 0) {
            cstl_hash_shrink_to_fit(&h);
            audit(&h, 1);
        }
    }

    for (i = 0; i < N; i++) {
        if (items[i].in) {
            cstl_hash_erase(&h, &items[i]);
            items[i].in = 0;
        }
    }
    audit(&h, 1);
    cstl_hash_clear(&h, NULL);
    CHECK(calls > 0);
}

/* ---- fail-stop ---- */

static size_t bad_excess;       /* returned value is m + bad_excess ... */
static int bad_max;             /* ... or SIZE_MAX */
static size_t bad_key;          /* only for this key, unless bad_all */
static int bad_all;

static size_t h_bad(const size_t k, const size_t m)
{
    if (bad_all || k == bad_key) {
        return bad_max ? SIZE_MAX : m + bad_excess;
    }
    return k % m;
}

enum op { OP_INSERT, OP_FIND, OP_ERASE, OP_REHASH, OP_FOREACH, OP_COUNT };

static int noop_visit(void * const e, void * const p)
{
    (void)e; (void)p;
    return 0;
}

static void do_op(struct cstl_hash * const h, const enum op op,
                  struct item * const in, struct item * const out)
{
    switch (op) {
    case OP_INSERT: cstl_hash_insert(h, out->key, out); break;
    case OP_FIND: cstl_hash_find(h, in->key, NULL, NULL); break;
    case OP_ERASE: cstl_hash_erase(h, in); break;
    case OP_REHASH: cstl_hash_rehash(h); break;
    case OP_FOREACH: cstl_hash_foreach(h, noop_visit, NULL); break;
    default: break;
    }
}

/*
 * mode 0: the bad function is the first function of an empty table
 * mode 1: the bad function is installed by a resize over a populated table
 *         and is bad for every key
 * mode 2: as 1, but bad for just one key that is in the table; only the
 *         operations that must reach that key are required to abort
 */
static void child(const int mode, const enum op op)
{
    struct cstl_hash h;
    size_t i;

    cstl_hash_init(&h, offsetof(struct item, hn));
    for (i = 0; i < 20; i++) {
        items[i].key = 1000 + i;
    }
    bad_key = items[7].key;

    if (mode == 0) {
        bad_all = 1;
        cstl_hash_resize(&h, 8, h_bad);
    } else {
        cstl_hash_resize(&h, 8, cstl_hash_div);
        for (i = 0; i < 19; i++) {
            cstl_hash_insert(&h, items[i].key, &items[i]);
        }
        bad_all = (mode == 1);
        cstl_hash_resize(&h, 11, h_bad);
    }

    do_op(&h, op, &items[7], &items[19]);
    if (mode == 2 && (op == OP_INSERT)) {
        /* inserting another key need not reach the bad one; finish up */
        cstl_hash_rehash(&h);
    }
    _exit(0);
}

static unsigned int part2(void)
{
    static const struct
    {
        size_t excess;
        int max;
    } bad[] = { { 0, 0 }, { 1, 0 }, { 0, 1 } };
    unsigned int b, n = 0;
    int mode, op;

    for (b = 0; b < 3; b++) {
        bad_excess = bad[b].excess;
        bad_max = bad[b].max;

        for (mode = 0; mode < 3; mode++) {
            for (op = 0; op < OP_COUNT; op++) {
                pid_t pid;
                int st;

                if (mode == 0 && op != OP_INSERT && op != OP_FIND) {
                    /*
                     * nothing to rehash in an empty, settled table,
                     * and nothing that could legitimately be erased
                     */
                    continue;
                }

                fflush(NULL);
                pid = fork();
                CHECK(pid >= 0);
                if (pid == 0) {
                    child(mode, (enum op)op);
                }
                CHECK(waitpid(pid, &st, 0) == pid);
                if (!WIFSIGNALED(st) || WTERMSIG(st) != SIGABRT) {
                    fprintf(stderr,
                            "FAIL: bad=%u mode=%d op=%d: status %#x, "
                            "expected SIGABRT\n", b, mode, op, st);
                    exit(1);
                }
                n++;
            }
        }
    }

    return n;
}

int main(void)
{
    unsigned int n;

    part1();
    n = part2();

    printf("ok: %lu in-range hash results, %u fail-stop cases aborted\n",
           calls, n);
    return 0;
}
