/*
 * C19: resize histories (grow, shrink, same size with another function, back
 * to the previous geometry, repeated requests, requests while a rehash is
 * still pending) interleaved with insert/find/erase, observed ONLY through
 * the public API: cstl_hash_load() and instrumented caller-supplied hash
 * functions that log every (function, key, table size) they are asked for.
 *
 * Checked: load == size/n right after every request; while a rehash is
 * pending every keyed operation makes progress and stays cheap; the number of
 * keyed operations that still see the old geometry never exceeds the old
 * bucket count; afterwards every lookup calls the requested function exactly
 * once with the requested size; nothing is ever lost or duplicated.
 *
 * build (from the worktree root, after `make build`):
 *   gcc -std=c99 -D_POSIX_C_SOURCE=199309L -Wall -Wextra -Iinclude -o _keep/a/test _keep/a/test.c build/libcstl.a -lm
 * run:
 *   ./_keep/a/test
 */
#include "cstl/hash.h"

#include <stdio.h>
#include <stdlib.h>
#include <stdint.h>

#define CHECK(X)                                                        \
    do {                                                                \
        if (!(X)) {                                                     \
            printf("FAIL %s:%d: %s\n", __FILE__, __LINE__, #X);         \
            exit(1);                                                    \
        }                                                               \
    } while (0)

static uint64_t rng_state = 12345;
static uint64_t rng(void)
{
    uint64_t z = (rng_state += 0x9e3779b97f4a7c15ull);
    z = (z ^ (z >> 30)) * 0xbf58476d1ce4e5b9ull;
    z = (z ^ (z >> 27)) * 0x94d049bb133111ebull;
    return z ^ (z >> 31);
}

/* ---- instrumented hash functions ---- */

#define NFN 3
/* the geometry most recently requested, and the one before it */
static int cur_f, old_f;
static size_t cur_n, old_n;
/* the test's belief: may the table still be consulting the old geometry? */
static int pending;

static struct
{
    unsigned long oldc;     /* calls with the superseded geometry */
    unsigned long newc;     /* calls with the requested geometry */
    unsigned long other;    /* anything else */
    unsigned long total;
} lg;

static void log_reset(void)
{
    lg.oldc = lg.newc = lg.other = lg.total = 0;
}

static void log_call(const int f, const size_t m)
{
    lg.total++;
    if (f == cur_f && m == cur_n) {
        lg.newc++;
    } else if (pending && f == old_f && m == old_n) {
        lg.oldc++;
    } else {
        lg.other++;
    }
}

static size_t f0(const size_t k, const size_t m)
{
    log_call(0, m);
    return k % m;
}
static size_t f1(const size_t k, const size_t m)
{
    log_call(1, m);
    return (k * 2654435761u >> 7) % m;
}
static size_t f2(const size_t k, const size_t m)
{
    log_call(2, m);
    return (k / 5 + k % 5 * 977) % m;
}
static cstl_hash_func_t * const fn[NFN] = { f0, f1, f2 };

/* ---- the table and its model ---- */

struct item
{
    size_t k;
    int in;
    struct cstl_hash_node hn;
};

#define NITEMS 400
static struct item it[NITEMS];
static size_t nin;

static struct cstl_hash h;
/* keyed operations that still consulted the old geometry since the request */
static size_t pending_ops;
static unsigned long max_reloc;

static int near(const float a, const float b)
{
    const float d = a - b;
    return d < 0.0005f * (b + 1) && d > -0.0005f * (b + 1);
}

/* judge the hash calls made by one keyed operation */
static void account(void)
{
    /* only the two geometries in play are ever consulted */
    CHECK(lg.other == 0);

    if (lg.oldc == 0) {
        /* finished: exactly one call, requested function, requested size */
        CHECK(lg.newc == 1);
        pending = 0;
    } else {
        /* pending: the key is looked up once in either geometry ... */
        CHECK(pending);
        CHECK(lg.oldc == 1 && lg.newc >= 1);
        pending_ops++;
        /* ... in no more such operations than there were buckets */
        CHECK(pending_ops <= old_n);
        /* the relocation work of one operation is a few buckets' worth */
        if (lg.newc - 1 > max_reloc) {
            max_reloc = lg.newc - 1;
        }
        if (old_n >= 32 && nin >= 100) {
            CHECK(lg.newc - 1 <= nin / 2);
        }
    }
}

static void op_find(const size_t i)
{
    struct item * e;
    log_reset();
    e = cstl_hash_find(&h, it[i].k, NULL, NULL);
    account();
    if (it[i].in) {
        CHECK(e != NULL && e->k == it[i].k);
    } else {
        CHECK(e == NULL);
    }
}

static void op_insert(const size_t i)
{
    CHECK(!it[i].in);
    log_reset();
    cstl_hash_insert(&h, it[i].k, &it[i]);
    account();
    it[i].in = 1;
    nin++;
    CHECK(cstl_hash_size(&h) == nin);
}

static void op_erase(const size_t i)
{
    CHECK(it[i].in);
    log_reset();
    cstl_hash_erase(&h, &it[i]);
    account();
    it[i].in = 0;
    nin--;
    CHECK(cstl_hash_size(&h) == nin);
}

static void op_random(void)
{
    const size_t i = rng() % NITEMS;
    switch (rng() % 4) {
    case 0:
        if (it[i].in) {
            op_erase(i);
        } else {
            op_insert(i);
        }
        break;
    default:
        op_find(i);
        break;
    }
}

static int count_visit(const void * const e, void * const p)
{
    CHECK(((const struct item *)e)->in);
    ++*(size_t *)p;
    return 0;
}

static void audit(void)
{
    size_t n = 0;
    cstl_hash_foreach_const(&h, count_visit, &n);
    CHECK(n == nin && cstl_hash_size(&h) == nin);
}

/* f < 0 asks for "the function in use" (NULL) */
static void request(const size_t n, const int f)
{
    const int nf = f < 0 ? cur_f : f;
    const int same = (n == cur_n && nf == cur_f);

    log_reset();
    cstl_hash_resize(&h, n, f < 0 ? NULL : fn[f]);
    /*
     * a request made while another one is pending may have to finish
     * that one first; a fresh request on a settled table hashes nothing
     */
    if (!pending) {
        CHECK(lg.total == 0);
    }

    if (!same) {
        /*
         * whatever was pending has been superseded; the table is now on
         * its way from the previously requested geometry to this one
         */
        old_f = cur_f; old_n = cur_n;
        cur_f = nf; cur_n = n;
        pending = 1;
        pending_ops = 0;
    } else {
        CHECK(lg.total == 0);
    }
    CHECK(near(cstl_hash_load(&h), (float)nin / n));
    audit();
}

static void settle_by_ops(void)
{
    /* only keyed operations; must be done within old_n of them */
    size_t guard = 0;
    while (pending) {
        op_random();
        CHECK(++guard <= old_n + 1);
    }
    CHECK(near(cstl_hash_load(&h), (float)nin / cur_n));
    audit();
}

static void check_settled_lookups(void)
{
    size_t i;
    CHECK(!pending);
    for (i = 0; i < NITEMS; i += 7) {
        op_find(i);
        CHECK(!pending);
    }
}

static void history(const size_t * const sizes, const int * const fns,
                    const size_t len, const int ops_between)
{
    size_t s;
    int j;
    for (s = 0; s < len; s++) {
        request(sizes[s], fns[s]);
        if (ops_between < 0) {
            settle_by_ops();
            check_settled_lookups();
        } else {
            for (j = 0; j < ops_between; j++) {
                op_random();
            }
        }
    }
    settle_by_ops();
    check_settled_lookups();
}

int main(void)
{
    size_t i;
    int round;

    for (i = 0; i < NITEMS; i++) {
        it[i].k = (i % 9 == 0) ? i : (size_t)(rng() >> 20);
    }

    cstl_hash_init(&h, offsetof(struct item, hn));
    /* first request: takes effect at once, nothing to rehash */
    cstl_hash_resize(&h, 32, f0);
    cur_f = old_f = 0; cur_n = old_n = 32;
    pending = 0;
    for (i = 0; i < NITEMS; i += 2) {
        op_insert(i);
    }
    CHECK(near(cstl_hash_load(&h), (float)nin / 32));
    check_settled_lookups();

    {
        /* let every rehash run its course through keyed operations */
        static const size_t sz[] = { 64, 16, 16, 32, 16, 1, 50, 50, 49, 200, 3 };
        static const int f[] =     { -1, -1,  1, -1,  1, 2, -1,  0,  0,  -1, 1 };
        history(sz, f, sizeof(sz) / sizeof(*sz), -1);
    }
    {
        /* new requests while the previous one is still being worked off */
        static const size_t sz[] = { 40, 80, 40, 40, 40, 17, 17, 90, 17, 5, 64 };
        static const int f[] =     {  2,  2,  2,  0, -1, -1,  1, -1,  1, 1,  0 };
        history(sz, f, sizeof(sz) / sizeof(*sz), 0);
        history(sz, f, sizeof(sz) / sizeof(*sz), 1);
        history(sz, f, sizeof(sz) / sizeof(*sz), 3);
        history(sz, f, sizeof(sz) / sizeof(*sz), 11);
    }
    /* seeded random histories */
    for (round = 0; round < 300; round++) {
        size_t sz[6];
        int f[6];
        for (i = 0; i < 6; i++) {
            sz[i] = 1 + rng() % ((rng() & 1) ? 8 : 120);
            f[i] = (int)(rng() % (NFN + 1)) - 1;
            if (rng() % 5 == 0 && i > 0) {
                sz[i] = sz[i - 1];
            }
        }
        history(sz, f, 6, (int)(rng() % 6) - 1);
    }

    /* shrink_to_fit and an explicit rehash leave the geometry alone */
    request(23, 2);
    cstl_hash_shrink_to_fit(&h);
    pending = 0;        /* it had to finish the rehash to do that */
    CHECK(near(cstl_hash_load(&h), (float)nin / 23));
    check_settled_lookups();
    request(77, -1);
    op_random();
    cstl_hash_rehash(&h);
    pending = 0;
    check_settled_lookups();
    audit();

    for (i = 0; i < NITEMS; i++) {
        if (it[i].in) {
            op_erase(i);
        }
    }
    cstl_hash_clear(&h, NULL);
    printf("ok (largest relocation burst in one operation: %lu hash calls)\n",
           max_reloc);
    return 0;
}
