/*
 * C15: clear hands over each element exactly once and never touches it again.
 *
 * Standalone test; public API only.
 *
 * Every element lives alone on its own page (followed by a guard page).  The
 * clear callback checks that it is handed a live element of the container
 * being cleared, counts the call, and then - depending on the mode -
 *   FREE    poisons the page and makes it inaccessible (PROT_NONE), so any
 *           later read or write by the library is a SIGSEGV,
 *   REUSE_D / REUSE_S
 *           overwrites the whole element and immediately links the same
 *           bytes into a different container (a dlist or slist whose node
 *           sits at offset 0); after clear that other container must be
 *           intact and the filler bytes untouched (detects late writes),
 *   NESTED  builds and clears one small container of every kind (heap
 *           allocated elements, really free()d) from inside the callback
 *           and then behaves like FREE.
 * The pages stay inaccessible while the container is checked for emptiness,
 * refilled with fresh elements, exercised, and cleared again.
 */
#define _DEFAULT_SOURCE
#include <stdio.h>
#include <stdlib.h>
#include <string.h>
#include <stdint.h>
#include <signal.h>
#include <unistd.h>
#include <sys/mman.h>

#include "cstl/bintree.h"
#include "cstl/rbtree.h"
#include "cstl/heap.h"
#include "cstl/slist.h"
#include "cstl/dlist.h"
#include "cstl/map.h"

#ifndef SCALE
#define SCALE 1
#endif

#define DIE(...)                                                        \
    do {                                                                \
        fprintf(stderr, "FAIL %s:%d: ", __FILE__, __LINE__);            \
        fprintf(stderr, __VA_ARGS__);                                   \
        fputc('\n', stderr);                                            \
        exit(1);                                                        \
    } while (0)
#define CHECK(C) do { if (!(C)) DIE("%s", #C); } while (0)

/* ------------------------------------------------------------------ */
/* page-per-element arena                                              */

#define NSLOTS 200
#define MAXN   40

enum { S_FREE, S_LIVE, S_HANDED, S_GRAVE };
enum { M_FREE, M_REUSE_D, M_REUSE_S, M_NESTED, M_COUNT };

struct slot
{
    int state;
    void * ptr;
    size_t sz;
    int owner;
    int calls;
};

static unsigned char * arena;
static size_t pg;
static struct slot S[NSLOTS];
static int slot_rr;
static unsigned long total_handed;

static unsigned char * slot_page(const int i)
{
    return arena + (size_t)i * 2 * pg;
}

static void on_segv(int sig)
{
    static const char msg[] =
        "FAIL: SIGSEGV - an element was touched after its callback returned"
        " (or the container is corrupt)\n";
    (void)sig;
    if (write(2, msg, sizeof(msg) - 1) < 0) {
        _exit(3);
    }
    _exit(2);
}

static void arena_init(void)
{
    struct sigaction sa;

    pg = (size_t)sysconf(_SC_PAGESIZE);
    arena = mmap(NULL, (size_t)NSLOTS * 2 * pg, PROT_NONE,
                 MAP_PRIVATE | MAP_ANONYMOUS, -1, 0);
    CHECK(arena != MAP_FAILED);

    memset(&sa, 0, sizeof(sa));
    sa.sa_handler = on_segv;
    sigaction(SIGSEGV, &sa, NULL);
    sigaction(SIGBUS, &sa, NULL);
}

static void * snew(const size_t sz, const int owner)
{
    int k;

    for (k = 0; k < NSLOTS; k++) {
        const int i = (slot_rr + k) % NSLOTS;
        if (S[i].state == S_FREE) {
            unsigned char * const p = slot_page(i);
            const size_t rsz = (sz + 15) & ~(size_t)15;

            slot_rr = i + 1;
            CHECK(mprotect(p, pg, PROT_READ | PROT_WRITE) == 0);
            memset(p, 0x5a, pg);
            switch (i % 3) {
            case 0: S[i].ptr = p; break;
            case 1: S[i].ptr = p + pg - rsz; break;
            default: S[i].ptr = p + 16 * (size_t)(i % 7); break;
            }
            S[i].sz = sz;
            S[i].owner = owner;
            S[i].calls = 0;
            S[i].state = S_LIVE;
            return S[i].ptr;
        }
    }
    DIE("out of slots");
}

static int sindex(const void * const e)
{
    const unsigned char * const p = e;
    size_t i;

    CHECK(p >= arena && p < arena + (size_t)NSLOTS * 2 * pg);
    i = (size_t)(p - arena) / (2 * pg);
    CHECK(S[i].ptr == e);
    return (int)i;
}

/* the test itself took the element back (erase/pop) or is done with it */
static void srelease(const void * const e)
{
    const int i = sindex(e);
    CHECK(S[i].state != S_FREE);
    CHECK(mprotect(slot_page(i), pg, PROT_NONE) == 0);
    S[i].state = S_FREE;
    S[i].owner = -1;
}

static void srelease_owner(const int owner)
{
    int i;
    for (i = 0; i < NSLOTS; i++) {
        if (S[i].state != S_FREE && S[i].owner == owner) {
            CHECK(mprotect(slot_page(i), pg, PROT_NONE) == 0);
            S[i].state = S_FREE;
            S[i].owner = -1;
        }
    }
}

static void sassert_all_free(void)
{
    int i;
    for (i = 0; i < NSLOTS; i++) {
        CHECK(S[i].state == S_FREE);
    }
}

/* ------------------------------------------------------------------ */
/* the clear callback                                                  */

struct grave_d { struct cstl_dlist_node dn; };
struct grave_s { struct cstl_slist_node sn; };

static struct
{
    int owner;
    int mode;
    unsigned long ncalls;
    int in_clear;
    struct cstl_dlist gd;
    struct cstl_slist gs;
} C;

static int owner_seq;

static void nested_work(void);

static void ctx_begin(const int owner, const int mode)
{
    C.owner = owner;
    C.mode = mode;
    C.ncalls = 0;
    C.in_clear = 1;
    cstl_dlist_init(&C.gd, offsetof(struct grave_d, dn));
    cstl_slist_init(&C.gs, offsetof(struct grave_s, sn));
}

static void handover(void * const e)
{
    const int i = sindex(e);

    CHECK(C.in_clear);
    CHECK(S[i].state == S_LIVE);
    CHECK(S[i].owner == C.owner);
    CHECK(S[i].calls == 0);
    S[i].calls++;
    C.ncalls++;
    total_handed++;

    switch (C.mode) {
    case M_NESTED:
        nested_work();
        /* fallthrough */
    case M_FREE:
        memset(slot_page(i), 0xdd, pg);
        CHECK(mprotect(slot_page(i), pg, PROT_NONE) == 0);
        S[i].state = S_HANDED;
        break;
    case M_REUSE_D:
        memset(e, 0xee, S[i].sz);
        cstl_dlist_push_back(&C.gd, e);
        S[i].state = S_GRAVE;
        break;
    case M_REUSE_S:
        memset(e, 0xee, S[i].sz);
        cstl_slist_push_front(&C.gs, e);
        S[i].state = S_GRAVE;
        break;
    default:
        DIE("bad mode");
    }
}

static void grave_check(const void * const e, const size_t nodesz)
{
    const int i = sindex(e);
    const unsigned char * const b = e;
    size_t k;

    CHECK(S[i].state == S_GRAVE);
    CHECK(S[i].owner == C.owner);
    for (k = nodesz; k < S[i].sz; k++) {
        CHECK(b[k] == 0xee);
    }
    S[i].state = S_HANDED;
}

/* called right after the clear call returns */
static void ctx_end(const unsigned long expect)
{
    int i;

    C.in_clear = 0;
    CHECK(C.ncalls == expect);

    if (C.mode == M_REUSE_D) {
        void * e;
        unsigned long n = 0;
        CHECK(cstl_dlist_size(&C.gd) == expect);
        while ((e = cstl_dlist_pop_front(&C.gd)) != NULL) {
            grave_check(e, sizeof(struct grave_d));
            n++;
        }
        CHECK(n == expect);
    } else {
        CHECK(cstl_dlist_size(&C.gd) == 0);
    }
    if (C.mode == M_REUSE_S) {
        void * e;
        unsigned long n = 0;
        CHECK(cstl_slist_size(&C.gs) == expect);
        while ((e = cstl_slist_pop_front(&C.gs)) != NULL) {
            grave_check(e, sizeof(struct grave_s));
            n++;
        }
        CHECK(n == expect);
    } else {
        CHECK(cstl_slist_size(&C.gs) == 0);
    }

    for (i = 0; i < NSLOTS; i++) {
        if (S[i].state != S_FREE && S[i].owner == C.owner) {
            CHECK(S[i].state == S_HANDED);
            CHECK(S[i].calls == 1);
            /* handed over: from now on nobody may touch it */
            CHECK(mprotect(slot_page(i), pg, PROT_NONE) == 0);
            /* a different owner tag so a second clear cannot claim it */
            S[i].owner = -2 - C.owner;
        }
    }
}

static void release_handed(const int owner)
{
    srelease_owner(-2 - owner);
}

static int priv_token;

static void clr_priv(void * const e, void * const priv)
{
    CHECK(priv == &priv_token);
    handover(e);
}

static void clr_nopriv(void * const e, void * const priv)
{
    (void)priv;
    handover(e);
}

/* ------------------------------------------------------------------ */
/* tiny deterministic rng and permutations                             */

static uint32_t rng_state = 0x12345678u;
static uint32_t rnd(void)
{
    rng_state ^= rng_state << 13;
    rng_state ^= rng_state >> 17;
    rng_state ^= rng_state << 5;
    return rng_state;
}
static unsigned int rndn(const unsigned int n)
{
    return n ? rnd() % n : 0;
}

static int next_perm(int * const a, const int n)
{
    int i = n - 2, j, k;
    while (i >= 0 && a[i] >= a[i + 1]) {
        i--;
    }
    if (i < 0) {
        return 0;
    }
    for (j = n - 1; a[j] <= a[i]; j--)
        ;
    k = a[i]; a[i] = a[j]; a[j] = k;
    for (j = i + 1, k = n - 1; j < k; j++, k--) {
        const int t = a[j]; a[j] = a[k]; a[k] = t;
    }
    return 1;
}

/* ------------------------------------------------------------------ */
/* element types - node members at different offsets                   */

struct belem
{
    long pad;
    int key;
    int id;
    struct cstl_bintree_node bn;
    long tail;
};

struct relem
{
    int key;
    int id;
    char c;
    struct cstl_rbtree_node rn;
};

struct helem
{
    struct cstl_heap_node hn;
    int key;
    int id;
};

struct selem
{
    int id;
    struct cstl_slist_node sn;
    int key;
};

struct delem
{
    int key;
    char x[3];
    struct cstl_dlist_node dn;
    int id;
};

struct mkey { int k; int id; long pad; };
struct mval { int id; int v; char big[40]; };

static int cmp_priv_token;

static int bcmp_(const void * const a, const void * const b, void * const p)
{
    CHECK(p == &cmp_priv_token);
    return ((const struct belem *)a)->key - ((const struct belem *)b)->key;
}
static int rcmp_(const void * const a, const void * const b, void * const p)
{
    CHECK(p == &cmp_priv_token);
    return ((const struct relem *)a)->key - ((const struct relem *)b)->key;
}
static int hcmp_(const void * const a, const void * const b, void * const p)
{
    CHECK(p == NULL);
    return ((const struct helem *)a)->key - ((const struct helem *)b)->key;
}
static int scmp_(const void * const a, const void * const b, void * const p)
{
    CHECK(p == &cmp_priv_token);
    return ((const struct selem *)a)->key - ((const struct selem *)b)->key;
}
static int dcmp_(const void * const a, const void * const b, void * const p)
{
    CHECK(p == &cmp_priv_token);
    return ((const struct delem *)a)->key - ((const struct delem *)b)->key;
}
static int mcmp_(const void * const a, const void * const b, void * const p)
{
    CHECK(p == &cmp_priv_token);
    return ((const struct mkey *)a)->k - ((const struct mkey *)b)->k;
}

/* ------------------------------------------------------------------ */
/* nested work done from inside a callback: other objects, other types */

struct nb { struct cstl_bintree_node n; int k; };
struct nr { int k; struct cstl_rbtree_node n; };
struct nh { int k; struct cstl_heap_node n; };
struct ns { struct cstl_slist_node n; };
struct nd { char c; struct cstl_dlist_node n; };

static int nested_calls;

static int ncmp_b(const void * a, const void * b, void * p)
{
    (void)p;
    return ((const struct nb *)a)->k - ((const struct nb *)b)->k;
}
static int ncmp_r(const void * a, const void * b, void * p)
{
    (void)p;
    return ((const struct nr *)a)->k - ((const struct nr *)b)->k;
}
static int ncmp_h(const void * a, const void * b, void * p)
{
    (void)p;
    return ((const struct nh *)a)->k - ((const struct nh *)b)->k;
}
static int ncmp_m(const void * a, const void * b, void * p)
{
    (void)p;
    return *(const int *)a - *(const int *)b;
}
static void nfree(void * const e, void * const p)
{
    (void)p;
    nested_calls++;
    memset(e, 0xcc, 8);
    free(e);
}
static void nfree_map(void * const e, void * const p)
{
    cstl_map_iterator_t * const i = e;
    (void)p;
    nested_calls++;
    CHECK(*(const int *)i->key == *(int *)i->val);
    free((void *)i->key);
    free(i->val);
}

static void nested_work(void)
{
    static DECLARE_CSTL_BINTREE(sbt, struct nb, n, ncmp_b, NULL);
    struct cstl_rbtree rt;
    struct cstl_heap h;
    struct cstl_slist sl;
    struct cstl_dlist dl;
    cstl_map_t m;
    int i;
    const int N = 5;

    cstl_rbtree_init(&rt, ncmp_r, NULL, offsetof(struct nr, n));
    cstl_heap_init(&h, ncmp_h, NULL, offsetof(struct nh, n));
    cstl_slist_init(&sl, offsetof(struct ns, n));
    cstl_dlist_init(&dl, offsetof(struct nd, n));
    cstl_map_init(&m, ncmp_m, NULL);

    CHECK(cstl_bintree_size(&sbt) == 0);
    for (i = 0; i < N; i++) {
        struct nb * const b = malloc(sizeof(*b));
        struct nr * const r = malloc(sizeof(*r));
        struct nh * const hh = malloc(sizeof(*hh));
        struct ns * const s = malloc(sizeof(*s));
        struct nd * const d = malloc(sizeof(*d));
        int * const k = malloc(sizeof(*k));
        int * const v = malloc(sizeof(*v));
        CHECK(b && r && hh && s && d && k && v);
        b->k = r->k = hh->k = *k = *v = (i * 3) % N;
        cstl_bintree_insert(&sbt, b, NULL);
        cstl_rbtree_insert(&rt, r, NULL);
        cstl_heap_push(&h, hh);
        cstl_slist_push_back(&sl, s);
        cstl_dlist_push_front(&dl, d);
        CHECK(cstl_map_insert(&m, k, v, NULL) == 0);
    }

    nested_calls = 0;
    cstl_bintree_clear(&sbt, nfree, NULL);
    CHECK(nested_calls == N && cstl_bintree_size(&sbt) == 0);
    cstl_rbtree_clear(&rt, nfree, NULL);
    CHECK(nested_calls == 2 * N && cstl_rbtree_size(&rt) == 0);
    cstl_heap_clear(&h, nfree);
    CHECK(nested_calls == 3 * N && cstl_heap_size(&h) == 0);
    cstl_slist_clear(&sl, nfree);
    CHECK(nested_calls == 4 * N && cstl_slist_size(&sl) == 0);
    cstl_dlist_clear(&dl, nfree);
    CHECK(nested_calls == 5 * N && cstl_dlist_size(&dl) == 0);
    cstl_map_clear(&m, nfree_map, NULL);
    CHECK(nested_calls == 6 * N && cstl_map_size(&m) == 0);
}

/* ------------------------------------------------------------------ */
/* binary tree                                                         */

struct order_chk { int last; int n; int have; };

static int b_visit(const void * const e, const cstl_bintree_visit_order_t o,
                   void * const p)
{
    struct order_chk * const oc = p;
    if (o == CSTL_BINTREE_VISIT_ORDER_MID
        || o == CSTL_BINTREE_VISIT_ORDER_LEAF) {
        const struct belem * const b = e;
        (void)sindex(e);
        CHECK(!oc->have || oc->last <= b->key);
        oc->last = b->key;
        oc->have = 1;
        oc->n++;
    }
    return 0;
}

static void b_check_empty(struct cstl_bintree * const bt)
{
    struct belem probe;
    struct order_chk oc = { 0, 0, 0 };
    const void * par = &probe;
    size_t mn = 99, mx = 99;

    probe.key = 3;
    CHECK(cstl_bintree_size(bt) == 0);
    CHECK(cstl_bintree_find(bt, &probe, NULL) == NULL);
    CHECK(cstl_bintree_find(bt, &probe, &par) == NULL && par == NULL);
    CHECK(cstl_bintree_erase(bt, &probe) == NULL);
    CHECK(cstl_bintree_foreach(bt, b_visit, &oc,
                               CSTL_BINTREE_FOREACH_DIR_FWD) == 0);
    CHECK(cstl_bintree_foreach(bt, b_visit, &oc,
                               CSTL_BINTREE_FOREACH_DIR_REV) == 0);
    CHECK(oc.n == 0);
    cstl_bintree_height(bt, &mn, &mx);
    CHECK(mn == 0 && mx == 0);
}

static void b_check_content(struct cstl_bintree * const bt, const int n)
{
    struct order_chk oc = { 0, 0, 0 };
    CHECK(cstl_bintree_size(bt) == (size_t)n);
    CHECK(cstl_bintree_foreach(bt, b_visit, &oc,
                               CSTL_BINTREE_FOREACH_DIR_FWD) == 0);
    CHECK(oc.n == n);
}

static void b_insert(struct cstl_bintree * const bt, const int owner,
                     const int key, const int use_parent)
{
    struct belem * const b = snew(sizeof(*b), owner);
    b->key = key;
    b->id = key;
    if (use_parent) {
        const void * par = NULL;
        (void)cstl_bintree_find(bt, b, &par);
        cstl_bintree_insert(bt, b, (void *)par);
    } else {
        cstl_bintree_insert(bt, b, NULL);
    }
}

/*
 * keys[0..n) inserted in order, then the keys in er[0..ne) erased, then
 * cleared in the given mode; emptiness; refill; clear; clear again.
 */
static void bintree_scenario(struct cstl_bintree * const bt,
                             const int * const keys, const int n,
                             const int * const er, const int ne,
                             const int mode)
{
    const int owner = ++owner_seq;
    int i, live = n;

    b_check_empty(bt);
    for (i = 0; i < n; i++) {
        b_insert(bt, owner, keys[i], i & 1);
    }
    for (i = 0; i < ne; i++) {
        struct belem probe;
        void * e;
        probe.key = er[i];
        e = cstl_bintree_erase(bt, &probe);
        if (e != NULL) {
            CHECK(((struct belem *)e)->key == er[i]);
            srelease(e);
            live--;
        }
    }
    b_check_content(bt, live);

    ctx_begin(owner, mode);
    cstl_bintree_clear(bt, clr_priv, &priv_token);
    ctx_end((unsigned long)live);
    b_check_empty(bt);

    /* reusable like new: fill again (other order), use, clear */
    for (i = n - 1; i >= 0; i--) {
        b_insert(bt, owner, keys[i] * 2 + 1, !(i & 1));
    }
    b_check_content(bt, n);
    for (i = 0; i < n; i++) {
        struct belem probe;
        const struct belem * f;
        probe.key = keys[i] * 2 + 1;
        f = cstl_bintree_find(bt, &probe, NULL);
        CHECK(f != NULL && f->key == probe.key);
        probe.key = keys[i] * 2;
        CHECK(cstl_bintree_find(bt, &probe, NULL) == NULL);
    }
    if (n > 0) {
        struct belem probe;
        void * e;
        probe.key = keys[0] * 2 + 1;
        e = cstl_bintree_erase(bt, &probe);
        CHECK(e != NULL);
        srelease(e);
        b_check_content(bt, n - 1);
    }

    ctx_begin(owner, M_FREE);
    cstl_bintree_clear(bt, clr_priv, &priv_token);
    ctx_end((unsigned long)(n > 0 ? n - 1 : 0));
    b_check_empty(bt);

    ctx_begin(owner, M_FREE);
    cstl_bintree_clear(bt, clr_priv, &priv_token);
    ctx_end(0);
    b_check_empty(bt);

    release_handed(owner);
    srelease_owner(owner);
}

static void test_bintree(void)
{
    static DECLARE_CSTL_BINTREE(
        sbt, struct belem, bn, bcmp_, &cmp_priv_token);
    struct cstl_bintree bt;
    int keys[MAXN], er[MAXN];
    int n, mode, i, r;

    cstl_bintree_init(&bt, bcmp_, &cmp_priv_token,
                      offsetof(struct belem, bn));

    /* every tree shape with up to 6 nodes (every insertion order) */
    for (n = 0; n <= 7; n++) {
        unsigned long cnt = 0;
        for (i = 0; i < n; i++) {
            keys[i] = i;
        }
        do {
            if (n <= 5) {
                for (mode = 0; mode < M_COUNT; mode++) {
                    bintree_scenario(&bt, keys, n, NULL, 0, mode);
                }
            } else {
                bintree_scenario((cnt & 1) ? &sbt : &bt, keys, n, NULL, 0,
                                 (int)(cnt % 3));
            }
            /* shapes reached through erase as well */
            if (n >= 3 && n <= 6) {
                er[0] = keys[n / 2];
                er[1] = keys[0];
                bintree_scenario(&sbt, keys, n, er, 1 + (int)(cnt & 1),
                                 (int)(cnt % 3));
            }
            cnt++;
        } while (next_perm(keys, n));
    }

    /* larger trees, duplicate keys, random erases */
    for (r = 0; r < 150 * SCALE; r++) {
        int ne;
        n = (int)rndn(MAXN + 1);
        for (i = 0; i < n; i++) {
            keys[i] = (int)rndn((r & 1) ? 12 : 1000);
        }
        ne = (int)rndn((unsigned)n + 1);
        for (i = 0; i < ne; i++) {
            er[i] = (r & 2) ? keys[rndn((unsigned)n)] : (int)rndn(1000);
        }
        bintree_scenario((r & 4) ? &sbt : &bt, keys, n, er, ne,
                         (r % 11 == 0) ? M_NESTED : r % 3);
    }

    /* degenerate chains */
    for (n = 1; n <= MAXN; n += 3) {
        for (i = 0; i < n; i++) {
            keys[i] = i;
        }
        bintree_scenario(&bt, keys, n, NULL, 0, M_FREE);
        for (i = 0; i < n; i++) {
            keys[i] = n - i;
        }
        bintree_scenario(&bt, keys, n, NULL, 0, M_REUSE_D);
        for (i = 0; i < n; i++) {
            keys[i] = (i & 1) ? i : -i;
        }
        bintree_scenario(&bt, keys, n, NULL, 0, M_REUSE_S);
    }
}

/* ------------------------------------------------------------------ */
/* red-black tree                                                      */

static int r_visit(const void * const e, const cstl_bintree_visit_order_t o,
                   void * const p)
{
    struct order_chk * const oc = p;
    if (o == CSTL_BINTREE_VISIT_ORDER_MID
        || o == CSTL_BINTREE_VISIT_ORDER_LEAF) {
        const struct relem * const b = e;
        (void)sindex(e);
        CHECK(!oc->have || oc->last <= b->key);
        oc->last = b->key;
        oc->have = 1;
        oc->n++;
    }
    return 0;
}

static void r_check_empty(struct cstl_rbtree * const t)
{
    struct relem probe;
    struct order_chk oc = { 0, 0, 0 };
    size_t mn = 99, mx = 99;

    probe.key = 3;
    CHECK(cstl_rbtree_size(t) == 0);
    CHECK(cstl_rbtree_find(t, &probe, NULL) == NULL);
    CHECK(cstl_rbtree_erase(t, &probe) == NULL);
    CHECK(cstl_rbtree_foreach(t, r_visit, &oc,
                              CSTL_BINTREE_FOREACH_DIR_FWD) == 0);
    CHECK(oc.n == 0);
    cstl_rbtree_height(t, &mn, &mx);
    CHECK(mn == 0 && mx == 0);
}

static void r_check_content(struct cstl_rbtree * const t, const int n)
{
    struct order_chk oc = { 0, 0, 0 };
    size_t mn, mx;
    CHECK(cstl_rbtree_size(t) == (size_t)n);
    CHECK(cstl_rbtree_foreach(t, r_visit, &oc,
                              CSTL_BINTREE_FOREACH_DIR_FWD) == 0);
    CHECK(oc.n == n);
    cstl_rbtree_height(t, &mn, &mx);
    CHECK(mx <= 2 * mn);
    if (n > 0) {
        CHECK(mn >= 1);
    }
}

static void r_insert(struct cstl_rbtree * const t, const int owner,
                     const int key)
{
    struct relem * const b = snew(sizeof(*b), owner);
    b->key = key;
    b->id = key;
    cstl_rbtree_insert(t, b, NULL);
}

static void rbtree_scenario(struct cstl_rbtree * const t,
                            const int * const keys, const int n,
                            const int * const er, const int ne,
                            const int mode)
{
    const int owner = ++owner_seq;
    int i, live = n;

    r_check_empty(t);
    for (i = 0; i < n; i++) {
        r_insert(t, owner, keys[i]);
    }
    for (i = 0; i < ne; i++) {
        struct relem probe;
        void * e;
        probe.key = er[i];
        e = cstl_rbtree_erase(t, &probe);
        if (e != NULL) {
            CHECK(((struct relem *)e)->key == er[i]);
            srelease(e);
            live--;
        }
    }
    r_check_content(t, live);

    ctx_begin(owner, mode);
    cstl_rbtree_clear(t, clr_priv, &priv_token);
    ctx_end((unsigned long)live);
    r_check_empty(t);

    for (i = n - 1; i >= 0; i--) {
        r_insert(t, owner, keys[i] * 2 + 1);
        r_check_content(t, n - i);
    }
    for (i = 0; i < n; i++) {
        struct relem probe;
        const struct relem * f;
        probe.key = keys[i] * 2 + 1;
        f = cstl_rbtree_find(t, &probe, NULL);
        CHECK(f != NULL && f->key == probe.key);
    }
    live = n;
    for (i = 0; i < n; i += 3) {
        struct relem probe;
        void * e;
        probe.key = keys[i] * 2 + 1;
        e = cstl_rbtree_erase(t, &probe);
        CHECK(e != NULL);
        srelease(e);
        live--;
        r_check_content(t, live);
    }

    ctx_begin(owner, M_FREE);
    cstl_rbtree_clear(t, clr_priv, &priv_token);
    ctx_end((unsigned long)live);
    r_check_empty(t);

    ctx_begin(owner, M_REUSE_D);
    cstl_rbtree_clear(t, clr_priv, &priv_token);
    ctx_end(0);
    r_check_empty(t);

    release_handed(owner);
    srelease_owner(owner);
}

static void test_rbtree(void)
{
    static DECLARE_CSTL_RBTREE(
        srt, struct relem, rn, rcmp_, &cmp_priv_token);
    struct cstl_rbtree t;
    int keys[MAXN], er[MAXN];
    int n, mode, i, r;

    cstl_rbtree_init(&t, rcmp_, &cmp_priv_token, offsetof(struct relem, rn));

    for (n = 0; n <= 7; n++) {
        unsigned long cnt = 0;
        for (i = 0; i < n; i++) {
            keys[i] = i;
        }
        do {
            if (n <= 5) {
                for (mode = 0; mode < M_COUNT; mode++) {
                    rbtree_scenario(&t, keys, n, NULL, 0, mode);
                }
            } else {
                rbtree_scenario((cnt & 1) ? &srt : &t, keys, n, NULL, 0,
                                (int)(cnt % 3));
            }
            if (n >= 3 && n <= 6) {
                er[0] = keys[n / 2];
                er[1] = keys[0];
                rbtree_scenario(&srt, keys, n, er, 1 + (int)(cnt & 1),
                                (int)(cnt % 3));
            }
            cnt++;
        } while (next_perm(keys, n));
    }

    for (r = 0; r < 200 * SCALE; r++) {
        int ne;
        n = (int)rndn(MAXN + 1);
        for (i = 0; i < n; i++) {
            keys[i] = (int)rndn((r & 1) ? 10 : 1000);
        }
        ne = (int)rndn((unsigned)n + 1);
        for (i = 0; i < ne; i++) {
            er[i] = (r & 2) ? keys[rndn((unsigned)n)] : (int)rndn(1000);
        }
        rbtree_scenario((r & 4) ? &srt : &t, keys, n, er, ne,
                        (r % 13 == 0) ? M_NESTED : r % 3);
    }

    /* every size, ascending / descending insertion */
    for (n = 0; n <= MAXN; n++) {
        for (i = 0; i < n; i++) {
            keys[i] = i;
        }
        rbtree_scenario(&t, keys, n, NULL, 0, n % 3);
        for (i = 0; i < n; i++) {
            keys[i] = n - i;
        }
        rbtree_scenario(&srt, keys, n, NULL, 0, (n + 1) % 3);
    }
}

/* ------------------------------------------------------------------ */
/* heap                                                                */

static void h_check_empty(struct cstl_heap * const h)
{
    CHECK(cstl_heap_size(h) == 0);
    CHECK(cstl_heap_get(h) == NULL);
    CHECK(cstl_heap_pop(h) == NULL);
    CHECK(cstl_heap_size(h) == 0);
}

static void h_push(struct cstl_heap * const h, const int owner, const int key)
{
    struct helem * const e = snew(sizeof(*e), owner);
    e->key = key;
    e->id = key;
    cstl_heap_push(h, e);
}

static void heap_scenario(struct cstl_heap * const h,
                          const int * const keys, const int n,
                          const int npop, const int mode)
{
    const int owner = ++owner_seq;
    int i, live = n, mx;

    h_check_empty(h);
    for (i = 0; i < n; i++) {
        h_push(h, owner, keys[i]);
        CHECK(cstl_heap_size(h) == (size_t)i + 1);
    }
    mx = 0x7fffffff;
    for (i = 0; i < npop && live > 0; i++) {
        const struct helem * const g = cstl_heap_get(h);
        struct helem * const e = cstl_heap_pop(h);
        CHECK(e != NULL && e == g && e->key <= mx);
        mx = e->key;
        srelease(e);
        live--;
    }
    CHECK(cstl_heap_size(h) == (size_t)live);

    ctx_begin(owner, mode);
    cstl_heap_clear(h, clr_nopriv);
    ctx_end((unsigned long)live);
    h_check_empty(h);

    for (i = n - 1; i >= 0; i--) {
        h_push(h, owner, keys[i] ^ 5);
    }
    CHECK(cstl_heap_size(h) == (size_t)n);
    live = n;
    mx = 0x7fffffff;
    for (i = 0; i < (n + 1) / 2; i++) {
        struct helem * const e = cstl_heap_pop(h);
        CHECK(e != NULL && e->key <= mx);
        mx = e->key;
        srelease(e);
        live--;
    }
    if (live > 0) {
        CHECK(((const struct helem *)cstl_heap_get(h))->key <= mx);
    }

    ctx_begin(owner, M_FREE);
    cstl_heap_clear(h, clr_nopriv);
    ctx_end((unsigned long)live);
    h_check_empty(h);

    ctx_begin(owner, M_REUSE_S);
    cstl_heap_clear(h, clr_nopriv);
    ctx_end(0);
    h_check_empty(h);

    release_handed(owner);
    srelease_owner(owner);
}

static void test_heap(void)
{
    static DECLARE_CSTL_HEAP(sh, struct helem, hn, hcmp_, NULL);
    struct cstl_heap h;
    int keys[MAXN];
    int n, i, r, mode;

    cstl_heap_init(&h, hcmp_, NULL, offsetof(struct helem, hn));

    for (n = 0; n <= MAXN; n++) {
        for (mode = 0; mode < M_COUNT; mode++) {
            if (mode == M_NESTED && n % 5 != 0) {
                continue;
            }
            for (i = 0; i < n; i++) {
                keys[i] = i;
            }
            heap_scenario(&h, keys, n, 0, mode);
            for (i = 0; i < n; i++) {
                keys[i] = n - i;
            }
            heap_scenario(&sh, keys, n, n / 3, mode);
            for (r = 0; r < 3 * SCALE; r++) {
                for (i = 0; i < n; i++) {
                    keys[i] = (int)rndn((r & 1) ? 7 : 500);
                }
                heap_scenario((r & 1) ? &sh : &h, keys, n,
                              (int)rndn((unsigned)n + 1), mode);
            }
        }
    }

    for (n = 0; n <= 6; n++) {
        for (i = 0; i < n; i++) {
            keys[i] = i;
        }
        do {
            heap_scenario(&h, keys, n, 0, M_FREE);
            heap_scenario(&h, keys, n, 1, M_REUSE_D);
        } while (next_perm(keys, n));
    }
}

/* ------------------------------------------------------------------ */
/* singly linked list                                                  */

struct list_model
{
    void * e[4 * MAXN];
    int n;
};

static void lm_insert(struct list_model * const m, const int at,
                      void * const e)
{
    int i;
    CHECK(m->n < 4 * MAXN);
    for (i = m->n; i > at; i--) {
        m->e[i] = m->e[i - 1];
    }
    m->e[at] = e;
    m->n++;
}

static void * lm_remove(struct list_model * const m, const int at)
{
    void * const e = m->e[at];
    int i;
    for (i = at; i < m->n - 1; i++) {
        m->e[i] = m->e[i + 1];
    }
    m->n--;
    return e;
}

struct lm_walk { const struct list_model * m; int i; int step; };

static int lm_visit(void * const e, void * const p)
{
    struct lm_walk * const w = p;
    CHECK(w->i >= 0 && w->i < w->m->n);
    CHECK(w->m->e[w->i] == e);
    w->i += w->step;
    return 0;
}

static int never_visit(void * const e, void * const p)
{
    (void)e; (void)p;
    DIE("visit on an empty container");
    return 1;
}

static void s_check(struct cstl_slist * const sl,
                    const struct list_model * const m)
{
    struct lm_walk w;
    CHECK(cstl_slist_size(sl) == (size_t)m->n);
    if (m->n == 0) {
        CHECK(cstl_slist_front(sl) == NULL);
        CHECK(cstl_slist_back(sl) == NULL);
        CHECK(cstl_slist_foreach(sl, never_visit, NULL) == 0);
    } else {
        CHECK(cstl_slist_front(sl) == m->e[0]);
        CHECK(cstl_slist_back(sl) == m->e[m->n - 1]);
    }
    w.m = m; w.i = 0; w.step = 1;
    CHECK(cstl_slist_foreach(sl, lm_visit, &w) == 0);
    CHECK(w.i == m->n);
}

static void s_check_empty(struct cstl_slist * const sl)
{
    struct list_model m;
    m.n = 0;
    s_check(sl, &m);
    CHECK(cstl_slist_pop_front(sl) == NULL);
    cstl_slist_reverse(sl);
    cstl_slist_sort(sl, scmp_, &cmp_priv_token);
    s_check(sl, &m);
}

static struct selem * s_new(const int owner)
{
    struct selem * const e = snew(sizeof(*e), owner);
    e->key = (int)rndn(50);
    e->id = e->key;
    return e;
}

/* random edits of the list, mirrored in the model */
static void s_edit(struct cstl_slist * const sl, struct list_model * const m,
                   const int owner, const int nops, const int maxlen)
{
    int k;
    for (k = 0; k < nops; k++) {
        const unsigned int op = rndn(8);
        if (op <= 1 && m->n < maxlen) {
            struct selem * const e = s_new(owner);
            cstl_slist_push_front(sl, e);
            lm_insert(m, 0, e);
        } else if (op <= 3 && m->n < maxlen) {
            struct selem * const e = s_new(owner);
            cstl_slist_push_back(sl, e);
            lm_insert(m, m->n, e);
        } else if (op == 4 && m->n > 0 && m->n < maxlen) {
            struct selem * const e = s_new(owner);
            const int at = (int)rndn((unsigned)m->n);
            cstl_slist_insert_after(sl, m->e[at], e);
            lm_insert(m, at + 1, e);
        } else if (op == 5 && m->n > 1) {
            const int at = (int)rndn((unsigned)m->n - 1);
            void * const e = cstl_slist_erase_after(sl, m->e[at]);
            CHECK(e == m->e[at + 1]);
            lm_remove(m, at + 1);
            srelease(e);
        } else if (op == 6 && m->n > 0) {
            void * const e = cstl_slist_pop_front(sl);
            CHECK(e == m->e[0]);
            lm_remove(m, 0);
            srelease(e);
        } else if (op == 7) {
            int i;
            cstl_slist_reverse(sl);
            for (i = 0; i < m->n / 2; i++) {
                void * const t = m->e[i];
                m->e[i] = m->e[m->n - 1 - i];
                m->e[m->n - 1 - i] = t;
            }
        }
    }
}

static void s_sort_model(struct list_model * const m)
{
    /* stable insertion sort, like the list's merge sort is stable */
    int i, j;
    for (i = 1; i < m->n; i++) {
        void * const e = m->e[i];
        for (j = i; j > 0
             && ((struct selem *)m->e[j - 1])->key > ((struct selem *)e)->key;
             j--) {
            m->e[j] = m->e[j - 1];
        }
        m->e[j] = e;
    }
}

static void slist_scenario(struct cstl_slist * const sl, const int len,
                           const int shape, const int mode)
{
    const int owner = ++owner_seq;
    const int owner2 = ++owner_seq;
    struct list_model m;
    struct cstl_slist other;
    struct list_model om;
    int i;

    m.n = 0;
    om.n = 0;
    cstl_slist_init(&other, offsetof(struct selem, sn));
    s_check_empty(sl);

    /* reach exactly len elements through different histories */
    switch (shape) {
    case 0:
        for (i = 0; i < len; i++) {
            struct selem * const e = s_new(owner);
            cstl_slist_push_back(sl, e);
            lm_insert(&m, m.n, e);
        }
        break;
    case 1:
        for (i = 0; i < len; i++) {
            struct selem * const e = s_new(owner);
            cstl_slist_push_front(sl, e);
            lm_insert(&m, 0, e);
        }
        break;
    case 2:
        s_edit(sl, &m, owner, 3 * len + 3, len);
        break;
    case 3:
        /* sorted */
        s_edit(sl, &m, owner, 3 * len + 3, len);
        cstl_slist_sort(sl, scmp_, &cmp_priv_token);
        s_sort_model(&m);
        break;
    case 4:
        /* concatenated from another list (possibly onto an empty one) */
        s_edit(sl, &m, owner, len, len / 2);
        s_edit(&other, &om, owner, 2 * len + 2, len - m.n);
        cstl_slist_concat(sl, &other);
        for (i = 0; i < om.n; i++) {
            lm_insert(&m, m.n, om.e[i]);
        }
        om.n = 0;
        s_check(&other, &om);
        break;
    case 5:
        /* built elsewhere and swapped in */
        s_edit(&other, &om, owner, 3 * len + 3, len);
        cstl_slist_swap(sl, &other);
        m = om;
        om.n = 0;
        s_check(&other, &om);
        break;
    case 7:
        /* two non-empty lists exchanged */
        {
            struct list_model tm;
            s_edit(sl, &m, owner2, 2 * len + 3, len / 2 + 1);
            s_edit(&other, &om, owner, 3 * len + 3, len);
            cstl_slist_swap(sl, &other);
            tm = m; m = om; om = tm;
            s_check(&other, &om);
        }
        break;
    default:
        /* filled, emptied by hand, filled again */
        s_edit(sl, &m, owner, 2 * len, len);
        while (m.n > 0) {
            void * const e = cstl_slist_pop_front(sl);
            CHECK(e == lm_remove(&m, 0));
            srelease(e);
        }
        s_check(sl, &m);
        s_edit(sl, &m, owner, 3 * len, len);
        break;
    }
    s_check(sl, &m);

    ctx_begin(owner, mode);
    cstl_slist_clear(sl, clr_nopriv);
    ctx_end((unsigned long)m.n);
    s_check_empty(sl);

    /* and the other, empty (maybe swapped/concatenated-from) list too */
    ctx_begin(owner2, (mode + 2) % 3);
    cstl_slist_clear(&other, clr_nopriv);
    ctx_end((unsigned long)om.n);
    s_check_empty(&other);
    om.n = 0;

    /* usable like new */
    m.n = 0;
    s_edit(sl, &m, owner, 3 * len + 4, len + 1);
    s_check(sl, &m);
    cstl_slist_sort(sl, scmp_, &cmp_priv_token);
    s_sort_model(&m);
    s_check(sl, &m);
    s_edit(&other, &om, owner, len + 2, len + 1);
    cstl_slist_concat(sl, &other);
    for (i = 0; i < om.n; i++) {
        lm_insert(&m, m.n, om.e[i]);
    }
    s_check(sl, &m);

    ctx_begin(owner, (mode + 1) % 3);
    cstl_slist_clear(sl, clr_nopriv);
    ctx_end((unsigned long)m.n);
    s_check_empty(sl);

    ctx_begin(owner, M_FREE);
    cstl_slist_clear(sl, clr_nopriv);
    ctx_end(0);
    s_check_empty(sl);

    release_handed(owner);
    srelease_owner(owner);
    release_handed(owner2);
    srelease_owner(owner2);
}

static struct cstl_slist static_sl =
    CSTL_SLIST_INITIALIZER(static_sl, struct selem, sn);

static void test_slist(void)
{
    DECLARE_CSTL_SLIST(dsl, struct selem, sn);
    struct cstl_slist sl;
    int len, shape, mode, r;

    cstl_slist_init(&sl, offsetof(struct selem, sn));

    for (r = 0; r < 2 * SCALE; r++) {
        for (len = 0; len <= MAXN; len++) {
            for (shape = 0; shape <= 8; shape++) {
                for (mode = 0; mode < M_COUNT; mode++) {
                    struct cstl_slist * l;
                    if (mode == M_NESTED && (len + shape) % 6 != 0) {
                        continue;
                    }
                    switch ((len + shape + mode) % 3) {
                    case 0: l = &sl; break;
                    case 1: l = &dsl; break;
                    default: l = &static_sl; break;
                    }
                    slist_scenario(l, len, shape, mode);
                }
            }
        }
    }
}

/* ------------------------------------------------------------------ */
/* doubly linked list                                                  */

static void d_check(struct cstl_dlist * const l,
                    const struct list_model * const m)
{
    struct lm_walk w;
    CHECK(cstl_dlist_size(l) == (size_t)m->n);
    if (m->n == 0) {
        CHECK(cstl_dlist_front(l) == NULL);
        CHECK(cstl_dlist_back(l) == NULL);
        CHECK(cstl_dlist_foreach(l, never_visit, NULL,
                                 CSTL_DLIST_FOREACH_DIR_FWD) == 0);
        CHECK(cstl_dlist_foreach(l, never_visit, NULL,
                                 CSTL_DLIST_FOREACH_DIR_REV) == 0);
    } else {
        CHECK(cstl_dlist_front(l) == m->e[0]);
        CHECK(cstl_dlist_back(l) == m->e[m->n - 1]);
    }
    w.m = m; w.i = 0; w.step = 1;
    CHECK(cstl_dlist_foreach(l, lm_visit, &w,
                             CSTL_DLIST_FOREACH_DIR_FWD) == 0);
    CHECK(w.i == m->n);
    w.m = m; w.i = m->n - 1; w.step = -1;
    CHECK(cstl_dlist_foreach(l, lm_visit, &w,
                             CSTL_DLIST_FOREACH_DIR_REV) == 0);
    CHECK(w.i == -1);
}

static void d_check_empty(struct cstl_dlist * const l)
{
    struct list_model m;
    struct delem probe;
    m.n = 0;
    probe.key = 1;
    d_check(l, &m);
    CHECK(cstl_dlist_pop_front(l) == NULL);
    CHECK(cstl_dlist_pop_back(l) == NULL);
    CHECK(cstl_dlist_find(l, &probe, dcmp_, &cmp_priv_token,
                          CSTL_DLIST_FOREACH_DIR_FWD) == NULL);
    cstl_dlist_reverse(l);
    cstl_dlist_sort(l, dcmp_, &cmp_priv_token);
    d_check(l, &m);
}

static struct delem * d_new(const int owner)
{
    struct delem * const e = snew(sizeof(*e), owner);
    e->key = (int)rndn(50);
    e->id = e->key;
    return e;
}

static void d_edit(struct cstl_dlist * const l, struct list_model * const m,
                   const int owner, const int nops, const int maxlen)
{
    int k;
    for (k = 0; k < nops; k++) {
        const unsigned int op = rndn(10);
        if (op <= 1 && m->n < maxlen) {
            struct delem * const e = d_new(owner);
            cstl_dlist_push_front(l, e);
            lm_insert(m, 0, e);
        } else if (op <= 3 && m->n < maxlen) {
            struct delem * const e = d_new(owner);
            cstl_dlist_push_back(l, e);
            lm_insert(m, m->n, e);
        } else if (op == 4 && m->n > 0 && m->n < maxlen) {
            struct delem * const e = d_new(owner);
            const int at = (int)rndn((unsigned)m->n);
            cstl_dlist_insert(l, m->e[at], e);
            lm_insert(m, at + 1, e);
        } else if (op == 5 && m->n > 0) {
            const int at = (int)rndn((unsigned)m->n);
            void * const e = lm_remove(m, at);
            cstl_dlist_erase(l, e);
            srelease(e);
        } else if (op == 6 && m->n > 0) {
            void * const e = cstl_dlist_pop_front(l);
            CHECK(e == lm_remove(m, 0));
            srelease(e);
        } else if (op == 7 && m->n > 0) {
            void * const e = cstl_dlist_pop_back(l);
            CHECK(e == lm_remove(m, m->n - 1));
            srelease(e);
        } else if (op == 8) {
            int i;
            cstl_dlist_reverse(l);
            for (i = 0; i < m->n / 2; i++) {
                void * const t = m->e[i];
                m->e[i] = m->e[m->n - 1 - i];
                m->e[m->n - 1 - i] = t;
            }
        } else if (op == 9 && m->n > 0) {
            struct delem probe;
            const struct delem * f;
            int i;
            probe.key = ((struct delem *)m->e[rndn((unsigned)m->n)])->key;
            f = cstl_dlist_find(l, &probe, dcmp_, &cmp_priv_token,
                                CSTL_DLIST_FOREACH_DIR_FWD);
            for (i = 0; ((struct delem *)m->e[i])->key != probe.key; i++)
                ;
            CHECK(f == m->e[i]);
            f = cstl_dlist_find(l, &probe, dcmp_, &cmp_priv_token,
                                CSTL_DLIST_FOREACH_DIR_REV);
            for (i = m->n - 1; ((struct delem *)m->e[i])->key != probe.key;
                 i--)
                ;
            CHECK(f == m->e[i]);
        }
    }
}

static void d_sort_model(struct list_model * const m)
{
    int i, j;
    for (i = 1; i < m->n; i++) {
        void * const e = m->e[i];
        for (j = i; j > 0
             && ((struct delem *)m->e[j - 1])->key > ((struct delem *)e)->key;
             j--) {
            m->e[j] = m->e[j - 1];
        }
        m->e[j] = e;
    }
}

static void dlist_scenario(struct cstl_dlist * const l, const int len,
                           const int shape, const int mode)
{
    const int owner = ++owner_seq;
    const int owner2 = ++owner_seq;
    struct list_model m;
    struct cstl_dlist other;
    struct list_model om;
    int i;

    m.n = 0;
    om.n = 0;
    cstl_dlist_init(&other, offsetof(struct delem, dn));
    d_check_empty(l);

    switch (shape) {
    case 0:
        for (i = 0; i < len; i++) {
            struct delem * const e = d_new(owner);
            cstl_dlist_push_back(l, e);
            lm_insert(&m, m.n, e);
        }
        break;
    case 1:
        for (i = 0; i < len; i++) {
            struct delem * const e = d_new(owner);
            cstl_dlist_push_front(l, e);
            lm_insert(&m, 0, e);
        }
        break;
    case 2:
        d_edit(l, &m, owner, 3 * len + 3, len);
        break;
    case 3:
        d_edit(l, &m, owner, 3 * len + 3, len);
        cstl_dlist_sort(l, dcmp_, &cmp_priv_token);
        d_sort_model(&m);
        break;
    case 4:
        d_edit(l, &m, owner, len, len / 2);
        d_edit(&other, &om, owner, 2 * len + 2, len - m.n);
        cstl_dlist_concat(l, &other);
        for (i = 0; i < om.n; i++) {
            lm_insert(&m, m.n, om.e[i]);
        }
        om.n = 0;
        d_check(&other, &om);
        break;
    case 5:
        d_edit(&other, &om, owner, 3 * len + 3, len);
        cstl_dlist_swap(l, &other);
        m = om;
        om.n = 0;
        d_check(&other, &om);
        break;
    case 7:
        /* two non-empty lists exchanged */
        {
            struct list_model tm;
            d_edit(l, &m, owner2, 2 * len + 3, len / 2 + 1);
            d_edit(&other, &om, owner, 3 * len + 3, len);
            cstl_dlist_swap(l, &other);
            tm = m; m = om; om = tm;
            d_check(&other, &om);
        }
        break;
    default:
        d_edit(l, &m, owner, 2 * len, len);
        while (m.n > 0) {
            void * const e = (m.n & 1)
                ? cstl_dlist_pop_front(l) : cstl_dlist_pop_back(l);
            CHECK(e == lm_remove(&m, (m.n & 1) ? 0 : m.n - 1));
            srelease(e);
        }
        d_check(l, &m);
        d_edit(l, &m, owner, 3 * len, len);
        break;
    }
    d_check(l, &m);

    ctx_begin(owner, mode);
    cstl_dlist_clear(l, clr_nopriv);
    ctx_end((unsigned long)m.n);
    d_check_empty(l);

    ctx_begin(owner2, (mode + 2) % 3);
    cstl_dlist_clear(&other, clr_nopriv);
    ctx_end((unsigned long)om.n);
    d_check_empty(&other);
    om.n = 0;

    m.n = 0;
    d_edit(l, &m, owner, 3 * len + 4, len + 1);
    d_check(l, &m);
    cstl_dlist_sort(l, dcmp_, &cmp_priv_token);
    d_sort_model(&m);
    d_check(l, &m);
    d_edit(&other, &om, owner, len + 2, len + 1);
    cstl_dlist_concat(l, &other);
    for (i = 0; i < om.n; i++) {
        lm_insert(&m, m.n, om.e[i]);
    }
    d_check(l, &m);
    /* self-concatenation is documented by the code as a no-op */
    cstl_dlist_concat(l, l);
    d_check(l, &m);

    ctx_begin(owner, (mode + 1) % 3);
    cstl_dlist_clear(l, clr_nopriv);
    ctx_end((unsigned long)m.n);
    d_check_empty(l);

    ctx_begin(owner, M_FREE);
    cstl_dlist_clear(l, clr_nopriv);
    ctx_end(0);
    d_check_empty(l);

    release_handed(owner);
    srelease_owner(owner);
    release_handed(owner2);
    srelease_owner(owner2);
}

static struct cstl_dlist static_dl =
    CSTL_DLIST_INITIALIZER(static_dl, struct delem, dn);

static void test_dlist(void)
{
    DECLARE_CSTL_DLIST(ddl, struct delem, dn);
    struct cstl_dlist l;
    int len, shape, mode, r;

    cstl_dlist_init(&l, offsetof(struct delem, dn));

    for (r = 0; r < 2 * SCALE; r++) {
        for (len = 0; len <= MAXN; len++) {
            for (shape = 0; shape <= 8; shape++) {
                for (mode = 0; mode < M_COUNT; mode++) {
                    struct cstl_dlist * p;
                    if (mode == M_NESTED && (len + shape) % 6 != 0) {
                        continue;
                    }
                    switch ((len + shape + mode) % 3) {
                    case 0: p = &l; break;
                    case 1: p = &ddl; break;
                    default: p = &static_dl; break;
                    }
                    dlist_scenario(p, len, shape, mode);
                }
            }
        }
    }
}

/* ------------------------------------------------------------------ */
/* map                                                                 */

static struct
{
    unsigned long ncalls;
    int noclr;
} MC;

static void m_clr(void * const e, void * const priv)
{
    cstl_map_iterator_t * const i = e;
    const struct mkey * k;
    struct mval * v;

    CHECK(priv == &priv_token);
    CHECK(i != NULL);
    k = i->key;
    v = i->val;
    (void)sindex(k);
    (void)sindex(v);
    CHECK(k->id == v->id);
    CHECK(v->v == k->k * 7);
    MC.ncalls++;
    /* the pair is handed over together; ncalls in C counts both */
    handover((void *)k);
    handover(v);
}

static void m_check_empty(cstl_map_t * const m)
{
    struct mkey probe;
    cstl_map_iterator_t it;

    probe.k = 2;
    CHECK(cstl_map_size(m) == 0);
    cstl_map_find(m, &probe, &it);
    CHECK(cstl_map_iterator_eq(&it, cstl_map_iterator_end(m)));
    CHECK(cstl_map_erase(m, &probe, &it) == -1);
    CHECK(cstl_map_iterator_eq(&it, cstl_map_iterator_end(m)));
    CHECK(cstl_map_erase(m, &probe, NULL) == -1);
}

static int m_insert(cstl_map_t * const m, const int owner, const int key)
{
    static int idseq;
    struct mkey * const k = snew(sizeof(*k), owner);
    struct mval * const v = snew(sizeof(*v), owner);
    cstl_map_iterator_t it;
    int res;

    k->k = key;
    k->id = v->id = ++idseq;
    v->v = key * 7;
    res = cstl_map_insert(m, k, v, (key & 1) ? &it : NULL);
    CHECK(res == 0 || res == 1);
    if (res == 1) {
        if (key & 1) {
            CHECK(((const struct mkey *)it.key)->k == key);
            CHECK(it.key != k && it.val != v);
        }
        srelease(k);
        srelease(v);
    } else if (key & 1) {
        CHECK(it.key == k && it.val == v);
        CHECK(!cstl_map_iterator_eq(&it, cstl_map_iterator_end(m)));
    }
    return res;
}

static int m_erase(cstl_map_t * const m, const int key, const int how)
{
    struct mkey probe;
    cstl_map_iterator_t it;
    int res;

    probe.k = key;
    if (how == 0) {
        res = cstl_map_erase(m, &probe, &it);
        CHECK(cstl_map_iterator_eq(&it, cstl_map_iterator_end(m)));
        if (res == 0) {
            CHECK(((const struct mkey *)it.key)->k == key);
        }
    } else {
        cstl_map_find(m, &probe, &it);
        if (cstl_map_iterator_eq(&it, cstl_map_iterator_end(m))) {
            res = -1;
        } else {
            const void * const k = it.key;
            void * const v = it.val;
            cstl_map_erase_iterator(m, &it);
            it.key = k;
            it.val = v;
            res = 0;
        }
    }
    if (res == 0) {
        srelease(it.key);
        srelease(it.val);
    }
    return res;
}

static void m_check_content(cstl_map_t * const m, const unsigned char * in,
                            const int range)
{
    int k, n = 0;
    for (k = 0; k < range; k++) {
        struct mkey probe;
        cstl_map_iterator_t it;
        probe.k = k;
        cstl_map_find(m, &probe, &it);
        if (in[k]) {
            CHECK(!cstl_map_iterator_eq(&it, cstl_map_iterator_end(m)));
            CHECK(((const struct mkey *)it.key)->k == k);
            CHECK(((const struct mval *)it.val)->v == k * 7);
            n++;
        } else {
            CHECK(cstl_map_iterator_eq(&it, cstl_map_iterator_end(m)));
        }
    }
    CHECK(cstl_map_size(m) == (size_t)n);
}

static void map_fill(cstl_map_t * const m, const int owner,
                     unsigned char * const in, const int range,
                     const int nops)
{
    int k;
    for (k = 0; k < nops; k++) {
        const int key = (int)rndn((unsigned)range);
        if (rndn(3) != 0) {
            const int res = m_insert(m, owner, key);
            CHECK(res == (in[key] ? 1 : 0));
            in[key] = 1;
        } else {
            const int res = m_erase(m, key, (int)rndn(2));
            CHECK(res == (in[key] ? 0 : -1));
            in[key] = 0;
        }
    }
}

static void map_clear_checked(cstl_map_t * const m, const int owner,
                              const int mode, const int noclr)
{
    const unsigned long n = cstl_map_size(m);

    if (noclr) {
        /*
         * no callback: the map only frees its own memory; the keys and
         * values stay ours and untouched
         */
        int i;
        cstl_map_clear(m, NULL, NULL);
        for (i = 0; i < NSLOTS; i++) {
            if (S[i].state == S_LIVE && S[i].owner == owner) {
                srelease(S[i].ptr);
            }
        }
    } else {
        MC.ncalls = 0;
        ctx_begin(owner, mode);
        cstl_map_clear(m, m_clr, &priv_token);
        ctx_end(2 * n);
        CHECK(MC.ncalls == n);
    }
    m_check_empty(m);
}

static void map_scenario(cstl_map_t * const m, const int range,
                         const int nops, const int mode, const int noclr)
{
    const int owner = ++owner_seq;
    unsigned char in[64];

    CHECK(range <= 64);
    memset(in, 0, sizeof(in));

    m_check_empty(m);
    map_fill(m, owner, in, range, nops);
    m_check_content(m, in, range);

    map_clear_checked(m, owner, mode, noclr);

    memset(in, 0, sizeof(in));
    map_fill(m, owner, in, range, nops + 3);
    m_check_content(m, in, range);

    map_clear_checked(m, owner, M_FREE, 0);
    map_clear_checked(m, owner, M_REUSE_S, 0);
    map_clear_checked(m, owner, M_FREE, 1);

    release_handed(owner);
    srelease_owner(owner);
}

static void test_map(void)
{
    cstl_map_t m, m2;
    int range, r, mode, n, i;
    int keys[8];

    cstl_map_init(&m, mcmp_, &cmp_priv_token);
    cstl_map_init(&m2, mcmp_, &cmp_priv_token);

    /* init followed by clear, with and without callback */
    cstl_map_clear(&m, NULL, NULL);
    MC.ncalls = 0;
    ctx_begin(++owner_seq, M_FREE);
    cstl_map_clear(&m2, m_clr, &priv_token);
    ctx_end(0);

    /* every insertion order of up to 6 keys */
    for (n = 0; n <= 6; n++) {
        unsigned long cnt = 0;
        for (i = 0; i < n; i++) {
            keys[i] = i;
        }
        do {
            const int owner = ++owner_seq;
            for (i = 0; i < n; i++) {
                CHECK(m_insert(&m, owner, keys[i]) == 0);
            }
            if (n > 2 && (cnt & 1)) {
                CHECK(m_erase(&m, keys[1], (int)(cnt & 2)) == 0);
            }
            map_clear_checked(&m, owner, (int)(cnt % 3), 0);
            release_handed(owner);
            srelease_owner(owner);
            cnt++;
        } while (next_perm(keys, n));
    }

    for (r = 0; r < 12 * SCALE; r++) {
        for (range = 1; range <= 34; range += (range < 8) ? 1 : 5) {
            for (mode = 0; mode < M_COUNT; mode++) {
                if (mode == M_NESTED && (r + range) % 4 != 0) {
                    continue;
                }
                map_scenario((r & 1) ? &m2 : &m, range,
                             (int)rndn(3u * (unsigned)range + 2), mode,
                             (r + range + mode) % 5 == 0);
            }
        }
    }
}

/* ------------------------------------------------------------------ */

int main(void)
{
    arena_init();

    test_bintree();
    sassert_all_free();
    test_rbtree();
    sassert_all_free();
    test_heap();
    sassert_all_free();
    test_slist();
    sassert_all_free();
    test_dlist();
    sassert_all_free();
    test_map();
    sassert_all_free();

    printf("ok: %lu elements handed over by clear, each exactly once\n",
           total_handed);
    return 0;
}
