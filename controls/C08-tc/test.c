/*
 * C08: the map keeps exactly one entry per key and never replaces or
 * loses one silently.
 *
 * Standalone test; uses only the public map API (cstl/map.h). The allocator
 * is observed through the linker's --wrap feature so that "clear releases
 * everything the map allocated" and the documented -1 result of a failed
 * allocation can be checked without looking at any library internals.
 */

#include "cstl/map.h"

#include <stdio.h>
#include <stdlib.h>
#include <string.h>
#include <limits.h>

/* ------------------------------------------------------------------ */
/* allocator observation                                               */

void * __real_malloc(size_t);
void * __real_calloc(size_t, size_t);
void * __real_realloc(void *, size_t);
void __real_free(void *);

static long live_blocks;
static int fail_allocs;
static unsigned long failed_allocs;

void * __wrap_malloc(size_t n)
{
    void * p;
    if (fail_allocs) {
        failed_allocs++;
        return NULL;
    }
    p = __real_malloc(n);
    if (p != NULL) {
        live_blocks++;
    }
    return p;
}

void * __wrap_calloc(size_t n, size_t m)
{
    void * p;
    if (fail_allocs) {
        failed_allocs++;
        return NULL;
    }
    p = __real_calloc(n, m);
    if (p != NULL) {
        live_blocks++;
    }
    return p;
}

void * __wrap_realloc(void * q, size_t n)
{
    void * p;
    if (fail_allocs) {
        failed_allocs++;
        return NULL;
    }
    p = __real_realloc(q, n);
    if (q == NULL && p != NULL) {
        live_blocks++;
    } else if (q != NULL && n == 0 && p == NULL) {
        live_blocks--;
    }
    return p;
}

void __wrap_free(void * p)
{
    if (p != NULL) {
        live_blocks--;
    }
    __real_free(p);
}

/* ------------------------------------------------------------------ */

#define CHECK(COND)                                                     \
    do {                                                                \
        if (!(COND)) {                                                  \
            fprintf(stderr, "%s:%d: check failed: %s\n",                \
                    __FILE__, __LINE__, #COND);                         \
            exit(1);                                                    \
        }                                                               \
    } while (0)

static unsigned long rng_state = 88172645463325252UL;
static unsigned long rnd(void)
{
    /* xorshift64 */
    rng_state ^= rng_state << 13;
    rng_state ^= rng_state >> 7;
    rng_state ^= rng_state << 17;
    return rng_state >> 11;
}

/* ------------------------------------------------------------------ */
/* keys, values, comparison functions                                  */

#define MAXU 256       /* largest key universe */
#define NALIAS 3       /* distinct key objects that compare equal */

struct kobj
{
    int v;
    int alias;
};

static struct kobj keys[NALIAS][MAXU];
static int vals[NALIAS][MAXU];

static void keys_init(void)
{
    int a, k;
    for (a = 0; a < NALIAS; a++) {
        for (k = 0; k < MAXU; k++) {
            keys[a][k].v = k;
            keys[a][k].alias = a;
            vals[a][k] = 1000 * a + k;
        }
    }
}

static unsigned long cmp_calls;
static int cmp_cookie;

static int cmp_asc(const void * const a, const void * const b, void * const p)
{
    const struct kobj * const x = a, * const y = b;
    CHECK(p == &cmp_cookie);
    cmp_calls++;
    return (x->v > y->v) - (x->v < y->v);
}

static int cmp_desc(const void * const a, const void * const b, void * const p)
{
    const struct kobj * const x = a, * const y = b;
    CHECK(p == NULL);
    cmp_calls++;
    return (y->v > x->v) - (y->v < x->v);
}

/* only the sign of the result is meaningful */
static int cmp_wide(const void * const a, const void * const b, void * const p)
{
    const struct kobj * const x = a, * const y = b;
    CHECK(p == &cmp_cookie);
    cmp_calls++;
    if (x->v < y->v) {
        return (x->v & 1) ? INT_MIN : -7;
    } else if (x->v > y->v) {
        return (y->v & 1) ? INT_MAX : 1234;
    }
    return 0;
}

/* keys are equal when they agree modulo *p: several key values, one entry */
static int cmp_mod(const void * const a, const void * const b, void * const p)
{
    const struct kobj * const x = a, * const y = b;
    const int m = *(int *)p;
    cmp_calls++;
    return (x->v % m) - (y->v % m);
}

/* bit-reversed order of the low 8 bits: an "unnatural" total order */
static int bitrev8(int v)
{
    int r = 0, i;
    for (i = 0; i < 8; i++) {
        r = (r << 1) | ((v >> i) & 1);
    }
    return r;
}
static int cmp_bitrev(const void * const a, const void * const b,
                      void * const p)
{
    const struct kobj * const x = a, * const y = b;
    (void)p;
    cmp_calls++;
    return bitrev8(x->v) - bitrev8(y->v);
}

/*
 * a comparison function that itself uses ANOTHER map object: the rank of
 * each key is looked up in 'rank_map' (kobj -> int, ordered by cmp_desc)
 */
static cstl_map_t rank_map;
static int rank_of[MAXU];
static int cmp_via_map(const void * const a, const void * const b,
                       void * const p)
{
    cstl_map_iterator_t ia, ib;
    CHECK(p == &rank_map);
    cmp_calls++;
    cstl_map_find(&rank_map, a, &ia);
    cstl_map_find(&rank_map, b, &ib);
    CHECK(!cstl_map_iterator_eq(&ia, cstl_map_iterator_end(&rank_map)));
    CHECK(!cstl_map_iterator_eq(&ib, cstl_map_iterator_end(&rank_map)));
    return *(int *)ia.val - *(int *)ib.val;
}

/* keys may legitimately be NULL if the comparison function copes */
static int cmp_nullable(const void * const a, const void * const b,
                        void * const p)
{
    const struct kobj * const x = a, * const y = b;
    const int xv = (x == NULL) ? -1 : x->v;
    const int yv = (y == NULL) ? -1 : y->v;
    (void)p;
    cmp_calls++;
    return (xv > yv) - (xv < yv);
}

/* ------------------------------------------------------------------ */
/* a map together with its model                                       */

struct world
{
    cstl_map_t map;

    int universe;               /* key values 0 .. universe-1 */
    int classes;                /* number of distinct keys under cmp */
    int (*cls)(const struct world *, int);

    int present[MAXU];
    const void * key[MAXU];
    void * val[MAXU];
    size_t n;

    long baseline;              /* live blocks when the map was empty */

    /* clear bookkeeping */
    int seen[MAXU];
    size_t cleared;
    int modulus;
};

static int cls_ident(const struct world * const w, const int k)
{
    (void)w;
    return k;
}

static int cls_mod(const struct world * const w, const int k)
{
    return k % w->modulus;
}

static void world_init(struct world * const w, const int universe,
                       cstl_compare_func_t * const cmp, void * const priv)
{
    memset(w->present, 0, sizeof(w->present));
    w->n = 0;
    w->universe = universe;
    w->classes = universe;
    w->cls = cls_ident;
    w->baseline = live_blocks;
    cstl_map_init(&w->map, cmp, priv);
    CHECK(cstl_map_size(&w->map) == 0);
    CHECK(live_blocks == w->baseline);
}

static int is_end(const struct world * const w,
                  const cstl_map_iterator_t * const i)
{
    return cstl_map_iterator_eq(i, cstl_map_iterator_end(&w->map));
}

static void w_find(struct world * const w, const int k, const int alias)
{
    const int c = w->cls(w, k);
    cstl_map_iterator_t i;

    memset(&i, 0x5a, sizeof(i));
    cstl_map_find(&w->map, &keys[alias][k], &i);
    if (w->present[c]) {
        CHECK(!is_end(w, &i));
        CHECK(i.key == w->key[c]);
        CHECK(i.val == w->val[c]);
    } else {
        CHECK(is_end(w, &i));
    }
    CHECK(cstl_map_size(&w->map) == w->n);
}

static void w_verify(struct world * const w)
{
    int k;
    size_t cnt = 0;
    for (k = 0; k < w->universe; k++) {
        w_find(w, k, k % NALIAS);
        if (w->cls(w, k) == k && w->present[k]) {
            cnt++;
        }
    }
    CHECK(cnt == w->n);
    CHECK(cstl_map_size(&w->map) == w->n);
    CHECK(live_blocks >= w->baseline);
}

/* mode: 0 = pass an iterator, 1 = pass NULL */
static void w_insert(struct world * const w, const int k, const int alias,
                     const int mode)
{
    const int c = w->cls(w, k);
    const void * const key = &keys[alias][k];
    void * const val = (alias == 2 && (k % 5) == 0) ? NULL : &vals[alias][k];
    cstl_map_iterator_t i;
    int r;

    memset(&i, 0x5a, sizeof(i));
    r = cstl_map_insert(&w->map, key, val, mode ? NULL : &i);
    if (w->present[c]) {
        CHECK(r == 1);
        if (!mode) {
            CHECK(!is_end(w, &i));
            CHECK(i.key == w->key[c]);
            CHECK(i.val == w->val[c]);
        }
    } else {
        CHECK(r == 0);
        w->present[c] = 1;
        w->key[c] = key;
        w->val[c] = val;
        w->n++;
        if (!mode) {
            CHECK(!is_end(w, &i));
            CHECK(i.key == key);
            CHECK(i.val == val);
        }
    }
    CHECK(cstl_map_size(&w->map) == w->n);
    /* whatever happened, the stored pointers are the model's */
    w_find(w, k, (alias + 1) % NALIAS);
}

/* an insertion during which every allocation attempt fails */
static void w_insert_nomem(struct world * const w, const int k,
                           const int alias)
{
    const int c = w->cls(w, k);
    const void * const key = &keys[alias][k];
    void * const val = &vals[alias][k];
    cstl_map_iterator_t i;
    int r;

    memset(&i, 0x5a, sizeof(i));
    fail_allocs = 1;
    r = cstl_map_insert(&w->map, key, val, &i);
    fail_allocs = 0;

    if (r == -1) {
        /* documented: failed to allocate; nothing may have changed */
    } else if (w->present[c]) {
        CHECK(r == 1);
        CHECK(!is_end(w, &i));
        CHECK(i.key == w->key[c]);
        CHECK(i.val == w->val[c]);
    } else {
        /* succeeded without needing the allocator */
        CHECK(r == 0);
        w->present[c] = 1;
        w->key[c] = key;
        w->val[c] = val;
        w->n++;
        CHECK(!is_end(w, &i));
        CHECK(i.key == key);
        CHECK(i.val == val);
    }
    CHECK(cstl_map_size(&w->map) == w->n);
    w_find(w, k, alias);
}

/* mode: 0 = pass an iterator, 1 = pass NULL */
static void w_erase(struct world * const w, const int k, const int alias,
                    const int mode)
{
    const int c = w->cls(w, k);
    cstl_map_iterator_t i;
    int r;

    memset(&i, 0x5a, sizeof(i));
    r = cstl_map_erase(&w->map, &keys[alias][k], mode ? NULL : &i);
    if (w->present[c]) {
        CHECK(r == 0);
        if (!mode) {
            CHECK(i.key == w->key[c]);
            CHECK(i.val == w->val[c]);
            CHECK(is_end(w, &i));
        }
        w->present[c] = 0;
        w->n--;
    } else {
        CHECK(r == -1);
        if (!mode) {
            CHECK(is_end(w, &i));
        }
    }
    CHECK(cstl_map_size(&w->map) == w->n);
    w_find(w, k, alias);
}

/*
 * erase through an iterator; how: 0 = iterator from find, 1 = iterator
 * from a (refused) insert of the same key. absent keys: nothing to erase
 */
static void w_erase_iter(struct world * const w, const int k, const int alias,
                         const int how)
{
    const int c = w->cls(w, k);
    cstl_map_iterator_t i;

    memset(&i, 0x5a, sizeof(i));
    if (how == 0 || !w->present[c]) {
        cstl_map_find(&w->map, &keys[alias][k], &i);
    } else {
        const int r = cstl_map_insert(&w->map, &keys[alias][k],
                                      &vals[alias][k], &i);
        CHECK(r == 1);
    }

    if (w->present[c]) {
        CHECK(!is_end(w, &i));
        CHECK(i.key == w->key[c]);
        CHECK(i.val == w->val[c]);
        cstl_map_erase_iterator(&w->map, &i);
        /* the caller still needs the pointers to release its objects */
        CHECK(i.key == w->key[c]);
        CHECK(i.val == w->val[c]);
        w->present[c] = 0;
        w->n--;
    } else {
        CHECK(is_end(w, &i));
    }
    CHECK(cstl_map_size(&w->map) == w->n);
    w_find(w, k, alias);
}

/* insert a fresh key and erase it again through the iterator it returned */
static void w_insert_erase_iter(struct world * const w, const int k,
                                const int alias)
{
    const int c = w->cls(w, k);
    cstl_map_iterator_t i;
    int r;

    if (w->present[c]) {
        return;
    }
    r = cstl_map_insert(&w->map, &keys[alias][k], &vals[alias][k], &i);
    CHECK(r == 0);
    CHECK(!is_end(w, &i));
    CHECK(cstl_map_size(&w->map) == w->n + 1);
    cstl_map_erase_iterator(&w->map, &i);
    CHECK(i.key == &keys[alias][k]);
    CHECK(i.val == &vals[alias][k]);
    CHECK(cstl_map_size(&w->map) == w->n);
    w_find(w, k, alias);
}

static int clear_cookie;

static void w_clear_cb(void * const e, void * const p)
{
    const cstl_map_iterator_t * const i = e;
    struct world * const w = p;
    const struct kobj * const ko = i->key;
    int c;

    CHECK(ko != NULL);
    c = w->cls(w, ko->v);
    CHECK(w->present[c]);
    CHECK(i->key == w->key[c]);
    CHECK(i->val == w->val[c]);
    CHECK(w->seen[c] == 0);
    w->seen[c] = 1;
    w->cleared++;
}

static void w_clear(struct world * const w, const int with_cb)
{
    int k;

    memset(w->seen, 0, sizeof(w->seen));
    w->cleared = 0;
    if (with_cb) {
        cstl_map_clear(&w->map, w_clear_cb, w);
        CHECK(w->cleared == w->n);
        for (k = 0; k < w->classes; k++) {
            CHECK(w->seen[k] == w->present[k]);
        }
    } else {
        cstl_map_clear(&w->map, NULL, &clear_cookie);
    }
    memset(w->present, 0, sizeof(w->present));
    w->n = 0;
    CHECK(cstl_map_size(&w->map) == 0);
    /* everything the map allocated has been given back */
    CHECK(live_blocks == w->baseline);
}

static void w_done(struct world * const w)
{
    w_verify(w);
    w_clear(w, 1);
    w_verify(w);
    /* clearing an empty map is harmless, with or without a callback */
    w_clear(w, 1);
    w_clear(w, 0);
    CHECK(live_blocks == w->baseline);
}

/* ------------------------------------------------------------------ */
/* exhaustive: every sequence of exactly 'depth' operations             */

/*
 * operations on a universe of U keys:
 *   per key: insert(alias 0), insert(alias 1), find, erase by key,
 *            erase by iterator
 *   clear
 */
static void apply_op(struct world * const w, const int op, const int step)
{
    const int U = w->universe;
    if (op == 5 * U) {
        w_clear(w, step & 1);
    } else {
        const int k = op % U;
        switch (op / U) {
        case 0: w_insert(w, k, 0, 0); break;
        case 1: w_insert(w, k, 1, step & 1); break;
        case 2: w_find(w, k, 2); break;
        case 3: w_erase(w, k, (step + 1) % NALIAS, (step >> 1) & 1); break;
        case 4: w_erase_iter(w, k, step % NALIAS, step & 1); break;
        }
    }
}

static unsigned long exhaustive(const int U, const int depth,
                                cstl_compare_func_t * const cmp,
                                void * const priv)
{
    const int nops = 5 * U + 1;
    int seq[12];
    unsigned long count = 0;
    int d;

    CHECK(depth <= 12);
    for (d = 0; d < depth; d++) {
        seq[d] = 0;
    }

    for (;;) {
        struct world w;
        world_init(&w, U, cmp, priv);
        for (d = 0; d < depth; d++) {
            apply_op(&w, seq[d], d);
        }
        w_done(&w);
        count++;

        /* next sequence */
        for (d = depth - 1; d >= 0; d--) {
            if (++seq[d] < nops) {
                break;
            }
            seq[d] = 0;
        }
        if (d < 0) {
            break;
        }
    }
    return count;
}

/* ------------------------------------------------------------------ */
/* every insertion order followed by every removal order                */

static int next_perm(int * const a, const int n)
{
    int i = n - 2, j, t;
    while (i >= 0 && a[i] > a[i + 1]) {
        i--;
    }
    if (i < 0) {
        return 0;
    }
    for (j = n - 1; a[j] < a[i]; j--)
        ;
    t = a[i]; a[i] = a[j]; a[j] = t;
    for (i++, j = n - 1; i < j; i++, j--) {
        t = a[i]; a[i] = a[j]; a[j] = t;
    }
    return 1;
}

static void orders(const int n, cstl_compare_func_t * const cmp,
                   void * const priv)
{
    int ins[8], del[8], i;
    unsigned long round = 0;

    for (i = 0; i < n; i++) {
        ins[i] = i;
    }
    do {
        for (i = 0; i < n; i++) {
            del[i] = i;
        }
        do {
            struct world w;
            world_init(&w, n, cmp, priv);
            for (i = 0; i < n; i++) {
                w_insert(&w, ins[i], i % NALIAS, 0);
            }
            for (i = 0; i < n; i++) {
                w_insert(&w, i, (i + 1) % NALIAS, 0);
            }
            w_verify(&w);
            for (i = 0; i < n; i++) {
                if ((round + i) & 1) {
                    w_erase(&w, del[i], 0, 0);
                } else {
                    w_erase_iter(&w, del[i], 1, (round >> 1) & 1);
                }
                if (i == n / 2) {
                    w_verify(&w);
                }
            }
            CHECK(w.n == 0);
            /* an emptied map holds on to nothing of a per-entry nature:
             * filling and clearing it again returns to the baseline */
            w_done(&w);
            round++;
        } while (next_perm(del, n));
    } while (next_perm(ins, n));
}

/* ------------------------------------------------------------------ */
/* long seeded random runs                                              */

static void random_run(const int U, const unsigned long steps,
                       cstl_compare_func_t * const cmp, void * const priv,
                       const int modulus, const unsigned long seed)
{
    struct world w;
    unsigned long s;

    rng_state = seed * 2654435761UL + 88172645463325252UL;
    world_init(&w, U, cmp, priv);
    if (modulus > 0) {
        w.modulus = modulus;
        w.cls = cls_mod;
        w.classes = modulus;
    }

    for (s = 0; s < steps; s++) {
        const unsigned long r = rnd();
        const int k = (int)((r >> 8) % (unsigned long)U);
        const int alias = (int)((r >> 4) % NALIAS);
        /* drift between mostly-growing and mostly-shrinking phases */
        const int grow = ((s / (unsigned long)(4 * U + 1)) & 1) == 0;
        const int op = (int)(r % 16);

        if (op < (grow ? 7 : 3)) {
            w_insert(&w, k, alias, (int)((r >> 20) & 1));
        } else if (op < 10) {
            w_erase(&w, k, alias, (int)((r >> 20) & 1));
        } else if (op < 12) {
            w_erase_iter(&w, k, alias, (int)((r >> 20) & 1));
        } else if (op < 13) {
            w_insert_erase_iter(&w, k, alias);
        } else if (op < 14) {
            w_insert_nomem(&w, k, alias);
        } else {
            w_find(&w, k, alias);
        }

        if ((r >> 24) % 1024 == 0) {
            w_verify(&w);
        }
        if ((r >> 34) % 8192 == 0) {
            w_verify(&w);
            w_clear(&w, (int)((r >> 21) & 1));
            w_verify(&w);
        }
    }

    w_done(&w);
}

/* monotone fills and drains: the worst case for an unbalanced tree */
static void ramps(const int U)
{
    struct world w;
    int k, round;

    for (round = 0; round < 6; round++) {
        world_init(&w, U, cmp_asc, &cmp_cookie);
        for (k = 0; k < U; k++) {
            const int kk = (round & 1) ? U - 1 - k : k;
            w_insert(&w, kk, 0, 0);
        }
        w_verify(&w);
        for (k = 0; k < U; k++) {
            w_insert(&w, k, 1, 0);      /* all refused */
        }
        w_verify(&w);
        switch (round / 2) {
        case 0:
            for (k = 0; k < U; k++) {
                w_erase(&w, k, 2, 0);
            }
            break;
        case 1:
            for (k = U - 1; k >= 0; k--) {
                w_erase_iter(&w, k, 2, k & 1);
            }
            break;
        case 2:
            /* inside out */
            for (k = 0; k < U; k++) {
                const int kk = (k & 1) ? U / 2 - (k + 1) / 2 : U / 2 + k / 2;
                if (kk >= 0 && kk < U) {
                    w_erase(&w, kk, 1, 1);
                }
            }
            break;
        }
        w_verify(&w);
        w_done(&w);
    }
}

/* ------------------------------------------------------------------ */
/* several maps of different key types at once; callbacks touching      */
/* other containers                                                     */

static int cmp_str(const void * const a, const void * const b, void * const p)
{
    (void)p;
    return strcmp(a, b);
}

struct mover
{
    cstl_map_t * dst;
    size_t moved;
};

/* clear callback that re-files every entry into another map */
static void move_cb(void * const e, void * const p)
{
    const cstl_map_iterator_t * const i = e;
    struct mover * const mv = p;
    cstl_map_iterator_t j;
    const int r = cstl_map_insert(mv->dst, i->key, i->val, &j);
    CHECK(r == 0);
    CHECK(j.key == i->key);
    CHECK(j.val == i->val);
    mv->moved++;
}

static void mixed(void)
{
    static const char * const words[] = {
        "", "a", "aa", "ab", "b", "ba", "zebra", "yak", "emu", "gnu",
        "ox", "ant", "bee", "cat", "dog", "eel", "fox", "hen", "jay", "koi",
    };
    enum { NW = sizeof(words) / sizeof(words[0]) };
    char copies[NW][8];
    int wv[NW];

    const long base = live_blocks;
    cstl_map_t sm, im, im2;
    cstl_map_iterator_t i;
    struct mover mv;
    int k, r;

    cstl_map_init(&sm, cmp_str, NULL);
    cstl_map_init(&im, cmp_desc, NULL);
    cstl_map_init(&im2, cmp_asc, &cmp_cookie);

    for (k = 0; k < NW; k++) {
        strcpy(copies[k], words[k]);
        wv[k] = k;

        r = cstl_map_insert(&sm, words[k], &wv[k], &i);
        CHECK(r == 0 && i.key == words[k] && i.val == &wv[k]);
        r = cstl_map_insert(&im, &keys[0][k], (void *)words[k], NULL);
        CHECK(r == 0);
        CHECK(cstl_map_size(&sm) == (size_t)k + 1);
        CHECK(cstl_map_size(&im) == (size_t)k + 1);
    }

    for (k = 0; k < NW; k++) {
        /* equal string, different object: refused, original kept */
        r = cstl_map_insert(&sm, copies[k], NULL, &i);
        CHECK(r == 1);
        CHECK(i.key == words[k] && i.val == &wv[k]);
        cstl_map_find(&sm, copies[k], &i);
        CHECK(!cstl_map_iterator_eq(&i, cstl_map_iterator_end(&sm)));
        CHECK(i.key == words[k] && i.val == &wv[k]);

        cstl_map_find(&im, &keys[1][k], &i);
        CHECK(!cstl_map_iterator_eq(&i, cstl_map_iterator_end(&im)));
        CHECK(i.key == &keys[0][k] && i.val == (void *)words[k]);
    }
    CHECK(cstl_map_size(&sm) == NW);

    cstl_map_find(&sm, "nope", &i);
    CHECK(cstl_map_iterator_eq(&i, cstl_map_iterator_end(&sm)));
    r = cstl_map_erase(&sm, "nope", &i);
    CHECK(r == -1);
    CHECK(cstl_map_iterator_eq(&i, cstl_map_iterator_end(&sm)));
    r = cstl_map_erase(&sm, "nope", NULL);
    CHECK(r == -1);
    CHECK(cstl_map_size(&sm) == NW);

    for (k = 0; k < NW; k += 2) {
        r = cstl_map_erase(&sm, copies[k], &i);
        CHECK(r == 0);
        CHECK(i.key == words[k] && i.val == &wv[k]);
        CHECK(cstl_map_iterator_eq(&i, cstl_map_iterator_end(&sm)));
        r = cstl_map_erase(&sm, copies[k], &i);
        CHECK(r == -1);
    }
    CHECK(cstl_map_size(&sm) == NW / 2);
    CHECK(cstl_map_size(&im) == NW);

    /* clear 'im' with a callback that fills 'im2' (another object) */
    mv.dst = &im2;
    mv.moved = 0;
    cstl_map_clear(&im, move_cb, &mv);
    CHECK(mv.moved == NW);
    CHECK(cstl_map_size(&im) == 0);
    CHECK(cstl_map_size(&im2) == NW);
    for (k = 0; k < NW; k++) {
        cstl_map_find(&im, &keys[2][k], &i);
        CHECK(cstl_map_iterator_eq(&i, cstl_map_iterator_end(&im)));
        cstl_map_find(&im2, &keys[2][k], &i);
        CHECK(!cstl_map_iterator_eq(&i, cstl_map_iterator_end(&im2)));
        CHECK(i.key == &keys[0][k] && i.val == (void *)words[k]);
    }

    /* and back again: 'im' is usable after having been cleared */
    mv.dst = &im;
    mv.moved = 0;
    cstl_map_clear(&im2, move_cb, &mv);
    CHECK(mv.moved == NW);
    CHECK(cstl_map_size(&im) == NW);
    CHECK(cstl_map_size(&im2) == 0);

    cstl_map_clear(&sm, NULL, NULL);
    cstl_map_clear(&im, NULL, NULL);
    cstl_map_clear(&im2, NULL, NULL);
    CHECK(cstl_map_size(&sm) == 0);
    CHECK(live_blocks == base);
}

/* keys ordered through a lookup in another map */
static void via_other_map(void)
{
    const long base = live_blocks;
    int k;

    cstl_map_init(&rank_map, cmp_desc, NULL);
    for (k = 0; k < 64; k++) {
        rank_of[k] = (k * 37) % 64;     /* a permutation of 0..63 */
        CHECK(cstl_map_insert(&rank_map, &keys[0][k], &rank_of[k], NULL)
              == 0);
    }

    random_run(64, 40000, cmp_via_map, &rank_map, 0, 77);
    CHECK(exhaustive(2, 5, cmp_via_map, &rank_map) > 0);

    CHECK(cstl_map_size(&rank_map) == 64);
    cstl_map_clear(&rank_map, NULL, NULL);
    CHECK(live_blocks == base);
}

/* NULL keys and NULL values are pointers like any other */
static void null_pointers(void)
{
    const long base = live_blocks;
    cstl_map_t m;
    cstl_map_iterator_t i;
    int r, v = 5;

    cstl_map_init(&m, cmp_nullable, NULL);

    r = cstl_map_insert(&m, &keys[0][3], NULL, &i);
    CHECK(r == 0 && i.key == &keys[0][3] && i.val == NULL);
    CHECK(!cstl_map_iterator_eq(&i, cstl_map_iterator_end(&m)));

    r = cstl_map_insert(&m, NULL, &v, &i);
    CHECK(r == 0 && i.key == NULL && i.val == &v);
    CHECK(!cstl_map_iterator_eq(&i, cstl_map_iterator_end(&m)));
    CHECK(cstl_map_size(&m) == 2);

    r = cstl_map_insert(&m, NULL, NULL, &i);
    CHECK(r == 1 && i.key == NULL && i.val == &v);
    CHECK(!cstl_map_iterator_eq(&i, cstl_map_iterator_end(&m)));

    cstl_map_find(&m, NULL, &i);
    CHECK(!cstl_map_iterator_eq(&i, cstl_map_iterator_end(&m)));
    CHECK(i.key == NULL && i.val == &v);

    cstl_map_find(&m, &keys[1][3], &i);
    CHECK(!cstl_map_iterator_eq(&i, cstl_map_iterator_end(&m)));
    CHECK(i.key == &keys[0][3] && i.val == NULL);

    r = cstl_map_erase(&m, NULL, &i);
    CHECK(r == 0 && i.key == NULL && i.val == &v);
    CHECK(cstl_map_iterator_eq(&i, cstl_map_iterator_end(&m)));
    CHECK(cstl_map_size(&m) == 1);

    cstl_map_find(&m, NULL, &i);
    CHECK(cstl_map_iterator_eq(&i, cstl_map_iterator_end(&m)));

    r = cstl_map_erase(&m, &keys[2][3], &i);
    CHECK(r == 0 && i.key == &keys[0][3] && i.val == NULL);
    CHECK(cstl_map_size(&m) == 0);

    cstl_map_clear(&m, NULL, NULL);
    CHECK(live_blocks == base);
}

/* a map that lives on the heap, and one with static storage */
static cstl_map_t static_map;

static void storage_classes(void)
{
    const long base = live_blocks;
    cstl_map_t * const hm = __real_malloc(sizeof(*hm));
    cstl_map_iterator_t i;
    int k;

    CHECK(hm != NULL);
    cstl_map_init(hm, cmp_bitrev, NULL);
    cstl_map_init(&static_map, cmp_wide, &cmp_cookie);

    for (k = 0; k < 200; k++) {
        CHECK(cstl_map_insert(hm, &keys[0][k], &vals[0][k], NULL) == 0);
        CHECK(cstl_map_insert(&static_map, &keys[1][k], &vals[1][k], NULL)
              == 0);
    }
    for (k = 0; k < 200; k++) {
        CHECK(cstl_map_insert(hm, &keys[1][k], &vals[1][k], &i) == 1);
        CHECK(i.key == &keys[0][k] && i.val == &vals[0][k]);
        CHECK(cstl_map_insert(&static_map, &keys[0][k], &vals[0][k], &i)
              == 1);
        CHECK(i.key == &keys[1][k] && i.val == &vals[1][k]);
    }
    CHECK(cstl_map_size(hm) == 200);
    CHECK(cstl_map_size(&static_map) == 200);

    cstl_map_clear(hm, NULL, NULL);
    cstl_map_clear(&static_map, NULL, NULL);
    __real_free(hm);
    CHECK(live_blocks == base);
}

/* ------------------------------------------------------------------ */

int main(void)
{
    static int three = 3, seven = 7;
    unsigned long n = 0;
    unsigned long seed;

    keys_init();

    null_pointers();
    storage_classes();
    mixed();

    /* exhaustive over short sequences on small key universes */
    n += exhaustive(1, 7, cmp_asc, &cmp_cookie);
    n += exhaustive(2, 5, cmp_desc, NULL);
    n += exhaustive(2, 6, cmp_asc, &cmp_cookie);
    n += exhaustive(3, 4, cmp_asc, &cmp_cookie);
    n += exhaustive(3, 5, cmp_wide, &cmp_cookie);
    n += exhaustive(4, 4, cmp_bitrev, NULL);
    n += exhaustive(6, 3, cmp_desc, NULL);

    /* every insertion order x every removal order */
    orders(1, cmp_asc, &cmp_cookie);
    orders(2, cmp_asc, &cmp_cookie);
    orders(3, cmp_desc, NULL);
    orders(4, cmp_wide, &cmp_cookie);
    orders(5, cmp_asc, &cmp_cookie);
    orders(6, cmp_bitrev, NULL);

    ramps(1);
    ramps(2);
    ramps(3);
    ramps(17);
    ramps(128);
    ramps(MAXU);

    /* seeded random over long sequences */
    for (seed = 1; seed <= 6; seed++) {
        random_run(4, 20000, cmp_asc, &cmp_cookie, 0, seed);
        random_run(16, 30000, cmp_desc, NULL, 0, seed);
        random_run(64, 40000, cmp_wide, &cmp_cookie, 0, seed);
        random_run(MAXU, 60000, cmp_bitrev, NULL, 0, seed);
        /* coarse comparison functions: many key values, few keys */
        random_run(60, 30000, cmp_mod, &three, 3, seed);
        random_run(MAXU, 30000, cmp_mod, &seven, 7, seed);
    }

    via_other_map();

    CHECK(live_blocks == 0);
    CHECK(cmp_calls > 0);
    CHECK(failed_allocs > 0);

    printf("C08 ok: %lu exhaustive sequences, %lu comparisons, "
           "%lu refused allocations\n", n, cmp_calls, failed_allocs);
    return 0;
}
