/*
 * C07: the heap always yields a maximum element.
 *
 * Standalone test, public API only (cstl/heap.h).  Every operation on a
 * heap under test is mirrored in a model (the set of elements that are
 * currently inside); after every operation the test checks
 *   - cstl_heap_size() equals the model count,
 *   - cstl_heap_get() is NULL iff the model is empty, otherwise it is an
 *     element of the model and compares >= every element of the model,
 *   - cstl_heap_pop() returns exactly what cstl_heap_get() announced and
 *     removes exactly that element.
 * Completeness of the tree is private state; it is exercised indirectly:
 * the library locates the next free slot and the last element from the
 * size alone, so a tree that is not complete loses or duplicates elements
 * or crashes, all of which the model catches.
 */
#include "cstl/heap.h"

#include <stdio.h>
#include <stdlib.h>
#include <string.h>
#include <limits.h>
#include <stdint.h>

static unsigned long failures;

#define CHECK(COND)                                                     \
    do {                                                                \
        if (!(COND)) {                                                  \
            fprintf(stderr, "%s:%d: check failed: %s\n",                \
                    __FILE__, __LINE__, #COND);                         \
            if (++failures > 20) {                                      \
                exit(1);                                                \
            }                                                           \
        }                                                               \
    } while (0)

/* deterministic prng (xorshift64*) */
static uint64_t rng_state = 0x9e3779b97f4a7c15ull;
static uint64_t rnd(void)
{
    rng_state ^= rng_state >> 12;
    rng_state ^= rng_state << 25;
    rng_state ^= rng_state >> 27;
    return rng_state * 0x2545f4914f6cdd1dull;
}
static unsigned int rndn(const unsigned int n)
{
    return (unsigned int)(rnd() % n);
}

/* ------------------------------------------------------------------ */
/* element type 1: int priority, node in the middle of the object      */

struct item
{
    int prio;
    int live;                   /* currently inside a heap */
    const void * owner;         /* which heap */
    unsigned long id;
    struct cstl_heap_node hn;
    int tail;
};

static unsigned long item_cmp_calls;

static int item_cmp(const void * const a, const void * const b,
                    void * const priv)
{
    const struct item * const x = a, * const y = b;
    (void)priv;
    item_cmp_calls++;
    return (x->prio > y->prio) - (x->prio < y->prio);
}

/* same order, but returns big magnitudes: only the sign may matter */
static int item_cmp_big(const void * const a, const void * const b,
                        void * const priv)
{
    const int r = item_cmp(a, b, priv);
    return r > 0 ? INT_MAX : (r < 0 ? INT_MIN : 0);
}

/* reversed order selected through priv: a "min heap" */
static int item_cmp_dir(const void * const a, const void * const b,
                        void * const priv)
{
    const int dir = *(const int *)priv;
    return dir * item_cmp(a, b, NULL);
}

/* a model: the elements that are in the heap */
struct model
{
    struct item ** v;
    size_t n, cap;
};

static void model_add(struct model * const m, struct item * const it)
{
    if (m->n == m->cap) {
        m->cap = m->cap ? 2 * m->cap : 16;
        m->v = realloc(m->v, m->cap * sizeof(*m->v));
        if (m->v == NULL) {
            abort();
        }
    }
    m->v[m->n++] = it;
}

static void model_del(struct model * const m, const struct item * const it)
{
    size_t i;
    for (i = 0; i < m->n; i++) {
        if (m->v[i] == it) {
            m->v[i] = m->v[--m->n];
            return;
        }
    }
    CHECK(!"popped element not in model");
}

/* full check of get() against the model; O(n) */
static void check_top(const struct cstl_heap * const h,
                      const struct model * const m,
                      cstl_compare_func_t * const cmp, void * const priv)
{
    const struct item * const g = cstl_heap_get(h);
    size_t i;

    CHECK(cstl_heap_size(h) == m->n);
    if (m->n == 0) {
        CHECK(g == NULL);
        return;
    }
    CHECK(g != NULL);
    if (g == NULL) {
        return;
    }
    CHECK(g->live == 1);
    CHECK(g->owner == h);
    for (i = 0; i < m->n; i++) {
        CHECK(cmp(g, m->v[i], priv) >= 0);
    }
    /* get is idempotent */
    CHECK(cstl_heap_get(h) == g);
    CHECK(cstl_heap_size(h) == m->n);
}

static void do_push(struct cstl_heap * const h, struct model * const m,
                    struct item * const it,
                    cstl_compare_func_t * const cmp, void * const priv)
{
    CHECK(it->live == 0);
    it->live = 1;
    it->owner = h;
    it->tail = 0x5a5a;
    cstl_heap_push(h, it);
    model_add(m, it);
    check_top(h, m, cmp, priv);
}

static struct item * do_pop(struct cstl_heap * const h, struct model * const m,
                            cstl_compare_func_t * const cmp, void * const priv)
{
    const struct item * const g = cstl_heap_get(h);
    struct item * const p = cstl_heap_pop(h);

    CHECK(p == g);
    if (m->n == 0) {
        CHECK(p == NULL);
        CHECK(cstl_heap_size(h) == 0);
        CHECK(cstl_heap_get(h) == NULL);
    } else {
        CHECK(p != NULL);
        if (p != NULL) {
            CHECK(p->live == 1);
            CHECK(p->owner == h);
            CHECK(p->tail == 0x5a5a);
            p->live = 0;
            p->owner = NULL;
            model_del(m, p);
        }
    }
    check_top(h, m, cmp, priv);
    return p;
}

/* ------------------------------------------------------------------ */
/* 1. exhaustive: every push/pop sequence of a given length            */

static void exhaustive(const unsigned int nprio, const unsigned int len,
                       const int use_init)
{
    /* alphabet: 0..nprio-1 = push that priority, nprio = pop */
    const unsigned int alpha = nprio + 1;
    unsigned int seq[16];
    struct item pool[16];
    struct model m = { NULL, 0, 0 };
    unsigned long total = 1, s;
    unsigned int i;

    for (i = 0; i < len; i++) {
        total *= alpha;
    }

    for (s = 0; s < total; s++) {
        DECLARE_CSTL_HEAP(hs, struct item, hn, item_cmp, NULL);
        struct cstl_heap hi;
        struct cstl_heap * h;
        unsigned long t = s;

        if (use_init) {
            memset(&hi, 0xa5, sizeof(hi));
            cstl_heap_init(&hi, item_cmp, NULL, offsetof(struct item, hn));
            h = &hi;
        } else {
            h = &hs;
        }

        for (i = 0; i < len; i++) {
            seq[i] = t % alpha;
            t /= alpha;
        }

        m.n = 0;
        check_top(h, &m, item_cmp, NULL);
        for (i = 0; i < len; i++) {
            if (seq[i] == nprio) {
                do_pop(h, &m, item_cmp, NULL);
            } else {
                memset(&pool[i], 0xff, sizeof(pool[i]));
                pool[i].prio = (int)seq[i];
                pool[i].live = 0;
                pool[i].id = i;
                do_push(h, &m, &pool[i], item_cmp, NULL);
            }
        }
        /* drain: non-increasing priorities, everything comes back once */
        {
            int last = INT_MAX;
            while (m.n > 0) {
                const struct item * const p = do_pop(h, &m, item_cmp, NULL);
                if (p == NULL) {
                    break;
                }
                CHECK(p->prio <= last);
                last = p->prio;
            }
            CHECK(do_pop(h, &m, item_cmp, NULL) == NULL);
            CHECK(do_pop(h, &m, item_cmp, NULL) == NULL);
        }
    }
    free(m.v);
}

/* ------------------------------------------------------------------ */
/* 2. every heap size across the level boundaries: fill, drain          */

static void sizes(const size_t maxn, const int pattern)
{
    struct item * const pool = calloc(maxn, sizeof(*pool));
    size_t n;

    if (pool == NULL) {
        abort();
    }
    for (n = 0; n <= maxn; n = (n < 70 ? n + 1 : n + 1 + n / 9)) {
        DECLARE_CSTL_HEAP(h, struct item, hn, item_cmp_big, NULL);
        size_t i;
        int last = INT_MAX;
        unsigned long cnt = 0;

        for (i = 0; i < n; i++) {
            struct item * const it = &pool[i];
            memset(it, 0, sizeof(*it));
            switch (pattern) {
            case 0: it->prio = (int)i; break;                 /* ascending */
            case 1: it->prio = (int)(n - i); break;           /* descending */
            case 2: it->prio = 7; break;                      /* all equal */
            case 3: it->prio = (int)(i % 2); break;           /* two values */
            case 4: it->prio = (i % 2) ? INT_MAX : INT_MIN; break;
            default: it->prio = (int)rndn(1 + (unsigned int)n / 3); break;
            }
            it->live = 1;
            it->owner = &h;
            cstl_heap_push(&h, it);
            CHECK(cstl_heap_size(&h) == i + 1);
            CHECK(cstl_heap_get(&h) != NULL);
        }
        for (i = 0; i < n; i++) {
            const struct item * const g = cstl_heap_get(&h);
            struct item * const p = cstl_heap_pop(&h);
            CHECK(p != NULL && p == g);
            if (p == NULL) {
                break;
            }
            CHECK(p->live == 1 && p->owner == &h);
            p->live = 0;
            CHECK(p->prio <= last);
            last = p->prio;
            cnt++;
            CHECK(cstl_heap_size(&h) == n - i - 1);
        }
        CHECK(cnt == n);
        CHECK(cstl_heap_size(&h) == 0);
        CHECK(cstl_heap_get(&h) == NULL);
        CHECK(cstl_heap_pop(&h) == NULL);
        CHECK(cstl_heap_size(&h) == 0);
        for (i = 0; i < n; i++) {
            CHECK(pool[i].live == 0);
        }
    }
    free(pool);
}

/* ------------------------------------------------------------------ */
/* 3. long random interleavings, nodes re-used after pop                */

static void random_small(const unsigned int rounds, const unsigned int nitems,
                         const unsigned int nprio, const unsigned int pushpct)
{
    struct item * const pool = calloc(nitems, sizeof(*pool));
    struct model m = { NULL, 0, 0 };
    int dir = (nprio % 2) ? 1 : -1;
    struct cstl_heap h;
    unsigned int r, i;

    if (pool == NULL) {
        abort();
    }
    cstl_heap_init(&h, item_cmp_dir, &dir, offsetof(struct item, hn));
    for (i = 0; i < nitems; i++) {
        pool[i].id = i;
    }

    for (r = 0; r < rounds; r++) {
        if (rndn(100) < pushpct) {
            /* pick a free item, if there is one */
            unsigned int k = rndn(nitems), tries = 0;
            while (pool[k].live && tries < nitems) {
                k = (k + 1) % nitems;
                tries++;
            }
            if (!pool[k].live) {
                switch (rndn(8)) {
                case 0: pool[k].prio = INT_MAX; break;
                case 1: pool[k].prio = INT_MIN; break;
                default: pool[k].prio = (int)rndn(nprio) - (int)(nprio / 2);
                }
                do_push(&h, &m, &pool[k], item_cmp_dir, &dir);
                continue;
            }
        }
        do_pop(&h, &m, item_cmp_dir, &dir);
    }
    while (m.n > 0) {
        if (do_pop(&h, &m, item_cmp_dir, &dir) == NULL) {
            break;
        }
    }
    CHECK(cstl_heap_pop(&h) == NULL);
    free(m.v);
    free(pool);
}

/*
 * larger heaps: the model is a count per priority, so the expected
 * maximum is known in O(1) amortised
 */
static void random_large(const unsigned long rounds, const unsigned int nitems,
                         const unsigned int nprio)
{
    struct item * const pool = calloc(nitems, sizeof(*pool));
    struct item ** const freel = calloc(nitems, sizeof(*freel));
    unsigned long * const cnt = calloc(nprio, sizeof(*cnt));
    DECLARE_CSTL_HEAP(h, struct item, hn, item_cmp, NULL);
    size_t nfree = nitems, inside = 0;
    unsigned long r;
    unsigned int i, phase_push = 70;
    int max = -1;

    if (pool == NULL || freel == NULL || cnt == NULL) {
        abort();
    }
    for (i = 0; i < nitems; i++) {
        freel[i] = &pool[i];
    }

    for (r = 0; r < rounds; r++) {
        const struct item * g;

        if (r % 20000 == 0) {
            phase_push = 30 + rndn(45);     /* grow and shrink phases */
        }
        if (nfree > 0 && rndn(100) < phase_push) {
            const size_t k = rndn((unsigned int)nfree);
            struct item * const it = freel[k];
            freel[k] = freel[--nfree];
            it->prio = (int)rndn(nprio);
            it->live = 1;
            it->owner = &h;
            cnt[it->prio]++;
            if (it->prio > max) {
                max = it->prio;
            }
            cstl_heap_push(&h, it);
            inside++;
        } else {
            g = cstl_heap_get(&h);
            {
                struct item * const p = cstl_heap_pop(&h);
                CHECK(p == g);
                if (inside == 0) {
                    CHECK(p == NULL);
                } else {
                    CHECK(p != NULL);
                    if (p != NULL) {
                        CHECK(p->live == 1 && p->owner == &h);
                        CHECK(p->prio == max);
                        p->live = 0;
                        cnt[p->prio]--;
                        while (max >= 0 && cnt[max] == 0) {
                            max--;
                        }
                        freel[nfree++] = p;
                        inside--;
                    }
                }
            }
        }
        CHECK(cstl_heap_size(&h) == inside);
        g = cstl_heap_get(&h);
        if (inside == 0) {
            CHECK(g == NULL);
        } else {
            CHECK(g != NULL && g->live == 1 && g->prio == max);
        }
    }
    while (inside > 0) {
        struct item * const p = cstl_heap_pop(&h);
        CHECK(p != NULL);
        if (p == NULL) {
            break;
        }
        CHECK(p->live == 1 && p->prio == max);
        p->live = 0;
        cnt[p->prio]--;
        while (max >= 0 && cnt[max] == 0) {
            max--;
        }
        inside--;
        CHECK(cstl_heap_size(&h) == inside);
    }
    CHECK(cstl_heap_get(&h) == NULL && cstl_heap_pop(&h) == NULL);
    for (i = 0; i < nitems; i++) {
        CHECK(pool[i].live == 0);
    }
    free(cnt);
    free(freel);
    free(pool);
}

/* ------------------------------------------------------------------ */
/* 4. other element types; comparator that uses another heap            */

/* node is the first member, key is a double */
struct dnode
{
    struct cstl_heap_node hn;
    double key;
    int live;
};

/* a record pushed into a side heap from inside a comparator */
struct rec
{
    char pad[3];
    struct cstl_heap_node hn;
    unsigned long stamp;
    int live;
};

static int rec_cmp(const void * const a, const void * const b,
                   void * const priv)
{
    const struct rec * const x = a, * const y = b;
    (void)priv;
    return (x->stamp > y->stamp) - (x->stamp < y->stamp);
}

struct side
{
    struct cstl_heap log;       /* heap of struct rec */
    struct rec recs[64];
    unsigned long stamp;
    unsigned long bad;
};

/*
 * comparator for dnode that, while the library is in the middle of a
 * push or a pop on one heap, pushes to and pops from a *different* heap
 */
static int dnode_cmp_side(const void * const a, const void * const b,
                          void * const priv)
{
    struct side * const s = priv;
    const struct dnode * const x = a, * const y = b;
    unsigned int i;

    if (cstl_heap_size(&s->log) >= 48) {
        unsigned long last = ~0ul;
        while (cstl_heap_size(&s->log) > 5) {
            struct rec * const r = cstl_heap_pop(&s->log);
            if (r == NULL || !r->live || r->stamp > last) {
                s->bad++;
                break;
            }
            last = r->stamp;
            r->live = 0;
        }
    }
    for (i = 0; i < 64; i++) {
        if (!s->recs[i].live) {
            s->recs[i].live = 1;
            /* mixes increasing and scattered stamps */
            s->recs[i].stamp = (++s->stamp * 2654435761ul) % 1000;
            cstl_heap_push(&s->log, &s->recs[i]);
            break;
        }
    }
    {
        const struct rec * const top = cstl_heap_get(&s->log);
        if (top == NULL || !top->live) {
            s->bad++;
        }
    }

    return (x->key > y->key) - (x->key < y->key);
}

struct sitem
{
    const char * s;
    struct cstl_heap_node n;
    int live;
};

static int sitem_cmp(const void * const a, const void * const b,
                     void * const priv)
{
    const struct sitem * const x = a, * const y = b;
    (void)priv;
    return strcmp(x->s, y->s);
}

static void other_types(void)
{
    enum { N = 700 };
    static struct dnode dn[N];
    static struct side side;
    struct cstl_heap h;
    unsigned int i, inside = 0, round;

    memset(&side, 0, sizeof(side));
    cstl_heap_init(&side.log, rec_cmp, NULL, offsetof(struct rec, hn));
    cstl_heap_init(&h, dnode_cmp_side, &side, offsetof(struct dnode, hn));

    for (round = 0; round < 30000; round++) {
        const struct dnode * g;
        if (rndn(100) < 55) {
            const unsigned int k = rndn(N);
            if (!dn[k].live) {
                dn[k].live = 1;
                dn[k].key = (double)rndn(40) / 4.0 - 5.0;
                cstl_heap_push(&h, &dn[k]);
                inside++;
            }
        } else {
            g = cstl_heap_get(&h);
            {
                struct dnode * const p = cstl_heap_pop(&h);
                CHECK(p == g);
                if (inside == 0) {
                    CHECK(p == NULL);
                } else {
                    CHECK(p != NULL && p->live);
                    if (p != NULL) {
                        p->live = 0;
                        inside--;
                    }
                }
            }
        }
        CHECK(cstl_heap_size(&h) == inside);
        g = cstl_heap_get(&h);
        CHECK((g == NULL) == (inside == 0));
        if (g != NULL) {
            CHECK(g->live);
            for (i = 0; i < N; i++) {
                if (dn[i].live) {
                    CHECK(g->key >= dn[i].key);
                }
            }
        }
    }
    CHECK(side.bad == 0);
    CHECK(side.stamp > 0);

    /* string keys, strcmp order, static initialiser */
    {
        static const char * const words[] = {
            "pear", "apple", "", "zebra", "apple", "fig", "zebra", "a",
            "aa", "kiwi", "zz", "pear", "m", "", "zebra"
        };
        enum { W = sizeof(words) / sizeof(words[0]) };
        struct sitem si[W];
        struct cstl_heap sh;
        const char * last = NULL;
        unsigned int k;

        cstl_heap_init(&sh, sitem_cmp, NULL, offsetof(struct sitem, n));
        for (k = 0; k < W; k++) {
            si[k].s = words[k];
            si[k].live = 1;
            cstl_heap_push(&sh, &si[k]);
        }
        CHECK(cstl_heap_size(&sh) == W);
        for (k = 0; k < W; k++) {
            struct sitem * const p = cstl_heap_pop(&sh);
            CHECK(p != NULL && p->live);
            if (p == NULL) {
                break;
            }
            p->live = 0;
            if (last != NULL) {
                CHECK(strcmp(p->s, last) <= 0);
            }
            last = p->s;
        }
        CHECK(last != NULL && strcmp(last, "") == 0);
        CHECK(cstl_heap_pop(&sh) == NULL);
    }
}

/* ------------------------------------------------------------------ */
/* 5. clear, swap, re-use                                              */

static unsigned long cleared;
static void clr_item(void * const obj, void * const priv)
{
    struct item * const it = obj;
    (void)priv;
    CHECK(it->live == 1);
    it->live = 0;
    cleared++;
}

static void clear_and_swap(void)
{
    enum { N = 300 };
    static struct item pa[N], pb[N];
    DECLARE_CSTL_HEAP(a, struct item, hn, item_cmp, NULL);
    struct cstl_heap b;
    struct model ma = { NULL, 0, 0 }, mb = { NULL, 0, 0 };
    unsigned int i, na, nb;

    cstl_heap_init(&b, item_cmp, NULL, offsetof(struct item, hn));

    for (na = 0; na < 40; na += 3) {
        for (nb = 0; nb < 40; nb += 7) {
            struct model t;
            memset(pa, 0, sizeof(pa));
            memset(pb, 0, sizeof(pb));
            ma.n = mb.n = 0;
            for (i = 0; i < na; i++) {
                pa[i].prio = (int)rndn(10);
                do_push(&a, &ma, &pa[i], item_cmp, NULL);
            }
            for (i = 0; i < nb; i++) {
                pb[i].prio = 100 + (int)rndn(10);
                do_push(&b, &mb, &pb[i], item_cmp, NULL);
            }
            cstl_heap_swap(&a, &b);
            for (i = 0; i < na; i++) {
                pa[i].owner = &b;
            }
            for (i = 0; i < nb; i++) {
                pb[i].owner = &a;
            }
            t = ma; ma = mb; mb = t;
            check_top(&a, &ma, item_cmp, NULL);
            check_top(&b, &mb, item_cmp, NULL);

            /* keep working on both after the swap */
            for (i = 0; i < 25; i++) {
                if (rndn(2)) {
                    do_pop(&a, &ma, item_cmp, NULL);
                } else {
                    do_pop(&b, &mb, item_cmp, NULL);
                }
                if (rndn(3) == 0) {
                    struct item * const it = &pa[100 + i];
                    const int to_a = (int)rndn(2);
                    it->prio = (int)rndn(120);
                    do_push(to_a ? &a : &b, to_a ? &ma : &mb,
                            it, item_cmp, NULL);
                    check_top(&a, &ma, item_cmp, NULL);
                    check_top(&b, &mb, item_cmp, NULL);
                }
            }

            cleared = 0;
            {
                const size_t ea = ma.n, eb = mb.n;
                cstl_heap_clear(&a, clr_item);
                CHECK(cleared == ea);
                cstl_heap_clear(&b, clr_item);
                CHECK(cleared == ea + eb);
            }
            ma.n = mb.n = 0;
            check_top(&a, &ma, item_cmp, NULL);
            check_top(&b, &mb, item_cmp, NULL);
            CHECK(cstl_heap_pop(&a) == NULL);
            CHECK(cstl_heap_pop(&b) == NULL);
            /* cleared heaps are as good as new */
            {
                const unsigned long before = cleared;
                cstl_heap_clear(&a, clr_item);
                CHECK(cleared == before);
            }
        }
    }
    free(ma.v);
    free(mb.v);
}

/* ------------------------------------------------------------------ */
/* 6. the number of comparisons stays logarithmic                       */

static unsigned int ilog2(size_t n)
{
    unsigned int l = 0;
    while (n > 1) {
        n >>= 1;
        l++;
    }
    return l;
}

static void cost(void)
{
    enum { N = 5000 };
    static struct item pool[N];
    DECLARE_CSTL_HEAP(h, struct item, hn, item_cmp, NULL);
    unsigned int i;

    memset(pool, 0, sizeof(pool));
    for (i = 0; i < N; i++) {
        unsigned long before = item_cmp_calls;
        pool[i].prio = (int)rndn(1000);
        cstl_heap_push(&h, &pool[i]);
        CHECK(item_cmp_calls - before <= ilog2(i + 1) + 1);
    }
    for (i = N; i > 0; i--) {
        unsigned long before = item_cmp_calls;
        CHECK(cstl_heap_pop(&h) != NULL);
        CHECK(item_cmp_calls - before <= 2 * (ilog2(i) + 1));
    }
    CHECK(cstl_heap_pop(&h) == NULL);
}

int main(void)
{
    exhaustive(3, 10, 0);       /* 4^10 sequences, static initialiser */
    exhaustive(2, 12, 1);       /* 3^12 sequences, cstl_heap_init() */
    exhaustive(4, 8, 1);        /* 5^8 */
    exhaustive(1, 14, 0);       /* 2^14: all priorities equal */

    {
        int p;
        for (p = 0; p <= 5; p++) {
            sizes(4200, p);
        }
    }

    random_small(60000, 12, 3, 55);
    random_small(60000, 40, 4, 52);
    random_small(40000, 130, 7, 60);
    random_small(30000, 300, 2, 50);

    random_large(600000ul, 3000, 5);
    random_large(600000ul, 20000, 1000);
    random_large(400000ul, 70000, 3);

    other_types();
    clear_and_swap();
    cost();

    if (failures != 0) {
        fprintf(stderr, "C07: %lu failure(s)\n", failures);
        return 1;
    }
    printf("C07: ok\n");
    return 0;
}
