/*
 * C16 / change c: cstl_shared_ptr_alloc() and, through it, cstl_array_alloc()
 * and cstl_array_set() under injected allocation failures (every subset of
 * the allocator calls of the script), with a clear-callback ledger and a
 * final leak audit.
 *
 * build (from the worktree root, after `make build`):
 *   gcc -std=c99 -D_POSIX_C_SOURCE=199309L -Wall -Wextra -Iinclude -o _keep/c/test _keep/c/test.c build/libcstl.a -lm -Wl,--wrap=malloc,--wrap=realloc,--wrap=calloc,--wrap=free
 * run:
 *   ./_keep/c/test
 */
#include "cstl/memory.h"
#include "cstl/array.h"

#include <stdio.h>
#include <stdlib.h>
#include <string.h>

void * __real_malloc(size_t);
void * __real_realloc(void *, size_t);
void * __real_calloc(size_t, size_t);
void __real_free(void *);

static long live, seen, armed;
static unsigned long fail_mask;

static int should_fail(void)
{
    if (armed) {
        const long n = seen++;
        return n < 64 && ((fail_mask >> n) & 1) != 0;
    }
    return 0;
}

void * __wrap_malloc(size_t n)
{
    void * p;
    if (should_fail()) {
        return NULL;
    }
    p = __real_malloc(n);
    live += (p != NULL);
    return p;
}

void * __wrap_calloc(size_t n, size_t m)
{
    void * p;
    if (should_fail()) {
        return NULL;
    }
    p = __real_calloc(n, m);
    live += (p != NULL);
    return p;
}

void * __wrap_realloc(void * o, size_t n)
{
    void * p;
    if (should_fail()) {
        return NULL;
    }
    p = __real_realloc(o, n);
    if (o == NULL) {
        live += (p != NULL);
    } else if (n == 0 && p == NULL) {
        live--;
    }
    return p;
}

void __wrap_free(void * p)
{
    live -= (p != NULL);
    __real_free(p);
}

#define CHECK(X)                                                        \
    do {                                                                \
        if (!(X)) {                                                     \
            printf("FAIL %s:%d mask=%lx: %s\n",                         \
                   __FILE__, __LINE__, fail_mask, #X);                  \
            exit(1);                                                    \
        }                                                               \
    } while (0)


/* every payload handed out is tagged; the clear callback must see the tag */
static int handed_out, cleared;

static void on_clear(void * const mem, void * const priv)
{
    CHECK(priv == NULL);
    CHECK(mem != NULL);
    CHECK(*(unsigned *)mem == 0xfeedu);
    *(unsigned *)mem = 0;
    cleared++;
}

/* returns 1 if sp now owns fresh memory, 0 if it was left empty */
static int try_alloc(cstl_shared_ptr_t * const sp, const size_t sz)
{
    unsigned * p;
    cstl_shared_ptr_alloc(sp, sz, on_clear);
    p = cstl_shared_ptr_get(sp);
    if (p == NULL) {
        CHECK(cstl_shared_ptr_get_const(sp) == NULL);
        CHECK(cstl_shared_ptr_unique(sp));
        return 0;
    }
    memset(p, 0x5a, sz);
    *p = 0xfeedu;
    handed_out++;
    CHECK(cstl_shared_ptr_unique(sp));
    return 1;
}

static void shared_script(void)
{
    DECLARE_CSTL_SHARED_PTR(s1);
    DECLARE_CSTL_SHARED_PTR(s2);
    DECLARE_CSTL_WEAK_PTR(w);
    int had, before;

    handed_out = cleared = 0;

    had = try_alloc(&s1, 64);
    cstl_shared_ptr_share(&s1, &s2);
    cstl_weak_ptr_from(&w, &s1);
    CHECK(cstl_shared_ptr_get(&s2) == cstl_shared_ptr_get(&s1));
    CHECK(cstl_shared_ptr_unique(&s1) == !had);

    /*
     * allocating into s1 first lets go of what it held; s2 keeps the old
     * memory alive, whether or not the new allocation works out
     */
    before = cleared;
    try_alloc(&s1, 128);
    CHECK(cleared == before);
    if (had) {
        CHECK(*(unsigned *)cstl_shared_ptr_get(&s2) == 0xfeedu);
        CHECK(cstl_shared_ptr_get(&s2) != cstl_shared_ptr_get(&s1));
    }

    /* now the old memory goes, exactly once */
    cstl_shared_ptr_reset(&s2);
    CHECK(cleared == before + had);
    cstl_weak_ptr_lock(&w, &s2);
    CHECK(cstl_shared_ptr_get(&s2) == NULL);
    cstl_weak_ptr_reset(&w);

    /* zero bytes: empty, no allocation, whatever it held is released */
    before = cleared;
    had = cstl_shared_ptr_get(&s1) != NULL;
    cstl_shared_ptr_alloc(&s1, 0, on_clear);
    CHECK(cstl_shared_ptr_get(&s1) == NULL);
    CHECK(cleared == before + had);

    /* keep using the objects */
    had = try_alloc(&s2, sizeof(unsigned));
    cstl_shared_ptr_swap(&s1, &s2);
    CHECK((cstl_shared_ptr_get(&s1) != NULL) == had);
    CHECK(cstl_shared_ptr_get(&s2) == NULL);
    cstl_weak_ptr_from(&w, &s1);
    cstl_shared_ptr_reset(&s1);
    cstl_weak_ptr_lock(&w, &s2);
    CHECK(cstl_shared_ptr_get(&s2) == NULL);
    cstl_weak_ptr_reset(&w);

    CHECK(cleared == handed_out);
}

static void array_script(void)
{
    DECLARE_CSTL_ARRAY(a);
    DECLARE_CSTL_ARRAY(s);
    static int ext[7];
    void * buf;
    size_t i;

    cstl_array_alloc(&a, 10, sizeof(int));
    if (cstl_array_data(&a) == NULL) {
        CHECK(cstl_array_size(&a) == 0);
    } else {
        CHECK(cstl_array_size(&a) == 10);
        for (i = 0; i < 10; i++) {
            *(int *)cstl_array_at(&a, i) = (int)i;
        }
        cstl_array_slice(&a, 2, 6, &s);
        CHECK(cstl_array_size(&s) == 4);
        CHECK(*(int *)cstl_array_at(&s, 0) == 2);
    }

    /* re-allocating drops the old reference first; the slice keeps it */
    cstl_array_alloc(&a, 3, sizeof(int));
    CHECK(cstl_array_size(&a) == (cstl_array_data(&a) != NULL ? 3u : 0u));
    if (cstl_array_size(&s) != 0) {
        CHECK(*(int *)cstl_array_at(&s, 3) == 5);
    }
    cstl_array_reset(&s);

    /* adopting a caller's buffer allocates bookkeeping only */
    cstl_array_set(&a, ext, 7, sizeof(int));
    if (cstl_array_data(&a) == NULL) {
        CHECK(cstl_array_size(&a) == 0);
        cstl_array_release(&a, &buf);
        CHECK(buf == NULL);
    } else {
        CHECK(cstl_array_data(&a) == (void *)ext);
        CHECK(cstl_array_size(&a) == 7);
        CHECK(cstl_array_at(&a, 6) == (void *)&ext[6]);
        cstl_array_release(&a, &buf);
        CHECK(buf == (void *)ext);
    }
    CHECK(cstl_array_size(&a) == 0 && cstl_array_data(&a) == NULL);

    cstl_array_alloc(&a, 1, 1);
    cstl_array_reset(&a);
    cstl_array_reset(&s);
}

int main(void)
{
    unsigned long m;
    long total;

    fail_mask = 0;
    armed = 1; seen = 0;
    shared_script();
    array_script();
    armed = 0;
    total = seen;
    CHECK(live == 0);
    CHECK(total >= 8 && total <= 16);

    for (m = 1; m < (1ul << total); m++) {
        fail_mask = m;
        armed = 1; seen = 0;
        shared_script();
        array_script();
        armed = 0;
        CHECK(live == 0);
    }

    printf("ok: %ld allocator calls, %lu failure subsets\n",
           total, (1ul << total) - 1);
    return 0;
}
