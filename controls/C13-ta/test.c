/*
 * C13: a singly-linked list equals a reference sequence and its tail
 * is the true last element.
 *
 * Public API only.  Three parts:
 *   1. exhaustive replay of every short operation sequence over a small
 *      alphabet (all insert/erase positions relative to the tail, lists
 *      of length 0..5 as starting points), with a push_back probe at the
 *      end of every sequence;
 *   2. sort on many shapes of input (sorted, reversed, equal, sawtooth,
 *      nearly sorted, random), each followed by tail probes;
 *   3. seeded random long runs over three lists.
 * Callbacks (visit, compare, clear) operate on OTHER list objects that
 * hold a different element type with the node at a different offset.
 */

#include <stdio.h>
#include <stdlib.h>
#include <string.h>
#include <stddef.h>

#include "cstl/slist.h"

/* ------------------------------------------------------------------ */

struct item
{
    int key;
    int id;
    char pad[3];
    struct cstl_slist_node node;
    int cleared;
};

/* second element type: node first, payload after */
struct shadow
{
    struct cstl_slist_node node;
    const struct item * ref;
};

#define NL      3
#define CAP     320

static DECLARE_CSTL_SLIST(g_l0, struct item, node);
static struct cstl_slist g_l1;
static struct cstl_slist g_l2 = CSTL_SLIST_INITIALIZER(g_l2, struct item, node);
static struct cstl_slist * const L[NL] = { &g_l0, &g_l1, &g_l2 };

/* reference sequences */
static struct item * ref[NL][CAP];
static size_t rn[NL];

/* lists of the other element type, used from inside callbacks */
static DECLARE_CSTL_SLIST(g_sh, struct shadow, node);
static struct cstl_slist g_aux;

static struct item pool[CAP * NL + 16];
static size_t pool_next;
static struct item * freelist[CAP * NL + 16];
static size_t nfree;

static struct shadow shpool[CAP + 16];
static size_t sh_next;
static struct shadow auxnode;

static const char * g_phase = "";
static char g_ctx[256];
static unsigned long g_checks;

#define FAIL(...)                                                       \
    do {                                                                \
        fprintf(stderr, "FAIL [%s] %s: ", g_phase, g_ctx);              \
        fprintf(stderr, __VA_ARGS__);                                   \
        fprintf(stderr, " (line %d)\n", __LINE__);                      \
        exit(1);                                                        \
    } while (0)

#define CHECK(C, ...)                                                   \
    do { g_checks++; if (!(C)) FAIL(__VA_ARGS__); } while (0)

/* ------------------------------------------------------------------ */

static const int keytab[] = { 3, 1, 4, 1, 5, 9, 2, 6, 5, 3, 5, 8, 9, 7, 9, 3,
                              2, 3, 8, 4, 6, 2, 6, 4, 3, 3, 8, 3, 2, 7, 9, 5 };
static size_t key_next;

static unsigned long long rng_s = 88172645463325252ULL;
static unsigned int rnd(void)
{
    rng_s ^= rng_s << 13;
    rng_s ^= rng_s >> 7;
    rng_s ^= rng_s << 17;
    return (unsigned int)(rng_s >> 11);
}

static struct item * item_new(void)
{
    struct item * it;
    if (nfree > 0) {
        it = freelist[--nfree];
    } else {
        if (pool_next >= sizeof(pool) / sizeof(pool[0])) {
            FAIL("test pool exhausted");
        }
        it = &pool[pool_next];
        it->id = (int)pool_next;
        pool_next++;
    }
    it->key = keytab[key_next++ % (sizeof(keytab) / sizeof(keytab[0]))];
    it->cleared = 0;
    /* a node that is not in a list may hold anything */
    memset(&it->node, 0x5a, sizeof(it->node));
    return it;
}

static void item_free(struct item * const it)
{
    memset(&it->node, 0xa5, sizeof(it->node));
    freelist[nfree++] = it;
}

/* ------------------------------------------------------------------ */
/* traversal                                                           */

struct collect
{
    struct item * got[CAP + 8];
    size_t n;
    size_t limit;
    size_t stop_at;     /* return 7 when n reaches this (0: never) */
};

static int visit_collect(void * const e, void * const p)
{
    struct collect * const c = p;
    struct shadow * sh;

    if (c->n >= c->limit) {
        /* more elements than there can be: a cycle or a stale link */
        return -99;
    }
    c->got[c->n++] = e;

    /* use another container, of another element type, from the callback */
    sh = &shpool[sh_next++];
    sh->ref = e;
    cstl_slist_push_back(&g_sh, sh);

    if (c->stop_at != 0 && c->n == c->stop_at) {
        return 7;
    }
    return 0;
}

static int visit_never(void * const e, void * const p)
{
    (void)e;
    (*(int *)p)++;
    return 1;
}

static void shadow_drain_and_compare(const struct collect * const c)
{
    size_t k;

    CHECK(cstl_slist_size(&g_sh) == c->n, "shadow list size %lu != %lu",
          (unsigned long)cstl_slist_size(&g_sh), (unsigned long)c->n);
    if (c->n > 0) {
        CHECK(((struct shadow *)cstl_slist_back(&g_sh))->ref
              == c->got[c->n - 1], "shadow back");
    }
    for (k = 0; k < c->n; k++) {
        struct shadow * const sh = cstl_slist_pop_front(&g_sh);
        CHECK(sh != NULL, "shadow list short at %lu", (unsigned long)k);
        CHECK(sh->ref == c->got[k], "shadow list differs at %lu",
              (unsigned long)k);
    }
    CHECK(cstl_slist_pop_front(&g_sh) == NULL, "shadow pop on empty");
    CHECK(cstl_slist_size(&g_sh) == 0, "shadow size after drain");
    CHECK(cstl_slist_front(&g_sh) == NULL, "shadow front after drain");
    CHECK(cstl_slist_back(&g_sh) == NULL, "shadow back after drain");
    sh_next = 0;
}

static struct collect g_col;

static void traverse(const int i, struct collect * const c)
{
    int r;

    c->n = 0;
    c->limit = rn[i] + 4;
    c->stop_at = 0;
    r = cstl_slist_foreach(L[i], visit_collect, c);
    CHECK(r == 0, "list %d: foreach returned %d", i, r);
    shadow_drain_and_compare(c);
}

static void verify(const int i)
{
    size_t k;

    CHECK(cstl_slist_size(L[i]) == rn[i], "list %d: size %lu, expected %lu",
          i, (unsigned long)cstl_slist_size(L[i]), (unsigned long)rn[i]);
    if (rn[i] == 0) {
        CHECK(cstl_slist_front(L[i]) == NULL, "list %d: front of empty", i);
        CHECK(cstl_slist_back(L[i]) == NULL, "list %d: back of empty", i);
    } else {
        CHECK(cstl_slist_front(L[i]) == ref[i][0], "list %d: front", i);
        CHECK(cstl_slist_back(L[i]) == ref[i][rn[i] - 1],
              "list %d: back is not the true last", i);
    }

    traverse(i, &g_col);
    CHECK(g_col.n == rn[i], "list %d: traversal yields %lu, expected %lu",
          i, (unsigned long)g_col.n, (unsigned long)rn[i]);
    for (k = 0; k < rn[i]; k++) {
        CHECK(g_col.got[k] == ref[i][k], "list %d: element %lu differs",
              i, (unsigned long)k);
    }
}

static void verify_all(void)
{
    int i;
    for (i = 0; i < NL; i++) {
        verify(i);
    }
}

/* ------------------------------------------------------------------ */
/* modelled operations                                                 */

static void op_push_front(const int i)
{
    struct item * const it = item_new();
    cstl_slist_push_front(L[i], it);
    memmove(&ref[i][1], &ref[i][0], rn[i] * sizeof(ref[i][0]));
    ref[i][0] = it;
    rn[i]++;
}

static void op_push_back(const int i)
{
    struct item * const it = item_new();
    cstl_slist_push_back(L[i], it);
    ref[i][rn[i]++] = it;
}

/* insert after the element at position pos (pos < rn) */
static void op_insert_after(const int i, const size_t pos)
{
    struct item * const it = item_new();
    cstl_slist_insert_after(L[i], ref[i][pos], it);
    memmove(&ref[i][pos + 2], &ref[i][pos + 1],
            (rn[i] - pos - 1) * sizeof(ref[i][0]));
    ref[i][pos + 1] = it;
    rn[i]++;
}

/* erase the element after position pos (pos + 1 < rn) */
static void op_erase_after(const int i, const size_t pos)
{
    struct item * const exp = ref[i][pos + 1];
    struct item * const got = cstl_slist_erase_after(L[i], ref[i][pos]);
    CHECK(got == exp, "list %d: erase_after(%lu) returned the wrong object",
          i, (unsigned long)pos);
    memmove(&ref[i][pos + 1], &ref[i][pos + 2],
            (rn[i] - pos - 2) * sizeof(ref[i][0]));
    rn[i]--;
    item_free(got);
}

static void op_pop_front(const int i)
{
    struct item * const got = cstl_slist_pop_front(L[i]);
    if (rn[i] == 0) {
        CHECK(got == NULL, "list %d: pop_front on empty is not NULL", i);
        /* still empty, still usable */
        CHECK(cstl_slist_size(L[i]) == 0, "list %d: size after empty pop", i);
        CHECK(cstl_slist_pop_front(L[i]) == NULL,
              "list %d: second pop_front on empty", i);
    } else {
        CHECK(got == ref[i][0], "list %d: pop_front returned wrong object", i);
        memmove(&ref[i][0], &ref[i][1], (rn[i] - 1) * sizeof(ref[i][0]));
        rn[i]--;
        item_free(got);
    }
}

static void op_reverse(const int i)
{
    size_t a, b;
    cstl_slist_reverse(L[i]);
    if (rn[i] > 1) {
        for (a = 0, b = rn[i] - 1; a < b; a++, b--) {
            struct item * const t = ref[i][a];
            ref[i][a] = ref[i][b];
            ref[i][b] = t;
        }
    }
}

static unsigned long g_cmp_calls;
static int g_cmp_token;

static int cmp_item(const void * const a, const void * const b, void * const p)
{
    const struct item * const x = a;
    const struct item * const y = b;

    if (p != &g_cmp_token) {
        FAIL("compare function did not get its private pointer");
    }
    g_cmp_calls++;

    /* use another list object from inside the comparison */
    cstl_slist_push_back(&g_aux, &auxnode);
    if (cstl_slist_back(&g_aux) != &auxnode
        || cstl_slist_pop_front(&g_aux) != &auxnode
        || cstl_slist_size(&g_aux) != 0) {
        FAIL("auxiliary list misbehaved inside compare");
    }

    return (x->key > y->key) - (x->key < y->key);
}

/*
 * sort: the result must be ordered and must be a permutation of what was
 * there.  The order among equal keys is not documented; whatever the
 * library produced becomes the reference.
 */
static void op_sort(const int i)
{
    static unsigned char seen[sizeof(pool) / sizeof(pool[0])];
    size_t k;

    cstl_slist_sort(L[i], cmp_item, &g_cmp_token);

    CHECK(cstl_slist_size(L[i]) == rn[i], "list %d: size changed by sort", i);
    traverse(i, &g_col);
    CHECK(g_col.n == rn[i], "list %d: sort changed the length to %lu", i,
          (unsigned long)g_col.n);

    for (k = 0; k < rn[i]; k++) {
        seen[ref[i][k]->id] = 1;
    }
    for (k = 0; k < rn[i]; k++) {
        CHECK(seen[g_col.got[k]->id] == 1,
              "list %d: sort lost or duplicated an element", i);
        seen[g_col.got[k]->id] = 0;
        if (k > 0) {
            CHECK(g_col.got[k - 1]->key <= g_col.got[k]->key,
                  "list %d: not sorted at %lu", i, (unsigned long)k);
        }
    }
    for (k = 0; k < rn[i]; k++) {
        ref[i][k] = g_col.got[k];
    }
}

static void op_concat(const int d, const int s)
{
    if (rn[d] + rn[s] > CAP - 8) {
        return;
    }
    cstl_slist_concat(L[d], L[s]);
    memcpy(&ref[d][rn[d]], &ref[s][0], rn[s] * sizeof(ref[s][0]));
    rn[d] += rn[s];
    rn[s] = 0;
}

static void op_swap(const int a, const int b)
{
    static struct item * tmp[CAP];
    const size_t na = rn[a], nb = rn[b];

    cstl_slist_swap(L[a], L[b]);
    memcpy(tmp, ref[a], na * sizeof(tmp[0]));
    memcpy(ref[a], ref[b], nb * sizeof(tmp[0]));
    memcpy(ref[b], tmp, na * sizeof(tmp[0]));
    rn[a] = nb;
    rn[b] = na;
}

/* foreach that stops early at the (stop)th element, 1-based */
static void op_foreach_stop(const int i, const size_t stop)
{
    struct collect * const c = &g_col;
    size_t k;
    int r;

    c->n = 0;
    c->limit = rn[i] + 4;
    c->stop_at = stop;
    r = cstl_slist_foreach(L[i], visit_collect, c);
    if (stop >= 1 && stop <= rn[i]) {
        CHECK(r == 7, "list %d: foreach did not return the visitor's value",
              i);
        CHECK(c->n == stop, "list %d: foreach visited %lu, expected %lu", i,
              (unsigned long)c->n, (unsigned long)stop);
    } else {
        CHECK(r == 0, "list %d: foreach returned %d", i, r);
        CHECK(c->n == rn[i], "list %d: foreach visited %lu of %lu", i,
              (unsigned long)c->n, (unsigned long)rn[i]);
    }
    for (k = 0; k < c->n; k++) {
        CHECK(c->got[k] == ref[i][k], "list %d: foreach order at %lu", i,
              (unsigned long)k);
    }
    shadow_drain_and_compare(c);

    if (rn[i] == 0) {
        int calls = 0;
        r = cstl_slist_foreach(L[i], visit_never, &calls);
        CHECK(r == 0 && calls == 0, "list %d: foreach on empty", i);
    }
}

static size_t g_clr_calls;

static void clr_item(void * const e, void * const p)
{
    struct item * const it = e;
    struct shadow * sh;

    (void)p;
    it->cleared++;
    g_clr_calls++;
    /* the callee owns the object now: scribble over the node */
    memset(&it->node, 0xa5, sizeof(it->node));

    if (sh_next < sizeof(shpool) / sizeof(shpool[0])) {
        sh = &shpool[sh_next++];
        sh->ref = it;
        cstl_slist_push_front(&g_sh, sh);
    }
}

static void op_clear(const int i)
{
    size_t k;

    g_clr_calls = 0;
    cstl_slist_clear(L[i], clr_item);
    CHECK(g_clr_calls == rn[i], "list %d: clear called back %lu times for %lu",
          i, (unsigned long)g_clr_calls, (unsigned long)rn[i]);
    CHECK(cstl_slist_size(&g_sh) == rn[i], "shadow size after clear");
    for (k = 0; k < rn[i]; k++) {
        CHECK(ref[i][k]->cleared == 1,
              "list %d: element %lu cleared %d times", i, (unsigned long)k,
              ref[i][k]->cleared);
        ref[i][k]->cleared = 0;
        freelist[nfree++] = ref[i][k];
    }
    while (cstl_slist_pop_front(&g_sh) != NULL)
        ;
    CHECK(cstl_slist_size(&g_sh) == 0, "shadow not empty");
    sh_next = 0;
    rn[i] = 0;
}

static void clr_nop(void * const e, void * const p)
{
    (void)e; (void)p;
}

/*
 * push_back must append after the true last element, whatever happened
 * before.  The probe is removed again (by erase_after of the old last or
 * by pop_front), which is itself "the last element was erased", so the
 * probe is run twice.
 */
static void probe(const int i)
{
    int round;

    for (round = 0; round < 2; round++) {
        struct item * const p = item_new();
        struct item * got;

        cstl_slist_push_back(L[i], p);
        ref[i][rn[i]++] = p;
        CHECK(cstl_slist_back(L[i]) == p, "list %d: probe is not the back",
              i);
        verify(i);

        if (rn[i] == 1) {
            got = cstl_slist_pop_front(L[i]);
        } else {
            got = cstl_slist_erase_after(L[i], ref[i][rn[i] - 2]);
        }
        CHECK(got == p, "list %d: removing the probe returned another", i);
        rn[i]--;
        item_free(p);
        verify(i);
    }
}

static void reset_all(void)
{
    int i;

    for (i = 0; i < NL; i++) {
        cstl_slist_clear(L[i], clr_nop);
        rn[i] = 0;
    }
    /* list 1 is the one that is initialised at run time */
    cstl_slist_init(&g_l1, offsetof(struct item, node));
    pool_next = 0;
    nfree = 0;
    key_next = 0;
    sh_next = 0;
}

/* ------------------------------------------------------------------ */
/* part 1: exhaustive short sequences                                  */

enum
{
    X_PUSH_FRONT, X_PUSH_BACK,
    X_INS0, X_INS1, X_INS2, X_INS3, X_INS4, X_INS5,
    X_ERA0, X_ERA1, X_ERA2, X_ERA3, X_ERA4,
    X_POP, X_REVERSE, X_SORT,
    X_CAT_AB, X_CAT_BA, X_SWAP_AB,
    X_FOREACH, X_CLEAR, X_PUSH_BACK_B, X_PUSH_FRONT_B,
    X_NOPS
};

static const char * const xname[X_NOPS] = {
    "pf", "pb", "i0", "i1", "i2", "i3", "i4", "i5",
    "e0", "e1", "e2", "e3", "e4", "pop", "rev", "sort",
    "catAB", "catBA", "swap", "each", "clr", "pbB", "pfB",
};

/* list A is list ia, list B is list ib */
static int x_apply(const int op, const int ia, const int ib)
{
    switch (op) {
    case X_PUSH_FRONT: op_push_front(ia); return 1;
    case X_PUSH_BACK: op_push_back(ia); return 1;
    case X_INS0: case X_INS1: case X_INS2:
    case X_INS3: case X_INS4: case X_INS5:
        if ((size_t)(op - X_INS0) >= rn[ia]) {
            return 0;
        }
        op_insert_after(ia, (size_t)(op - X_INS0));
        return 1;
    case X_ERA0: case X_ERA1: case X_ERA2: case X_ERA3: case X_ERA4:
        if ((size_t)(op - X_ERA0) + 1 >= rn[ia]) {
            return 0;
        }
        op_erase_after(ia, (size_t)(op - X_ERA0));
        return 1;
    case X_POP: op_pop_front(ia); return 1;
    case X_REVERSE: op_reverse(ia); return 1;
    case X_SORT: op_sort(ia); return 1;
    case X_CAT_AB: op_concat(ia, ib); return 1;
    case X_CAT_BA: op_concat(ib, ia); return 1;
    case X_SWAP_AB: op_swap(ia, ib); return 1;
    case X_FOREACH: op_foreach_stop(ia, (rn[ia] + 1) / 2); return 1;
    case X_CLEAR: op_clear(ia); return 1;
    case X_PUSH_BACK_B: op_push_back(ib); return 1;
    case X_PUSH_FRONT_B: op_push_front(ib); return 1;
    }
    return 0;
}

static int x_seq[8];
static unsigned long x_runs;

static void x_describe(const int prefill, const int build, const int d)
{
    int k;
    size_t len;

    len = (size_t)snprintf(g_ctx, sizeof(g_ctx), "prefill %d/%d:", prefill,
                           build);
    for (k = 0; k < d && len + 8 < sizeof(g_ctx); k++) {
        len += (size_t)snprintf(g_ctx + len, sizeof(g_ctx) - len, " %s",
                                xname[x_seq[k]]);
    }
}

/* replay from scratch; returns 0 if the last operation does not apply */
static int x_replay(const int prefill, const int build, const int d,
                    const int ia, const int ib)
{
    int k;

    reset_all();
    for (k = 0; k < prefill; k++) {
        switch (build) {
        case 0: op_push_back(ia); break;
        case 1: op_push_front(ia); break;
        default:
            if (k == 0) {
                op_push_front(ia);
            } else {
                op_insert_after(ia, (size_t)(k - 1));
            }
            break;
        }
    }
    verify_all();

    for (k = 0; k < d; k++) {
        if (!x_apply(x_seq[k], ia, ib)) {
            return 0;
        }
        verify_all();
    }

    probe(ia);
    probe(ib);
    x_runs++;
    return 1;
}

static void x_dfs(const int prefill, const int build, const int depth,
                  const int maxd, const int ia, const int ib)
{
    int op;

    for (op = 0; op < X_NOPS; op++) {
        x_seq[depth] = op;
        x_describe(prefill, build, depth + 1);
        if (x_replay(prefill, build, depth + 1, ia, ib)
            && depth + 1 < maxd) {
            x_dfs(prefill, build, depth + 1, maxd, ia, ib);
        }
    }
}

static void part_exhaustive(void)
{
    int prefill, build;

    g_phase = "exhaustive";

    /* from every starting length 0..5, however it was built */
    for (prefill = 0; prefill <= 5; prefill++) {
        for (build = 0; build < 3; build++) {
            /* rotate which list objects play A and B */
            const int ia = (prefill + build) % NL;
            const int ib = (ia + 1 + (prefill & 1)) % NL;
            x_dfs(prefill, build, 0, 4, ia, ib);
        }
    }
    /* deeper, from the empty list */
    x_dfs(0, 0, 0, 5, 0, 1);
}

/* ------------------------------------------------------------------ */
/* part 2: sort shapes                                                 */

static int shape_key(const int shape, const size_t k, const size_t n)
{
    switch (shape) {
    case 0: return (int)k;                              /* ascending */
    case 1: return (int)(n - k);                        /* strictly desc. */
    case 2: return (int)((n - k) / 2);                  /* desc. with ties */
    case 3: return 5;                                   /* all equal */
    case 4: return (int)(k % 7);                        /* sawtooth */
    case 5: return (k + 1 == n) ? -1 : (int)k;          /* last too small */
    case 6: return (k == 0) ? (int)n + 1 : (int)k;      /* first too big */
    case 7: return (int)(k / 3);                        /* asc. with ties */
    case 8: return (k < n / 2) ? (int)k : (int)(k - n / 2); /* two runs */
    case 9: return (k < n / 2) ? (int)(k + n) : (int)k; /* halves swapped */
    case 10: return (k & 1) ? (int)k : -(int)k;         /* alternating */
    default: return (int)(rnd() % (n + 1));
    }
}

static void part_sort(void)
{
    size_t n;
    int shape, how;

    g_phase = "sort";
    for (n = 0; n <= 70; n++) {
        for (shape = 0; shape < 14; shape++) {
            for (how = 0; how < 2; how++) {
                const int i = (int)((n + (size_t)shape + (size_t)how) % NL);
                const int j = (i + 1) % NL;
                size_t k;

                snprintf(g_ctx, sizeof(g_ctx), "n %lu shape %d how %d",
                         (unsigned long)n, shape, how);
                reset_all();
                for (k = 0; k < n; k++) {
                    if (how == 0) {
                        op_push_back(i);
                        ref[i][rn[i] - 1]->key = shape_key(shape, k, n);
                    } else {
                        op_push_front(i);
                        ref[i][0]->key = shape_key(shape, n - 1 - k, n);
                    }
                }
                verify(i);

                op_sort(i);
                verify(i);
                probe(i);

                /* the largest key appended: stays last */
                op_push_back(i);
                ref[i][rn[i] - 1]->key = 1 << 20;
                verify(i);
                op_sort(i);
                verify(i);
                CHECK(((struct item *)cstl_slist_back(L[i]))->key == 1 << 20,
                      "largest key is not last");
                probe(i);

                /* the smallest key appended: sort moves the tail */
                op_push_back(i);
                ref[i][rn[i] - 1]->key = -(1 << 20);
                op_sort(i);
                verify(i);
                CHECK(((struct item *)cstl_slist_front(L[i]))->key
                      == -(1 << 20), "smallest key is not first");
                probe(i);

                op_reverse(i);
                verify(i);
                probe(i);
                op_sort(i);
                verify(i);
                probe(i);

                /* sorted list glued to another, then sorted again */
                op_push_back(j);
                op_push_back(j);
                op_concat(i, j);
                verify(i);
                verify(j);
                probe(i);
                probe(j);
                op_sort(i);
                verify(i);
                probe(i);
                op_swap(i, j);
                verify(i);
                verify(j);
                probe(i);
                probe(j);
                op_sort(j);
                verify(j);
                probe(j);
            }
        }
    }
}

/* ------------------------------------------------------------------ */
/* part 3: seeded random long runs                                     */

static void part_random(void)
{
    unsigned int seed;

    g_phase = "random";
    for (seed = 1; seed <= 6; seed++) {
        const size_t maxlen = (seed & 1) ? 9 : 40;
        unsigned long step;

        reset_all();
        rng_s = 0x9e3779b97f4a7c15ULL * seed + 12345;

        for (step = 0; step < 60000; step++) {
            const int i = (int)(rnd() % NL);
            const int j = (i + 1 + (int)(rnd() % (NL - 1))) % NL;
            const unsigned int op = rnd() % 100;

            snprintf(g_ctx, sizeof(g_ctx), "seed %u step %lu op %u", seed,
                     step, op);

            if (op < 14) {
                if (rn[i] < maxlen) op_push_front(i);
            } else if (op < 30) {
                if (rn[i] < maxlen) op_push_back(i);
            } else if (op < 42) {
                if (rn[i] > 0 && rn[i] < maxlen) {
                    /* favour the tail position */
                    const size_t pos = (rnd() % 3 == 0)
                        ? rn[i] - 1 : rnd() % rn[i];
                    op_insert_after(i, pos);
                }
            } else if (op < 56) {
                if (rn[i] > 1) {
                    const size_t pos = (rnd() % 3 == 0)
                        ? rn[i] - 2 : rnd() % (rn[i] - 1);
                    op_erase_after(i, pos);
                }
            } else if (op < 66) {
                op_pop_front(i);
            } else if (op < 72) {
                op_reverse(i);
            } else if (op < 78) {
                op_sort(i);
            } else if (op < 84) {
                if (rn[i] + rn[j] <= maxlen + maxlen / 2) op_concat(i, j);
            } else if (op < 90) {
                op_swap(i, j);
            } else if (op < 95) {
                op_foreach_stop(i, rn[i] == 0 ? 1 : 1 + rnd() % (rn[i] + 1));
            } else if (op < 97) {
                op_clear(i);
            } else {
                probe(i);
            }

            verify(i);
            verify(j);
            if (rnd() % 4 == 0) {
                /* push_back right after whatever just happened */
                if (rn[i] < maxlen + maxlen) {
                    op_push_back(i);
                    verify(i);
                }
            }
        }
        verify_all();
        for (step = 0; step < NL; step++) {
            probe((int)step);
        }
    }
}

/* ------------------------------------------------------------------ */

int main(void)
{
    cstl_slist_init(&g_l1, offsetof(struct item, node));
    cstl_slist_init(&g_aux, offsetof(struct shadow, node));

    /* fresh objects, before anything else */
    g_phase = "fresh";
    verify_all();
    CHECK(cstl_slist_pop_front(&g_l0) == NULL, "pop on fresh static list");
    CHECK(cstl_slist_pop_front(&g_l2) == NULL, "pop on fresh static list");
    CHECK(cstl_slist_pop_front(&g_sh) == NULL, "pop on fresh static list");
    cstl_slist_reverse(&g_l0);
    cstl_slist_sort(&g_l2, cmp_item, &g_cmp_token);
    cstl_slist_concat(&g_l0, &g_l2);
    cstl_slist_swap(&g_l0, &g_l2);
    verify_all();
    probe(0);
    probe(1);
    probe(2);

    part_exhaustive();
    part_sort();
    part_random();

    printf("C13 ok: %lu sequences replayed, %lu checks, %lu comparisons\n",
           x_runs, g_checks, g_cmp_calls);
    return 0;
}
