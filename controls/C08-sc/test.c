/*
 * C08: the map keeps exactly one entry per key and never replaces or
 * loses one silently.
 *
 * Standalone test, public API only (cstl/map.h). The allocator is
 * observed through the linker's --wrap so that
 *   - "clear releases everything the map allocated" can be checked as a
 *     balance of live blocks, and
 *   - an allocation failure can be injected into cstl_map_insert().
 * Nothing is assumed about how many blocks the map uses per entry, how
 * big they are, when they are obtained or released between init and
 * clear, in which order clear visits the entries, or what the private
 * iterator member holds beyond what cstl_map_iterator_eq() reports.
 */

#include "cstl/map.h"

#include <stdio.h>
#include <stdlib.h>
#include <string.h>
#include <stdint.h>

/* ------------------------------------------------------------------ */
/* allocator observation                                               */

void * __real_malloc(size_t);
void * __real_calloc(size_t, size_t);
void * __real_realloc(void *, size_t);
void __real_free(void *);

static long live;               /* blocks currently allocated */
static long fail_countdown = -1; /* >= 0: that many mallocs succeed, next fails */
static unsigned long nfailed;   /* number of injected failures so far */

static int should_fail(void)
{
    if (fail_countdown >= 0) {
        if (fail_countdown == 0) {
            fail_countdown = -1;
            nfailed++;
            return 1;
        }
        fail_countdown--;
    }
    return 0;
}

void * __wrap_malloc(size_t n)
{
    void * p;
    if (should_fail()) {
        return NULL;
    }
    p = __real_malloc(n);
    if (p != NULL) {
        live++;
    }
    return p;
}

void * __wrap_calloc(size_t a, size_t b)
{
    void * p;
    if (should_fail()) {
        return NULL;
    }
    p = __real_calloc(a, b);
    if (p != NULL) {
        live++;
    }
    return p;
}

void * __wrap_realloc(void * o, size_t n)
{
    void * p;
    if (should_fail()) {
        return NULL;
    }
    p = __real_realloc(o, n);
    if (o == NULL && p != NULL) {
        live++;
    } else if (o != NULL && n == 0 && p == NULL) {
        live--;
    }
    return p;
}

void __wrap_free(void * p)
{
    if (p != NULL) {
        live--;
    }
    __real_free(p);
}

/* ------------------------------------------------------------------ */

static unsigned long nchecks;

#define CHECK(c)                                                        \
    do {                                                                \
        nchecks++;                                                      \
        if (!(c)) {                                                     \
            fprintf(stderr, "FAIL %s:%d: %s\n", __FILE__, __LINE__, #c); \
            exit(1);                                                    \
        }                                                               \
    } while (0)

static uint64_t rng_state = 88172645463325252ull;
static uint32_t rnd(void)
{
    rng_state ^= rng_state << 13;
    rng_state ^= rng_state >> 7;
    rng_state ^= rng_state << 17;
    return (uint32_t)(rng_state >> 16);
}

/* ------------------------------------------------------------------ */
/* key universe                                                        */

#define UMAX    256
#define NCOPY   3
#define NVAL    4

struct key
{
    int v;
    int copy;
};

static struct key keyobj[UMAX][NCOPY];
static int valobj[UMAX][NVAL];

static void universe_init(void)
{
    int u, c;
    for (u = 0; u < UMAX; u++) {
        for (c = 0; c < NCOPY; c++) {
            keyobj[u][c].v = u;
            keyobj[u][c].copy = c;
        }
        for (c = 0; c < NVAL; c++) {
            valobj[u][c] = u * 10 + c;
        }
    }
}

/* comparison functions */

static unsigned long ncmp;

static int kv(const void * const k)
{
    /* a NULL key pointer is a legal key for these comparators */
    return (k == NULL) ? -1 : ((const struct key *)k)->v;
}

static int cmp_asc(const void * const a, const void * const b, void * const p)
{
    ncmp++;
    (void)p;
    return (kv(a) > kv(b)) - (kv(a) < kv(b));
}

static int cmp_desc(const void * const a, const void * const b, void * const p)
{
    ncmp++;
    (void)p;
    return 1000 * ((kv(b) > kv(a)) - (kv(b) < kv(a)));
}

/* keys are equal when congruent modulo *(int *)p */
static int cmp_mod(const void * const a, const void * const b, void * const p)
{
    const int m = *(int *)p;
    ncmp++;
    return (kv(a) % m) - (kv(b) % m);
}

/* order given by a rank that is looked up in ANOTHER map */
static int rankval[UMAX];
static int cmp_rank(const void * const a, const void * const b, void * const p)
{
    cstl_map_t * const ranks = p;
    cstl_map_iterator_t ia, ib;

    ncmp++;
    cstl_map_find(ranks, a, &ia);
    cstl_map_find(ranks, b, &ib);
    CHECK(!cstl_map_iterator_eq(&ia, cstl_map_iterator_end(ranks)));
    CHECK(!cstl_map_iterator_eq(&ib, cstl_map_iterator_end(ranks)));
    return *(int *)ia.val - *(int *)ib.val;
}

/* ------------------------------------------------------------------ */
/* a map together with its model                                       */

struct tmap
{
    cstl_map_t m;
    int univ;                   /* keys 0 .. univ-1 are used */
    int mod;                    /* classes: u % mod (mod == univ: identity) */

    int present[UMAX];
    const void * k[UMAX];
    void * v[UMAX];
    size_t n;

    /* clear bookkeeping */
    int seen[UMAX];
    size_t ncb;
    void * expect_priv;
    struct tmap * feed;         /* clear callback inserts into this one */
    struct tmap * drain;        /* clear callback erases from this one */
    int in_clear;
};

static int cls(const struct tmap * const t, const int u)
{
    return u % t->mod;
}

static void tmap_init(struct tmap * const t, const int univ, const int mod,
                      cstl_compare_func_t * const cmp, void * const priv)
{
    memset(t, 0, sizeof(*t));
    /* garbage in the object before init must not matter */
    memset(&t->m, 0xa5, sizeof(t->m));
    t->univ = univ;
    t->mod = mod;
    cstl_map_init(&t->m, cmp, priv);
    CHECK(cstl_map_size(&t->m) == 0);
}

static void check_find(struct tmap * const t, const int u, const int copy)
{
    const cstl_map_iterator_t * const end = cstl_map_iterator_end(&t->m);
    const int c = cls(t, u);
    cstl_map_iterator_t i;

    memset(&i, 0x5a, sizeof(i));
    cstl_map_find(&t->m, &keyobj[u][copy], &i);
    if (t->present[c]) {
        CHECK(!cstl_map_iterator_eq(&i, end));
        CHECK(!cstl_map_iterator_eq(end, &i));
        CHECK(i.key == t->k[c]);
        CHECK(i.val == t->v[c]);
    } else {
        CHECK(cstl_map_iterator_eq(&i, end));
        CHECK(cstl_map_iterator_eq(end, &i));
    }
}

static void check_all(struct tmap * const t)
{
    int u;
    size_t n = 0;

    CHECK(cstl_map_size(&t->m) == t->n);
    for (u = 0; u < t->univ; u++) {
        check_find(t, u, u % NCOPY);
        if (u < t->mod && t->present[u]) {
            n++;
        }
    }
    CHECK(n == t->n);
}

static void check_some(struct tmap * const t, const int u)
{
    CHECK(cstl_map_size(&t->m) == t->n);
    check_find(t, u, 0);
    check_find(t, (u + 1) % t->univ, 1);
    check_find(t, (int)(rnd() % (unsigned)t->univ), 2);
}

/* returns the library's return value */
static int op_insert(struct tmap * const t, const int u, const int copy,
                     const int vk, const int use_iter)
{
    const cstl_map_iterator_t * const end = cstl_map_iterator_end(&t->m);
    const int c = cls(t, u);
    const unsigned long nf = nfailed;
    cstl_map_iterator_t i, j;
    int r;

    memset(&i, 0x5a, sizeof(i));
    r = cstl_map_insert(&t->m, &keyobj[u][copy], &valobj[u][vk],
                        use_iter ? &i : NULL);
    if (t->present[c]) {
        CHECK(r == 1);
        if (use_iter) {
            CHECK(!cstl_map_iterator_eq(&i, end));
            CHECK(i.key == t->k[c]);
            CHECK(i.val == t->v[c]);
            /* it is an iterator to THE existing entry */
            cstl_map_find(&t->m, &keyobj[u][(copy + 1) % NCOPY], &j);
            CHECK(cstl_map_iterator_eq(&i, &j));
        }
    } else if (r == 0) {
        t->present[c] = 1;
        t->k[c] = &keyobj[u][copy];
        t->v[c] = &valobj[u][vk];
        t->n++;
        if (use_iter) {
            CHECK(!cstl_map_iterator_eq(&i, end));
            CHECK(i.key == &keyobj[u][copy]);
            CHECK(i.val == &valobj[u][vk]);
            cstl_map_find(&t->m, &keyobj[u][(copy + 1) % NCOPY], &j);
            CHECK(cstl_map_iterator_eq(&i, &j));
        }
    } else {
        /* only an allocation failure may keep a new key out */
        CHECK(r == -1);
        CHECK(nfailed == nf + 1);
        if (use_iter) {
            CHECK(cstl_map_iterator_eq(&i, end));
        }
    }
    CHECK(cstl_map_size(&t->m) == t->n);
    return r;
}

static int op_erase(struct tmap * const t, const int u, const int copy,
                    const int use_iter)
{
    const cstl_map_iterator_t * const end = cstl_map_iterator_end(&t->m);
    const int c = cls(t, u);
    cstl_map_iterator_t i;
    int r;

    memset(&i, 0x5a, sizeof(i));
    r = cstl_map_erase(&t->m, &keyobj[u][copy], use_iter ? &i : NULL);
    if (t->present[c]) {
        CHECK(r == 0);
        if (use_iter) {
            CHECK(i.key == t->k[c]);
            CHECK(i.val == t->v[c]);
            CHECK(cstl_map_iterator_eq(&i, end));
        }
        t->present[c] = 0;
        t->k[c] = NULL;
        t->v[c] = NULL;
        t->n--;
    } else {
        CHECK(r == -1);
        if (use_iter) {
            CHECK(cstl_map_iterator_eq(&i, end));
        }
    }
    CHECK(cstl_map_size(&t->m) == t->n);
    return r;
}

static void op_erase_iter(struct tmap * const t, const int u, const int copy)
{
    const cstl_map_iterator_t * const end = cstl_map_iterator_end(&t->m);
    const int c = cls(t, u);
    cstl_map_iterator_t i;

    cstl_map_find(&t->m, &keyobj[u][copy], &i);
    if (t->present[c]) {
        CHECK(!cstl_map_iterator_eq(&i, end));
        CHECK(i.key == t->k[c]);
        CHECK(i.val == t->v[c]);
        cstl_map_erase_iterator(&t->m, &i);
        t->present[c] = 0;
        t->k[c] = NULL;
        t->v[c] = NULL;
        t->n--;
    } else {
        CHECK(cstl_map_iterator_eq(&i, end));
    }
    CHECK(cstl_map_size(&t->m) == t->n);
}

static void clear_cb(void * const e, void * const priv)
{
    const cstl_map_iterator_t * const i = e;
    struct tmap * const t = priv;
    const void * key;
    void * val;
    int u, c;

    CHECK(t->in_clear == 1);
    CHECK(i != NULL);
    /* only the two documented members are looked at */
    key = i->key;
    val = i->val;
    CHECK(key != NULL);
    u = ((const struct key *)key)->v;
    CHECK(u >= 0 && u < t->univ);
    c = cls(t, u);
    CHECK(t->present[c]);
    CHECK(t->k[c] == key);
    CHECK(t->v[c] == val);
    t->seen[c]++;
    CHECK(t->seen[c] == 1);
    t->ncb++;

    /* a callback is free to use OTHER containers */
    if (t->feed != NULL && u < t->feed->univ) {
        (void)op_insert(t->feed, u, 1, 2, (int)(t->ncb & 1));
    }
    if (t->drain != NULL && u < t->drain->univ) {
        if (t->ncb & 1) {
            (void)op_erase(t->drain, u, 2, 1);
        } else {
            op_erase_iter(t->drain, u, 0);
        }
    }
}

static void op_clear(struct tmap * const t, const int with_cb)
{
    int c;

    memset(t->seen, 0, sizeof(t->seen));
    t->ncb = 0;
    t->in_clear = 1;
    cstl_map_clear(&t->m, with_cb ? clear_cb : NULL, t);
    t->in_clear = 0;

    if (with_cb) {
        CHECK(t->ncb == t->n);
        for (c = 0; c < t->mod; c++) {
            CHECK(t->seen[c] == (t->present[c] ? 1 : 0));
        }
    }
    for (c = 0; c < t->mod; c++) {
        t->present[c] = 0;
        t->k[c] = NULL;
        t->v[c] = NULL;
    }
    t->n = 0;
    CHECK(cstl_map_size(&t->m) == 0);
}

/* ------------------------------------------------------------------ */
/* exhaustive: every sequence of length len over a small universe      */

static void exhaustive(const int univ, const int mod, const int len,
                       cstl_compare_func_t * const cmp, void * const priv)
{
    /* per key: insert(copy0), insert(copy1, other value), erase by key,
     * erase by iterator; plus clear with and clear without callback */
    const int nops = univ * 4 + 2;
    unsigned long total = 1, s;
    int d;

    for (d = 0; d < len; d++) {
        total *= (unsigned long)nops;
    }

    for (s = 0; s < total; s++) {
        static struct tmap t;
        const long base = live;
        unsigned long x = s;

        tmap_init(&t, univ, mod, cmp, priv);
        for (d = 0; d < len; d++) {
            const int op = (int)(x % (unsigned long)nops);
            x /= (unsigned long)nops;

            if (op >= univ * 4) {
                op_clear(&t, op - univ * 4);
                CHECK(live == base);
            } else {
                const int u = op / 4;
                switch (op % 4) {
                case 0: (void)op_insert(&t, u, 0, 0, 1); break;
                case 1: (void)op_insert(&t, u, 1, 1, (int)(s & 1)); break;
                case 2: (void)op_erase(&t, u, 2, (int)((s >> 1) & 1) | (d & 1)); break;
                case 3: op_erase_iter(&t, u, 1); break;
                }
            }
            check_all(&t);
        }
        op_clear(&t, (int)(s % 3) != 0);
        check_all(&t);
        CHECK(live == base);
    }
}

/* ------------------------------------------------------------------ */
/* seeded random over long sequences                                    */

static void random_long(const uint64_t seed, const int univ, const int mod,
                        const long nops, const int inject,
                        cstl_compare_func_t * const cmp, void * const priv)
{
    static struct tmap t;
    const long base = live;
    long n;

    rng_state = seed * 2654435761ull + 88172645463325252ull;
    tmap_init(&t, univ, mod, cmp, priv);

    for (n = 0; n < nops; n++) {
        const int u = (int)(rnd() % (unsigned)univ);
        const unsigned r = rnd() % 1000;
        /* phases: growing, shrinking, churning */
        const unsigned bias = (unsigned)((n / 4096) % 3);
        const unsigned ins = (bias == 0) ? 650 : (bias == 1) ? 250 : 450;

        if (r < ins) {
            if (inject && rnd() % 16 == 0) {
                /* the next allocation the library makes (if any) fails */
                fail_countdown = (long)(rnd() % 2);
                (void)op_insert(&t, u, (int)(rnd() % NCOPY),
                                (int)(rnd() % NVAL), 1);
                fail_countdown = -1;
            } else {
                const int rr = op_insert(&t, u, (int)(rnd() % NCOPY),
                                         (int)(rnd() % NVAL),
                                         (int)(rnd() % 4) != 0);
                CHECK(rr == 0 || rr == 1);
            }
        } else if (r < 800) {
            (void)op_erase(&t, u, (int)(rnd() % NCOPY), (int)(rnd() % 4) != 0);
        } else if (r < 990) {
            op_erase_iter(&t, u, (int)(rnd() % NCOPY));
        } else if (r < 992) {
            op_clear(&t, (int)(rnd() % 4) != 0);
            CHECK(live == base);
        } else {
            check_all(&t);
        }
        check_some(&t, u);
    }

    check_all(&t);
    op_clear(&t, 1);
    check_all(&t);
    CHECK(live == base);
    /* clearing an empty (already cleared) map is harmless */
    op_clear(&t, 1);
    op_clear(&t, 0);
    CHECK(live == base);
}

/* ------------------------------------------------------------------ */
/* boundary shapes: ascending, descending, zig-zag fills, full drains   */

static void shapes(cstl_compare_func_t * const cmp, void * const priv,
                   const int univ)
{
    static struct tmap t;
    const long base = live;
    int pass, j;

    tmap_init(&t, univ, univ, cmp, priv);
    for (pass = 0; pass < 6; pass++) {
        for (j = 0; j < univ; j++) {
            int u;
            switch (pass % 3) {
            case 0: u = j; break;
            case 1: u = univ - 1 - j; break;
            default: u = (j & 1) ? univ - 1 - j / 2 : j / 2; break;
            }
            CHECK(op_insert(&t, u, pass % NCOPY, pass % NVAL, j & 1) == 0);
            CHECK(op_insert(&t, u, (pass + 1) % NCOPY, (pass + 1) % NVAL, 1) == 1);
            if ((j & 15) == 0) {
                check_all(&t);
            }
        }
        check_all(&t);
        CHECK(t.n == (size_t)univ);

        /* drain in another order, alternating the two ways of erasing */
        for (j = 0; j < univ; j++) {
            int u;
            switch (pass % 3) {
            case 0: u = (j & 1) ? univ - 1 - j / 2 : j / 2; break;
            case 1: u = j; break;
            default: u = univ - 1 - j; break;
            }
            if (pass >= 3 && j >= univ / 2) {
                break;
            }
            if (j & 1) {
                CHECK(op_erase(&t, u, 2, 1) == 0);
                CHECK(op_erase(&t, u, 2, 1) == -1);
            } else {
                op_erase_iter(&t, u, 0);
                CHECK(op_erase(&t, u, 1, 0) == -1);
            }
            if ((j & 15) == 0) {
                check_all(&t);
            }
        }
        check_all(&t);
        if (pass >= 3) {
            /* the rest goes through clear */
            op_clear(&t, pass & 1);
            CHECK(live == base);
        } else {
            CHECK(t.n == 0);
        }
    }
    op_clear(&t, 1);
    CHECK(live == base);
}

/* ------------------------------------------------------------------ */
/* several maps alive at once, callbacks and comparators that use other
 * maps, allocation failures                                            */

static void several(const uint64_t seed)
{
    static struct tmap a, b, c, ranks, r;
    const long base = live;
    int modc = 7;
    int u, n;

    rng_state = seed * 0x9e3779b97f4a7c15ull + 1;

    /* ranks: key -> permuted rank, used by r's comparator */
    tmap_init(&ranks, 64, 64, cmp_asc, NULL);
    for (u = 0; u < 64; u++) {
        rankval[u] = (u * 37 + 11) % 64;
    }
    for (u = 0; u < 64; u++) {
        cstl_map_iterator_t i;
        /* values of the rank map are ints outside valobj */
        CHECK(cstl_map_insert(&ranks.m, &keyobj[u][0], &rankval[u], &i) == 0);
        CHECK(i.key == &keyobj[u][0] && i.val == &rankval[u]);
        CHECK(cstl_map_insert(&ranks.m, &keyobj[u][1], &rankval[0], &i) == 1);
        CHECK(i.key == &keyobj[u][0] && i.val == &rankval[u]);
    }
    CHECK(cstl_map_size(&ranks.m) == 64);

    tmap_init(&a, 48, 48, cmp_desc, NULL);
    tmap_init(&b, 64, 64, cmp_asc, NULL);
    tmap_init(&c, 40, modc, cmp_mod, &modc);
    tmap_init(&r, 64, 64, cmp_rank, &ranks.m);

    for (n = 0; n < 20000; n++) {
        struct tmap * const t =
            (rnd() & 1) ? ((rnd() & 1) ? &a : &b) : ((rnd() & 1) ? &c : &r);
        const unsigned op = rnd() % 100;

        u = (int)(rnd() % (unsigned)t->univ);
        if (op < 55) {
            if (rnd() % 8 == 0) {
                fail_countdown = 0;
            }
            (void)op_insert(t, u, (int)(rnd() % NCOPY), (int)(rnd() % NVAL), 1);
            fail_countdown = -1;
        } else if (op < 75) {
            (void)op_erase(t, u, (int)(rnd() % NCOPY), 1);
        } else if (op < 97) {
            op_erase_iter(t, u, (int)(rnd() % NCOPY));
        } else if (op < 99) {
            if (t == &a) {
                /* clearing a feeds b and drains c from inside the callback */
                a.feed = &b;
                a.drain = &c;
                op_clear(&a, 1);
                a.feed = NULL;
                a.drain = NULL;
                check_all(&b);
                check_all(&c);
            } else if (t == &r) {
                r.feed = &a;
                r.drain = &b;
                op_clear(&r, 1);
                r.feed = NULL;
                r.drain = NULL;
                check_all(&a);
                check_all(&b);
            } else {
                op_clear(t, (int)(rnd() & 1));
            }
        } else {
            check_all(&a);
            check_all(&b);
            check_all(&c);
            check_all(&r);
        }
        check_some(t, u);
    }

    check_all(&a);
    check_all(&b);
    check_all(&c);
    check_all(&r);

    /* a chain: clearing r fills a, clearing a fills b */
    r.feed = &a;
    op_clear(&r, 1);
    check_all(&a);
    a.feed = &b;
    a.drain = &c;
    op_clear(&a, 1);
    check_all(&b);
    check_all(&c);
    op_clear(&b, 1);
    op_clear(&c, 0);
    CHECK(cstl_map_size(&ranks.m) == 64);
    for (u = 0; u < 64; u++) {
        ranks.present[u] = 1;
        ranks.k[u] = &keyobj[u][0];
        ranks.v[u] = &rankval[u];
    }
    ranks.n = 64;
    op_clear(&ranks, 1);
    CHECK(live == base);
}

/* ------------------------------------------------------------------ */
/* allocation failure at every point of a fill                          */

static void alloc_failures(void)
{
    static struct tmap t;
    const long base = live;
    int u, k;

    tmap_init(&t, 32, 32, cmp_asc, NULL);
    for (u = 0; u < 32; u++) {
        /* let 0, 1, 2 allocations through before the failing one */
        for (k = 0; k < 3; k++) {
            int r;
            fail_countdown = k;
            r = op_insert(&t, u, 0, 0, 1);
            fail_countdown = -1;
            check_all(&t);
            if (r == 0) {
                /* went in; take it out again for the next round */
                CHECK(op_erase(&t, u, 1, 1) == 0);
            }
        }
        CHECK(op_insert(&t, u, 1, 1, 1) == 0);
        /* an existing key is reported as such, failure or not */
        fail_countdown = 0;
        CHECK(op_insert(&t, u, 2, 2, 1) == 1);
        fail_countdown = -1;
        check_all(&t);
    }
    CHECK(t.n == 32);
    /* failure must not disturb find/erase */
    fail_countdown = 0;
    for (u = 0; u < 32; u += 2) {
        CHECK(op_erase(&t, u, 0, 1) == 0);
        check_all(&t);
    }
    fail_countdown = -1;
    op_clear(&t, 1);
    CHECK(live == base);
}

/* ------------------------------------------------------------------ */
/* NULL pointers as key and value, NULL iterator arguments              */

static void null_cb(void * const e, void * const priv)
{
    const cstl_map_iterator_t * const i = e;
    int * const cnt = priv;
    if (i->key == NULL) {
        CHECK(i->val == NULL);
        cnt[0]++;
    } else {
        CHECK(i->key == &keyobj[3][0]);
        CHECK(i->val == NULL);
        cnt[1]++;
    }
}

static void nulls(void)
{
    const long base = live;
    cstl_map_t m;
    cstl_map_iterator_t i, j;
    int cnt[2] = { 0, 0 };

    cstl_map_init(&m, cmp_asc, NULL);
    CHECK(cstl_map_erase(&m, NULL, &i) == -1);
    CHECK(cstl_map_iterator_eq(&i, cstl_map_iterator_end(&m)));
    CHECK(cstl_map_erase(&m, NULL, NULL) == -1);

    /* the NULL key with a NULL value is a real entry, not "end" */
    CHECK(cstl_map_insert(&m, NULL, NULL, &i) == 0);
    CHECK(!cstl_map_iterator_eq(&i, cstl_map_iterator_end(&m)));
    CHECK(i.key == NULL && i.val == NULL);
    CHECK(cstl_map_size(&m) == 1);
    CHECK(cstl_map_insert(&m, NULL, &valobj[0][0], &j) == 1);
    CHECK(cstl_map_iterator_eq(&i, &j));
    CHECK(j.key == NULL && j.val == NULL);
    CHECK(cstl_map_insert(&m, NULL, &valobj[0][0], NULL) == 1);
    CHECK(cstl_map_insert(&m, &keyobj[3][0], NULL, NULL) == 0);
    CHECK(cstl_map_insert(&m, &keyobj[3][1], &valobj[3][0], NULL) == 1);
    CHECK(cstl_map_size(&m) == 2);
    cstl_map_find(&m, NULL, &j);
    CHECK(cstl_map_iterator_eq(&i, &j));
    CHECK(j.key == NULL && j.val == NULL);
    cstl_map_find(&m, &keyobj[3][2], &j);
    CHECK(!cstl_map_iterator_eq(&i, &j));
    CHECK(!cstl_map_iterator_eq(&j, cstl_map_iterator_end(&m)));
    CHECK(j.key == &keyobj[3][0] && j.val == NULL);

    CHECK(cstl_map_erase(&m, NULL, &j) == 0);
    CHECK(cstl_map_iterator_eq(&j, cstl_map_iterator_end(&m)));
    CHECK(j.key == NULL && j.val == NULL);
    CHECK(cstl_map_size(&m) == 1);
    CHECK(cstl_map_erase(&m, NULL, &j) == -1);
    CHECK(cstl_map_iterator_eq(&j, cstl_map_iterator_end(&m)));
    CHECK(cstl_map_insert(&m, NULL, NULL, NULL) == 0);
    CHECK(cstl_map_size(&m) == 2);

    cstl_map_clear(&m, null_cb, cnt);
    CHECK(cnt[0] == 1 && cnt[1] == 1);
    CHECK(cstl_map_size(&m) == 0);
    CHECK(live == base);

    /* the map is usable again after clear */
    CHECK(cstl_map_insert(&m, &keyobj[3][0], NULL, NULL) == 0);
    cnt[0] = cnt[1] = 0;
    cstl_map_clear(&m, null_cb, cnt);
    CHECK(cnt[0] == 0 && cnt[1] == 1);
    cstl_map_clear(&m, null_cb, cnt);
    CHECK(cnt[0] == 0 && cnt[1] == 1);
    CHECK(live == base);
}

/* ------------------------------------------------------------------ */

int main(void)
{
    int m2 = 2, m3 = 3, m5 = 5, m17 = 17;
    uint64_t seed;

    universe_init();

    nulls();
    alloc_failures();

    exhaustive(3, 3, 5, cmp_asc, NULL);
    exhaustive(3, 3, 5, cmp_desc, NULL);
    exhaustive(4, 2, 4, cmp_mod, &m2);
    exhaustive(4, 4, 4, cmp_asc, NULL);
    exhaustive(2, 2, 6, cmp_desc, NULL);
    exhaustive(6, 3, 3, cmp_mod, &m3);

    shapes(cmp_asc, NULL, 1);
    shapes(cmp_asc, NULL, 2);
    shapes(cmp_desc, NULL, 3);
    shapes(cmp_asc, NULL, 64);
    shapes(cmp_desc, NULL, 255);
    shapes(cmp_asc, NULL, UMAX);

    for (seed = 1; seed <= 6; seed++) {
        random_long(seed, 8, 8, 60000, 0, cmp_asc, NULL);
        random_long(seed, 40, 40, 60000, 1, cmp_desc, NULL);
        random_long(seed, UMAX, UMAX, 120000, 1, cmp_asc, NULL);
        random_long(seed, 60, 5, 40000, 1, cmp_mod, &m5);
        random_long(seed, UMAX, 17, 40000, 0, cmp_mod, &m17);
        several(seed);
    }

    CHECK(live == 0);
    printf("C08 ok: %lu checks, %lu comparisons, %lu injected failures\n",
           nchecks, ncmp, nfailed);
    return 0;
}
