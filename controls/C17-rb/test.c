/*
 * C17: bucket selection is fail-stop.
 *
 *  - cstl_hash_div() and cstl_hash_mul() return a value in [0, m) for
 *    every key and every table size m >= 1
 *  - a table that uses them never aborts, whatever is done with it
 *  - a caller-supplied hash function that returns m or more makes the
 *    operation that invoked it abort, and nothing of the caller's is
 *    invoked after the offending return
 *
 * Only the public API is used. Exit status 0 means every check passed.
 */
#define _POSIX_C_SOURCE 200809L

#include "cstl/hash.h"

#include <stdio.h>
#include <stdlib.h>
#include <stdint.h>
#include <string.h>
#include <signal.h>
#include <math.h>
#include <unistd.h>
#include <sys/types.h>
#include <sys/wait.h>
#include <sys/resource.h>

#ifndef VARIANT
#define VARIANT 'b'
#endif

static unsigned long failures;

#define CHECK(COND, ...)                                        \
    do {                                                        \
        if (!(COND)) {                                          \
            if (failures++ < 25) {                              \
                fprintf(stderr, "FAIL %s:%d: ", __FILE__, __LINE__); \
                fprintf(stderr, __VA_ARGS__);                   \
                fprintf(stderr, "\n");                          \
            }                                                   \
        }                                                       \
    } while (0)

/* ------------------------------------------------------------------ */
/* random numbers (xorshift64*)                                        */

static uint64_t rng_state = UINT64_C(0x9E3779B97F4A7C15);

static uint64_t rnd(void)
{
    rng_state ^= rng_state >> 12;
    rng_state ^= rng_state << 25;
    rng_state ^= rng_state >> 27;
    return rng_state * UINT64_C(2685821657736338717);
}

static size_t rnd_below(const size_t n)
{
    return (size_t)(rnd() % n);
}

/* a 64-bit key of random magnitude, frequently near a power of two */
static size_t rnd_key(void)
{
    const unsigned int bits = 1 + (unsigned int)(rnd() % 64);
    uint64_t v = rnd();
    if (bits < 64) {
        v &= (UINT64_C(1) << bits) - 1;
    }
    switch (rnd() % 8) {
    case 0: v = (bits < 64 ? (UINT64_C(1) << bits) : 0) - 1; break;
    case 1: v = (UINT64_C(1) << (bits - 1)); break;
    case 2: v = (UINT64_C(1) << (bits - 1)) + 1; break;
    default: break;
    }
    return (size_t)v;
}

/* ------------------------------------------------------------------ */
/* part 1: cstl_hash_div                                               */

static size_t interesting[512];
static unsigned int n_interesting;

static void add_interesting(const size_t v)
{
    if (n_interesting < sizeof(interesting) / sizeof(interesting[0])) {
        interesting[n_interesting++] = v;
    }
}

static void make_interesting(void)
{
    unsigned int b;

    for (b = 0; b < 8 * sizeof(size_t); b++) {
        const size_t p = (size_t)1 << b;
        add_interesting(p - 1);
        add_interesting(p);
        add_interesting(p + 1);
        add_interesting(p + (p >> 1));
        add_interesting(p + (p >> 1) - 1);
        add_interesting(p + (p >> 1) + 1);
    }
    add_interesting(SIZE_MAX);
    add_interesting(SIZE_MAX - 1);
    add_interesting(SIZE_MAX / 2);
    add_interesting(SIZE_MAX / 3);
    add_interesting(SIZE_MAX / 16);
    add_interesting(10);
    add_interesting(100);
    add_interesting(1000);
    add_interesting(1000003);
}

static void test_div(void)
{
    unsigned int i, j;
    unsigned long n;

    for (i = 0; i < n_interesting; i++) {
        for (j = 0; j < n_interesting; j++) {
            const size_t k = interesting[i], m = interesting[j];
            size_t d;
            if (m == 0) {
                continue;
            }
            for (d = 0; d < 3; d++) {
                const size_t kk[3] = { k, k * m, k * m + (m - 1) };
                const size_t r = cstl_hash_div(kk[d], m);
                CHECK(r < m, "div(%zu, %zu) = %zu out of range",
                      kk[d], m, r);
                CHECK(r == kk[d] % m, "div(%zu, %zu) = %zu not the remainder",
                      kk[d], m, r);
            }
        }
    }

    for (n = 0; n < 3000000ul; n++) {
        const size_t k = rnd_key();
        size_t m = rnd_key();
        size_t r;
        if (m == 0) {
            m = 1;
        }
        r = cstl_hash_div(k, m);
        CHECK(r < m, "div(%zu, %zu) = %zu out of range", k, m, r);
        CHECK(r == k % m, "div(%zu, %zu) = %zu not the remainder", k, m, r);
    }

    /* every small table size with every small key */
    {
        size_t k, m;
        for (m = 1; m <= 300; m++) {
            for (k = 0; k <= 1300; k++) {
                const size_t r = cstl_hash_div(k, m);
                CHECK(r == k % m, "div(%zu, %zu) = %zu", k, m, r);
                CHECK(cstl_hash_div(SIZE_MAX - k, m) < m,
                      "div(SIZE_MAX - %zu, %zu) out of range", k, m);
            }
        }
    }
}

/* ------------------------------------------------------------------ */
/* part 2: cstl_hash_mul                                               */

#if VARIANT == 'a'
/* the documented computation, as the library has always done it */
static size_t ref_mul(const size_t k, const size_t m)
{
    static const float phi = 1.61803398875f;
    const float M = phi * k;
    return (M - floorf(M)) * m;
}
#define MUL_REF_CHECK(K, M_, R)                                         \
    CHECK((R) == ref_mul(K, M_), "mul(%zu, %zu) = %zu, reference %zu",  \
          (size_t)(K), (size_t)(M_), (size_t)(R), ref_mul(K, M_))
#else
#define MUL_REF_CHECK(K, M_, R) (void)0
#endif

static void mul_check(const size_t k, const size_t m)
{
    const size_t r = cstl_hash_mul(k, m);
    CHECK(r < m, "mul(%zu, %zu) = %zu out of range", k, m, r);
    MUL_REF_CHECK(k, m, r);
}

/* the float value with the given exponent and 23-bit mantissa */
static float grid(const unsigned int e, const uint32_t mant)
{
    return ldexpf(1.0f + (float)mant / 8388608.0f, (int)e);
}

/*
 * call mul_check() for k with the table sizes around the float value f:
 * the smallest and the largest integers that convert to f, f itself and
 * the neighbours that convert to the adjacent floats
 */
static void mul_check_sizes_near(const size_t k, const float f)
{
    /* 2^64 cannot be represented in size_t; its neighbours can */
    const double d = f;
    double lo, hi;
    size_t c[8];
    unsigned int n = 0, i;

    if (d < 1.0) {
        return;
    }

    if (d < 16777216.0) {
        /* every integer is its own float */
        c[n++] = (size_t)d;
        if (d >= 2.0) {
            c[n++] = (size_t)d - 1;
        }
        c[n++] = (size_t)d + 1;
    } else {
        const double ulp = (double)f - (double)nextafterf(f, 0.0f);
        const double ulpup = (double)nextafterf(f, INFINITY) - (double)f;
        lo = d - ulp / 2;
        hi = d + ulpup / 2;
        if (lo < 18446744073709551616.0) {
            c[n++] = (size_t)lo;
            c[n++] = (size_t)lo + 1;
            if ((size_t)lo > 1) {
                c[n++] = (size_t)lo - 1;
            }
        }
        if (d < 18446744073709551616.0) {
            c[n++] = (size_t)d;
        }
        if (hi < 18446744073709551616.0) {
            c[n++] = (size_t)hi;
            c[n++] = (size_t)hi - 1;
            c[n++] = (size_t)hi + 1;
        } else {
            c[n++] = SIZE_MAX;
            c[n++] = SIZE_MAX - 1;
        }
    }

    for (i = 0; i < n; i++) {
        if (c[i] != 0) {
            mul_check(k, c[i]);
        }
    }
}

static void test_mul(void)
{
    /* table sizes used with every key */
    static const size_t every[] = {
        1, 2, 3, 5, 7, 8, 10, 31, 32, 33, 255, 1000, 65535, 65536,
        8388607, 8388608, 8388609, 16777215, 16777216, 16777217, 16777219,
        33554431, 33554433, 4294967295u, 4294967296u,
        (size_t)1 << 53, ((size_t)1 << 53) + 1,
        SIZE_MAX / 2, SIZE_MAX / 2 + 1, SIZE_MAX - 1, SIZE_MAX,
    };
    const unsigned int n_every = sizeof(every) / sizeof(every[0]);

    /*
     * the keys giving the largest result in each range [2^j, 2^(j+1)) and
     * overall; those are the ones closest to producing an index of m
     */
    size_t worst[64][4];
    size_t worst_r[64][4];
    size_t k;
    unsigned int i, j, e;

    memset(worst, 0, sizeof(worst));
    memset(worst_r, 0, sizeof(worst_r));

    /*
     * phi * k is at least 2^23, and therefore an integer, for every k
     * from 5184283 on; below that every k is its own float, so this loop
     * visits every product that has a fractional part
     */
    for (k = 0; k < ((size_t)1 << 23) + 4096; k++) {
        size_t r;

        for (i = 0; i < n_every; i++) {
            mul_check(k, every[i]);
        }

        /* 2^24 scales the fraction exactly */
        r = cstl_hash_mul(k, (size_t)1 << 24);
        for (j = 0; (k >> j) > 1; j++)
            ;
        {
            /* keep the four largest, sorted */
            size_t ck = k, cr = r;
            for (i = 0; i < 4; i++) {
                if (cr >= worst_r[j][i]) {
                    const size_t tr = worst_r[j][i], tk = worst[j][i];
                    worst_r[j][i] = cr;
                    worst[j][i] = ck;
                    cr = tr;
                    ck = tk;
                }
            }
        }
    }

    /* the worst keys against the whole range of scale factors */
    for (j = 0; j < 24; j++) {
        for (i = 0; i < 4; i++) {
            const size_t wk = worst[j][i];
            for (e = 0; e <= 64; e++) {
                uint32_t s;
                if (e == 64) {
                    mul_check_sizes_near(wk, grid(e, 0));
                    break;
                }
                for (s = 0; s < 1024; s++) {
                    mul_check_sizes_near(wk, grid(e, s));
                    mul_check_sizes_near(wk, grid(e, 8388607u - s));
                    mul_check_sizes_near(
                        wk, grid(e, (uint32_t)(rnd() & 8388607u)));
                }
            }
        }
    }

    /* every table size up to 2^16 and a bit, with the worst keys */
    for (j = 0; j < 24; j++) {
        size_t m;
        for (m = 1; m < 70000; m++) {
            mul_check(worst[j][0], m);
        }
    }

    /* small tables, small keys, exhaustively */
    {
        size_t m;
        for (m = 1; m <= 512; m++) {
            for (k = 0; k < 20000; k++) {
                mul_check(k, m);
            }
        }
    }

    /* large keys: the float grid of k itself, sampled in every binade */
    for (e = 22; e < 64; e++) {
        uint32_t s;
        for (s = 0; s < 20000; s++) {
            const uint32_t mant =
                (s < 4096 ? s
                 : s < 8192 ? 8388607u - (s - 4096)
                 : (uint32_t)(rnd() & 8388607u));
            const double d = grid(e, mant);
            size_t kk[3];
            kk[0] = (size_t)d;
            kk[1] = kk[0] - 1;
            kk[2] = kk[0] + 1;
            for (j = 0; j < 3; j++) {
                for (i = 0; i < n_every; i += (s & 3) + 1) {
                    mul_check(kk[j], every[i]);
                }
                mul_check(kk[j], rnd_key() | 1);
            }
        }
    }

    /* boundary and random 64-bit keys against boundary and random sizes */
    for (i = 0; i < n_interesting; i++) {
        for (j = 0; j < n_interesting; j++) {
            if (interesting[j] != 0) {
                mul_check(interesting[i], interesting[j]);
            }
        }
    }
    {
        unsigned long n;
        for (n = 0; n < 4000000ul; n++) {
            const size_t m = rnd_key();
            mul_check(rnd_key(), m == 0 ? 1 : m);
        }
    }
}

/* ------------------------------------------------------------------ */
/* part 3: tables with the built-in (and other in-range) functions     */
/*         never abort; checked against a simple model                 */

struct memo
{
    size_t salt;
    struct cstl_hash_node hn;
};

static struct cstl_hash g_memo = CSTL_HASH_INITIALIZER(struct memo, hn);
static struct memo g_memo_elem[64];
static unsigned long g_nested_finds;

/* an in-range function of the caller's */
static size_t hash_fib(const size_t k, const size_t m)
{
    return (size_t)(((uint64_t)k * UINT64_C(11400714819323198485)) >> 11) % m;
}

/* a hash function that consults another table to do its job */
static size_t hash_memo(const size_t k, const size_t m)
{
    const struct memo * const e =
        cstl_hash_find(&g_memo, k % 64, NULL, NULL);
    g_nested_finds++;
    if (e == NULL) {
        /* cannot happen; reported by the caller through the range check */
        return m;
    }
    return cstl_hash_div(k ^ e->salt, m);
}

/* one that is a thin wrapper around the built-ins */
static size_t hash_mix(const size_t k, const size_t m)
{
    return (cstl_hash_mul(k, m) + cstl_hash_div(k, m)) % m;
}

static cstl_hash_func_t * const good_funcs[] = {
    cstl_hash_div, cstl_hash_mul, hash_fib, hash_memo, hash_mix,
    cstl_hash_mul, cstl_hash_div,
};
#define N_GOOD (sizeof(good_funcs) / sizeof(good_funcs[0]))

#define MAXE 192

struct table
{
    struct cstl_hash h;
    size_t esize, off;
    void * elem[MAXE];
    size_t key[MAXE];
    char in[MAXE];
    char seen[MAXE];
    size_t n_in;
    size_t buckets;
    int ready;
};

struct elem_a
{
    int tag;
    struct cstl_hash_node hn;
    long payload;
};
struct elem_b
{
    struct cstl_hash_node hn;
    double d;
};
struct elem_c
{
    char name[13];
    double d[3];
    struct cstl_hash_node hn;
};

static int table_index_of(const struct table * const t, const void * const e)
{
    int i;
    for (i = 0; i < MAXE; i++) {
        if (t->elem[i] == e) {
            return i;
        }
    }
    return -1;
}

static void table_setup(struct table * const t,
                        const size_t esize, const size_t off, const int dyn)
{
    int i;
    memset(t, 0, sizeof(*t));
    t->esize = esize;
    t->off = off;
    if (dyn) {
        cstl_hash_init(&t->h, off);
    }
    for (i = 0; i < MAXE; i++) {
        t->elem[i] = malloc(esize);
        memset(t->elem[i], 0x5a, esize);
    }
}

static void table_swap_model(struct table * const a, struct table * const b)
{
    /* everything but the hash object itself */
    struct table t;
    struct cstl_hash ha = a->h, hb = b->h;
    t = *a; *a = *b; *b = t;
    a->h = ha;
    b->h = hb;
}

struct visit_state
{
    struct table * t;
    size_t count;
    int erase_mod;
    int stop_after;
};

static int visit_count_const(const void * const e, void * const p)
{
    struct visit_state * const vs = p;
    const int i = table_index_of(vs->t, e);
    CHECK(i >= 0, "foreach_const: unknown element");
    if (i >= 0) {
        CHECK(vs->t->in[i], "foreach_const: element %d is not in the table", i);
        CHECK(!vs->t->seen[i], "foreach_const: element %d visited twice", i);
        vs->t->seen[i] = 1;
    }
    vs->count++;
    return 0;
}

static int visit_mut(void * const e, void * const p)
{
    struct visit_state * const vs = p;
    const int i = table_index_of(vs->t, e);
    CHECK(i >= 0, "foreach: unknown element");
    if (i >= 0) {
        CHECK(vs->t->in[i], "foreach: element %d is not in the table", i);
        CHECK(!vs->t->seen[i], "foreach: element %d visited twice", i);
        vs->t->seen[i] = 1;
        if (vs->erase_mod != 0 && i % vs->erase_mod == 0) {
            /* removing the current element is allowed */
            cstl_hash_erase(&vs->t->h, e);
            vs->t->in[i] = 0;
            vs->t->n_in--;
        }
    }
    vs->count++;
    if (vs->stop_after != 0 && vs->count == (size_t)vs->stop_after) {
        return 77;
    }
    return 0;
}

static int visit_is(const void * const e, void * const p)
{
    return e == p;
}

static struct table * g_clear_table;
static size_t g_clear_count;

static void clear_cb(void * const e, void * const p)
{
    const int i = table_index_of(g_clear_table, e);
    (void)p;
    CHECK(i >= 0, "clear: unknown element");
    if (i >= 0) {
        CHECK(g_clear_table->in[i], "clear: element %d not in the table", i);
        g_clear_table->in[i] = 0;
        /* ownership passes here; scribble over the whole element */
        memset(e, 0xa5, g_clear_table->esize);
    }
    g_clear_count++;
}

static size_t pick_key(void)
{
    switch (rnd() % 4) {
    case 0: return rnd_below(16);
    case 1: return rnd_below(1000);
    case 2: return interesting[rnd_below(n_interesting)];
    default: return rnd_key();
    }
}

static void table_check_all(struct table * const t, const int mut)
{
    struct visit_state vs;
    int r;

    memset(t->seen, 0, sizeof(t->seen));
    vs.t = t;
    vs.count = 0;
    vs.erase_mod = 0;
    vs.stop_after = 0;
    if (mut) {
        r = cstl_hash_foreach(&t->h, visit_mut, &vs);
    } else {
        r = cstl_hash_foreach_const(&t->h, visit_count_const, &vs);
    }
    CHECK(r == 0, "foreach returned %d", r);
    CHECK(vs.count == t->n_in, "foreach visited %zu of %zu", vs.count, t->n_in);
    CHECK(cstl_hash_size(&t->h) == t->n_in, "size %zu, expected %zu",
          cstl_hash_size(&t->h), t->n_in);
}

static void table_step(struct table * const t)
{
    const unsigned int op = (unsigned int)(rnd() % 100);
    int i;

    if (!t->ready) {
        const size_t n = 1 + rnd_below(40);
        cstl_hash_func_t * const f =
            (rnd() % 3 == 0 ? NULL : good_funcs[rnd_below(N_GOOD)]);
        CHECK(cstl_hash_size(&t->h) == 0, "fresh table not empty");
        cstl_hash_resize(&t->h, 0, f); /* documented no-op */
        cstl_hash_resize(&t->h, n, f);
        t->buckets = n;
        t->ready = 1;
        return;
    }

    if (op < 35) {
        /* insert */
        i = (int)rnd_below(MAXE);
        if (!t->in[i]) {
            size_t k = pick_key();
            if (rnd() % 3 == 0 && t->n_in > 0) {
                /* duplicate an existing key */
                int j = (int)rnd_below(MAXE);
                while (!t->in[j]) {
                    j = (j + 1) % MAXE;
                }
                k = t->key[j];
            }
            cstl_hash_insert(&t->h, k, t->elem[i]);
            t->in[i] = 1;
            t->key[i] = k;
            t->n_in++;
        }
    } else if (op < 55) {
        /* find by key */
        const size_t k = (rnd() % 2 && t->n_in > 0
                          ? t->key[rnd_below(MAXE)] : pick_key());
        const void * const e = cstl_hash_find(&t->h, k, NULL, NULL);
        int any = 0;
        for (i = 0; i < MAXE; i++) {
            any |= (t->in[i] && t->key[i] == k);
        }
        CHECK((e != NULL) == (any != 0), "find(%zu) %s", k,
              e ? "found a ghost" : "missed an element");
        if (e != NULL) {
            i = table_index_of(t, e);
            CHECK(i >= 0 && t->in[i] && t->key[i] == k,
                  "find(%zu) returned the wrong element", k);
        }
    } else if (op < 65) {
        /* find a particular element among duplicates */
        i = (int)rnd_below(MAXE);
        {
            void * const e =
                cstl_hash_find(&t->h, t->key[i], visit_is, t->elem[i]);
            if (t->in[i]) {
                CHECK(e == t->elem[i], "find with visitor missed element %d", i);
            } else {
                CHECK(e == NULL, "find with visitor found absent element %d", i);
            }
        }
    } else if (op < 80) {
        /* erase */
        i = (int)rnd_below(MAXE);
        if (t->in[i]) {
            cstl_hash_erase(&t->h, t->elem[i]);
            t->in[i] = 0;
            t->n_in--;
            CHECK(cstl_hash_find(&t->h, t->key[i], visit_is, t->elem[i])
                  == NULL, "erased element %d still found", i);
        }
    } else if (op < 87) {
        /* resize and/or change the function */
        size_t n;
        cstl_hash_func_t * const f =
            (rnd() % 3 == 0 ? NULL : good_funcs[rnd_below(N_GOOD)]);
        switch (rnd() % 6) {
        case 0: n = 1; break;
        case 1: n = t->buckets; break;
        case 2: n = t->buckets + 1; break;
        case 3: n = 1 + rnd_below(2000); break;
        default: n = 1 + rnd_below(64); break;
        }
        cstl_hash_resize(&t->h, n, f);
        t->buckets = n;
    } else if (op < 89) {
        cstl_hash_rehash(&t->h);
    } else if (op < 91) {
        cstl_hash_shrink_to_fit(&t->h);
    } else if (op < 93) {
        table_check_all(t, 0);
    } else if (op < 95) {
        table_check_all(t, 1);
    } else if (op < 97) {
        /* foreach that removes some elements and may stop early */
        struct visit_state vs;
        int r;
        memset(t->seen, 0, sizeof(t->seen));
        vs.t = t;
        vs.count = 0;
        vs.erase_mod = 2 + (int)rnd_below(5);
        vs.stop_after = (rnd() % 2 ? 1 + (int)rnd_below(20) : 0);
        r = cstl_hash_foreach(&t->h, visit_mut, &vs);
        CHECK(r == 0 || (r == 77 && vs.count == (size_t)vs.stop_after),
              "foreach returned %d", r);
    } else if (op < 98) {
        /* a request that cannot be satisfied leaves the table alone */
        const size_t before = cstl_hash_size(&t->h);
        cstl_hash_resize(&t->h, SIZE_MAX / 64, NULL);
        CHECK(cstl_hash_size(&t->h) == before, "failed resize changed size");
    } else if (op < 99) {
        /* clear with a callback, then the table is as initialised */
        g_clear_table = t;
        g_clear_count = 0;
        cstl_hash_clear(&t->h, clear_cb);
        CHECK(g_clear_count == t->n_in, "clear called back %zu of %zu",
              g_clear_count, t->n_in);
        for (i = 0; i < MAXE; i++) {
            CHECK(!t->in[i], "clear skipped element %d", i);
            t->in[i] = 0;
        }
        t->n_in = 0;
        t->ready = 0;
        CHECK(cstl_hash_size(&t->h) == 0, "cleared table not empty");
    } else {
        /* clear without a callback */
        cstl_hash_clear(&t->h, NULL);
        memset(t->in, 0, sizeof(t->in));
        t->n_in = 0;
        t->ready = 0;
    }

    if (t->ready) {
        const float want = (float)t->n_in / t->buckets;
        const float got = cstl_hash_load(&t->h);
        CHECK(cstl_hash_size(&t->h) == t->n_in, "size %zu, expected %zu",
              cstl_hash_size(&t->h), t->n_in);
        CHECK(fabsf(want - got) <= 1e-5f * (1 + want),
              "load %g, expected %g", got, want);
    }
}

static void test_good_tables(void)
{
    static struct table tb[4];
    unsigned long step;
    unsigned int i;

    /* the memo table used by hash_memo() */
    cstl_hash_resize(&g_memo, 5, cstl_hash_div);
    for (i = 0; i < 64; i++) {
        g_memo_elem[i].salt = (size_t)rnd();
        cstl_hash_insert(&g_memo, i, &g_memo_elem[i]);
    }

    table_setup(&tb[0], sizeof(struct elem_a), offsetof(struct elem_a, hn), 1);
    table_setup(&tb[1], sizeof(struct elem_b), offsetof(struct elem_b, hn), 1);
    table_setup(&tb[2], sizeof(struct elem_c), offsetof(struct elem_c, hn), 1);
    table_setup(&tb[3], sizeof(struct elem_a), offsetof(struct elem_a, hn), 0);
    {
        /* the fourth comes from the static initialiser */
        const struct cstl_hash init = CSTL_HASH_INITIALIZER(struct elem_a, hn);
        tb[3].h = init;
    }

    for (step = 0; step < 600000ul; step++) {
        table_step(&tb[rnd_below(4)]);

        if (step % 997 == 0) {
            /* keep the memo table busy rehashing, too */
            cstl_hash_resize(&g_memo, 1 + rnd_below(97),
                             rnd() % 2 ? cstl_hash_mul : cstl_hash_div);
        }
        if (step % 4999 == 0) {
            const unsigned int a = (unsigned int)rnd_below(4);
            const unsigned int b = (unsigned int)rnd_below(4);
            cstl_hash_swap(&tb[a].h, &tb[b].h);
            table_swap_model(&tb[a], &tb[b]);
        }
        if (step % 20011 == 0) {
            for (i = 0; i < 4; i++) {
                if (tb[i].ready) {
                    table_check_all(&tb[i], (int)(step & 1));
                }
            }
        }
    }

    for (i = 0; i < 4; i++) {
        int j;
        if (tb[i].ready) {
            table_check_all(&tb[i], 0);
        }
        cstl_hash_clear(&tb[i].h, NULL);
        for (j = 0; j < MAXE; j++) {
            free(tb[i].elem[j]);
        }
    }
    CHECK(g_nested_finds > 0, "hash_memo never ran");
    cstl_hash_clear(&g_memo, NULL);
}

/* big tables: extreme keys with the built-ins, table sizes up to 2^20 */
static void test_big_tables(void)
{
    static const size_t sizes[] = {
        1, 2, 3, 1023, 1024, 1025, 65537, 1048576, 1000003, 4,
    };
    struct big { struct cstl_hash_node hn; } * e;
    const size_t n = 20000;
    DECLARE_CSTL_HASH(h, struct big, hn);
    size_t i;
    unsigned int s;

    e = malloc(n * sizeof(*e));
    cstl_hash_resize(&h, 17, NULL); /* the default is cstl_hash_mul */
    for (s = 0; s < sizeof(sizes) / sizeof(sizes[0]); s++) {
        for (i = s; i < n; i += sizeof(sizes) / sizeof(sizes[0])) {
            size_t k;
            switch (i % 5) {
            case 0: k = SIZE_MAX - i; break;
            case 1: k = i; break;
            case 2: k = ((size_t)1 << (i % 64)) + i; break;
            case 3: k = i * 5184283u; break;
            default: k = (size_t)rnd(); break;
            }
            cstl_hash_insert(&h, k, &e[i]);
            CHECK(cstl_hash_find(&h, k, visit_is, &e[i]) == &e[i],
                  "big table lost element %zu", i);
        }
        cstl_hash_resize(&h, sizes[s], (s & 1) ? cstl_hash_div : cstl_hash_mul);
        if (s & 2) {
            cstl_hash_rehash(&h);
        }
    }
    CHECK(cstl_hash_size(&h) == n, "big table size %zu", cstl_hash_size(&h));
    for (i = 0; i < n; i++) {
        cstl_hash_erase(&h, &e[i]);
        if (i % 1000 == 0) {
            cstl_hash_shrink_to_fit(&h);
        }
    }
    CHECK(cstl_hash_size(&h) == 0, "big table not empty");
    cstl_hash_clear(&h, NULL);
    free(e);
}

/* ------------------------------------------------------------------ */
/* part 4: out-of-range functions abort the operation                  */

static int g_pipe = -1;

static void report(const char c)
{
    if (g_pipe >= 0) {
        ssize_t w = write(g_pipe, &c, 1);
        (void)w;
    }
}

static int evil_armed;          /* return out-of-range values */
static int evil_kind;           /* which out-of-range value */
static int evil_selective;      /* only for evil_key */
static size_t evil_key;
static int evil_fired;
static int evil_nested;         /* consult another table first */

static size_t evil_value(const size_t m)
{
    switch (evil_kind) {
    case 0: return m;
    case 1: return m + 1;
    case 2: return SIZE_MAX;
    case 3: return 2 * m + 5;
    case 4: return SIZE_MAX / 2 + 1 + m;
    default: return m;
    }
}

static size_t hash_evil(const size_t k, const size_t m)
{
    if (evil_fired) {
        /* the library went on after an out-of-range result */
        report('H');
    }
    if (evil_nested) {
        (void)cstl_hash_find(&g_memo, k % 7, NULL, NULL);
    }
    if (evil_armed && (!evil_selective || k == evil_key)) {
        evil_fired = 1;
        report('B');
        return evil_value(m);
    }
    return hash_fib(k, m);
}

static int visit_after(void * const e, void * const p)
{
    (void)e; (void)p;
    if (evil_fired) {
        report('V');
    }
    return 0;
}

static int visit_after_const(const void * const e, void * const p)
{
    (void)e; (void)p;
    if (evil_fired) {
        report('V');
    }
    return 0;
}

struct item
{
    long id;
    struct cstl_hash_node hn;
};

#define N_SCENARIOS 18

/* runs in a child process; returns only if nothing aborted */
static void scenario(const int sc, const size_t N)
{
    DECLARE_CSTL_HASH(h, struct item, hn);
    const size_t n_items = 3 * N + 5 < 3000 ? 3 * N + 5 : 3000;
    struct item * const it = malloc((n_items + 2) * sizeof(*it));
    struct item * const extra = &it[n_items];
    const int armed = evil_armed;
    size_t i;

    /* the memo table for nested use */
    {
        static struct memo m7[7];
        cstl_hash_resize(&g_memo, 3, cstl_hash_mul);
        for (i = 0; i < 7; i++) {
            cstl_hash_insert(&g_memo, i, &m7[i]);
        }
    }

    evil_armed = 0;
    evil_key = 424243;

#define POPULATE(FUNC, COUNT)                                   \
    do {                                                        \
        cstl_hash_resize(&h, (COUNT), (FUNC));                  \
        for (i = 0; i < n_items; i++) {                         \
            it[i].id = (long)i;                                 \
            cstl_hash_insert(&h, i * 7 + (i & 1), &it[i]);      \
        }                                                       \
        cstl_hash_rehash(&h);                                   \
    } while (0)

    switch (sc) {
    case 0:
        cstl_hash_resize(&h, N, hash_evil);
        evil_armed = armed;
        cstl_hash_insert(&h, 5, extra);
        break;
    case 1:
        cstl_hash_resize(&h, N, hash_evil);
        evil_armed = armed;
        (void)cstl_hash_find(&h, 5, visit_after_const, NULL);
        break;
    case 2:
        POPULATE(hash_evil, N);
        evil_armed = armed;
        (void)cstl_hash_find(&h, 7, visit_after_const, NULL);
        break;
    case 3:
        POPULATE(hash_evil, N);
        evil_armed = armed;
        cstl_hash_insert(&h, 99, extra);
        break;
    case 4:
        POPULATE(hash_evil, N);
        evil_armed = armed;
        cstl_hash_erase(&h, &it[n_items / 2]);
        break;
    case 5:
        POPULATE(cstl_hash_mul, N);
        cstl_hash_resize(&h, N + 3, hash_evil);
        evil_armed = armed;
        cstl_hash_rehash(&h);
        break;
    case 6:
        POPULATE(cstl_hash_mul, N);
        cstl_hash_resize(&h, N + 3, hash_evil);
        evil_armed = armed;
        (void)cstl_hash_foreach(&h, visit_after, NULL);
        break;
    case 7:
        POPULATE(cstl_hash_div, N + 5);
        cstl_hash_resize(&h, N, hash_evil);
        evil_armed = armed;
        cstl_hash_shrink_to_fit(&h);
        break;
    case 8:
        POPULATE(cstl_hash_mul, N);
        cstl_hash_resize(&h, N + 3, hash_evil);
        evil_armed = armed;
        cstl_hash_resize(&h, N + 9, cstl_hash_div);
        break;
    case 9:
        POPULATE(cstl_hash_mul, N);
        cstl_hash_resize(&h, N, hash_evil);
        evil_armed = armed;
        (void)cstl_hash_find(&h, 14, visit_after_const, NULL);
        break;
    case 10:
        POPULATE(cstl_hash_div, N);
        cstl_hash_resize(&h, N, hash_evil);
        evil_armed = armed;
        cstl_hash_insert(&h, 1234567, extra);
        break;
    case 11:
        POPULATE(cstl_hash_mul, N);
        cstl_hash_resize(&h, N, hash_evil);
        evil_armed = armed;
        cstl_hash_erase(&h, &it[1]);
        break;
    case 12:
        evil_selective = 1;
        evil_armed = armed;
        POPULATE(hash_evil, N);
        (void)cstl_hash_find(&h, evil_key, visit_after_const, NULL);
        break;
    case 13:
        evil_selective = 1;
        evil_armed = armed;
        POPULATE(hash_evil, N);
        cstl_hash_insert(&h, evil_key, extra);
        break;
    case 14:
        /* the function being retired goes bad during the rehash */
        POPULATE(hash_evil, N);
        cstl_hash_resize(&h, N + 3, cstl_hash_mul);
        evil_armed = armed;
        (void)cstl_hash_find(&h, 21, visit_after_const, NULL);
        break;
    case 15:
        /* the incremental sweep reaches a key the new function rejects */
        POPULATE(cstl_hash_div, N);
        cstl_hash_insert(&h, evil_key, extra);
        evil_selective = 1;
        cstl_hash_resize(&h, N + 2, hash_evil);
        evil_armed = armed;
        for (i = 0; i < 4 * N + 16; i++) {
            (void)cstl_hash_find(&h, i * 7 + (i & 1), visit_after_const, NULL);
        }
        break;
    case 16:
        /* as 5, with the function using another table on the way */
        evil_nested = 1;
        POPULATE(cstl_hash_div, N);
        cstl_hash_resize(&h, 2 * N + 1, hash_evil);
        evil_armed = armed;
        cstl_hash_rehash(&h);
        break;
    case 17:
        /* shrinking table, keyed operation */
        POPULATE(cstl_hash_mul, 2 * N + 1);
        cstl_hash_resize(&h, N, hash_evil);
        evil_armed = armed;
        (void)cstl_hash_find(&h, 0, visit_after_const, NULL);
        break;
    default:
        break;
    }
#undef POPULATE

    evil_armed = 0;
    evil_selective = 0;

    /* not aborted */
    report('R');

    /* a table that was not broken keeps working */
    if (!armed) {
        size_t cnt = 0;
        cstl_hash_rehash(&h);
        for (i = 0; i < n_items; i++) {
            if (cstl_hash_find(&h, i * 7 + (i & 1), visit_is, &it[i])
                == &it[i]) {
                cnt++;
            }
        }
        if (sc >= 2 && cnt != n_items - (sc == 4 || sc == 11 ? 1 : 0)) {
            report('L');
        }
    }
    cstl_hash_clear(&h, NULL);
    cstl_hash_clear(&g_memo, NULL);
    free(it);
}

static void run_scenario(const int sc, const size_t N, const int kind)
{
    int fd[2];
    pid_t pid;
    int status = 0;
    char buf[64];
    ssize_t got;

    if (pipe(fd) != 0) {
        perror("pipe");
        exit(2);
    }
    fflush(NULL);
    pid = fork();
    if (pid < 0) {
        perror("fork");
        exit(2);
    }
    if (pid == 0) {
        close(fd[0]);
        g_pipe = fd[1];
        signal(SIGABRT, SIG_DFL);
        evil_kind = kind;
        evil_armed = (kind >= 0);
        scenario(sc, N);
        _exit(0);
    }
    close(fd[1]);
    while (waitpid(pid, &status, 0) < 0)
        ;
    got = read(fd[0], buf, sizeof(buf) - 1);
    close(fd[0]);
    if (got < 0) {
        got = 0;
    }
    buf[got] = '\0';

    if (kind >= 0) {
        CHECK(WIFSIGNALED(status) && WTERMSIG(status) == SIGABRT,
              "scenario %d N=%zu kind=%d: no abort (status %#x, trace \"%s\")",
              sc, N, kind, (unsigned int)status, buf);
        CHECK(strcmp(buf, "B") == 0,
              "scenario %d N=%zu kind=%d: trace \"%s\", expected \"B\"",
              sc, N, kind, buf);
    } else {
        CHECK(WIFEXITED(status) && WEXITSTATUS(status) == 0,
              "scenario %d N=%zu with a good function: status %#x",
              sc, N, (unsigned int)status);
        CHECK(strcmp(buf, "R") == 0,
              "scenario %d N=%zu with a good function: trace \"%s\"",
              sc, N, buf);
    }
}

static void test_fail_stop(void)
{
    static const size_t sizes[] = { 1, 2, 3, 8, 31, 1000 };
    unsigned int s;
    int sc, kind;

    for (sc = 0; sc < N_SCENARIOS; sc++) {
        for (s = 0; s < sizeof(sizes) / sizeof(sizes[0]); s++) {
            for (kind = -1; kind < 5; kind++) {
                run_scenario(sc, sizes[s], kind);
            }
        }
    }
}

/* ------------------------------------------------------------------ */

int main(void)
{
    struct rlimit rl;

    rl.rlim_cur = rl.rlim_max = 0;
    setrlimit(RLIMIT_CORE, &rl);

    make_interesting();

    test_fail_stop();
    test_div();
    test_mul();
    test_good_tables();
    test_big_tables();

    if (failures != 0) {
        fprintf(stderr, "%lu check(s) failed\n", failures);
        return 1;
    }
    printf("C17 variant %c: all checks passed\n", VARIANT);
    return 0;
}
