/*
 * C03 / change a: the incremental rehash sweep runs from the highest
 * numbered bucket down to bucket 0 instead of from 0 upward.
 *
 * Build + run (from the worktree root, i.e. the directory with the Makefile):
 *   make build && gcc -std=c99 -O1 -Wall -Wextra -Iinclude -o _keep/a/test _keep/a/test.c build/libcstl.a -lm && ./_keep/a/test
 *
 * Model-based check of two hash tables driven by insert / find / erase /
 * erase-of-non-member / resize (grow, shrink, new hash function, resize on
 * top of a pending resize) / forced rehash / shrink-to-fit / swap, with
 * lookups, inserts and erases landing at every stage of the sweep:
 * exhaustive short histories plus long seeded random ones. Checked: size,
 * every live element found by key, no erased element found, duplicates
 * offered to the visit function at most once each (all of them when none is
 * accepted), the accepted one returned, erase removes exactly the object
 * passed. Only the public API is used; nothing depends on bucket layout,
 * chain order or on how far the sweep has progressed.
 */
#include "cstl/hash.h"

#include <stdio.h>
#include <stdlib.h>
#include <string.h>

#define CHECK(c) do { if (!(c)) { \
    fprintf(stderr, "%s:%d: CHECK failed: %s\n", __FILE__, __LINE__, #c); \
    exit(1); } } while (0)

#define MAXE 4096
#define NKEYS 7

struct elem {
    size_t key;
    int owner;      /* 0/1: which model table holds it, -1: none */
    int offered;    /* scratch */
    struct cstl_hash_node hn;
};

/* --- hash functions: all return a value in [0, m) ------------------------- */
static size_t hf_half(size_t k, size_t m) { return (k / 2) % m; }
static size_t hf_zero(size_t k, size_t m) { (void)k; (void)m; return 0; }
static size_t hf_rev(size_t k, size_t m) { return (m - 1) - (k % m); }
static cstl_hash_func_t * const HF[] = {
    NULL, cstl_hash_div, cstl_hash_mul, hf_half, hf_zero, hf_rev
};
#define NHF (sizeof(HF) / sizeof(HF[0]))

/* --- the two tables and the model ------------------------------------------ */
static struct cstl_hash H[2];
static int model_of[2];           /* model_of[i]: which model set H[i] holds */
static struct elem pool[MAXE];
static size_t npool;

static size_t model_size(int set)
{
    size_t i, n = 0;
    for (i = 0; i < npool; i++) {
        n += (pool[i].owner == set);
    }
    return n;
}
static size_t model_count(int set, size_t key)
{
    size_t i, n = 0;
    for (i = 0; i < npool; i++) {
        n += (pool[i].owner == set && pool[i].key == key);
    }
    return n;
}

static void reset_all(void)
{
    int i;
    for (i = 0; i < 2; i++) {
        cstl_hash_init(&H[i], offsetof(struct elem, hn));
        cstl_hash_resize(&H[i], 2 + (size_t)i, NULL);
        model_of[i] = i;
    }
    npool = 0;
}

static void destroy_all(void)
{
    cstl_hash_clear(&H[0], NULL);
    cstl_hash_clear(&H[1], NULL);
}

/* --- find checks ------------------------------------------------------------ */
struct fv {
    int set;
    size_t key;
    const struct elem * accept;   /* NULL: accept nothing */
    size_t calls;
};

static int find_visit(const void * e, void * p)
{
    struct fv * const f = p;
    struct elem * const el = (struct elem *)e;

    CHECK(el >= pool && el < pool + npool);
    CHECK(el->owner == f->set);       /* never an erased / foreign element */
    CHECK(el->key == f->key);         /* only matching keys are offered */
    CHECK(el->offered == 0);          /* at most once per find */
    el->offered = 1;
    f->calls++;
    return el == f->accept;
}

static void clear_offered(void)
{
    size_t i;
    for (i = 0; i < npool; i++) {
        pool[i].offered = 0;
    }
}

/* find with no visit function */
static void check_find_plain(int t, size_t key)
{
    const int set = model_of[t];
    struct elem * const got = cstl_hash_find(&H[t], key, NULL, NULL);
    if (model_count(set, key) == 0) {
        CHECK(got == NULL);
    } else {
        CHECK(got != NULL && got >= pool && got < pool + npool);
        CHECK(got->owner == set && got->key == key);
    }
}

/* find with a visit function that accepts nothing: all are offered once */
static void check_find_reject(int t, size_t key)
{
    struct fv f;
    void * got;
    f.set = model_of[t];
    f.key = key;
    f.accept = NULL;
    f.calls = 0;
    clear_offered();
    got = cstl_hash_find(&H[t], key, find_visit, &f);
    CHECK(got == NULL);
    CHECK(f.calls == model_count(f.set, key));
}

/* find with a visit function that accepts one particular live element */
static void check_find_accept(int t, struct elem * target)
{
    struct fv f;
    void * got;
    f.set = model_of[t];
    f.key = target->key;
    f.accept = target;
    f.calls = 0;
    CHECK(target->owner == f.set);
    clear_offered();
    got = cstl_hash_find(&H[t], target->key, find_visit, &f);
    CHECK(got == target);
    CHECK(target->offered == 1);
    CHECK(f.calls >= 1 && f.calls <= model_count(f.set, target->key));
}

static void check_sizes(void)
{
    CHECK(cstl_hash_size(&H[0]) == model_size(model_of[0]));
    CHECK(cstl_hash_size(&H[1]) == model_size(model_of[1]));
}

static void check_everything(int t)
{
    size_t k, i;
    check_sizes();
    for (k = 0; k <= NKEYS; k++) {      /* NKEYS itself is never inserted */
        check_find_plain(t, k);
        check_find_reject(t, k);
    }
    for (i = 0; i < npool; i++) {
        if (pool[i].owner == model_of[t]) {
            check_find_accept(t, &pool[i]);
        }
    }
    check_sizes();
}

/* --- operations --------------------------------------------------------------- */
static void op_insert(int t, size_t key)
{
    struct elem * const e = &pool[npool];
    CHECK(npool < MAXE);
    npool++;
    memset(e, 0, sizeof(*e));
    e->key = key;
    e->owner = model_of[t];
    cstl_hash_insert(&H[t], key, e);
    check_sizes();
}

/* the n-th (mod count) element of table t with the given key, or any key */
static struct elem * pick_live(int t, int any_key, size_t key, size_t n)
{
    size_t i, c = 0;
    for (i = 0; i < npool; i++) {
        c += (pool[i].owner == model_of[t] && (any_key || pool[i].key == key));
    }
    if (c == 0) {
        return NULL;
    }
    n %= c;
    for (i = 0; i < npool; i++) {
        if (pool[i].owner == model_of[t] && (any_key || pool[i].key == key)) {
            if (n-- == 0) {
                return &pool[i];
            }
        }
    }
    return NULL;
}

static void op_erase(int t, struct elem * e)
{
    const size_t before = model_count(model_of[t], e->key);
    CHECK(e->owner == model_of[t]);
    cstl_hash_erase(&H[t], e);
    e->owner = -1;
    check_sizes();
    /* exactly that object is gone; its key-mates are all still there */
    check_find_reject(t, e->key);
    CHECK(model_count(model_of[t], e->key) == before - 1);
}

/* erase something that is not in table t: erased earlier, or in the other */
static void op_erase_absent(int t, size_t n)
{
    size_t i, c = 0;
    for (i = 0; i < npool; i++) {
        c += (pool[i].owner != model_of[t]);
    }
    if (c == 0) {
        return;
    }
    n %= c;
    for (i = 0; i < npool; i++) {
        if (pool[i].owner != model_of[t] && n-- == 0) {
            const int owner = pool[i].owner;
            cstl_hash_erase(&H[t], &pool[i]);
            CHECK(pool[i].owner == owner);
            check_sizes();
            if (owner >= 0) {
                /* still intact in the table that does hold it */
                check_find_accept(owner == model_of[0] ? 0 : 1, &pool[i]);
            }
            return;
        }
    }
}

static void op_swap(void)
{
    const int m = model_of[0];
    cstl_hash_swap(&H[0], &H[1]);
    model_of[0] = model_of[1];
    model_of[1] = m;
    check_sizes();
}

/* --- exhaustive short histories on one table ----------------------------------- */
enum {
    X_INS0, X_INS1, X_INS2, X_ERA0, X_ERA1, X_FIND0, X_FIND2,
    X_RS1, X_RS2, X_RS3, X_RS5, X_RS4H, X_RS2Z, X_REHASH, X_FIT, X_NOPS
};

static void x_apply(int op)
{
    struct elem * e;
    switch (op) {
    case X_INS0: op_insert(0, 0); break;
    case X_INS1: op_insert(0, 1); break;
    case X_INS2: op_insert(0, 2); break;
    case X_ERA0: if ((e = pick_live(0, 0, 0, 0)) != NULL) op_erase(0, e); break;
    case X_ERA1: if ((e = pick_live(0, 0, 1, 1)) != NULL) op_erase(0, e); break;
    case X_FIND0: check_find_plain(0, 0); break;
    case X_FIND2: check_find_reject(0, 2); break;
    case X_RS1: cstl_hash_resize(&H[0], 1, NULL); break;
    case X_RS2: cstl_hash_resize(&H[0], 2, cstl_hash_div); break;
    case X_RS3: cstl_hash_resize(&H[0], 3, NULL); break;
    case X_RS5: cstl_hash_resize(&H[0], 5, cstl_hash_mul); break;
    case X_RS4H: cstl_hash_resize(&H[0], 4, hf_half); break;
    case X_RS2Z: cstl_hash_resize(&H[0], 2, hf_rev); break;
    case X_REHASH: cstl_hash_rehash(&H[0]); break;
    case X_FIT: cstl_hash_shrink_to_fit(&H[0]); break;
    }
}

static void exhaustive(int len)
{
    long n = 1, s;
    int i;
    for (i = 0; i < len; i++) {
        n *= X_NOPS;
    }
    for (s = 0; s < n; s++) {
        long v = s;
        reset_all();
        /* start from a table that already has a duplicate pair in it */
        op_insert(0, 0);
        op_insert(0, 2);
        op_insert(0, 0);
        for (i = 0; i < len; i++) {
            x_apply((int)(v % X_NOPS));
            v /= X_NOPS;
        }
        check_everything(0);
        destroy_all();
    }
}

/* --- seeded random histories ------------------------------------------------------ */
static unsigned long rng;
static unsigned int rnd(void)
{
    rng = rng * 6364136223846793005UL + 1442695040888963407UL;
    return (unsigned int)(rng >> 33);
}

static void random_history(unsigned long seed, int steps, unsigned maxbuckets,
                           unsigned resize_pct)
{
    int i;
    rng = seed;
    reset_all();
    for (i = 0; i < steps && npool < MAXE; i++) {
        const int t = (int)(rnd() & 1);
        const unsigned r = rnd() % 100;
        struct elem * e;

        if (r < resize_pct) {
            cstl_hash_resize(&H[t], 1 + rnd() % maxbuckets, HF[rnd() % NHF]);
        } else if (r < resize_pct + 2) {
            cstl_hash_rehash(&H[t]);
        } else if (r < resize_pct + 4) {
            cstl_hash_shrink_to_fit(&H[t]);
        } else if (r < resize_pct + 6) {
            op_swap();
        } else if (r < resize_pct + 9) {
            op_erase_absent(t, rnd());
        } else if (r < resize_pct + 12) {
            check_everything(t);
        } else if (r < 55) {
            op_insert(t, rnd() % NKEYS);
        } else if (r < 75) {
            if ((e = pick_live(t, 1, 0, rnd())) != NULL) {
                op_erase(t, e);
            }
        } else if (r < 85) {
            check_find_plain(t, rnd() % (NKEYS + 1));
        } else if (r < 92) {
            check_find_reject(t, rnd() % (NKEYS + 1));
        } else {
            if ((e = pick_live(t, 1, 0, rnd())) != NULL) {
                check_find_accept(t, e);
            }
        }
        check_sizes();
    }
    check_everything(0);
    check_everything(1);
    /* empty both tables through erase, mid-rehash */
    cstl_hash_resize(&H[0], 1 + rnd() % maxbuckets, cstl_hash_div);
    cstl_hash_resize(&H[1], 1 + rnd() % maxbuckets, hf_half);
    for (i = 0; i < 2; i++) {
        struct elem * e;
        while ((e = pick_live(i, 1, 0, rnd())) != NULL) {
            op_erase(i, e);
        }
        check_everything(i);
        CHECK(cstl_hash_size(&H[i]) == 0);
    }
    destroy_all();
}

int main(void)
{
    unsigned long seed;

    exhaustive(5);
    for (seed = 1; seed <= 40; seed++) {
        random_history(seed, 1200, 6, 18);          /* tiny tables, many resizes */
        random_history(seed + 1000, 1500, 40, 8);   /* long sweeps */
        random_history(seed + 2000, 800, 3, 30);
    }
    printf("ok\n");
    return 0;
}
