/*
 * C16: allocation failure never corrupts a container.
 *
 * Standalone test, public API only. The allocator entry points are
 * intercepted at link time (-Wl,--wrap=malloc,...), so that every
 * allocation made by the library can be made to fail on demand, every
 * block is fenced with guard bytes, freed blocks are poisoned and kept in
 * quarantine until the end of the run, and a leak audit closes every run.
 *
 * For each operation script: a clean run counts the allocations, then the
 * script is replayed with every single allocation failing, every suffix
 * failing, everything-but-one failing, every pair failing and (for short
 * scripts) every triple failing. After every operation the container is
 * compared with a model; after a failure the script carries on using it.
 */
#define _POSIX_C_SOURCE 200809L

#include <stdio.h>
#include <stdlib.h>
#include <string.h>
#include <stdint.h>
#include <setjmp.h>
#include <signal.h>
#include <math.h>
#include <wchar.h>
#include <unistd.h>

#include "cstl/vector.h"
#include "cstl/string.h"
#include "cstl/hash.h"
#include "cstl/map.h"
#include "cstl/memory.h"
#include "cstl/array.h"

/* which area gets the deeper (triple) exploration: 'h', 'v' or 'p' */
#ifndef FOCUS
#define FOCUS 'v'
#endif

void * __real_malloc(size_t);
void __real_free(void *);

/* ------------------------------------------------------------------ */
/* harness state                                                      */
/* ------------------------------------------------------------------ */

enum { P_NONE, P_SINGLE, P_SUFFIX, P_PAIR, P_TRIPLE, P_QUAD, P_ALLBUT };

static struct
{
    int mode;
    unsigned long a, b, c, d;
} plan;

static struct
{
    const char * script;
    /*
     * volatile: the compiler knows what malloc() is supposed to be and
     * would otherwise move these across the calls to it
     */
    volatile int armed;     /* allocations are counted and may fail */
    volatile int suspend;   /* >0: the test's own allocations */
    unsigned long seq;      /* index of the next counted allocation */
    unsigned long op_allocs, op_fails;
    volatile int in_try, aborted;
    sigjmp_buf jb;
    unsigned long runs;
} g;

static void die(const char * const what, const char * const file,
                const int line)
{
    fprintf(stderr,
            "FAIL %s:%d: %s [script %s, plan mode %d a=%lu b=%lu c=%lu, "
            "alloc seq %lu]\n",
            file, line, what, g.script ? g.script : "-",
            plan.mode, plan.a, plan.b, plan.c, g.seq);
    fflush(stderr);
    _exit(1);
}

#define CHECK(cond)                                             \
    do {                                                        \
        if (!(cond)) { die(#cond, __FILE__, __LINE__); }        \
    } while (0)

#define OP_BEGIN() (g.op_allocs = 0, g.op_fails = 0)

/* run a statement that is allowed to abort(); g.aborted tells */
#define TRY(stmt)                                       \
    do {                                                \
        g.aborted = 0;                                  \
        OP_BEGIN();                                     \
        g.in_try = 1;                                   \
        if (sigsetjmp(g.jb, 1) == 0) {                  \
            stmt;                                       \
        } else {                                        \
            g.aborted = 1;                              \
        }                                               \
        g.in_try = 0;                                   \
    } while (0)

static void on_abort(const int sig)
{
    (void)sig;
    if (g.in_try) {
        siglongjmp(g.jb, 1);
    }
    die("unexpected abort()", __FILE__, __LINE__);
}

static void on_crash(const int sig)
{
    (void)sig;
    die("SIGSEGV/SIGBUS inside the library or the test", __FILE__, __LINE__);
}

static int plan_fails(const unsigned long i)
{
    switch (plan.mode) {
    case P_SINGLE: return i == plan.a;
    case P_SUFFIX: return i >= plan.a;
    case P_PAIR:   return i == plan.a || i == plan.b;
    case P_TRIPLE: return i == plan.a || i == plan.b || i == plan.c;
    case P_QUAD:   return i == plan.a || i == plan.b || i == plan.c
               || i == plan.d;
    case P_ALLBUT: return i != plan.a;
    default:       return 0;
    }
}

/* ------------------------------------------------------------------ */
/* fenced, tracked, failing allocator                                 */
/* ------------------------------------------------------------------ */

#define GUARD      32
#define MAGIC_LIVE 0xA110CA7EDB10C0DEULL
#define MAGIC_DEAD 0xDEADB10CDEADB10CULL
#define FILL_FRONT 0xF5
#define FILL_BACK  0xB7
#define FILL_FRESH 0xCD
#define FILL_DEAD  0xDD

struct hdr
{
    unsigned long long magic;
    size_t size;
    struct hdr * prev, * next;
    unsigned long seq;
    unsigned long pad;
};

static struct hdr live = { 0, 0, &live, &live, 0, 0 };
static struct hdr * quarantine;
static unsigned long n_live, baseline_live;

static unsigned char * user_of(struct hdr * const h)
{
    return (unsigned char *)(h + 1) + GUARD;
}

static struct hdr * hdr_of(void * const p)
{
    return (struct hdr *)((unsigned char *)p - GUARD) - 1;
}

static void check_guards(struct hdr * const h)
{
    const unsigned char * const f = (unsigned char *)(h + 1);
    const unsigned char * const b = user_of(h) + h->size;
    size_t i;

    for (i = 0; i < GUARD; i++) {
        if (f[i] != FILL_FRONT) {
            die("write before the start of a block", __FILE__, __LINE__);
        }
        if (b[i] != FILL_BACK) {
            die("write beyond the end of a block", __FILE__, __LINE__);
        }
    }
}

static void * t_alloc(const size_t size)
{
    struct hdr * h;
    int fail = 0;

    if (g.armed && g.suspend == 0) {
        g.op_allocs++;
        if (plan_fails(g.seq++)) {
            fail = 1;
        }
    }
    if (size > ((size_t)1 << 30)) {
        /* more than this test ever legitimately asks for */
        fail = 1;
    }
    if (fail) {
        g.op_fails++;
        return NULL;
    }

    h = __real_malloc(sizeof(*h) + GUARD + size + GUARD);
    if (h == NULL) {
        die("out of real memory", __FILE__, __LINE__);
    }
    h->magic = MAGIC_LIVE;
    h->size = size;
    h->seq = g.seq;
    h->next = &live;
    h->prev = live.prev;
    live.prev->next = h;
    live.prev = h;
    n_live++;

    memset(h + 1, FILL_FRONT, GUARD);
    memset(user_of(h), FILL_FRESH, size);
    memset(user_of(h) + size, FILL_BACK, GUARD);
    return user_of(h);
}

static void t_free(void * const p)
{
    struct hdr * h;

    if (p == NULL) {
        return;
    }
    h = hdr_of(p);
    if (h->magic == MAGIC_DEAD) {
        die("double free", __FILE__, __LINE__);
    }
    if (h->magic != MAGIC_LIVE) {
        die("free of a pointer that was never allocated",
            __FILE__, __LINE__);
    }
    check_guards(h);

    h->prev->next = h->next;
    h->next->prev = h->prev;
    n_live--;

    h->magic = MAGIC_DEAD;
    memset(h + 1, FILL_DEAD, GUARD + h->size + GUARD);
    h->next = quarantine;
    quarantine = h;
}

void * __wrap_malloc(const size_t size)
{
    return t_alloc(size);
}

void * __wrap_calloc(const size_t n, const size_t sz)
{
    void * p;
    if (sz != 0 && n > SIZE_MAX / sz) {
        return NULL;
    }
    p = t_alloc(n * sz);
    if (p != NULL) {
        memset(p, 0, n * sz);
    }
    return p;
}

void * __wrap_realloc(void * const old, const size_t size)
{
    struct hdr * h;
    void * p;

    if (old == NULL) {
        return t_alloc(size);
    }
    h = hdr_of(old);
    if (h->magic != MAGIC_LIVE) {
        die("realloc of a dead or unknown block", __FILE__, __LINE__);
    }
    if (size == 0) {
        t_free(old);
        return NULL;
    }
    /* always move, so that stale pointers show */
    p = t_alloc(size);
    if (p != NULL) {
        memcpy(p, old, size < h->size ? size : h->size);
        t_free(old);
    }
    return p;
}

void __wrap_free(void * const p)
{
    t_free(p);
}

static void audit(void)
{
    struct hdr * h;

    if (n_live != baseline_live) {
        fprintf(stderr, "leak: %lu block(s), newest of %lu bytes\n",
                n_live - baseline_live, (unsigned long)live.prev->size);
        die("leak audit", __FILE__, __LINE__);
    }
    while ((h = quarantine) != NULL) {
        const unsigned char * const b = (unsigned char *)(h + 1);
        const size_t n = GUARD + h->size + GUARD;
        size_t i;

        quarantine = h->next;
        for (i = 0; i < n; i++) {
            if (b[i] != FILL_DEAD) {
                die("write to freed memory", __FILE__, __LINE__);
            }
        }
        __real_free(h);
    }
}

static void check_all_guards(void)
{
    struct hdr * h;
    for (h = live.next; h != &live; h = h->next) {
        check_guards(h);
    }
}

/* the test's own memory: tracked for leaks, never failing, not counted */
static void * own_alloc(const size_t n)
{
    void * p;
    g.suspend++;
    p = malloc(n);
    g.suspend--;
    CHECK(p != NULL);
    return p;
}

/* ------------------------------------------------------------------ */
/* an auxiliary container, used from inside callbacks                 */
/* ------------------------------------------------------------------ */

#define AUX_N 97
static DECLARE_CSTL_VECTOR(AUX, int);
static unsigned long cb_calls;

static void aux_setup(void)
{
    size_t i;
    g.suspend++;
    cstl_vector_resize(&AUX, AUX_N);
    g.suspend--;
    for (i = 0; i < AUX_N; i++) {
        /* a permutation of 0..96: the "rank" of an id */
        *(int *)cstl_vector_at(&AUX, i) = (int)((i * 41 + 7) % AUX_N);
    }
    baseline_live = n_live;
}

static void aux_teardown(void)
{
    cstl_vector_clear(&AUX);
    baseline_live = 0;
}

static int rank_of(const int id)
{
    cb_calls++;
    return *(const int *)cstl_vector_at_const(
               &AUX, (size_t)(((id % AUX_N) + AUX_N) % AUX_N));
}

/* ------------------------------------------------------------------ */
/* vector script                                                      */
/* ------------------------------------------------------------------ */

#define VMAX 128
static struct
{
    struct cstl_vector v, other;
    size_t esz;
    int complex;
    long constructed;       /* constructor calls minus destructor calls */
    size_t count;
    int ids[VMAX];
    int next_id;
} V;

#define EL_CHK 0x5EED5EED

static void el_cons(void * const e, void * const p)
{
    int * const w = e;
    CHECK(p == &V);
    w[0] = -1;
    w[1] = EL_CHK;
    V.constructed++;
    /* use another container from inside the callback */
    (void)rank_of((int)V.constructed);
}

static void el_dest(void * const e, void * const p)
{
    int * const w = e;
    CHECK(p == &V);
    CHECK(w[1] == EL_CHK);
    w[1] = 0;
    V.constructed--;
    (void)rank_of((int)V.constructed);
}

static void el_write(void * const e, const int id)
{
    int * const w = e;
    unsigned char * const b = e;
    size_t j;

    w[0] = id;
    if (!V.complex) {
        w[1] = EL_CHK;
    }
    for (j = 2 * sizeof(int); j < V.esz; j++) {
        b[j] = (unsigned char)(id * 7 + (int)j);
    }
}

static void el_check(const void * const e, const int id)
{
    const int * const w = e;
    const unsigned char * const b = e;
    size_t j;

    CHECK(w[0] == id);
    CHECK(w[1] == EL_CHK);
    if (id >= 0) {
        for (j = 2 * sizeof(int); j < V.esz; j++) {
            CHECK(b[j] == (unsigned char)(id * 7 + (int)j));
        }
    }
}

static void v_verify(void)
{
    size_t i;

    CHECK(cstl_vector_size(&V.v) == V.count);
    CHECK(cstl_vector_capacity(&V.v) >= V.count);
    if (V.complex) {
        CHECK(V.constructed == (long)V.count);
    }
    if (V.count > 0) {
        CHECK(cstl_vector_data(&V.v) != NULL);
        CHECK(cstl_vector_at(&V.v, 0) == cstl_vector_data(&V.v));
    }
    for (i = 0; i < V.count; i++) {
        el_check(cstl_vector_at_const(&V.v, i), V.ids[i]);
    }
    check_all_guards();
}

static void v_resize(const size_t n)
{
    const size_t cap = cstl_vector_capacity(&V.v);

    TRY(cstl_vector_resize(&V.v, n));
    if (g.aborted) {
        /* only a growth that could not get its memory may abort */
        CHECK(n > cap);
        CHECK(g.op_fails > 0 || n > VMAX);
        CHECK(cstl_vector_capacity(&V.v) == cap);
    } else {
        size_t i;
        CHECK(n <= VMAX);
        CHECK(cstl_vector_capacity(&V.v) >= n);
        if (n <= cap) {
            CHECK(cstl_vector_capacity(&V.v) == cap);
        }
        for (i = V.count; i < n; i++) {
            if (V.complex) {
                el_check(cstl_vector_at(&V.v, i), -1);
            }
            V.ids[i] = V.next_id++;
            el_write(cstl_vector_at(&V.v, i), V.ids[i]);
        }
        V.count = n;
    }
    v_verify();
}

static void v_reserve(const size_t n, const int impossible)
{
    const size_t cap = cstl_vector_capacity(&V.v);
    size_t ncap;

    TRY(cstl_vector_reserve(&V.v, n));
    CHECK(!g.aborted);
    ncap = cstl_vector_capacity(&V.v);
    if (n <= cap || impossible) {
        CHECK(ncap == cap);
    } else {
        CHECK(ncap >= n || (g.op_fails > 0 && ncap == cap));
    }
    v_verify();
}

static void v_shrink(void)
{
    const size_t cap = cstl_vector_capacity(&V.v);
    size_t ncap;

    TRY(cstl_vector_shrink_to_fit(&V.v));
    CHECK(!g.aborted);
    ncap = cstl_vector_capacity(&V.v);
    CHECK(ncap <= cap);
    if (g.op_fails == 0) {
        CHECK(ncap == V.count);
    } else {
        CHECK(ncap == V.count || ncap == cap);
    }
    v_verify();
}

static int el_cmp(const void * const a, const void * const b, void * const p)
{
    const int ra = rank_of(*(const int *)a);
    const int rb = rank_of(*(const int *)b);
    CHECK(p == &V);
    return (ra > rb) - (ra < rb);
}

static int model_cmp(const void * const a, const void * const b)
{
    const int ra = rank_of(*(const int *)a);
    const int rb = rank_of(*(const int *)b);
    return (ra > rb) - (ra < rb);
}

static void v_sort(const cstl_sort_algorithm_t algo)
{
    size_t i;

    TRY(__cstl_vector_sort(&V.v, el_cmp, &V, cstl_swap, algo));
    CHECK(!g.aborted);
    CHECK(g.op_allocs == 0);
    qsort(V.ids, V.count, sizeof(V.ids[0]), model_cmp);
    v_verify();
    for (i = 0; i < V.count; i++) {
        int key[2];
        key[0] = V.ids[i];
        key[1] = 0;
        CHECK(cstl_vector_search(&V.v, key, el_cmp, &V) == (ssize_t)i);
        CHECK(cstl_vector_find(&V.v, key, el_cmp, &V) == (ssize_t)i);
    }
}

static void v_reverse(void)
{
    size_t i, j;

    TRY(cstl_vector_reverse(&V.v));
    CHECK(!g.aborted);
    if (V.count > 1) {
        for (i = 0, j = V.count - 1; i < j; i++, j--) {
            const int t = V.ids[i];
            V.ids[i] = V.ids[j];
            V.ids[j] = t;
        }
    }
    v_verify();
}

static void v_clear(void)
{
    TRY(cstl_vector_clear(&V.v));
    CHECK(!g.aborted);
    V.count = 0;
    CHECK(cstl_vector_capacity(&V.v) == 0);
    CHECK(cstl_vector_data(&V.v) == NULL);
    v_verify();
}

static void vector_body(void)
{
    v_verify();
    v_resize(0);
    v_reserve(0, 0);
    v_shrink();
    v_reserve(4, 0);
    v_resize(3);
    v_reserve(2, 0);
    v_reserve(10, 0);
    v_resize(10);
    v_shrink();
    v_sort(CSTL_SORT_ALGORITHM_QUICK);
    v_resize(4);
    v_shrink();
    v_reverse();
    v_resize(17);
    v_sort(CSTL_SORT_ALGORITHM_HEAP);
    v_reverse();
    v_sort(CSTL_SORT_ALGORITHM_QUICK_M);
    /* requests that cannot be represented or satisfied */
    v_reserve(SIZE_MAX, 1);
    v_reserve(SIZE_MAX / V.esz, 1);
    v_reserve(SIZE_MAX / V.esz - 1, 1);
    v_resize(SIZE_MAX);
    CHECK(g.aborted);
    v_resize(SIZE_MAX / V.esz - 1);
    CHECK(g.aborted);
    v_resize(18);
    v_resize(1);
    v_shrink();
    v_resize(2);

    /* swap with a second vector of the same kind and carry on */
    cstl_vector_swap(&V.v, &V.other);
    CHECK(cstl_vector_size(&V.v) == 0 && cstl_vector_capacity(&V.v) == 0);
    cstl_vector_swap(&V.other, &V.v);
    v_verify();

    v_resize(0);
    v_shrink();
    v_resize(5);
    v_sort(CSTL_SORT_ALGORITHM_QUICK_R);
    v_clear();
    v_resize(2);
    v_reserve(9, 0);
    v_clear();
    v_clear();
    cstl_vector_clear(&V.other);
    if (V.complex) {
        CHECK(V.constructed == 0);
    }
}

static void vector_setup(const size_t esz, const int complex)
{
    memset(&V, 0, sizeof(V));
    V.esz = esz;
    V.complex = complex;
    V.next_id = 1;
    if (complex) {
        cstl_vector_init_complex(&V.v, esz, el_cons, el_dest, &V);
        cstl_vector_init_complex(&V.other, esz, el_cons, el_dest, &V);
    } else {
        cstl_vector_init(&V.v, esz);
        cstl_vector_init(&V.other, esz);
    }
}

static void script_vector_8c(void)  { vector_setup(8, 1);  vector_body(); }
static void script_vector_24c(void) { vector_setup(24, 1); vector_body(); }
static void script_vector_40p(void) { vector_setup(40, 0); vector_body(); }

/* many rounds of growing, trimming and giving back */
static void script_vector_long(void)
{
    unsigned int r;

    vector_setup(16, 1);
    for (r = 0; r < 8; r++) {
        v_resize(V.count + r + 1);
        if (r % 2 == 0) {
            v_reserve(V.count + 5, 0);
        }
        if (r % 3 == 1) {
            v_sort(r % 2 ? CSTL_SORT_ALGORITHM_HEAP
                   : CSTL_SORT_ALGORITHM_QUICK);
            v_reverse();
        }
        v_resize(V.count - V.count / 3);
        v_shrink();
        if (r == 5) {
            v_clear();
        }
    }
    v_resize(V.count + 1);
    v_clear();
    cstl_vector_clear(&V.other);
    CHECK(V.constructed == 0);
}

/* a vector of bytes from the static initialiser */
static void script_vector_bytes(void)
{
    DECLARE_CSTL_VECTOR(b, unsigned char);
    unsigned char model[64];
    size_t n = 0, want, i, cap;
    static const size_t sizes[] = { 1, 2, 0, 7, 8, 9, 33, 5, 64, 63, 0, 1 };
    unsigned int k;

    for (k = 0; k < sizeof(sizes) / sizeof(sizes[0]); k++) {
        want = sizes[k];
        cap = cstl_vector_capacity(&b);
        TRY(cstl_vector_resize(&b, want));
        if (g.aborted) {
            CHECK(want > cap && g.op_fails > 0);
            CHECK(cstl_vector_capacity(&b) == cap);
        } else {
            for (i = n; i < want; i++) {
                model[i] = (unsigned char)(k * 16 + i);
                *(unsigned char *)cstl_vector_at(&b, i) = model[i];
            }
            n = want;
        }
        CHECK(cstl_vector_size(&b) == n);
        for (i = 0; i < n; i++) {
            CHECK(*(unsigned char *)cstl_vector_at(&b, i) == model[i]);
        }
        if (k % 3 == 2) {
            cap = cstl_vector_capacity(&b);
            OP_BEGIN();
            cstl_vector_shrink_to_fit(&b);
            CHECK(cstl_vector_capacity(&b) == n
                  || (g.op_fails > 0 && cstl_vector_capacity(&b) == cap));
        } else if (k % 3 == 1) {
            cap = cstl_vector_capacity(&b);
            OP_BEGIN();
            cstl_vector_reserve(&b, n + 3);
            CHECK(cstl_vector_capacity(&b) >= n + 3
                  || (g.op_fails > 0 && cstl_vector_capacity(&b) == cap));
        }
        cstl_vector_reverse(&b);
        for (i = 0; i < n / 2; i++) {
            const unsigned char t = model[i];
            model[i] = model[n - 1 - i];
            model[n - 1 - i] = t;
        }
        for (i = 0; i < n; i++) {
            CHECK(*(unsigned char *)cstl_vector_at(&b, i) == model[i]);
        }
        check_all_guards();
    }
    cstl_vector_clear(&b);
}

/* ------------------------------------------------------------------ */
/* string scripts                                                     */
/* ------------------------------------------------------------------ */

#define SMAX 512
static struct
{
    cstl_string_t s, sub, ins;
    char m[SMAX];
    size_t len;
    char msub[SMAX];
    size_t sublen;
} S;

static void s_verify(void)
{
    CHECK(cstl_string_size(&S.s) == S.len);
    CHECK(cstl_string_capacity(&S.s) >= S.len);
    CHECK(memcmp(cstl_string_str(&S.s), S.m, S.len) == 0);
    CHECK(cstl_string_str(&S.s)[S.len] == '\0');
    if (S.len > 0) {
        CHECK(*cstl_string_at(&S.s, S.len - 1) == S.m[S.len - 1]);
        CHECK(cstl_string_data(&S.s) == cstl_string_str(&S.s));
    }
    CHECK(cstl_string_size(&S.sub) == S.sublen);
    CHECK(memcmp(cstl_string_str(&S.sub), S.msub, S.sublen) == 0);
    CHECK(cstl_string_str(&S.sub)[S.sublen] == '\0');
    check_all_guards();
}

/* true when the operation went through; the model is then updated */
static int s_done(const int grows)
{
    if (g.aborted) {
        CHECK(grows);
        CHECK(g.op_fails > 0);
        s_verify();
        return 0;
    }
    return 1;
}

static void sm_insert(const size_t pos, const char * const str,
                      const size_t n)
{
    CHECK(S.len + n < SMAX);
    memmove(S.m + pos + n, S.m + pos, S.len - pos + 1);
    memcpy(S.m + pos, str, n);
    S.len += n;
    S.m[S.len] = '\0';
}

static void s_insert_str_n(size_t pos, const char * const str,
                           const size_t n)
{
    if (pos > S.len) {
        pos = S.len;
    }
    TRY(cstl_string_insert_str_n(&S.s, pos, str, n));
    if (s_done(1)) {
        sm_insert(pos, str, n);
    }
    s_verify();
}

static void s_append_str(const char * const str)
{
    TRY(cstl_string_append_str(&S.s, str));
    if (s_done(1)) {
        sm_insert(S.len, str, strlen(str));
    }
    s_verify();
}

static void s_insert_ch(size_t pos, const size_t cnt, const char ch)
{
    char tmp[64];
    CHECK(cnt < sizeof(tmp));
    if (pos > S.len) {
        pos = S.len;
    }
    memset(tmp, ch, cnt);
    TRY(cstl_string_insert_ch(&S.s, pos, cnt, ch));
    if (s_done(1)) {
        sm_insert(pos, tmp, cnt);
    }
    s_verify();
}

static void s_insert_obj(const size_t pos)
{
    TRY(cstl_string_insert(&S.s, pos, &S.ins));
    if (s_done(1)) {
        sm_insert(pos, cstl_string_str(&S.ins), cstl_string_size(&S.ins));
    }
    s_verify();
}

static void s_resize(const size_t n)
{
    TRY(cstl_string_resize(&S.s, n));
    if (s_done(1)) {
        CHECK(n < SMAX);
        if (n > S.len) {
            memset(S.m + S.len, 0, n - S.len);
        }
        S.len = n;
        S.m[n] = '\0';
    }
    s_verify();
}

static void s_erase(const size_t pos, size_t n)
{
    TRY(cstl_string_erase(&S.s, pos, n));
    CHECK(!g.aborted);
    if (n > S.len - pos) {
        n = S.len - pos;
    }
    memmove(S.m + pos, S.m + pos + n, S.len - pos - n + 1);
    S.len -= n;
    s_verify();
}

static void s_substr(const size_t pos, size_t n)
{
    TRY(cstl_string_substr(&S.s, pos, n, &S.sub));
    if (s_done(1)) {
        if (n > S.len - pos) {
            n = S.len - pos;
        }
        memcpy(S.msub, S.m + pos, n);
        S.msub[n] = '\0';
        S.sublen = n;
    }
    s_verify();
}

static void s_reserve(const size_t n)
{
    const size_t cap = cstl_string_capacity(&S.s);
    size_t ncap;
    TRY(cstl_string_reserve(&S.s, n));
    CHECK(!g.aborted);
    ncap = cstl_string_capacity(&S.s);
    if (n <= cap && cap > 0) {
        CHECK(ncap == cap);
    } else {
        CHECK(ncap >= n || (g.op_fails > 0 && ncap == cap));
    }
    s_verify();
}

static void script_string(void)
{
    memset(&S, 0, sizeof(S));
    cstl_string_init(&S.s);
    cstl_string_init(&S.sub);
    cstl_string_init(&S.ins);
    g.suspend++;
    cstl_string_set_str(&S.ins, "<inserted>");
    g.suspend--;

    s_verify();
    CHECK(cstl_string_compare_str(&S.s, "") == 0);
    s_reserve(3);
    s_verify();
    s_append_str("hello world");
    s_append_str(", again");
    s_insert_ch(0, 3, '>');
    s_insert_str_n(5, "XYZ123", 4);
    s_insert_str_n(S.len, "", 0);
    s_reserve(100);
    s_insert_obj(S.len > 4 ? 4 : S.len);
    s_insert_ch(S.len, 0, 'q');
    if (S.len > 7) {
        s_erase(2, 5);
    }
    if (S.len > 3) {
        s_substr(3, 6);
        s_substr(1, 400);
    }
    s_resize(40);
    s_resize(3);
    s_append_str("tail-tail-tail-tail-tail-tail-tail-tail-tail");
    if (S.len > 0) {
        const ssize_t at = cstl_string_find_ch(&S.s, 't', 0);
        const char * const f = strchr(S.m, 't');
        CHECK((f == NULL && at == -1) || (f != NULL && at == f - S.m));
        CHECK(cstl_string_find_str(&S.s, "il-t", 0)
              == (strstr(S.m, "il-t") == NULL
                  ? -1 : strstr(S.m, "il-t") - S.m));
    }
    if (S.len > 0) {
        s_substr(0, 1);
        s_erase(0, S.len);
    }
    /* no room for the terminator: always aborts, nothing changes */
    TRY(cstl_string_resize(&S.s, SIZE_MAX));
    CHECK(g.aborted);
    s_verify();
    s_resize(0);
    s_insert_ch(0, 9, 'z');
    CHECK(cstl_string_compare_str(&S.s, S.m) == 0);
    CHECK(cstl_string_compare(&S.s, &S.s) == 0);

    cstl_string_clear(&S.s);
    S.len = 0;
    S.m[0] = '\0';
    s_verify();
    s_append_str("after clear");
    cstl_string_clear(&S.s);
    cstl_string_clear(&S.sub);
    cstl_string_clear(&S.ins);
}

/* a string that is appended to a character or two at a time */
static void script_string_long(void)
{
    unsigned int r;

    memset(&S, 0, sizeof(S));
    cstl_string_init(&S.s);
    cstl_string_init(&S.sub);
    cstl_string_init(&S.ins);
    g.suspend++;
    cstl_string_set_str(&S.ins, "+-");
    g.suspend--;

    for (r = 0; r < 9; r++) {
        s_insert_ch(S.len, 1 + r % 2, (char)('a' + r));
        s_insert_obj(S.len / 2);
        if (r == 5) {
            s_reserve(S.len + 4);
        }
        if (S.len > 2) {
            s_substr(S.len > r ? S.len - r - 1 : 0, r + 1);
            s_erase(1, 1);
        }
    }
    s_resize(S.len + 3);
    s_resize(1);
    cstl_string_clear(&S.s);
    cstl_string_clear(&S.sub);
    cstl_string_clear(&S.ins);
}

static void script_wstring(void)
{
    DECLARE_CSTL_STRING(wstring, w);
    wchar_t m[128];
    size_t len = 0;
    static const wchar_t * const parts[] = {
        L"wide", L"", L" characters", L" \x263a\x263a", L"!", L" and more of them",
    };
    unsigned int k;

    m[0] = L'\0';
    for (k = 0; k < sizeof(parts) / sizeof(parts[0]); k++) {
        const size_t n = wcslen(parts[k]);
        const size_t pos = (k % 2) ? len / 2 : len;

        TRY(cstl_wstring_insert_str(&w, pos, parts[k]));
        if (g.aborted) {
            CHECK(g.op_fails > 0);
        } else {
            wmemmove(m + pos + n, m + pos, len - pos + 1);
            wmemcpy(m + pos, parts[k], n);
            len += n;
        }
        CHECK(cstl_wstring_size(&w) == len);
        CHECK(wmemcmp(cstl_wstring_str(&w), m, len + 1) == 0);
        if (k == 3 && len > 3) {
            cstl_wstring_erase(&w, 1, 2);
            wmemmove(m + 1, m + 3, len - 3 + 1);
            len -= 2;
            CHECK(wmemcmp(cstl_wstring_str(&w), m, len + 1) == 0);
        }
        check_all_guards();
    }
    cstl_wstring_clear(&w);
    CHECK(cstl_wstring_size(&w) == 0);
}

/* ------------------------------------------------------------------ */
/* hash script                                                        */
/* ------------------------------------------------------------------ */

#define HMAX 48
struct item
{
    int val;
    struct cstl_hash_node hn;
    size_t key;
    int in;         /* model: is it in the table */
    int seen;
};

static struct
{
    struct cstl_hash h, other;
    struct item it[HMAX];
    size_t size;
    size_t nb;              /* number of buckets, 0: never resized */
    unsigned long cleared;
} H;

static size_t h_aux(const size_t k, const size_t m)
{
    /* a hash function that consults another container */
    return (k * 31 + (size_t)rank_of((int)(k % AUX_N))) % m;
}

static int h_seen(const void * const e, void * const p)
{
    struct item * const it = (struct item *)e;
    CHECK(p == &H);
    CHECK(it >= H.it && it < H.it + HMAX);
    CHECK(it->in);
    it->seen++;
    return 0;
}

static int h_seen_nc(void * const e, void * const p)
{
    return h_seen(e, p);
}

static int h_match(const void * const e, void * const p)
{
    (void)rank_of(((const struct item *)e)->val);
    return e == p;
}

static void h_verify(void)
{
    unsigned int i;
    size_t n = 0;

    CHECK(cstl_hash_size(&H.h) == H.size);
    if (H.nb == 0) {
        CHECK(H.size == 0);
        return;
    }
    if (H.size > 0) {
        CHECK(cstl_hash_load(&H.h) == (float)H.size / (float)H.nb);
    }
    for (i = 0; i < HMAX; i++) {
        H.it[i].seen = 0;
    }
    CHECK(cstl_hash_foreach_const(&H.h, h_seen, &H) == 0);
    for (i = 0; i < HMAX; i++) {
        CHECK(H.it[i].seen == (H.it[i].in ? 1 : 0));
        n += H.it[i].in ? 1 : 0;
    }
    CHECK(n == H.size);
    check_all_guards();
}

/* lookups move an incremental rehash along */
static void h_find_some(const unsigned int from, const unsigned int step)
{
    unsigned int i;
    for (i = from; i < HMAX; i += step) {
        struct item * const it = &H.it[i];
        void * const f = cstl_hash_find(&H.h, it->key, h_match, it);
        CHECK(f == (it->in ? it : NULL));
    }
    /* a key nobody has */
    CHECK(cstl_hash_find(&H.h, 100000, NULL, NULL) == NULL);
}

static void h_resize(const size_t n, cstl_hash_func_t * const f)
{
    const float before = cstl_hash_load(&H.h);

    TRY(cstl_hash_resize(&H.h, n, f));
    CHECK(!g.aborted);
    if (n > 0) {
        if (H.nb == 0) {
            /* 0/0 until the table has buckets */
            CHECK(isnan(before));
            if (!isnan(cstl_hash_load(&H.h))) {
                H.nb = n;
            } else {
                CHECK(g.op_fails > 0);
            }
        } else {
            const float ld = cstl_hash_load(&H.h);
            CHECK(H.size > 0);
            if (ld == (float)H.size / (float)n) {
                H.nb = n;
            } else {
                /* it failed: it must have been denied its memory */
                CHECK(g.op_fails > 0);
                CHECK(ld == before);
            }
        }
    } else {
        CHECK(g.op_allocs == 0);
    }
    h_verify();
}

static void h_shrink(void)
{
    TRY(cstl_hash_shrink_to_fit(&H.h));
    CHECK(!g.aborted);
    h_verify();
}

static void h_insert(const unsigned int i)
{
    struct item * const it = &H.it[i];
    CHECK(!it->in);
    TRY(cstl_hash_insert(&H.h, it->key, it));
    CHECK(!g.aborted);
    CHECK(g.op_allocs == 0);
    it->in = 1;
    H.size++;
}

static void h_erase(const unsigned int i)
{
    struct item * const it = &H.it[i];
    if (!it->in) {
        return;
    }
    TRY(cstl_hash_erase(&H.h, it));
    CHECK(!g.aborted);
    CHECK(g.op_allocs == 0);
    it->in = 0;
    H.size--;
    CHECK(cstl_hash_size(&H.h) == H.size);
}

static void h_clr(void * const e, void * const p)
{
    struct item * const it = e;
    (void)p;
    CHECK(it >= H.it && it < H.it + HMAX);
    CHECK(it->in);
    it->in = 0;
    H.cleared++;
    (void)rank_of(it->val);
}

static void h_clear(void)
{
    const size_t n = H.size;
    H.cleared = 0;
    TRY(cstl_hash_clear(&H.h, h_clr));
    CHECK(!g.aborted);
    CHECK(H.cleared == n);
    H.size = 0;
    H.nb = 0;
    CHECK(cstl_hash_size(&H.h) == 0);
}

static void script_hash(void)
{
    unsigned int i, tries;

    memset(&H, 0, sizeof(H));
    cstl_hash_init(&H.h, offsetof(struct item, hn));
    cstl_hash_init(&H.other, offsetof(struct item, hn));
    for (i = 0; i < HMAX; i++) {
        H.it[i].val = (int)i;
        /* some keys collide on purpose */
        H.it[i].key = (i % 5 == 4) ? 1000 : i * 2654435761u;
    }

    h_resize(0, NULL);
    for (tries = 0; tries < 3 && H.nb == 0; tries++) {
        h_resize(8, NULL);
    }
    if (H.nb == 0) {
        /* never got any buckets; still clearable and reusable */
        cstl_hash_clear(&H.h, NULL);
        return;
    }

    for (i = 0; i < 20; i++) {
        h_insert(i);
    }
    h_verify();
    h_find_some(0, 3);

    h_resize(16, cstl_hash_div);        /* grows; rehash now pending */
    for (i = 20; i < 25; i++) {
        h_insert(i);
    }
    h_find_some(1, 7);
    h_verify();
    h_resize(16, cstl_hash_div);        /* same again: nothing to do */
    h_resize(32, cstl_hash_mul);        /* grows while a rehash is pending */
    h_find_some(2, 5);
    h_shrink();
    h_resize(5, NULL);                  /* shrinks; pending */
    h_find_some(0, 4);
    h_shrink();                         /* completes the rehash, gives back */
    h_find_some(0, 1);
    for (i = 0; i < 25; i += 3) {
        h_erase(i);
    }
    h_verify();
    h_resize(40, h_aux);                /* grows again, callback hash */
    for (i = 25; i < 40; i++) {
        h_insert(i);
    }
    h_find_some(0, 2);
    h_resize(7, NULL);                  /* pending shrink ... */
    h_insert(40);
    h_resize(64, cstl_hash_div);        /* ... overtaken by a growth */
    h_find_some(1, 2);
    for (i = 0; i < HMAX; i++) {
        H.it[i].seen = 0;
    }
    CHECK(cstl_hash_foreach(&H.h, h_seen_nc, &H) == 0);
    h_verify();
    h_resize(1, NULL);
    h_find_some(0, 1);
    h_shrink();
    h_resize(2, cstl_hash_div);
    h_verify();

    /* swap away and back, carry on */
    cstl_hash_swap(&H.h, &H.other);
    CHECK(cstl_hash_size(&H.h) == 0);
    cstl_hash_swap(&H.h, &H.other);
    h_find_some(0, 1);

    h_clear();
    /* as good as new */
    for (tries = 0; tries < 2 && H.nb == 0; tries++) {
        h_resize(4, NULL);
    }
    if (H.nb != 0) {
        h_insert(1);
        h_insert(2);
        h_insert(3);
        h_resize(9, NULL);
        h_find_some(0, 1);
        h_clear();
    }
    cstl_hash_clear(&H.h, NULL);
    cstl_hash_clear(&H.other, NULL);
}

/* a ladder of resizes, up and down, most of them overtaking a rehash */
static void script_hash_ladder(void)
{
    static const size_t steps[] = {
        1, 2, 3, 5, 8, 13, 21, 13, 8, 30, 4, 47, 47, 2, 33,
    };
    unsigned int i, k, next = 0, tries;

    memset(&H, 0, sizeof(H));
    cstl_hash_init(&H.h, offsetof(struct item, hn));
    for (i = 0; i < HMAX; i++) {
        H.it[i].val = (int)i;
        H.it[i].key = (size_t)i * 3 + (i % 7 == 0 ? 0 : 1);
    }

    for (tries = 0; tries < 4 && H.nb == 0; tries++) {
        h_resize(1, cstl_hash_div);
    }
    if (H.nb == 0) {
        cstl_hash_clear(&H.h, NULL);
        return;
    }
    h_insert(next++);

    for (k = 0; k < sizeof(steps) / sizeof(steps[0]); k++) {
        h_resize(steps[k],
                 k % 3 == 0 ? cstl_hash_div
                 : (k % 3 == 1 ? NULL : h_aux));
        for (i = 0; i < 3 && next < HMAX; i++) {
            h_insert(next++);
        }
        h_find_some(k % 4, 4);
        if (k % 4 == 3) {
            h_shrink();
        }
        if (k % 5 == 4) {
            h_erase(next - 2);
            h_erase(k);
        }
        if (k == 9) {
            cstl_hash_rehash(&H.h);
            h_verify();
        }
    }
    h_find_some(0, 1);
    h_shrink();
    h_shrink();
    h_find_some(0, 1);
    h_clear();
    cstl_hash_clear(&H.h, NULL);
}

/* ------------------------------------------------------------------ */
/* map script                                                         */
/* ------------------------------------------------------------------ */

#define MMAX 24
static struct
{
    cstl_map_t m;
    int keys[MMAX], vals[MMAX];
    int in[MMAX];
    size_t size;
    unsigned long cleared;
} M;

static int m_cmp(const void * const a, const void * const b, void * const p)
{
    /* order by rank, which lives in another container */
    const int ra = rank_of(*(const int *)a);
    const int rb = rank_of(*(const int *)b);
    CHECK(p == &M);
    return (ra > rb) - (ra < rb);
}

static void m_verify(void)
{
    unsigned int i;
    CHECK(cstl_map_size(&M.m) == M.size);
    for (i = 0; i < MMAX; i++) {
        cstl_map_iterator_t it;
        int probe = M.keys[i];
        cstl_map_find(&M.m, &probe, &it);
        if (M.in[i]) {
            CHECK(!cstl_map_iterator_eq(&it, cstl_map_iterator_end(&M.m)));
            CHECK(it.key == &M.keys[i]);
            CHECK(it.val == &M.vals[i]);
        } else {
            CHECK(cstl_map_iterator_eq(&it, cstl_map_iterator_end(&M.m)));
        }
    }
    check_all_guards();
}

/* returns what the library returned */
static int m_insert(const unsigned int i)
{
    cstl_map_iterator_t it;
    int res;

    OP_BEGIN();
    res = cstl_map_insert(&M.m, &M.keys[i], &M.vals[i], &it);
    if (M.in[i]) {
        CHECK(res == 1 || (res == -1 && g.op_fails > 0));
        if (res == 1) {
            CHECK(it.key == &M.keys[i] && it.val == &M.vals[i]);
        }
    } else if (res == 0) {
        CHECK(it.key == &M.keys[i] && it.val == &M.vals[i]);
        CHECK(!cstl_map_iterator_eq(&it, cstl_map_iterator_end(&M.m)));
        M.in[i] = 1;
        M.size++;
    } else {
        CHECK(res == -1);
        CHECK(g.op_fails > 0);
        CHECK(cstl_map_iterator_eq(&it, cstl_map_iterator_end(&M.m)));
    }
    CHECK(cstl_map_size(&M.m) == M.size);
    return res;
}

static void m_erase(const unsigned int i, const int by_iterator)
{
    int probe = M.keys[i];
    OP_BEGIN();
    if (by_iterator && M.in[i]) {
        cstl_map_iterator_t it;
        cstl_map_find(&M.m, &probe, &it);
        cstl_map_erase_iterator(&M.m, &it);
        M.in[i] = 0;
        M.size--;
    } else {
        cstl_map_iterator_t it;
        const int res = cstl_map_erase(&M.m, &probe, &it);
        CHECK(cstl_map_iterator_eq(&it, cstl_map_iterator_end(&M.m)));
        if (M.in[i]) {
            CHECK(res == 0);
            CHECK(it.key == &M.keys[i] && it.val == &M.vals[i]);
            M.in[i] = 0;
            M.size--;
        } else {
            CHECK(res == -1);
        }
    }
    CHECK(cstl_map_size(&M.m) == M.size);
}

static void m_clr(void * const e, void * const p)
{
    const cstl_map_iterator_t * const it = e;
    const int * const k = it->key;
    CHECK(p == &M);
    CHECK(k >= M.keys && k < M.keys + MMAX);
    CHECK(it->val == &M.vals[k - M.keys]);
    CHECK(M.in[k - M.keys]);
    M.in[k - M.keys] = 0;
    M.cleared++;
    (void)rank_of(*k);
}

static void script_map(void)
{
    unsigned int i, pass;

    memset(&M, 0, sizeof(M));
    for (i = 0; i < MMAX; i++) {
        M.keys[i] = (int)((i * 7 + 3) % MMAX);
        M.vals[i] = (int)i * 100;
    }
    cstl_map_init(&M.m, m_cmp, &M);
    m_verify();

    for (i = 0; i < 12; i++) {
        m_insert(i);
    }
    m_verify();
    /* what could not get in the first time gets another go */
    for (pass = 0; pass < 2; pass++) {
        for (i = 0; i < 12; i++) {
            m_insert(i);
        }
    }
    m_verify();
    for (i = 0; i < 12; i += 2) {
        m_erase(i, i % 4 == 0);
    }
    m_erase(20, 0);
    m_verify();
    for (i = 6; i < 18; i++) {
        m_insert(i);
    }
    m_verify();
    m_erase(7, 1);
    m_erase(7, 0);
    m_insert(7);
    m_verify();

    M.cleared = 0;
    i = (unsigned int)M.size;
    cstl_map_clear(&M.m, m_clr, &M);
    CHECK(M.cleared == i);
    M.size = 0;
    m_verify();
    m_insert(3);
    m_insert(4);
    m_verify();
    cstl_map_clear(&M.m, NULL, NULL);
    memset(M.in, 0, sizeof(M.in));
    M.size = 0;
    CHECK(cstl_map_size(&M.m) == 0);
}

/* ------------------------------------------------------------------ */
/* smart pointer scripts                                              */
/* ------------------------------------------------------------------ */

static struct
{
    unsigned long clr_calls;
    unsigned char last_tag;
    int priv_token;
} P;

static void p_clr(void * const mem, void * const priv)
{
    CHECK(mem != NULL);
    P.clr_calls++;
    P.last_tag = *(unsigned char *)mem;
    if (priv != NULL) {
        CHECK(priv == &P.priv_token);
    }
    (void)rank_of((int)P.clr_calls);
}

static void script_unique(void)
{
    DECLARE_CSTL_UNIQUE_PTR(u);
    cstl_unique_ptr_t u2;
    unsigned char * p;
    unsigned long expect = 0;
    int have = 0;
    cstl_xtor_func_t * clr;
    void * priv;
    unsigned int round;
    static const size_t sizes[] = { 24, 40, 1, 0, 8, 300, 16 };

    memset(&P, 0, sizeof(P));
    cstl_unique_ptr_init(&u2);
    CHECK(cstl_unique_ptr_get(&u) == NULL);

    for (round = 0; round < sizeof(sizes) / sizeof(sizes[0]); round++) {
        const size_t sz = sizes[round];

        OP_BEGIN();
        cstl_unique_ptr_alloc(&u, sz, p_clr, &P.priv_token);
        /* whatever was managed before has been let go of, once */
        expect += have;
        CHECK(P.clr_calls == expect);
        if (have) {
            CHECK(P.last_tag == (unsigned char)(0x40 + round - 1));
        }
        p = cstl_unique_ptr_get(&u);
        if (sz == 0) {
            CHECK(p == NULL);
            CHECK(g.op_allocs == 0);
        } else if (p == NULL) {
            CHECK(g.op_fails > 0);
        }
        have = (p != NULL);
        if (have) {
            memset(p, 0x40 + (int)round, sz);
        }
        CHECK(cstl_unique_ptr_get_const(&u) == p);
        check_all_guards();
    }

    /* swap it over to another object and back */
    cstl_unique_ptr_swap(&u, &u2);
    CHECK(cstl_unique_ptr_get(&u) == NULL);
    cstl_unique_ptr_swap(&u2, &u);
    CHECK(cstl_unique_ptr_get(&u2) == NULL);

    /* release: the memory is ours now */
    clr = NULL;
    priv = NULL;
    p = cstl_unique_ptr_release(&u, &clr, &priv);
    CHECK((p != NULL) == have);
    if (have) {
        CHECK(clr == p_clr && priv == &P.priv_token);
        CHECK(p[0] == 0x40 + 6 && p[15] == 0x40 + 6);
        free(p);
    }
    CHECK(cstl_unique_ptr_get(&u) == NULL);
    CHECK(P.clr_calls == expect);

    OP_BEGIN();
    cstl_unique_ptr_alloc(&u, 64, NULL, NULL);
    p = cstl_unique_ptr_get(&u);
    CHECK(p != NULL || g.op_fails > 0);
    if (p != NULL) {
        memset(p, 1, 64);
    }
    cstl_unique_ptr_reset(&u);
    cstl_unique_ptr_reset(&u);
    cstl_unique_ptr_reset(&u2);
    CHECK(cstl_unique_ptr_get(&u) == NULL);
    CHECK(P.clr_calls == expect);
}

/*
 * allocate through a shared pointer. tells whether memory is
 * managed afterwards, and paints it with a tag
 */
static int sp_alloc(cstl_shared_ptr_t * const sp, const size_t sz,
                    const unsigned char tag)
{
    unsigned char * p;

    OP_BEGIN();
    cstl_shared_ptr_alloc(sp, sz, p_clr);
    p = cstl_shared_ptr_get(sp);
    if (sz == 0) {
        CHECK(p == NULL);
    } else if (p == NULL) {
        CHECK(g.op_fails > 0);
    }
    if (p != NULL) {
        memset(p, tag, sz);
        CHECK(cstl_shared_ptr_unique(sp));
    }
    CHECK(cstl_shared_ptr_get_const(sp) == p);
    check_all_guards();
    return p != NULL;
}

static void script_shared(void)
{
    DECLARE_CSTL_SHARED_PTR(s1);
    DECLARE_CSTL_SHARED_PTR(s2);
    DECLARE_CSTL_WEAK_PTR(w);
    cstl_shared_ptr_t s3;
    unsigned long expect = 0;
    int a, b, c, d, e;
    const unsigned char * pa;

    memset(&P, 0, sizeof(P));
    cstl_shared_ptr_init(&s3);
    CHECK(cstl_shared_ptr_unique(&s1));
    CHECK(cstl_shared_ptr_get(&s1) == NULL);

    a = sp_alloc(&s1, 32, 'A');
    CHECK(P.clr_calls == 0);

    cstl_shared_ptr_share(&s1, &s2);
    CHECK(cstl_shared_ptr_get(&s2) == cstl_shared_ptr_get(&s1));
    CHECK(cstl_shared_ptr_unique(&s1) == !a);
    cstl_weak_ptr_from(&w, &s1);
    pa = cstl_shared_ptr_get_const(&s2);

    /* s1 moves on while s2 and w still refer to A */
    b = sp_alloc(&s1, 48, 'B');
    CHECK(P.clr_calls == 0);
    CHECK(cstl_shared_ptr_get_const(&s2) == pa);
    if (a) {
        CHECK(pa[0] == 'A' && pa[31] == 'A');
        CHECK(!cstl_shared_ptr_unique(&s2));
        cstl_weak_ptr_lock(&w, &s3);
        CHECK(cstl_shared_ptr_get_const(&s3) == pa);
        cstl_shared_ptr_reset(&s3);
        CHECK(P.clr_calls == 0);
    }
    cstl_shared_ptr_reset(&s2);
    expect += a;
    CHECK(P.clr_calls == expect);
    if (a) {
        CHECK(P.last_tag == 'A');
    }
    /* A is gone; the weak pointer cannot bring it back */
    cstl_weak_ptr_lock(&w, &s2);
    CHECK(cstl_shared_ptr_get(&s2) == NULL);
    cstl_weak_ptr_reset(&w);

    /* s1 is now the one and only owner of B (or of nothing) */
    CHECK(cstl_shared_ptr_unique(&s1));
    c = sp_alloc(&s1, 16, 'C');
    expect += b;
    CHECK(P.clr_calls == expect);
    if (b) {
        CHECK(P.last_tag == 'B');
    }
    d = sp_alloc(&s1, 64, 'D');
    expect += c;
    CHECK(P.clr_calls == expect);
    if (c) {
        CHECK(P.last_tag == 'C');
    }

    /* only a weak pointer besides: the control block is still shared */
    cstl_weak_ptr_from(&w, &s1);
    CHECK(cstl_shared_ptr_unique(&s1) == !d);
    e = sp_alloc(&s1, 8, 'E');
    expect += d;
    CHECK(P.clr_calls == expect);
    if (d) {
        CHECK(P.last_tag == 'D');
    }
    cstl_weak_ptr_lock(&w, &s2);
    CHECK(cstl_shared_ptr_get(&s2) == NULL);
    cstl_weak_ptr_reset(&w);

    /* hand it to s2, allocate over the shared one, swap */
    cstl_shared_ptr_share(&s1, &s2);
    cstl_shared_ptr_swap(&s1, &s2);
    CHECK(cstl_shared_ptr_get(&s1) == cstl_shared_ptr_get(&s2));
    cstl_shared_ptr_reset(&s2);
    CHECK(P.clr_calls == expect);
    CHECK(cstl_shared_ptr_unique(&s1));
    if (e) {
        const unsigned char * const pe = cstl_shared_ptr_get_const(&s1);
        CHECK(pe[0] == 'E' && pe[7] == 'E');
    }

    /* a zero-sized request leaves it empty */
    (void)sp_alloc(&s1, 0, 'Z');
    expect += e;
    CHECK(P.clr_calls == expect);
    CHECK(cstl_shared_ptr_get(&s1) == NULL);

    (void)sp_alloc(&s1, 5, 'F');
    cstl_shared_ptr_reset(&s1);
    cstl_shared_ptr_reset(&s1);
    cstl_shared_ptr_reset(&s2);
    cstl_shared_ptr_reset(&s3);
    cstl_weak_ptr_reset(&w);
}

static void script_array(void)
{
    DECLARE_CSTL_ARRAY(a);
    DECLARE_CSTL_ARRAY(s);
    cstl_array_t b;
    int * buf;
    void * out;
    size_t i;

    cstl_array_init(&b);
    CHECK(cstl_array_size(&a) == 0 && cstl_array_data(&a) == NULL);

    OP_BEGIN();
    cstl_array_alloc(&a, 10, sizeof(int));
    if (cstl_array_size(&a) == 10) {
        for (i = 0; i < 10; i++) {
            *(int *)cstl_array_at(&a, i) = (int)i * 3;
        }
        CHECK(cstl_array_at(&a, 0) == cstl_array_data(&a));
        cstl_array_slice(&a, 2, 7, &s);
        CHECK(cstl_array_size(&s) == 5);
    } else {
        CHECK(g.op_fails > 0);
        CHECK(cstl_array_size(&a) == 0 && cstl_array_data(&a) == NULL);
    }

    /* a moves on; the slice keeps the first allocation alive */
    OP_BEGIN();
    cstl_array_alloc(&a, 5, 16);
    if (cstl_array_size(&a) == 5) {
        memset(cstl_array_data(&a), 0x5a, 5 * 16);
        CHECK((char *)cstl_array_at(&a, 4)
              == (char *)cstl_array_data(&a) + 64);
    } else {
        CHECK(g.op_fails > 0);
        CHECK(cstl_array_size(&a) == 0 && cstl_array_data(&a) == NULL);
    }
    if (cstl_array_size(&s) == 5) {
        for (i = 0; i < 5; i++) {
            CHECK(*(int *)cstl_array_at(&s, i) == (int)(i + 2) * 3);
        }
        cstl_array_unslice(&s, &b);
        CHECK(cstl_array_size(&b) == 10);
        CHECK(*(int *)cstl_array_at(&b, 9) == 27);
        cstl_array_reset(&b);
        /* not externally allocated: nothing to release */
        cstl_array_release(&s, &out);
        CHECK(out == NULL);
        CHECK(cstl_array_size(&s) == 5);
    }
    cstl_array_reset(&s);
    check_all_guards();

    /* a byte count that cannot be represented */
    OP_BEGIN();
    cstl_array_alloc(&a, SIZE_MAX, 8);
    CHECK(cstl_array_size(&a) == 0 && cstl_array_data(&a) == NULL);
    CHECK(g.op_allocs == 0);
    OP_BEGIN();
    cstl_array_alloc(&a, SIZE_MAX / 8, 8);
    CHECK(cstl_array_size(&a) == 0 && cstl_array_data(&a) == NULL);

    /* an array of our own */
    buf = own_alloc(6 * sizeof(int));
    for (i = 0; i < 6; i++) {
        buf[i] = (int)i + 70;
    }
    OP_BEGIN();
    cstl_array_set(&a, buf, 6, sizeof(int));
    if (cstl_array_size(&a) == 6) {
        CHECK(cstl_array_data(&a) == buf);
        CHECK(cstl_array_at(&a, 3) == &buf[3]);
        cstl_array_slice(&a, 1, 3, &s);
        cstl_array_release(&a, &out);
        CHECK(out == NULL);             /* the slice still refers to it */
        cstl_array_reset(&s);
        cstl_array_release(&a, &out);
        CHECK(out == buf);
    } else {
        CHECK(g.op_fails > 0);
        CHECK(cstl_array_size(&a) == 0 && cstl_array_data(&a) == NULL);
    }
    CHECK(cstl_array_size(&a) == 0);
    for (i = 0; i < 6; i++) {
        CHECK(buf[i] == (int)i + 70);
    }
    free(buf);

    OP_BEGIN();
    cstl_array_alloc(&a, 3, 1);
    CHECK(cstl_array_size(&a) == 3 || g.op_fails > 0);
    cstl_array_reset(&a);
    cstl_array_reset(&a);
    cstl_array_reset(&s);
    cstl_array_reset(&b);
}

/*
 * several containers of different element types in one go, so that a
 * failure in one lands between operations on the others
 */
static void script_mixed(void)
{
    DECLARE_CSTL_VECTOR(vi, int);
    DECLARE_CSTL_VECTOR(vd, double);
    DECLARE_CSTL_STRING(string, s);
    DECLARE_CSTL_SHARED_PTR(sp);
    DECLARE_CSTL_ARRAY(arr);
    size_t ni = 0, nd = 0, ns = 0, k;
    unsigned int round;

    memset(&M, 0, sizeof(M));
    for (k = 0; k < MMAX; k++) {
        M.keys[k] = (int)k;
        M.vals[k] = (int)k;
    }
    cstl_map_init(&M.m, m_cmp, &M);

    for (round = 0; round < 5; round++) {
        size_t cap;

        cap = cstl_vector_capacity(&vi);
        TRY(cstl_vector_resize(&vi, ni + 3));
        if (!g.aborted) {
            for (k = ni; k < ni + 3; k++) {
                *(int *)cstl_vector_at(&vi, k) = (int)k * 11;
            }
            ni += 3;
        } else {
            CHECK(g.op_fails > 0 && cstl_vector_capacity(&vi) == cap);
        }

        (void)m_insert(round);
        (void)m_insert(round + 8);

        TRY(cstl_string_append_ch(&s, 2, (char)('a' + round)));
        if (!g.aborted) {
            ns += 2;
        } else {
            CHECK(g.op_fails > 0);
        }

        cap = cstl_vector_capacity(&vd);
        TRY(cstl_vector_resize(&vd, nd + 2));
        if (!g.aborted) {
            for (k = nd; k < nd + 2; k++) {
                *(double *)cstl_vector_at(&vd, k) = (double)k / 4;
            }
            nd += 2;
        } else {
            CHECK(g.op_fails > 0 && cstl_vector_capacity(&vd) == cap);
        }

        OP_BEGIN();
        cstl_shared_ptr_alloc(&sp, 10 + round, NULL);
        CHECK(cstl_shared_ptr_get(&sp) != NULL || g.op_fails > 0);
        OP_BEGIN();
        cstl_array_alloc(&arr, round + 1, sizeof(long));
        CHECK(cstl_array_size(&arr) == round + 1
              || (cstl_array_size(&arr) == 0 && g.op_fails > 0));

        /* everybody still has what they had */
        CHECK(cstl_vector_size(&vi) == ni);
        for (k = 0; k < ni; k++) {
            CHECK(*(int *)cstl_vector_at(&vi, k) == (int)k * 11);
        }
        CHECK(cstl_vector_size(&vd) == nd);
        for (k = 0; k < nd; k++) {
            CHECK(*(double *)cstl_vector_at(&vd, k) == (double)k / 4);
        }
        CHECK(cstl_string_size(&s) == ns);
        CHECK(strlen(cstl_string_str(&s)) == ns);
        m_verify();
        if (round == 2) {
            cstl_vector_shrink_to_fit(&vi);
            cstl_vector_reserve(&vd, 40);
        }
    }

    cstl_vector_clear(&vi);
    cstl_vector_clear(&vd);
    cstl_string_clear(&s);
    cstl_shared_ptr_reset(&sp);
    cstl_array_reset(&arr);
    cstl_map_clear(&M.m, NULL, NULL);
}

/* ------------------------------------------------------------------ */
/* driver                                                             */
/* ------------------------------------------------------------------ */

static unsigned long run(void (* const script)(void))
{
    unsigned long n;

    g.seq = 0;
    g.op_allocs = g.op_fails = 0;
    g.aborted = 0;
    g.in_try = 0;
    g.suspend = 0;
    g.armed = 1;
    script();
    g.armed = 0;
    n = g.seq;
    check_all_guards();
    audit();
    g.runs++;
    return n;
}

static void drive(const char * const name, void (* const script)(void),
                  const unsigned long triples_upto,
                  const unsigned long quads_upto)
{
    unsigned long n, a, b, c, d;
    const unsigned long before = g.runs;

    g.script = name;
    memset(&plan, 0, sizeof(plan));
    plan.mode = P_NONE;
    n = run(script);
    /* the clean run is deterministic */
    CHECK(run(script) == n);

    for (a = 0; a <= n; a++) {
        plan.a = a;
        plan.mode = P_SINGLE;
        (void)run(script);
        plan.mode = P_SUFFIX;
        (void)run(script);
        plan.mode = P_ALLBUT;
        (void)run(script);
    }
    plan.mode = P_PAIR;
    for (a = 0; a < n; a++) {
        for (b = a + 1; b <= n; b++) {
            plan.a = a;
            plan.b = b;
            (void)run(script);
        }
    }
    if (n <= triples_upto) {
        plan.mode = P_TRIPLE;
        for (a = 0; a < n; a++) {
            for (b = a + 1; b < n; b++) {
                for (c = b + 1; c <= n; c++) {
                    plan.a = a;
                    plan.b = b;
                    plan.c = c;
                    (void)run(script);
                }
            }
        }
    }
    if (n <= quads_upto) {
        plan.mode = P_QUAD;
        for (a = 0; a < n; a++) {
            for (b = a + 1; b < n; b++) {
                for (c = b + 1; c < n; c++) {
                    for (d = c + 1; d <= n; d++) {
                        plan.a = a;
                        plan.b = b;
                        plan.c = c;
                        plan.d = d;
                        (void)run(script);
                    }
                }
            }
        }
    }
    plan.mode = P_NONE;
    printf("%-14s %3lu allocations, %6lu runs%s%s\n", name, n,
           g.runs - before, n <= triples_upto ? " (triples)" : "",
           n <= quads_upto ? " (quadruples)" : "");
    g.script = NULL;
}

int main(void)
{
    struct sigaction sa;

    memset(&sa, 0, sizeof(sa));
    sa.sa_handler = on_abort;
    sigemptyset(&sa.sa_mask);
    sa.sa_flags = SA_NODEFER;
    CHECK(sigaction(SIGABRT, &sa, NULL) == 0);
    sa.sa_handler = on_crash;
    sa.sa_flags = (int)SA_RESETHAND;
    CHECK(sigaction(SIGSEGV, &sa, NULL) == 0);
    CHECK(sigaction(SIGBUS, &sa, NULL) == 0);
    setvbuf(stdout, NULL, _IONBF, 0);

    aux_setup();

    drive("vector/8c", script_vector_8c, 64, FOCUS == 'v' ? 20 : 13);
    drive("vector/24c", script_vector_24c, 64, 13);
    drive("vector/40p", script_vector_40p, 64, 13);
    drive("vector/bytes", script_vector_bytes, 64, FOCUS == 'v' ? 20 : 13);
    drive("vector/long", script_vector_long, 64, FOCUS == 'v' ? 26 : 0);
    drive("string", script_string, 64, FOCUS == 'v' ? 20 : 13);
    drive("string/long", script_string_long, 64, FOCUS == 'v' ? 26 : 0);
    drive("wstring", script_wstring, 64, 20);
    drive("hash", script_hash, 64, FOCUS == 'h' ? 24 : 13);
    drive("hash/ladder", script_hash_ladder, 64, FOCUS == 'h' ? 24 : 13);
    drive("map", script_map, 64, FOCUS == 'p' ? 24 : 13);
    drive("unique_ptr", script_unique, 64, FOCUS == 'p' ? 24 : 13);
    drive("shared_ptr", script_shared, 64, FOCUS == 'p' ? 24 : 13);
    drive("array", script_array, 64, FOCUS == 'p' ? 24 : 13);
    drive("mixed", script_mixed, 64, 0);

    aux_teardown();
    audit();
    printf("ok: %lu runs, %lu callback visits to the auxiliary vector\n",
           g.runs, cb_calls);
    return 0;
}
