/*
 * C08: the map keeps exactly one entry per key and never replaces or
 * loses one silently.
 *
 * Model based test that only uses the public map API. Every operation's
 * result is compared against a trivial array model; malloc/free are
 * wrapped at link time (-Wl,--wrap) to watch for leaks at clear time
 * and to inject allocation failures.
 */

#include "cstl/map.h"

#include <stdio.h>
#include <stdlib.h>
#include <string.h>
#include <stdint.h>

/* ------------------------------------------------------------------ */
/* allocation tracking / failure injection                             */

void * __real_malloc(size_t);
void __real_free(void *);

static long live_allocs;
static int fail_always;

void * __wrap_malloc(size_t n)
{
    void * p;
    if (fail_always) {
        return NULL;
    }
    p = __real_malloc(n);
    if (p != NULL) {
        live_allocs++;
    }
    return p;
}

void __wrap_free(void * p)
{
    if (p != NULL) {
        live_allocs--;
    }
    __real_free(p);
}

/* ------------------------------------------------------------------ */

#define CHECK(c)                                                        \
    do {                                                                \
        if (!(c)) {                                                     \
            fprintf(stderr, "%s:%d: check failed: %s (scenario %s)\n", \
                    __FILE__, __LINE__, #c, scenario);                  \
            exit(1);                                                    \
        }                                                               \
    } while (0)

static const char * scenario = "startup";

static uint64_t rng_state = 88172645463325252ull;
static uint64_t rnd(void)
{
    rng_state ^= rng_state << 13;
    rng_state ^= rng_state >> 7;
    rng_state ^= rng_state << 17;
    return rng_state;
}
static unsigned rndn(unsigned n)
{
    return (unsigned)(rnd() % n);
}

/* ------------------------------------------------------------------ */
/* keys, values, comparators                                            */

#define MAXU 4096
#define NALIAS 2

struct key
{
    int v;
    int alias;
    char s[12];
};

struct val
{
    int u;
    int alias;
};

static struct key keys[MAXU][NALIAS];
static struct val vals[MAXU][NALIAS];

static long cmp_calls;

static int cmp_asc(const void * a, const void * b, void * p)
{
    const struct key * ka = a, * kb = b;
    if (p != NULL) {
        ++*(long *)p;
    }
    return (ka->v > kb->v) - (ka->v < kb->v);
}

static int cmp_desc(const void * a, const void * b, void * p)
{
    return -cmp_asc(a, b, p);
}

/* returns big magnitudes, not just -1/0/1 */
static int cmp_diff(const void * a, const void * b, void * p)
{
    const struct key * ka = a, * kb = b;
    (void)p;
    return (ka->v - kb->v) * 1000;
}

struct scramble
{
    unsigned mult;
};

static int cmp_scramble(const void * a, const void * b, void * p)
{
    const struct scramble * s = p;
    const struct key * ka = a, * kb = b;
    const unsigned x = ((unsigned)ka->v * s->mult) % 65537u;
    const unsigned y = ((unsigned)kb->v * s->mult) % 65537u;
    return (x > y) - (x < y);
}

static int cmp_str(const void * a, const void * b, void * p)
{
    const struct key * ka = a, * kb = b;
    (void)p;
    return strcmp(ka->s, kb->s);
}

/* keys are integers smuggled in the pointer itself; includes NULL */
static int cmp_uintptr(const void * a, const void * b, void * p)
{
    const uintptr_t x = (uintptr_t)a, y = (uintptr_t)b;
    (void)p;
    return (x > y) - (x < y);
}

/*
 * a comparator that calls back into the library on ANOTHER map: the
 * rank of each key is looked up in a separate map, and the ranks are
 * compared.
 */
static int rank_of[MAXU];
static cstl_map_t rank_map;

static int cmp_via_map(const void * a, const void * b, void * p)
{
    cstl_map_t * const rm = p;
    cstl_map_iterator_t ia, ib;
    int ra, rb;

    cstl_map_find(rm, a, &ia);
    cstl_map_find(rm, b, &ib);
    CHECK(!cstl_map_iterator_eq(&ia, cstl_map_iterator_end(rm)));
    CHECK(!cstl_map_iterator_eq(&ib, cstl_map_iterator_end(rm)));
    ra = *(int *)ia.val;
    rb = *(int *)ib.val;
    return (ra > rb) - (ra < rb);
}

static int id_struct(const void * k)
{
    return ((const struct key *)k)->v;
}

static int id_uintptr(const void * k)
{
    return (int)(uintptr_t)k;
}

/* ------------------------------------------------------------------ */
/* a world: a map plus its model                                        */

typedef struct world
{
    cstl_map_t map;
    int U;
    int (*key_id)(const void *);
    int ptr_keys;

    int present[MAXU];
    const void * skey[MAXU];
    void * sval[MAXU];
    cstl_map_iterator_t siter[MAXU];
    size_t size;

    int solo;
    long baseline;

    /* clear bookkeeping */
    int seen[MAXU];
    size_t nseen;
    cstl_map_t * graveyard;
} world_t;

static const void * KP(const world_t * w, int u, int alias)
{
    if (w->ptr_keys) {
        return (const void *)(uintptr_t)u;
    }
    return &keys[u][alias];
}

static void * VP(const world_t * w, int u, int alias)
{
    (void)w;
    /* every seventh value is a NULL pointer */
    if (u % 7 == 3 && alias == 0) {
        return NULL;
    }
    return &vals[u][alias];
}

static void w_init(world_t * w, int U, cstl_compare_func_t * cmp, void * priv,
                   int ptr_keys, int solo)
{
    int u;
    CHECK(U <= MAXU);
    w->U = U;
    w->ptr_keys = ptr_keys;
    w->key_id = ptr_keys ? id_uintptr : id_struct;
    for (u = 0; u < U; u++) {
        w->present[u] = 0;
    }
    w->size = 0;
    w->solo = solo;
    w->baseline = live_allocs;
    w->graveyard = NULL;
    /* poison the object first: init must not depend on prior content */
    memset(&w->map, 0xa5, sizeof(w->map));
    cstl_map_init(&w->map, cmp, priv);
    CHECK(cstl_map_size(&w->map) == 0);
}

static int is_end(const world_t * w, const cstl_map_iterator_t * i)
{
    return cstl_map_iterator_eq(i, cstl_map_iterator_end(&w->map));
}

static void op_find(world_t * w, int u, int alias)
{
    cstl_map_iterator_t it;
    memset(&it, 0x5a, sizeof(it));
    cstl_map_find(&w->map, KP(w, u, alias), &it);
    if (w->present[u]) {
        CHECK(!is_end(w, &it));
        CHECK(it.key == w->skey[u]);
        CHECK(it.val == w->sval[u]);
    } else {
        CHECK(is_end(w, &it));
    }
    CHECK(cstl_map_size(&w->map) == w->size);
}

static void op_insert(world_t * w, int u, int alias, int with_iter)
{
    cstl_map_iterator_t it;
    const void * const kp = KP(w, u, alias);
    void * const vp = VP(w, u, alias);
    int r;

    memset(&it, 0x5a, sizeof(it));
    r = cstl_map_insert(&w->map, kp, vp, with_iter ? &it : NULL);

    if (w->present[u]) {
        /* an existing key is reported, even when malloc would fail */
        CHECK(r == 1);
        if (with_iter) {
            CHECK(!is_end(w, &it));
            CHECK(it.key == w->skey[u]);
            CHECK(it.val == w->sval[u]);
        }
    } else if (fail_always) {
        CHECK(r == -1);
        if (with_iter) {
            CHECK(is_end(w, &it));
        }
    } else {
        CHECK(r == 0);
        if (with_iter) {
            CHECK(!is_end(w, &it));
            CHECK(it.key == kp);
            CHECK(it.val == vp);
            w->siter[u] = it;
        } else {
            cstl_map_find(&w->map, kp, &w->siter[u]);
            CHECK(!is_end(w, &w->siter[u]));
        }
        w->present[u] = 1;
        w->skey[u] = kp;
        w->sval[u] = vp;
        w->size++;
    }
    CHECK(cstl_map_size(&w->map) == w->size);
    /* the stored pointers are what find reports, before and after */
    op_find(w, u, !alias);
}

static void op_erase(world_t * w, int u, int alias, int with_iter)
{
    cstl_map_iterator_t it;
    int r;

    memset(&it, 0x5a, sizeof(it));
    r = cstl_map_erase(&w->map, KP(w, u, alias), with_iter ? &it : NULL);
    if (w->present[u]) {
        CHECK(r == 0);
        if (with_iter) {
            CHECK(is_end(w, &it));
            CHECK(it.key == w->skey[u]);
            CHECK(it.val == w->sval[u]);
        }
        w->present[u] = 0;
        w->size--;
    } else {
        CHECK(r == -1);
        if (with_iter) {
            CHECK(is_end(w, &it));
        }
    }
    CHECK(cstl_map_size(&w->map) == w->size);
    op_find(w, u, alias);
}

/* how: 0 - iterator from a fresh find, 1 - iterator kept since insertion */
static void op_erase_iter(world_t * w, int u, int how)
{
    cstl_map_iterator_t it;

    if (!w->present[u]) {
        op_find(w, u, 0);
        return;
    }

    if (how == 0) {
        cstl_map_find(&w->map, KP(w, u, 1), &it);
        CHECK(!is_end(w, &it));
    } else {
        it = w->siter[u];
    }
    CHECK(it.key == w->skey[u]);
    CHECK(it.val == w->sval[u]);

    cstl_map_erase_iterator(&w->map, &it);
    /* the caller still has the pointers to dispose of */
    CHECK(it.key == w->skey[u]);
    CHECK(it.val == w->sval[u]);

    w->present[u] = 0;
    w->size--;
    CHECK(cstl_map_size(&w->map) == w->size);
    op_find(w, u, 0);
}

static void clear_cb(void * e, void * p)
{
    cstl_map_iterator_t * const it = e;
    world_t * const w = p;
    const int u = w->key_id(it->key);

    CHECK(u >= 0 && u < w->U);
    CHECK(w->present[u]);
    CHECK(it->key == w->skey[u]);
    CHECK(it->val == w->sval[u]);
    CHECK(w->seen[u] == 0);
    w->seen[u] = 1;
    w->nseen++;

    if (w->graveyard != NULL) {
        /* use ANOTHER map from within the callback */
        cstl_map_iterator_t gi;
        const int r = cstl_map_insert(w->graveyard, it->key, it->val, &gi);
        CHECK(r == 0);
        CHECK(gi.key == it->key && gi.val == it->val);
    }
}

static void op_clear(world_t * w, int with_cb)
{
    int u;

    for (u = 0; u < w->U; u++) {
        w->seen[u] = 0;
    }
    w->nseen = 0;

    if (with_cb) {
        cstl_map_clear(&w->map, clear_cb, w);
        CHECK(w->nseen == w->size);
        for (u = 0; u < w->U; u++) {
            CHECK(w->seen[u] == (w->present[u] != 0));
        }
    } else {
        cstl_map_clear(&w->map, NULL, NULL);
    }

    for (u = 0; u < w->U; u++) {
        w->present[u] = 0;
    }
    w->size = 0;
    CHECK(cstl_map_size(&w->map) == 0);
    if (w->solo) {
        /* everything the map allocated has been released */
        CHECK(live_allocs == w->baseline);
    }
}

static void verify_all(world_t * w)
{
    int u;
    size_t n = 0;
    for (u = 0; u < w->U; u++) {
        op_find(w, u, u & 1);
        n += (w->present[u] != 0);
    }
    CHECK(n == w->size);
    CHECK(cstl_map_size(&w->map) == n);
}

/* ------------------------------------------------------------------ */
/* exhaustive short sequences                                           */

#define OPS_PER_KEY 6

static void apply_small_op(world_t * w, int op)
{
    if (op == w->U * OPS_PER_KEY) {
        op_clear(w, 1);
    } else if (op == w->U * OPS_PER_KEY + 1) {
        op_clear(w, 0);
    } else {
        const int u = op / OPS_PER_KEY;
        switch (op % OPS_PER_KEY) {
        case 0: op_insert(w, u, 0, 1); break;
        case 1: op_insert(w, u, 1, 0); break;
        case 2: op_find(w, u, 1); break;
        case 3: op_erase(w, u, 1, 1); break;
        case 4: op_erase_iter(w, u, 0); break;
        case 5: op_erase_iter(w, u, 1); break;
        }
    }
}

static void exhaustive(int U, int L, cstl_compare_func_t * cmp, void * priv,
                       int ptr_keys)
{
    static world_t w;
    const int nops = U * OPS_PER_KEY + 2;
    int seq[16];
    int i;
    unsigned long count = 0;

    for (i = 0; i < L; i++) {
        seq[i] = 0;
    }

    for (;;) {
        const long before = live_allocs;

        w_init(&w, U, cmp, priv, ptr_keys, 1);
        for (i = 0; i < L; i++) {
            apply_small_op(&w, seq[i]);
        }
        verify_all(&w);
        op_clear(&w, (int)(count & 1));
        CHECK(live_allocs == before);
        count++;

        for (i = L - 1; i >= 0; i--) {
            if (++seq[i] < nops) {
                break;
            }
            seq[i] = 0;
        }
        if (i < 0) {
            break;
        }
    }
}

/* ------------------------------------------------------------------ */
/* long random sequences                                                */

static void random_op(world_t * w, int allow_fail)
{
    const int u = (int)rndn((unsigned)w->U);
    const unsigned r = rndn(1000);

    if (allow_fail && rndn(8) == 0) {
        fail_always = 1;
    }

    if (r < 400) {
        op_insert(w, u, (int)rndn(2), (int)rndn(4) != 0);
    } else if (r < 600) {
        op_erase(w, u, (int)rndn(2), (int)rndn(4) != 0);
    } else if (r < 750) {
        op_erase_iter(w, u, (int)rndn(2));
    } else if (r < 998) {
        op_find(w, u, (int)rndn(2));
    } else {
        /* a clear that has to call a callback may allocate in the
         * graveyard; keep failure injection out of that */
        const int fa = fail_always;
        if (w->graveyard != NULL) {
            fail_always = 0;
        }
        op_clear(w, (int)rndn(4) != 0);
        if (w->graveyard != NULL) {
            /* the graveyard is emptied right away */
            cstl_map_clear(w->graveyard, NULL, NULL);
        }
        fail_always = fa;
    }

    fail_always = 0;
}

static void random_run(int U, unsigned long nops,
                       cstl_compare_func_t * cmp, void * priv,
                       int ptr_keys, int allow_fail, uint64_t seed)
{
    static world_t w;
    const long before = live_allocs;
    unsigned long n;

    rng_state = seed * 0x9e3779b97f4a7c15ull + 1;
    w_init(&w, U, cmp, priv, ptr_keys, 1);
    for (n = 0; n < nops; n++) {
        random_op(&w, allow_fail);
        if (n % 4096 == 0) {
            verify_all(&w);
        }
    }
    verify_all(&w);
    op_clear(&w, 1);
    CHECK(live_allocs == before);
}

/* fill to capacity, drain to empty, in several orders */
static void fill_drain(int U, cstl_compare_func_t * cmp, void * priv,
                       int ptr_keys, int order)
{
    static world_t w;
    static int perm[MAXU];
    const long before = live_allocs;
    int i, round;

    w_init(&w, U, cmp, priv, ptr_keys, 1);
    for (round = 0; round < 3; round++) {
        for (i = 0; i < U; i++) {
            perm[i] = i;
        }
        if (order == 1) {
            for (i = 0; i < U; i++) {
                perm[i] = U - 1 - i;
            }
        } else if (order == 2) {
            for (i = U - 1; i > 0; i--) {
                const int j = (int)rndn((unsigned)i + 1);
                const int t = perm[i];
                perm[i] = perm[j];
                perm[j] = t;
            }
        }

        for (i = 0; i < U; i++) {
            op_insert(&w, perm[i], i & 1, 1);
        }
        CHECK(w.size == (size_t)U);
        verify_all(&w);
        /* every key again: all duplicates */
        for (i = 0; i < U; i++) {
            op_insert(&w, perm[U - 1 - i], !(i & 1), i % 3 != 0);
        }
        CHECK(w.size == (size_t)U);

        if (round == 2) {
            op_clear(&w, 1);
            break;
        }

        if (order == 2) {
            for (i = U - 1; i > 0; i--) {
                const int j = (int)rndn((unsigned)i + 1);
                const int t = perm[i];
                perm[i] = perm[j];
                perm[j] = t;
            }
        }
        for (i = 0; i < U; i++) {
            switch ((i + round) % 3) {
            case 0: op_erase(&w, perm[i], 0, 1); break;
            case 1: op_erase_iter(&w, perm[i], 0); break;
            case 2: op_erase_iter(&w, perm[i], 1); break;
            }
            if (i % 97 == 0) {
                verify_all(&w);
            }
        }
        CHECK(w.size == 0);
        /* erasing from an empty map */
        op_erase(&w, 0, 0, 1);
        op_erase(&w, U - 1, 1, 0);
        CHECK(live_allocs == before);
    }
    CHECK(live_allocs == before);
}

/* several maps of different kinds interleaved, callbacks that use others */
static void interleaved(uint64_t seed)
{
    static world_t a, b, c;
    static cstl_map_t grave;
    struct scramble sc;
    const long before = live_allocs;
    unsigned long n;

    rng_state = seed * 0xda942042e4dd58b5ull + 7;
    sc.mult = 40503u;

    cstl_map_init(&grave, cmp_asc, NULL);

    w_init(&a, 50, cmp_via_map, &rank_map, 0, 0);
    w_init(&b, 300, cmp_uintptr, NULL, 1, 0);
    w_init(&c, 17, cmp_scramble, &sc, 0, 0);
    a.graveyard = &grave;
    c.graveyard = &grave;

    for (n = 0; n < 150000; n++) {
        switch (rndn(3)) {
        case 0: random_op(&a, 1); break;
        case 1: random_op(&b, 1); break;
        case 2: random_op(&c, 1); break;
        }
        if (n % 5000 == 0) {
            verify_all(&a);
            verify_all(&b);
            verify_all(&c);
        }
    }
    verify_all(&a);
    verify_all(&b);
    verify_all(&c);

    op_clear(&a, 1);
    CHECK(cstl_map_size(&grave) == a.nseen);
    cstl_map_clear(&grave, NULL, NULL);
    op_clear(&c, 1);
    CHECK(cstl_map_size(&grave) == c.nseen);
    cstl_map_clear(&grave, NULL, NULL);
    op_clear(&b, 0);
    CHECK(live_allocs == before);
}

/* a large map with pointer-valued keys */
static void big(int order)
{
    static cstl_map_t m;
    const uintptr_t N = 200000;
    const long before = live_allocs;
    uintptr_t i;
    cstl_map_iterator_t it;

    cstl_map_init(&m, cmp_uintptr, NULL);
    for (i = 0; i < N; i++) {
        const uintptr_t k = order ? N - 1 - i : i;
        CHECK(cstl_map_insert(&m, (void *)k, (void *)(k * 2 + 1), &it) == 0);
        CHECK(it.key == (void *)k && it.val == (void *)(k * 2 + 1));
    }
    CHECK(cstl_map_size(&m) == N);
    for (i = 0; i < N; i++) {
        CHECK(cstl_map_insert(&m, (void *)i, NULL, &it) == 1);
        CHECK(it.key == (void *)i && it.val == (void *)(i * 2 + 1));
    }
    CHECK(cstl_map_size(&m) == N);
    cstl_map_find(&m, (void *)N, &it);
    CHECK(cstl_map_iterator_eq(&it, cstl_map_iterator_end(&m)));

    for (i = 0; i < N; i += 2) {
        CHECK(cstl_map_erase(&m, (void *)i, &it) == 0);
        CHECK(it.key == (void *)i && it.val == (void *)(i * 2 + 1));
        CHECK(cstl_map_iterator_eq(&it, cstl_map_iterator_end(&m)));
    }
    CHECK(cstl_map_size(&m) == N / 2);
    for (i = 0; i < N; i++) {
        cstl_map_find(&m, (void *)i, &it);
        if (i & 1) {
            CHECK(it.key == (void *)i && it.val == (void *)(i * 2 + 1));
            CHECK(!cstl_map_iterator_eq(&it, cstl_map_iterator_end(&m)));
        } else {
            CHECK(cstl_map_iterator_eq(&it, cstl_map_iterator_end(&m)));
            CHECK(cstl_map_erase(&m, (void *)i, NULL) == -1);
        }
    }
    for (i = 1; i < N; i += 4) {
        cstl_map_find(&m, (void *)i, &it);
        cstl_map_erase_iterator(&m, &it);
    }
    CHECK(cstl_map_size(&m) == N / 4);
    cstl_map_clear(&m, NULL, NULL);
    CHECK(cstl_map_size(&m) == 0);
    CHECK(live_allocs == before);
}

int main(void)
{
    static int ranks[MAXU];
    struct scramble sc;
    int u, a;
    uint64_t seed;

    for (u = 0; u < MAXU; u++) {
        for (a = 0; a < NALIAS; a++) {
            keys[u][a].v = u;
            keys[u][a].alias = a;
            sprintf(keys[u][a].s, "k%d", u * 7919 % 10007);
            vals[u][a].u = u;
            vals[u][a].alias = a;
        }
    }

    /* the rank map used by cmp_via_map: a permutation of the keys */
    scenario = "rank map";
    cstl_map_init(&rank_map, cmp_asc, NULL);
    for (u = 0; u < 256; u++) {
        ranks[u] = (u * 89) % 256;
        rank_of[u] = ranks[u];
        CHECK(cstl_map_insert(&rank_map, &keys[u][0], &ranks[u], NULL) == 0);
    }

    /* an initialised, never used map can be cleared (and again) */
    scenario = "empty";
    {
        cstl_map_t m;
        cstl_map_iterator_t it;
        const long before = live_allocs;
        cstl_map_init(&m, cmp_asc, NULL);
        CHECK(cstl_map_size(&m) == 0);
        cstl_map_find(&m, &keys[0][0], &it);
        CHECK(cstl_map_iterator_eq(&it, cstl_map_iterator_end(&m)));
        CHECK(cstl_map_erase(&m, &keys[0][0], &it) == -1);
        CHECK(cstl_map_iterator_eq(&it, cstl_map_iterator_end(&m)));
        CHECK(cstl_map_erase(&m, &keys[0][0], NULL) == -1);
        cstl_map_clear(&m, NULL, NULL);
        cstl_map_clear(&m, NULL, NULL);
        CHECK(live_allocs == before);
    }

    scenario = "exhaustive U=3 L=5 asc";
    exhaustive(3, 5, cmp_asc, &cmp_calls, 0);
    scenario = "exhaustive U=3 L=5 desc";
    exhaustive(3, 5, cmp_desc, NULL, 0);
    scenario = "exhaustive U=4 L=4 ptr keys";
    exhaustive(4, 4, cmp_uintptr, NULL, 1);
    scenario = "exhaustive U=2 L=6 str";
    exhaustive(2, 6, cmp_str, NULL, 0);
    scenario = "exhaustive U=5 L=3 via map";
    exhaustive(5, 3, cmp_via_map, &rank_map, 0);
    scenario = "exhaustive U=1 L=7";
    exhaustive(1, 7, cmp_diff, NULL, 0);

    sc.mult = 75u;
    for (seed = 1; seed <= 3; seed++) {
        static const int Us[] = { 1, 2, 3, 8, 33, 64, 1000, 4096 };
        unsigned i;
        for (i = 0; i < sizeof(Us) / sizeof(Us[0]); i++) {
            scenario = "random asc";
            random_run(Us[i], 60000, cmp_asc, NULL, 0, 0, seed);
            scenario = "random desc with failures";
            random_run(Us[i], 60000, cmp_desc, &cmp_calls, 0, 1, seed + 10);
            scenario = "random scramble";
            random_run(Us[i], 60000, cmp_scramble, &sc, 0, 1, seed + 20);
            scenario = "random ptr keys";
            random_run(Us[i], 60000, cmp_uintptr, NULL, 1, 1, seed + 30);
            scenario = "random str";
            random_run(Us[i], 40000, cmp_str, NULL, 0, 0, seed + 40);
            scenario = "random diff";
            random_run(Us[i], 40000, cmp_diff, NULL, 0, 1, seed + 50);
            if (Us[i] <= 256) {
                scenario = "random via map";
                random_run(Us[i], 30000, cmp_via_map, &rank_map, 0, 1,
                           seed + 60);
            }
        }
    }

    for (a = 0; a < 3; a++) {
        static const int Us[] = { 1, 2, 3, 4, 5, 6, 7, 8, 15, 16, 17, 31, 32,
                                  33, 63, 64, 65, 127, 128, 129, 1000, 4096 };
        unsigned i;
        for (i = 0; i < sizeof(Us) / sizeof(Us[0]); i++) {
            scenario = "fill/drain asc";
            fill_drain(Us[i], cmp_asc, NULL, 0, a);
            scenario = "fill/drain desc";
            fill_drain(Us[i], cmp_desc, NULL, 0, a);
            scenario = "fill/drain ptr";
            fill_drain(Us[i], cmp_uintptr, NULL, 1, a);
            if (Us[i] <= 256) {
                scenario = "fill/drain via map";
                fill_drain(Us[i], cmp_via_map, &rank_map, 0, a);
            }
        }
    }

    scenario = "interleaved";
    for (seed = 1; seed <= 3; seed++) {
        interleaved(seed);
    }

    scenario = "big";
    big(0);
    big(1);

    scenario = "teardown";
    cstl_map_clear(&rank_map, NULL, NULL);
    CHECK(live_allocs == 0);
    CHECK(cmp_calls > 0);

    printf("C08 ok\n");
    return 0;
}
