/*
 * C16: allocation failure never corrupts a container.
 *
 * Standalone test; uses only the public API of libcstl. The allocator is
 * intercepted with the linker's --wrap option, so that every malloc(),
 * realloc(), calloc() and free() made by the library (and by this file)
 * goes through the checking allocator below. The checking allocator
 *   - can make any chosen allocation request fail,
 *   - keeps a table of live blocks (leak audit, invalid and double free),
 *   - puts guard bytes in front of and behind every block (out of bounds),
 *   - fills new memory with garbage and freed memory with poison,
 *   - always moves a block on realloc() (stale pointers show up).
 *
 * Every script is first run without failures to count its allocation
 * requests, and then re-run with every single request failing, every
 * suffix of requests failing, every pair failing and (for short scripts)
 * every triple failing. After every step the container is compared with a
 * model; at the end of every run the live-block table must be back to
 * where it started.
 *
 * The test makes no assumption about how many allocations an operation
 * performs, where in a block the data lives or in which order internal
 * steps are taken.
 */
#define _POSIX_C_SOURCE 200809L
#include <stdio.h>
#include <stdlib.h>
#include <unistd.h>
#include <string.h>
#include <stdint.h>
#include <setjmp.h>
#include <signal.h>
#include <math.h>
#include <wchar.h>

#include "cstl/vector.h"
#include "cstl/string.h"
#include "cstl/hash.h"
#include "cstl/map.h"
#include "cstl/memory.h"
#include "cstl/array.h"

/* ------------------------------------------------------------------ */
/* reporting                                                          */
/* ------------------------------------------------------------------ */

static const char * g_script = "(none)";
static char g_plan[128] = "none";

static void fail_at(const char * const what, const int line)
{
    fprintf(stderr, "FAIL: script %s, plan %s, line %d: %s\n",
            g_script, g_plan, line, what);
    fflush(stderr);
    _exit(1);
}

#define CHECK(C) do { if (!(C)) { fail_at(#C, __LINE__); } } while (0)

/* ------------------------------------------------------------------ */
/* checking allocator                                                 */
/* ------------------------------------------------------------------ */

void * __real_malloc(size_t);
void * __real_realloc(void *, size_t);
void * __real_calloc(size_t, size_t);
void __real_free(void *);

#define HEAD    32
#define TAIL    16
#define MAXLIVE 8192

struct blk
{
    unsigned char * user;
    size_t size;
};

static struct blk live[MAXLIVE];
static size_t nlive;

/* fault plan */
enum { PLAN_NONE, PLAN_SET, PLAN_SUFFIX };
static int plan_mode;
static unsigned long plan_idx[3];
static int plan_n;

static volatile int armed;
static volatile unsigned long alloc_idx;
static volatile unsigned long faults;

static int should_fail(const unsigned long idx)
{
    int i;
    switch (plan_mode) {
    case PLAN_SET:
        for (i = 0; i < plan_n; i++) {
            if (plan_idx[i] == idx) {
                return 1;
            }
        }
        return 0;
    case PLAN_SUFFIX:
        return idx >= plan_idx[0];
    default:
        return 0;
    }
}

static void guard_fill(unsigned char * const user, const size_t size)
{
    memset(user - HEAD, 0xA5, HEAD);
    memcpy(user - HEAD, &size, sizeof(size));
    memset(user + size, 0x5A, TAIL);
}

static void guard_check(const struct blk * const b)
{
    size_t i, sz;
    memcpy(&sz, b->user - HEAD, sizeof(sz));
    if (sz != b->size) {
        fail_at("block header overwritten", __LINE__);
    }
    for (i = sizeof(sz); i < HEAD; i++) {
        if (b->user[(ptrdiff_t)i - HEAD] != 0xA5) {
            fail_at("write in front of a block", __LINE__);
        }
    }
    for (i = 0; i < TAIL; i++) {
        if (b->user[b->size + i] != 0x5A) {
            fail_at("write behind a block", __LINE__);
        }
    }
}

static void guard_check_all(void)
{
    size_t i;
    for (i = 0; i < nlive; i++) {
        guard_check(&live[i]);
    }
}

static size_t live_find(const void * const p)
{
    size_t i;
    for (i = nlive; i > 0; i--) {
        if (live[i - 1].user == p) {
            return i - 1;
        }
    }
    return (size_t)-1;
}

/* an allocation request; may be refused by the plan */
static void * ck_alloc(const size_t size)
{
    unsigned char * raw;

    if (armed) {
        const unsigned long idx = alloc_idx++;
        if (should_fail(idx)) {
            faults++;
            return NULL;
        }
    }
    if (size > SIZE_MAX / 2) {
        /* nothing can satisfy this */
        faults++;
        return NULL;
    }
    raw = __real_malloc(size + HEAD + TAIL);
    if (raw == NULL) {
        faults++;
        return NULL;
    }
    if (nlive == MAXLIVE) {
        fail_at("live table full", __LINE__);
    }
    live[nlive].user = raw + HEAD;
    live[nlive].size = size;
    nlive++;
    guard_fill(raw + HEAD, size);
    memset(raw + HEAD, 0xCD, size);
    return raw + HEAD;
}

static void ck_release(void * const p)
{
    const size_t i = live_find(p);
    if (i == (size_t)-1) {
        fail_at("free of a pointer that is not a live block "
                "(double free or interior pointer)", __LINE__);
    }
    guard_check(&live[i]);
    memset(live[i].user, 0xDD, live[i].size);
    __real_free(live[i].user - HEAD);
    live[i] = live[--nlive];
}

void * __wrap_malloc(const size_t size)
{
    return ck_alloc(size);
}

void * __wrap_calloc(const size_t n, const size_t sz)
{
    void * p;
    if (sz != 0 && n > SIZE_MAX / sz) {
        faults++;
        return NULL;
    }
    p = ck_alloc(n * sz);
    if (p != NULL) {
        memset(p, 0, n * sz);
    }
    return p;
}

void __wrap_free(void * const p)
{
    if (p != NULL) {
        ck_release(p);
    }
}

void * __wrap_realloc(void * const p, const size_t size)
{
    size_t i, keep;
    void * n;

    if (p == NULL) {
        return ck_alloc(size);
    }
    i = live_find(p);
    if (i == (size_t)-1) {
        fail_at("realloc of a pointer that is not a live block", __LINE__);
    }
    if (size == 0) {
        ck_release(p);
        return NULL;
    }
    n = ck_alloc(size);
    if (n == NULL) {
        /* the old block stays as it is */
        return NULL;
    }
    i = live_find(p);
    keep = live[i].size < size ? live[i].size : size;
    memcpy(n, p, keep);
    ck_release(p);
    return n;
}

/* ------------------------------------------------------------------ */
/* operations are bracketed by op_begin()/op_end()                    */
/* ------------------------------------------------------------------ */

static unsigned long op_faults0;
static unsigned long op_faults;  /* failures seen by the last operation */

static void op_begin(void)
{
    op_faults0 = faults;
    armed = 1;
}

static void op_end(void)
{
    armed = 0;
    op_faults = faults - op_faults0;
}

/* ------------------------------------------------------------------ */
/* catching abort()                                                   */
/* ------------------------------------------------------------------ */

static sigjmp_buf abort_jb;
static volatile sig_atomic_t abort_expected;

static void on_abort(const int sig)
{
    (void)sig;
    if (abort_expected) {
        abort_expected = 0;
        siglongjmp(abort_jb, 1);
    }
    fail_at("unexpected abort()", __LINE__);
}

/*
 * run STMT with fault injection armed; ABORTED is set to 1 if the library
 * called abort() and to 0 if STMT returned
 */
#define ABORTABLE(STMT, ABORTED)                        \
    do {                                                \
        abort_expected = 1;                             \
        if (sigsetjmp(abort_jb, 1) == 0) {              \
            op_begin();                                 \
            STMT;                                       \
            op_end();                                   \
            ABORTED = 0;                                \
        } else {                                        \
            op_end();                                   \
            ABORTED = 1;                                \
        }                                               \
        abort_expected = 0;                             \
    } while (0)

/* ------------------------------------------------------------------ */
/* exploration driver                                                 */
/* ------------------------------------------------------------------ */

typedef void script_fn(void);

static unsigned long g_runs;

static unsigned long run_once(script_fn * const f)
{
    const size_t live0 = nlive;

    alloc_idx = 0;
    faults = 0;
    armed = 0;
    f();
    armed = 0;
    if (nlive != live0) {
        fail_at("leak: live blocks remain after the script", __LINE__);
    }
    guard_check_all();
    g_runs++;
    return alloc_idx;
}

static void explore(const char * const name, script_fn * const f)
{
    unsigned long n, i, j, k, lim;

    g_script = name;

    plan_mode = PLAN_NONE;
    strcpy(g_plan, "none");
    n = run_once(f);
    if (faults != 0) {
        /* only "impossible" requests may fail in the clean run */
    }
    lim = n + 2;

    plan_mode = PLAN_SET;
    plan_n = 1;
    for (i = 0; i < lim; i++) {
        plan_idx[0] = i;
        sprintf(g_plan, "single %lu", i);
        run_once(f);
    }

    plan_mode = PLAN_SUFFIX;
    for (i = 0; i < lim; i++) {
        plan_idx[0] = i;
        sprintf(g_plan, "suffix %lu..", i);
        run_once(f);
    }

    if (lim <= 130) {
        plan_mode = PLAN_SET;
        plan_n = 2;
        for (i = 0; i < lim; i++) {
            for (j = i + 1; j < lim; j++) {
                plan_idx[0] = i;
                plan_idx[1] = j;
                sprintf(g_plan, "pair %lu,%lu", i, j);
                run_once(f);
            }
        }
    }

    if (lim <= 34) {
        plan_mode = PLAN_SET;
        plan_n = 3;
        for (i = 0; i < lim; i++) {
            for (j = i + 1; j < lim; j++) {
                for (k = j + 1; k < lim; k++) {
                    plan_idx[0] = i;
                    plan_idx[1] = j;
                    plan_idx[2] = k;
                    sprintf(g_plan, "triple %lu,%lu,%lu", i, j, k);
                    run_once(f);
                }
            }
        }
    }

    plan_mode = PLAN_NONE;
    strcpy(g_plan, "none");
    printf("%-28s %3lu allocation requests\n", name, n);
}

/* ------------------------------------------------------------------ */
/* vector                                                             */
/* ------------------------------------------------------------------ */

#define VMAX    80      /* most elements in a model */
#define VESZ    112     /* largest element size */

struct vmodel
{
    struct cstl_vector v;
    size_t esz;
    size_t n;
    unsigned char e[VMAX][VESZ];
};

static struct vmodel va, vb;
static size_t v_param_esz;
static unsigned int v_seed;

static int v_huge(const size_t n, const size_t esz)
{
    return n > (SIZE_MAX / 4) / esz;
}

static void v_gen(unsigned char * const e, const size_t esz)
{
    size_t i;
    /* the first byte is the sort key; keep some duplicates */
    v_seed = v_seed * 1103515245u + 12345u;
    e[0] = (unsigned char)((v_seed >> 16) % 23);
    for (i = 1; i < esz; i++) {
        v_seed = v_seed * 1103515245u + 12345u;
        e[i] = (unsigned char)(v_seed >> 16);
    }
}

static int v_cmp(const void * const a, const void * const b, void * const p)
{
    const struct vmodel * const m = p;
    CHECK(m == &va || m == &vb);
    return (int)*(const unsigned char *)a - (int)*(const unsigned char *)b;
}

static int v_cmp_all(const void * const a, const void * const b,
                     void * const p)
{
    const struct vmodel * const m = p;
    return memcmp(a, b, m->esz);
}

static void v_check(struct vmodel * const m)
{
    size_t i;

    CHECK(cstl_vector_size(&m->v) == m->n);
    CHECK(cstl_vector_capacity(&m->v) >= m->n);
    for (i = 0; i < m->n; i++) {
        const unsigned char * const p = cstl_vector_at(&m->v, i);
        CHECK(p == cstl_vector_at_const(&m->v, i));
        CHECK(p == (unsigned char *)cstl_vector_data(&m->v) + i * m->esz);
        CHECK(memcmp(p, m->e[i], m->esz) == 0);
    }
    if (cstl_vector_capacity(&m->v) == 0 && m->n == 0) {
        /* nothing to look at */
    }
    guard_check_all();
}

static void v_reserve(struct vmodel * const m, const size_t n)
{
    const size_t pre = cstl_vector_capacity(&m->v);
    size_t post;

    op_begin();
    cstl_vector_reserve(&m->v, n);
    op_end();

    post = cstl_vector_capacity(&m->v);
    if (n <= pre) {
        CHECK(post == pre);
    } else if (post == pre) {
        /* quiet failure */
        CHECK(op_faults > 0 || v_huge(n, m->esz));
    } else {
        CHECK(post >= n);
    }
    v_check(m);
}

static void v_shrink(struct vmodel * const m)
{
    const size_t pre = cstl_vector_capacity(&m->v);
    size_t post;

    op_begin();
    cstl_vector_shrink_to_fit(&m->v);
    op_end();

    post = cstl_vector_capacity(&m->v);
    CHECK(post <= pre);
    CHECK(post >= m->n);
    if (op_faults == 0) {
        CHECK(post == m->n);
    }
    v_check(m);
}

static void v_resize(struct vmodel * const m, const size_t n)
{
    const size_t pre = cstl_vector_capacity(&m->v);
    volatile int aborted;

    ABORTABLE(cstl_vector_resize(&m->v, n), aborted);

    if (aborted) {
        /* only growth beyond the capacity may abort */
        CHECK(n > pre);
        CHECK(op_faults > 0 || v_huge(n, m->esz));
        CHECK(cstl_vector_capacity(&m->v) == pre);
    } else {
        CHECK(n <= VMAX);
        CHECK(cstl_vector_size(&m->v) == n);
        CHECK(cstl_vector_capacity(&m->v) >= n);
        if (n <= pre) {
            CHECK(cstl_vector_capacity(&m->v) == pre);
        }
        while (m->n < n) {
            v_gen(m->e[m->n], m->esz);
            memcpy(cstl_vector_at(&m->v, m->n), m->e[m->n], m->esz);
            m->n++;
        }
        m->n = n;
    }
    v_check(m);
}

static int v_qcmp_key(const void * const a, const void * const b)
{
    return (int)*(const unsigned char *)a - (int)*(const unsigned char *)b;
}

static void v_sort(struct vmodel * const m, const cstl_sort_algorithm_t algo)
{
    unsigned char sorted[VMAX][VESZ];
    size_t i, j;
    int used[VMAX];

    op_begin();
    __cstl_vector_sort(&m->v, v_cmp, m, cstl_swap, algo);
    op_end();

    /* same multiset of elements, keys in order */
    CHECK(cstl_vector_size(&m->v) == m->n);
    memset(used, 0, sizeof(used));
    for (i = 0; i < m->n; i++) {
        const unsigned char * const p = cstl_vector_at(&m->v, i);
        memcpy(sorted[i], p, m->esz);
        if (i > 0) {
            CHECK(sorted[i - 1][0] <= sorted[i][0]);
        }
        for (j = 0; j < m->n; j++) {
            if (!used[j] && memcmp(p, m->e[j], m->esz) == 0) {
                used[j] = 1;
                break;
            }
        }
        CHECK(j < m->n);
    }
    memcpy(m->e, sorted, sizeof(sorted[0]) * m->n);
    v_check(m);

    /* binary and linear search agree with the model */
    for (i = 0; i < m->n; i++) {
        ssize_t r;
        op_begin();
        r = cstl_vector_search(&m->v, m->e[i], v_cmp, m);
        op_end();
        CHECK(r >= 0 && (size_t)r < m->n && m->e[r][0] == m->e[i][0]);
        op_begin();
        r = cstl_vector_find(&m->v, m->e[i], v_cmp_all, m);
        op_end();
        CHECK(r >= 0 && (size_t)r <= i);
        CHECK(memcmp(m->e[r], m->e[i], m->esz) == 0);
    }
    {
        unsigned char key[VESZ];
        memset(key, 0, sizeof(key));
        key[0] = 200;
        CHECK(cstl_vector_search(&m->v, key, v_cmp, m) == -1);
        CHECK(cstl_vector_find(&m->v, key, v_cmp, m) == -1);
    }
    (void)v_qcmp_key;
}

static void v_reverse(struct vmodel * const m)
{
    unsigned char t[VESZ];
    size_t i;

    op_begin();
    cstl_vector_reverse(&m->v);
    op_end();

    for (i = 0; i < m->n / 2; i++) {
        memcpy(t, m->e[i], VESZ);
        memcpy(m->e[i], m->e[m->n - 1 - i], VESZ);
        memcpy(m->e[m->n - 1 - i], t, VESZ);
    }
    v_check(m);
}

static void v_swap(void)
{
    static struct vmodel t;
    /* the models go along with the vectors */
    op_begin();
    cstl_vector_swap(&va.v, &vb.v);
    op_end();
    t = va;
    va.n = vb.n;
    va.esz = vb.esz;
    memcpy(va.e, vb.e, sizeof(va.e));
    vb.n = t.n;
    vb.esz = t.esz;
    memcpy(vb.e, t.e, sizeof(vb.e));
    v_check(&va);
    v_check(&vb);
}

static void v_clear(struct vmodel * const m)
{
    op_begin();
    cstl_vector_clear(&m->v);
    op_end();
    m->n = 0;
    CHECK(cstl_vector_size(&m->v) == 0);
    CHECK(cstl_vector_capacity(&m->v) == 0);
    v_check(m);
}

static void script_vector(void)
{
    const size_t esz = v_param_esz;
    static const cstl_sort_algorithm_t algo[] = {
        CSTL_SORT_ALGORITHM_QUICK,
        CSTL_SORT_ALGORITHM_QUICK_R,
        CSTL_SORT_ALGORITHM_QUICK_M,
        CSTL_SORT_ALGORITHM_HEAP,
        (cstl_sort_algorithm_t)77,
    };
    unsigned int i;

    v_seed = 4711u + (unsigned int)esz;
    srand(1);

    cstl_vector_init(&va.v, esz);
    va.esz = esz;
    va.n = 0;
    cstl_vector_init_complex(&vb.v, esz, NULL, NULL, NULL);
    vb.esz = esz;
    vb.n = 0;

    /* a vector that never allocated */
    v_check(&va);
    v_reserve(&va, 0);
    v_shrink(&va);
    v_resize(&va, 0);
    v_sort(&va, CSTL_SORT_ALGORITHM_DEFAULT);
    v_reverse(&va);

    v_reserve(&va, 3);
    v_resize(&va, 5);
    v_reserve(&va, 2);
    v_reserve(&va, 20);
    v_resize(&va, 12);
    v_reverse(&va);
    v_shrink(&va);
    v_resize(&va, 13);
    v_resize(&va, 3);
    v_shrink(&va);
    v_resize(&va, 0);
    v_shrink(&va);
    v_resize(&va, 1);
    v_sort(&va, CSTL_SORT_ALGORITHM_HEAP);
    v_resize(&va, 30);
    for (i = 0; i < sizeof(algo) / sizeof(*algo); i++) {
        v_reverse(&va);
        v_sort(&va, algo[i]);
    }

    /* requests that cannot be represented or satisfied */
    v_reserve(&va, SIZE_MAX);
    v_reserve(&va, SIZE_MAX - 1);
    v_reserve(&va, SIZE_MAX / esz);
    v_reserve(&va, SIZE_MAX / esz - 1);
    v_reserve(&va, SIZE_MAX / 2 / esz + 1);
    v_resize(&va, SIZE_MAX);
    v_resize(&va, SIZE_MAX / esz);
    v_resize(&va, SIZE_MAX / esz - 1);

    /* a second vector, used in between */
    v_resize(&vb, 4);
    v_resize(&va, 31);
    v_reserve(&vb, 9);
    v_swap();
    v_resize(&va, 7);
    v_resize(&vb, 33);
    v_shrink(&va);
    v_shrink(&vb);
    v_swap();

    v_clear(&va);
    /* usable after a clear */
    v_resize(&va, 2);
    v_reserve(&va, 64);
    v_resize(&va, 64);
    v_sort(&va, CSTL_SORT_ALGORITHM_DEFAULT);
    v_clear(&va);
    v_clear(&va);
    v_clear(&vb);
}

/*
 * vector with constructor and destructor; the callbacks use another
 * container (a log vector) while the resize of the first is in progress
 */
struct celem
{
    unsigned long magic;
    long id;
    void * owner;
};

#define CE_LIVE 0x11febeefUL
#define CE_DEAD 0xdeadUL

static struct cstl_vector cv, cv_log;
static long c_live, c_made, c_next;

static void c_log(const long what)
{
    /* the log must not fail; it is not what is being tested */
    const int was = armed;
    armed = 0;
    cstl_vector_resize(&cv_log, cstl_vector_size(&cv_log) + 1);
    *(long *)cstl_vector_at(&cv_log, cstl_vector_size(&cv_log) - 1) = what;
    armed = was;
}

static void c_cons(void * const e, void * const p)
{
    struct celem * const c = e;
    CHECK(p == &cv);
    c->magic = CE_LIVE;
    c->id = c_next++;
    c->owner = p;
    c_live++;
    c_made++;
    c_log(c->id);
}

static void c_dest(void * const e, void * const p)
{
    struct celem * const c = e;
    CHECK(p == &cv);
    CHECK(c->magic == CE_LIVE);
    CHECK(c->owner == p);
    c->magic = CE_DEAD;
    c_live--;
    c_log(-c->id - 1);
}

static void c_check(const size_t n)
{
    size_t i;
    CHECK(cstl_vector_size(&cv) == n);
    CHECK(c_live == (long)n);
    for (i = 0; i < n; i++) {
        const struct celem * const c = cstl_vector_at_const(&cv, i);
        CHECK(c->magic == CE_LIVE);
        if (i > 0) {
            const struct celem * const b = cstl_vector_at_const(&cv, i - 1);
            CHECK(b->id < c->id);
        }
    }
    CHECK(cstl_vector_size(&cv_log) == (size_t)(2 * c_made - c_live));
    guard_check_all();
}

static size_t c_n;

static void c_resize(const size_t n)
{
    const size_t pre = cstl_vector_capacity(&cv);
    volatile int aborted;

    ABORTABLE(cstl_vector_resize(&cv, n), aborted);
    if (aborted) {
        CHECK(n > pre && op_faults > 0);
        CHECK(cstl_vector_capacity(&cv) == pre);
    } else {
        c_n = n;
    }
    c_check(c_n);
}

static void script_vector_complex(void)
{
    cstl_vector_init_complex(&cv, sizeof(struct celem), c_cons, c_dest, &cv);
    cstl_vector_init(&cv_log, sizeof(long));
    c_live = c_made = c_next = 0;
    c_n = 0;

    c_check(0);
    c_resize(4);
    c_resize(2);
    c_resize(9);
    op_begin();
    cstl_vector_shrink_to_fit(&cv);
    op_end();
    c_check(c_n);
    c_resize(10);
    op_begin();
    cstl_vector_reserve(&cv, 40);
    op_end();
    c_check(c_n);
    c_resize(25);
    c_resize(0);
    c_resize(3);
    op_begin();
    cstl_vector_clear(&cv);
    op_end();
    c_n = 0;
    c_check(0);
    c_resize(5);
    op_begin();
    cstl_vector_clear(&cv);
    op_end();
    c_n = 0;
    c_check(0);

    cstl_vector_clear(&cv_log);
}

/* ------------------------------------------------------------------ */
/* cstl_string                                                              */
/* ------------------------------------------------------------------ */

#define s_MAX 200

struct s_model
{
    struct cstl_string s;
    size_t n;
    char c[s_MAX + 1];
};

static struct s_model s_a, s_b;

static size_t s_len(const char * s)
{
    size_t n = 0;
    while (s[n] != 0) {
        n++;
    }
    return n;
}

static void s_check(struct s_model * const m)
{
    const char * str;
    size_t i;

    CHECK(cstl_string_size(&m->s) == m->n);
    CHECK(cstl_string_capacity(&m->s) >= m->n);
    str = cstl_string_str(&m->s);
    CHECK(str != NULL);
    for (i = 0; i < m->n; i++) {
        CHECK(str[i] == m->c[i]);
        CHECK(*cstl_string_at(&m->s, i) == m->c[i]);
        CHECK(cstl_string_at_const(&m->s, i) == cstl_string_data(&m->s) + i);
    }
    CHECK(str[m->n] == 0);
    CHECK(cstl_string_nul == 0);
    m->c[m->n] = 0;
    if (s_len(m->c) == m->n) {
        CHECK(cstl_string_compare_str(&m->s, m->c) == 0);
    }
    guard_check_all();
}

static void s_reserve(struct s_model * const m, const size_t n)
{
    const size_t pre = cstl_string_capacity(&m->s);
    size_t post;

    op_begin();
    cstl_string_reserve(&m->s, n);
    op_end();
    post = cstl_string_capacity(&m->s);
    if (post == pre) {
        CHECK(n <= pre || op_faults > 0 || n > SIZE_MAX / 16);
    } else {
        CHECK(n > pre || pre == 0);
        CHECK(post >= n);
    }
    s_check(m);
}

/* growth may abort; nothing else may */
static void s_after(struct s_model * const m, const int aborted,
                     const size_t want, const size_t precap)
{
    if (aborted) {
        CHECK(want > precap || precap == 0);
        CHECK(op_faults > 0 || want > SIZE_MAX / 16);
        CHECK(cstl_string_capacity(&m->s) == precap);
    }
}

static void s_resize(struct s_model * const m, const size_t n)
{
    const size_t pre = cstl_string_capacity(&m->s);
    volatile int aborted;

    ABORTABLE(cstl_string_resize(&m->s, n), aborted);
    s_after(m, aborted, n, pre);
    if (!aborted) {
        while (m->n < n) {
            m->c[m->n++] = 0;
        }
        m->n = n;
    }
    s_check(m);
}

static void s_insert_str(struct s_model * const m, const size_t at,
                          const char * const str)
{
    const size_t pos = at > m->n ? m->n : at;
    const size_t pre = cstl_string_capacity(&m->s);
    const size_t len = s_len(str);
    volatile int aborted;

    ABORTABLE(cstl_string_insert_str(&m->s, pos, str), aborted);
    s_after(m, aborted, m->n + len, pre);
    if (!aborted) {
        memmove(m->c + pos + len, m->c + pos, (m->n - pos) * sizeof(char));
        memcpy(m->c + pos, str, len * sizeof(char));
        m->n += len;
    }
    s_check(m);
}

static void s_append_str_n(struct s_model * const m,
                            const char * const str, const size_t len)
{
    const size_t pre = cstl_string_capacity(&m->s);
    volatile int aborted;

    ABORTABLE(cstl_string_append_str_n(&m->s, str, len), aborted);
    s_after(m, aborted, m->n + len, pre);
    if (!aborted) {
        memcpy(m->c + m->n, str, len * sizeof(char));
        m->n += len;
    }
    s_check(m);
}

static void s_insert_ch(struct s_model * const m, const size_t at,
                         const size_t cnt, const char ch)
{
    const size_t pos = at > m->n ? m->n : at;
    const size_t pre = cstl_string_capacity(&m->s);
    volatile int aborted;
    size_t i;

    ABORTABLE(cstl_string_insert_ch(&m->s, pos, cnt, ch), aborted);
    s_after(m, aborted, m->n + cnt, pre);
    if (!aborted) {
        memmove(m->c + pos + cnt, m->c + pos, (m->n - pos) * sizeof(char));
        for (i = 0; i < cnt; i++) {
            m->c[pos + i] = ch;
        }
        m->n += cnt;
    }
    s_check(m);
}

static void s_append(struct s_model * const m, struct s_model * const o)
{
    const size_t pre = cstl_string_capacity(&m->s);
    volatile int aborted;

    ABORTABLE(cstl_string_append(&m->s, &o->s), aborted);
    s_after(m, aborted, m->n + o->n, pre);
    if (!aborted) {
        memcpy(m->c + m->n, o->c, o->n * sizeof(char));
        m->n += o->n;
    }
    s_check(m);
    s_check(o);
}

static void s_erase(struct s_model * const m, const size_t at, size_t len)
{
    /* positions must be inside the string */
    const size_t pos = (m->n > 0 && at >= m->n) ? m->n - 1 : at;
    const size_t pre = cstl_string_capacity(&m->s);
    volatile int aborted;

    if (m->n == 0) {
        return;
    }

    ABORTABLE(cstl_string_erase(&m->s, pos, len), aborted);
    /* erasing never needs memory */
    CHECK(!aborted);
    CHECK(cstl_string_capacity(&m->s) == pre);
    if (len > m->n - pos) {
        len = m->n - pos;
    }
    memmove(m->c + pos, m->c + pos + len,
            (m->n - pos - len) * sizeof(char));
    m->n -= len;
    s_check(m);
}

static void s_substr(struct s_model * const m, const size_t at,
                      size_t len, struct s_model * const o)
{
    const size_t pos = (m->n > 0 && at >= m->n) ? m->n - 1 : at;
    const size_t pre = cstl_string_capacity(&o->s);
    volatile int aborted;

    if (m->n == 0) {
        return;
    }

    ABORTABLE(cstl_string_substr(&m->s, pos, len, &o->s), aborted);
    if (len > m->n - pos) {
        len = m->n - pos;
    }
    s_after(o, aborted, len, pre);
    if (!aborted) {
        memcpy(o->c, m->c + pos, len * sizeof(char));
        o->n = len;
    }
    s_check(m);
    s_check(o);
}

static void s_swap(void)
{
    static struct s_model t;

    op_begin();
    cstl_string_swap(&s_a.s, &s_b.s);
    op_end();
    t.n = s_a.n;
    memcpy(t.c, s_a.c, sizeof(t.c));
    s_a.n = s_b.n;
    memcpy(s_a.c, s_b.c, sizeof(t.c));
    s_b.n = t.n;
    memcpy(s_b.c, t.c, sizeof(t.c));
    s_check(&s_a);
    s_check(&s_b);
}

static void s_clear(struct s_model * const m)
{
    op_begin();
    cstl_string_clear(&m->s);
    op_end();
    m->n = 0;
    CHECK(cstl_string_capacity(&m->s) == 0);
    CHECK(cstl_string_data(&m->s) == NULL);
    s_check(m);
}

static void s_find(struct s_model * const m)
{
    /* only called on strings without embedded nul characters */
    size_t pos, i;

    for (pos = 0; pos < m->n; pos += 3) {
        const char ch = m->c[(pos * 7 + 1) % m->n];
        ssize_t r, e = -1;

        for (i = pos; i < m->n; i++) {
            if (m->c[i] == ch) {
                e = (ssize_t)i;
                break;
            }
        }
        op_begin();
        r = cstl_string_find_ch(&m->s, ch, pos);
        op_end();
        CHECK(r == e);
        CHECK(cstl_string_find_ch(&m->s, (char)'#', pos) == -1);
        CHECK(cstl_string_find_str(&m->s, m->c + pos, 0) >= 0);
        CHECK(cstl_string_find_str(&m->s, m->c + pos, 0) <= (ssize_t)pos);
        CHECK(cstl_string_find(&m->s, &m->s, pos) == (pos == 0 ? 0 : -1));
    }
}

static void script_s_string(void)
{
    static const struct cstl_string init = CSTL_STRING_INITIALIZER(char);

    s_a.s = init;
    s_a.n = 0;
    cstl_string_init(&s_b.s);
    s_b.n = 0;

    /* never allocated */
    s_check(&s_a);
    s_reserve(&s_a, 0);
    s_check(&s_a);

    s_resize(&s_a, 0);
    s_append_str_n(&s_a, "hello, world", 5);
    s_insert_str(&s_a, 0, ">> ");
    s_insert_str(&s_a, s_a.n, " <<");
    s_insert_str(&s_a, 4, "");
    s_insert_ch(&s_a, 3, 2, (char)'x');
    s_insert_ch(&s_a, 0, 0, (char)'y');
    s_find(&s_a);
    s_reserve(&s_a, 40);
    s_reserve(&s_a, 10);
    s_insert_ch(&s_a, s_a.n, 30, (char)'z');
    s_erase(&s_a, 2, 4);
    s_erase(&s_a, s_a.n - 1, 100);
    s_find(&s_a);

    s_substr(&s_a, 1, 6, &s_b);
    s_substr(&s_a, 0, SIZE_MAX, &s_b);
    s_substr(&s_a, s_a.n - 1, 5, &s_b);
    s_append(&s_b, &s_a);
    s_append(&s_a, &s_b);
    s_swap();
    s_resize(&s_a, 3);
    s_resize(&s_a, 9);
    s_resize(&s_b, 0);
    s_append_str_n(&s_b, "abcdefghijklmnopqrstuvwxyz", 26);
    s_find(&s_b);
    s_erase(&s_b, 0, 26);
    s_append(&s_b, &s_a);

    /* a reservation that cannot be satisfied fails quietly */
    s_reserve(&s_a, SIZE_MAX - 1);
    s_reserve(&s_a, SIZE_MAX / 2);
    s_reserve(&s_a, SIZE_MAX / sizeof(char) - 2);

    s_clear(&s_a);
    /* reserved but empty: str() is the nul string */
    s_reserve(&s_a, 12);
    s_append_str_n(&s_a, "after clear", 11);
    s_find(&s_a);
    s_swap();
    s_clear(&s_a);
    s_clear(&s_b);
    s_clear(&s_b);
}

/* ------------------------------------------------------------------ */
/* cstl_wstring                                                              */
/* ------------------------------------------------------------------ */

#define w_MAX 200

struct w_model
{
    struct cstl_wstring s;
    size_t n;
    wchar_t c[w_MAX + 1];
};

static struct w_model w_a, w_b;

static size_t w_len(const wchar_t * s)
{
    size_t n = 0;
    while (s[n] != 0) {
        n++;
    }
    return n;
}

static void w_check(struct w_model * const m)
{
    const wchar_t * str;
    size_t i;

    CHECK(cstl_wstring_size(&m->s) == m->n);
    CHECK(cstl_wstring_capacity(&m->s) >= m->n);
    str = cstl_wstring_str(&m->s);
    CHECK(str != NULL);
    for (i = 0; i < m->n; i++) {
        CHECK(str[i] == m->c[i]);
        CHECK(*cstl_wstring_at(&m->s, i) == m->c[i]);
        CHECK(cstl_wstring_at_const(&m->s, i) == cstl_wstring_data(&m->s) + i);
    }
    CHECK(str[m->n] == 0);
    CHECK(cstl_wstring_nul == 0);
    m->c[m->n] = 0;
    if (w_len(m->c) == m->n) {
        CHECK(cstl_wstring_compare_str(&m->s, m->c) == 0);
    }
    guard_check_all();
}

static void w_reserve(struct w_model * const m, const size_t n)
{
    const size_t pre = cstl_wstring_capacity(&m->s);
    size_t post;

    op_begin();
    cstl_wstring_reserve(&m->s, n);
    op_end();
    post = cstl_wstring_capacity(&m->s);
    if (post == pre) {
        CHECK(n <= pre || op_faults > 0 || n > SIZE_MAX / 16);
    } else {
        CHECK(n > pre || pre == 0);
        CHECK(post >= n);
    }
    w_check(m);
}

/* growth may abort; nothing else may */
static void w_after(struct w_model * const m, const int aborted,
                     const size_t want, const size_t precap)
{
    if (aborted) {
        CHECK(want > precap || precap == 0);
        CHECK(op_faults > 0 || want > SIZE_MAX / 16);
        CHECK(cstl_wstring_capacity(&m->s) == precap);
    }
}

static void w_resize(struct w_model * const m, const size_t n)
{
    const size_t pre = cstl_wstring_capacity(&m->s);
    volatile int aborted;

    ABORTABLE(cstl_wstring_resize(&m->s, n), aborted);
    w_after(m, aborted, n, pre);
    if (!aborted) {
        while (m->n < n) {
            m->c[m->n++] = 0;
        }
        m->n = n;
    }
    w_check(m);
}

static void w_insert_str(struct w_model * const m, const size_t at,
                          const wchar_t * const str)
{
    const size_t pos = at > m->n ? m->n : at;
    const size_t pre = cstl_wstring_capacity(&m->s);
    const size_t len = w_len(str);
    volatile int aborted;

    ABORTABLE(cstl_wstring_insert_str(&m->s, pos, str), aborted);
    w_after(m, aborted, m->n + len, pre);
    if (!aborted) {
        memmove(m->c + pos + len, m->c + pos, (m->n - pos) * sizeof(wchar_t));
        memcpy(m->c + pos, str, len * sizeof(wchar_t));
        m->n += len;
    }
    w_check(m);
}

static void w_append_str_n(struct w_model * const m,
                            const wchar_t * const str, const size_t len)
{
    const size_t pre = cstl_wstring_capacity(&m->s);
    volatile int aborted;

    ABORTABLE(cstl_wstring_append_str_n(&m->s, str, len), aborted);
    w_after(m, aborted, m->n + len, pre);
    if (!aborted) {
        memcpy(m->c + m->n, str, len * sizeof(wchar_t));
        m->n += len;
    }
    w_check(m);
}

static void w_insert_ch(struct w_model * const m, const size_t at,
                         const size_t cnt, const wchar_t ch)
{
    const size_t pos = at > m->n ? m->n : at;
    const size_t pre = cstl_wstring_capacity(&m->s);
    volatile int aborted;
    size_t i;

    ABORTABLE(cstl_wstring_insert_ch(&m->s, pos, cnt, ch), aborted);
    w_after(m, aborted, m->n + cnt, pre);
    if (!aborted) {
        memmove(m->c + pos + cnt, m->c + pos, (m->n - pos) * sizeof(wchar_t));
        for (i = 0; i < cnt; i++) {
            m->c[pos + i] = ch;
        }
        m->n += cnt;
    }
    w_check(m);
}

static void w_append(struct w_model * const m, struct w_model * const o)
{
    const size_t pre = cstl_wstring_capacity(&m->s);
    volatile int aborted;

    ABORTABLE(cstl_wstring_append(&m->s, &o->s), aborted);
    w_after(m, aborted, m->n + o->n, pre);
    if (!aborted) {
        memcpy(m->c + m->n, o->c, o->n * sizeof(wchar_t));
        m->n += o->n;
    }
    w_check(m);
    w_check(o);
}

static void w_erase(struct w_model * const m, const size_t at, size_t len)
{
    /* positions must be inside the string */
    const size_t pos = (m->n > 0 && at >= m->n) ? m->n - 1 : at;
    const size_t pre = cstl_wstring_capacity(&m->s);
    volatile int aborted;

    if (m->n == 0) {
        return;
    }

    ABORTABLE(cstl_wstring_erase(&m->s, pos, len), aborted);
    /* erasing never needs memory */
    CHECK(!aborted);
    CHECK(cstl_wstring_capacity(&m->s) == pre);
    if (len > m->n - pos) {
        len = m->n - pos;
    }
    memmove(m->c + pos, m->c + pos + len,
            (m->n - pos - len) * sizeof(wchar_t));
    m->n -= len;
    w_check(m);
}

static void w_substr(struct w_model * const m, const size_t at,
                      size_t len, struct w_model * const o)
{
    const size_t pos = (m->n > 0 && at >= m->n) ? m->n - 1 : at;
    const size_t pre = cstl_wstring_capacity(&o->s);
    volatile int aborted;

    if (m->n == 0) {
        return;
    }

    ABORTABLE(cstl_wstring_substr(&m->s, pos, len, &o->s), aborted);
    if (len > m->n - pos) {
        len = m->n - pos;
    }
    w_after(o, aborted, len, pre);
    if (!aborted) {
        memcpy(o->c, m->c + pos, len * sizeof(wchar_t));
        o->n = len;
    }
    w_check(m);
    w_check(o);
}

static void w_swap(void)
{
    static struct w_model t;

    op_begin();
    cstl_wstring_swap(&w_a.s, &w_b.s);
    op_end();
    t.n = w_a.n;
    memcpy(t.c, w_a.c, sizeof(t.c));
    w_a.n = w_b.n;
    memcpy(w_a.c, w_b.c, sizeof(t.c));
    w_b.n = t.n;
    memcpy(w_b.c, t.c, sizeof(t.c));
    w_check(&w_a);
    w_check(&w_b);
}

static void w_clear(struct w_model * const m)
{
    op_begin();
    cstl_wstring_clear(&m->s);
    op_end();
    m->n = 0;
    CHECK(cstl_wstring_capacity(&m->s) == 0);
    CHECK(cstl_wstring_data(&m->s) == NULL);
    w_check(m);
}

static void w_find(struct w_model * const m)
{
    /* only called on strings without embedded nul characters */
    size_t pos, i;

    for (pos = 0; pos < m->n; pos += 3) {
        const wchar_t ch = m->c[(pos * 7 + 1) % m->n];
        ssize_t r, e = -1;

        for (i = pos; i < m->n; i++) {
            if (m->c[i] == ch) {
                e = (ssize_t)i;
                break;
            }
        }
        op_begin();
        r = cstl_wstring_find_ch(&m->s, ch, pos);
        op_end();
        CHECK(r == e);
        CHECK(cstl_wstring_find_ch(&m->s, (wchar_t)'#', pos) == -1);
        CHECK(cstl_wstring_find_str(&m->s, m->c + pos, 0) >= 0);
        CHECK(cstl_wstring_find_str(&m->s, m->c + pos, 0) <= (ssize_t)pos);
        CHECK(cstl_wstring_find(&m->s, &m->s, pos) == (pos == 0 ? 0 : -1));
    }
}

static void script_w_string(void)
{
    static const struct cstl_wstring init = CSTL_STRING_INITIALIZER(wchar_t);

    w_a.s = init;
    w_a.n = 0;
    cstl_wstring_init(&w_b.s);
    w_b.n = 0;

    /* never allocated */
    w_check(&w_a);
    w_reserve(&w_a, 0);
    w_check(&w_a);

    w_resize(&w_a, 0);
    w_append_str_n(&w_a, L"hello, world", 5);
    w_insert_str(&w_a, 0, L">> ");
    w_insert_str(&w_a, w_a.n, L" <<");
    w_insert_str(&w_a, 4, L"");
    w_insert_ch(&w_a, 3, 2, (wchar_t)'x');
    w_insert_ch(&w_a, 0, 0, (wchar_t)'y');
    w_find(&w_a);
    w_reserve(&w_a, 40);
    w_reserve(&w_a, 10);
    w_insert_ch(&w_a, w_a.n, 30, (wchar_t)'z');
    w_erase(&w_a, 2, 4);
    w_erase(&w_a, w_a.n - 1, 100);
    w_find(&w_a);

    w_substr(&w_a, 1, 6, &w_b);
    w_substr(&w_a, 0, SIZE_MAX, &w_b);
    w_substr(&w_a, w_a.n - 1, 5, &w_b);
    w_append(&w_b, &w_a);
    w_append(&w_a, &w_b);
    w_swap();
    w_resize(&w_a, 3);
    w_resize(&w_a, 9);
    w_resize(&w_b, 0);
    w_append_str_n(&w_b, L"abcdefghijklmnopqrstuvwxyz", 26);
    w_find(&w_b);
    w_erase(&w_b, 0, 26);
    w_append(&w_b, &w_a);

    /* a reservation that cannot be satisfied fails quietly */
    w_reserve(&w_a, SIZE_MAX - 1);
    w_reserve(&w_a, SIZE_MAX / 2);
    w_reserve(&w_a, SIZE_MAX / sizeof(wchar_t) - 2);

    w_clear(&w_a);
    /* reserved but empty: str() is the nul string */
    w_reserve(&w_a, 12);
    w_append_str_n(&w_a, L"after clear", 11);
    w_find(&w_a);
    w_swap();
    w_clear(&w_a);
    w_clear(&w_b);
    w_clear(&w_b);
}

/* ------------------------------------------------------------------ */
/* hash                                                               */
/* ------------------------------------------------------------------ */

#define HOBJS 40

struct hobj
{
    int id;
    struct hmodel * in;         /* the table it is in, or NULL */
    int seen;
    char pad[3];
    struct cstl_hash_node node;
    long tail;
};

struct hmodel
{
    struct cstl_hash h;
    size_t n;
    int sized;
    size_t buckets;             /* target bucket count, when sized */
};

static struct hobj hobjs[HOBJS];
static struct hmodel ha, hb;
static long h_cleared;

static size_t h_key(const int id)
{
    /* objects 2k and 2k+1 share a key */
    return (size_t)(id / 2) * 7 + 3;
}

static int h_visit_is(const void * const e, void * const p)
{
    return e == p;
}

static int h_visit_count(const void * const e, void * const p)
{
    const struct hobj * const o = e;
    CHECK(o >= hobjs && o < hobjs + HOBJS);
    CHECK(o->in == p);
    ((struct hobj *)o)->seen++;
    return 0;
}

static void h_check(struct hmodel * const m)
{
    size_t cnt = 0;
    int i;

    CHECK(cstl_hash_size(&m->h) == m->n);
    if (!m->sized) {
        CHECK(m->n == 0);
        CHECK(isnan(cstl_hash_load(&m->h)));
        return;
    }
    CHECK(cstl_hash_load(&m->h) == (float)m->n / m->buckets);

    for (i = 0; i < HOBJS; i++) {
        hobjs[i].seen = 0;
    }
    CHECK(cstl_hash_foreach_const(&m->h, h_visit_count, m) == 0);
    for (i = 0; i < HOBJS; i++) {
        void * f;
        if (hobjs[i].in == m) {
            CHECK(hobjs[i].seen == 1);
            cnt++;
        } else {
            CHECK(hobjs[i].seen == 0);
        }
        op_begin();
        f = cstl_hash_find(&m->h, h_key(i), h_visit_is, &hobjs[i]);
        op_end();
        CHECK(f == (hobjs[i].in == m ? (void *)&hobjs[i] : NULL));
        f = cstl_hash_find(&m->h, h_key(i), NULL, NULL);
        if (hobjs[i].in == m) {
            CHECK(f == &hobjs[i] || f == &hobjs[i ^ 1]);
        } else if (hobjs[i ^ 1].in != m) {
            CHECK(f == NULL);
        }
        CHECK(hobjs[i].id == i && hobjs[i].tail == ~(long)i);
    }
    CHECK(cnt == m->n);
    CHECK(cstl_hash_load(&m->h) == (float)m->n / m->buckets);
    guard_check_all();
}

static void h_resize(struct hmodel * const m, const size_t n,
                     cstl_hash_func_t * const f)
{
    float load;

    op_begin();
    cstl_hash_resize(&m->h, n, f);
    op_end();

    load = cstl_hash_load(&m->h);
    if (n == 0) {
        /* does nothing */
    } else if (!m->sized) {
        if (isnan(load)) {
            /* quiet failure: "the original hash object is undisturbed" */
            CHECK(op_faults > 0);
        } else {
            m->sized = 1;
            m->buckets = n;
        }
    } else {
        /* the scripts only resize sized tables that hold something */
        CHECK(m->n > 0);
        if (load == (float)m->n / n) {
            m->buckets = n;
        } else {
            /* quiet failure; only growth needs memory */
            CHECK(op_faults > 0);
            CHECK(n > m->buckets);
        }
    }
    h_check(m);
}

/* the table must be sized before anything is put into it */
static void h_resize_must(struct hmodel * const m, const size_t n,
                          cstl_hash_func_t * const f)
{
    h_resize(m, n, f);
    if (!m->sized) {
        cstl_hash_resize(&m->h, n, f);
        CHECK(!isnan(cstl_hash_load(&m->h)));
        m->sized = 1;
        m->buckets = n;
        h_check(m);
    }
}

static void h_shrink(struct hmodel * const m)
{
    op_begin();
    cstl_hash_shrink_to_fit(&m->h);
    op_end();
    h_check(m);
}

static void h_rehash(struct hmodel * const m)
{
    op_begin();
    cstl_hash_rehash(&m->h);
    op_end();
    h_check(m);
}

static void h_insert(struct hmodel * const m, const int lo, const int hi)
{
    int i;
    for (i = lo; i < hi; i++) {
        if (hobjs[i].in == NULL) {
            op_begin();
            cstl_hash_insert(&m->h, h_key(i), &hobjs[i]);
            op_end();
            hobjs[i].in = m;
            m->n++;
        }
    }
    h_check(m);
}

static void h_erase(struct hmodel * const m, const int lo, const int hi,
                    const int step)
{
    int i;
    for (i = lo; i < hi; i += step) {
        if (hobjs[i].in == m) {
            op_begin();
            cstl_hash_erase(&m->h, &hobjs[i]);
            op_end();
            hobjs[i].in = NULL;
            m->n--;
        }
    }
    h_check(m);
}

struct h_each
{
    struct hmodel * m;
    int visited;
};

static int h_visit_erase_odd(void * const e, void * const p)
{
    struct h_each * const he = p;
    struct hobj * const o = e;

    CHECK(o->in == he->m);
    he->visited++;
    if (o->id % 3 == 1) {
        /* the current object may be removed */
        cstl_hash_erase(&he->m->h, o);
        o->in = NULL;
        he->m->n--;
    }
    return 0;
}

static void h_foreach_erase(struct hmodel * const m)
{
    struct h_each he;
    const size_t n = m->n;

    he.m = m;
    he.visited = 0;
    op_begin();
    CHECK(cstl_hash_foreach(&m->h, h_visit_erase_odd, &he) == 0);
    op_end();
    CHECK((size_t)he.visited == n);
    h_check(m);
}

static void h_clr(void * const e, void * const p)
{
    struct hobj * const o = e;
    CHECK(p == NULL);
    CHECK(o->in != NULL);
    o->in = NULL;
    h_cleared++;
}

static void h_clear(struct hmodel * const m, cstl_xtor_func_t * const clr)
{
    int i;

    h_cleared = 0;
    op_begin();
    cstl_hash_clear(&m->h, clr);
    op_end();
    if (clr != NULL) {
        CHECK((size_t)h_cleared == m->n);
    }
    for (i = 0; i < HOBJS; i++) {
        if (clr != NULL) {
            CHECK(hobjs[i].in != m);
        } else if (hobjs[i].in == m) {
            hobjs[i].in = NULL;
        }
    }
    m->n = 0;
    m->sized = 0;
    m->buckets = 0;
    h_check(m);
}

static void h_swap(void)
{
    struct hmodel t;
    int i;

    op_begin();
    cstl_hash_swap(&ha.h, &hb.h);
    op_end();
    t = ha;
    ha.n = hb.n;
    ha.sized = hb.sized;
    ha.buckets = hb.buckets;
    hb.n = t.n;
    hb.sized = t.sized;
    hb.buckets = t.buckets;
    for (i = 0; i < HOBJS; i++) {
        if (hobjs[i].in == &ha) {
            hobjs[i].in = &hb;
        } else if (hobjs[i].in == &hb) {
            hobjs[i].in = &ha;
        }
    }
    h_check(&ha);
    h_check(&hb);
}

static void script_hash(void)
{
    static const struct cstl_hash init =
        CSTL_HASH_INITIALIZER(struct hobj, node);
    int i;

    for (i = 0; i < HOBJS; i++) {
        hobjs[i].id = i;
        hobjs[i].in = NULL;
        hobjs[i].tail = ~(long)i;
    }
    ha.h = init;
    ha.n = 0;
    ha.sized = 0;
    cstl_hash_init(&hb.h, offsetof(struct hobj, node));
    hb.n = 0;
    hb.sized = 0;

    h_check(&ha);
    h_resize(&ha, 0, NULL);
    h_shrink(&ha);
    h_rehash(&ha);
    h_clear(&ha, h_clr);

    h_resize_must(&ha, 8, NULL);
    h_insert(&ha, 0, 12);
    h_resize(&ha, 32, cstl_hash_div);
    h_insert(&ha, 12, 18);
    h_erase(&ha, 0, 18, 4);
    h_resize(&ha, 5, NULL);
    h_shrink(&ha);
    h_insert(&ha, 18, 22);
    h_resize(&ha, 64, cstl_hash_mul);
    h_shrink(&ha);
    h_insert(&ha, 0, 4);
    h_rehash(&ha);
    h_resize(&ha, 16, NULL);
    h_resize(&ha, 16, NULL);
    h_shrink(&ha);
    h_shrink(&ha);
    h_foreach_erase(&ha);
    h_resize(&ha, 17, cstl_hash_div);
    h_resize(&ha, 1, NULL);
    h_shrink(&ha);
    h_resize(&ha, 2, cstl_hash_mul);

    h_resize_must(&hb, 4, cstl_hash_div);
    h_insert(&hb, 30, 36);
    h_resize(&hb, 9, NULL);
    h_swap();
    h_insert(&ha, 36, 40);
    h_resize(&ha, 3, NULL);
    h_shrink(&ha);
    h_erase(&hb, 0, HOBJS, 5);
    h_swap();

    h_clear(&ha, h_clr);
    /* as good as new after a clear */
    h_resize_must(&ha, 3, NULL);
    h_insert(&ha, 0, 7);
    h_resize(&ha, 11, NULL);
    h_erase(&ha, 0, 7, 2);
    h_clear(&ha, NULL);
    h_clear(&hb, h_clr);
    h_clear(&hb, NULL);
}

/* ------------------------------------------------------------------ */
/* map                                                                */
/* ------------------------------------------------------------------ */

#define MKEYS 24

struct mmodel
{
    cstl_map_t map;
    int present[MKEYS];
    size_t n;
    int keys[MKEYS];            /* the keys owned by this map */
    long vals[MKEYS];
};

static struct mmodel ma, mb;
static int m_other_keys[MKEYS]; /* equal keys at other addresses */
static long m_cleared;
static int m_clr_seen[MKEYS];

static int m_cmp(const void * const a, const void * const b, void * const p)
{
    CHECK(p == &ma || p == &mb);
    return *(const int *)a - *(const int *)b;
}

static void m_check(struct mmodel * const m)
{
    int k;

    CHECK(cstl_map_size(&m->map) == m->n);
    for (k = 0; k < MKEYS; k++) {
        cstl_map_iterator_t it;

        op_begin();
        cstl_map_find(&m->map, &m_other_keys[k], &it);
        op_end();
        if (m->present[k]) {
            CHECK(!cstl_map_iterator_eq(&it, cstl_map_iterator_end(&m->map)));
            CHECK(it.key == &m->keys[k]);
            CHECK(it.val == &m->vals[k]);
        } else {
            CHECK(cstl_map_iterator_eq(&it, cstl_map_iterator_end(&m->map)));
        }
    }
    guard_check_all();
}

static void m_insert(struct mmodel * const m, const int k)
{
    cstl_map_iterator_t it;
    int r;

    op_begin();
    r = cstl_map_insert(&m->map,
                        m->present[k] ? &m_other_keys[k] : &m->keys[k],
                        &m->vals[k], &it);
    op_end();

    if (r == 0) {
        CHECK(!m->present[k]);
        CHECK(it.key == &m->keys[k] && it.val == &m->vals[k]);
        CHECK(!cstl_map_iterator_eq(&it, cstl_map_iterator_end(&m->map)));
        m->present[k] = 1;
        m->n++;
    } else if (r == 1) {
        CHECK(m->present[k]);
        /* the existing element, not the new pair */
        CHECK(it.key == &m->keys[k] && it.val == &m->vals[k]);
    } else {
        CHECK(r == -1);
        CHECK(op_faults > 0);
    }
    m_check(m);

    /* and without the iterator */
    if (r == -1) {
        op_begin();
        r = cstl_map_insert(&m->map, &m->keys[k], &m->vals[k], NULL);
        op_end();
        if (r == 0) {
            CHECK(!m->present[k]);
            m->present[k] = 1;
            m->n++;
        } else if (r == 1) {
            CHECK(m->present[k]);
        } else {
            CHECK(r == -1 && op_faults > 0);
        }
        m_check(m);
    }
}

static void m_erase(struct mmodel * const m, const int k, const int how)
{
    cstl_map_iterator_t it;
    int r;

    if (how == 0) {
        op_begin();
        r = cstl_map_erase(&m->map, &m_other_keys[k], &it);
        op_end();
        CHECK(r == (m->present[k] ? 0 : -1));
        CHECK(cstl_map_iterator_eq(&it, cstl_map_iterator_end(&m->map)));
        if (r == 0) {
            CHECK(it.key == &m->keys[k] && it.val == &m->vals[k]);
        }
    } else if (how == 1) {
        op_begin();
        r = cstl_map_erase(&m->map, &m_other_keys[k], NULL);
        op_end();
        CHECK(r == (m->present[k] ? 0 : -1));
    } else {
        r = -1;
        cstl_map_find(&m->map, &m_other_keys[k], &it);
        if (!cstl_map_iterator_eq(&it, cstl_map_iterator_end(&m->map))) {
            CHECK(m->present[k]);
            op_begin();
            cstl_map_erase_iterator(&m->map, &it);
            op_end();
            r = 0;
        }
    }
    if (r == 0) {
        m->present[k] = 0;
        m->n--;
    }
    m_check(m);
}

static void m_clr(void * const e, void * const p)
{
    const cstl_map_iterator_t * const it = e;
    struct mmodel * const m = p;
    const int k = (int)((const int *)it->key - m->keys);
    cstl_map_iterator_t o;

    CHECK(k >= 0 && k < MKEYS);
    CHECK(it->val == &m->vals[k]);
    CHECK(m->present[k]);
    m_clr_seen[k]++;
    m_cleared++;

    /* use the other map while this one is being cleared */
    {
        struct mmodel * const other = (m == &ma) ? &mb : &ma;
        cstl_map_find(&other->map, &m_other_keys[k], &o);
        CHECK(!cstl_map_iterator_eq(&o, cstl_map_iterator_end(&other->map))
              == !!other->present[k]);
    }
}

static void m_clear(struct mmodel * const m, const int with_clr)
{
    int k;

    m_cleared = 0;
    memset(m_clr_seen, 0, sizeof(m_clr_seen));
    op_begin();
    cstl_map_clear(&m->map, with_clr ? m_clr : NULL, m);
    op_end();
    if (with_clr) {
        CHECK((size_t)m_cleared == m->n);
        for (k = 0; k < MKEYS; k++) {
            CHECK(m_clr_seen[k] == (m->present[k] ? 1 : 0));
        }
    }
    memset(m->present, 0, sizeof(m->present));
    m->n = 0;
    m_check(m);
}

static void m_setup(struct mmodel * const m)
{
    int k;
    for (k = 0; k < MKEYS; k++) {
        m->keys[k] = k * 3 - 7;
        m_other_keys[k] = k * 3 - 7;
        m->vals[k] = 1000 + k;
        m->present[k] = 0;
    }
    m->n = 0;
    cstl_map_init(&m->map, m_cmp, m);
}

static void script_map(void)
{
    static const int order[] = { 5, 1, 9, 3, 7, 0, 8, 2, 6, 4 };
    unsigned int i;

    m_setup(&ma);
    m_setup(&mb);
    m_check(&ma);
    m_erase(&ma, 3, 0);
    m_clear(&ma, 1);

    for (i = 0; i < 10; i++) {
        m_insert(&ma, order[i]);
    }
    m_insert(&ma, 5);
    m_insert(&ma, 0);
    m_insert(&mb, 20);
    m_erase(&ma, 3, 0);
    m_erase(&ma, 7, 1);
    m_erase(&ma, 9, 2);
    m_erase(&ma, 9, 0);
    m_insert(&mb, 3);
    m_insert(&ma, 3);
    m_insert(&ma, 11);
    m_insert(&ma, 12);
    m_insert(&ma, 9);
    m_erase(&ma, 5, 2);
    m_erase(&ma, 1, 2);
    m_erase(&mb, 20, 0);
    m_insert(&ma, 23);
    m_insert(&mb, 1);
    m_insert(&ma, 1);
    m_clear(&ma, 1);

    /* usable after a clear */
    for (i = 0; i < 4; i++) {
        m_insert(&ma, 13 + (int)i);
    }
    for (i = 0; i < 4; i++) {
        m_erase(&ma, 13 + (int)i, (int)i % 3);
    }
    m_insert(&ma, 2);
    m_insert(&ma, 22);
    m_clear(&ma, 0);
    m_clear(&ma, 1);
    m_clear(&mb, 1);
}

/* a long run of erase and insert, to and fro */
static void script_map_churn(void)
{
    int round, k;

    m_setup(&ma);
    m_setup(&mb);
    for (round = 0; round < 3; round++) {
        for (k = 0; k < 6; k++) {
            m_insert(&ma, (k * 5 + round) % MKEYS);
        }
        for (k = 0; k < 6; k += 2) {
            m_erase(&ma, (k * 5 + round) % MKEYS, k % 3);
        }
        m_insert(&mb, round);
    }
    for (k = 0; k < MKEYS; k++) {
        m_erase(&ma, k, 1);
    }
    m_insert(&ma, 4);
    m_clear(&mb, 0);
    m_clear(&ma, 1);
}

/* ------------------------------------------------------------------ */
/* smart pointers and arrays                                          */
/* ------------------------------------------------------------------ */

#define PRECS 32

/* one record per payload ever handed out */
struct prec
{
    void * ptr;
    size_t sz;
    int cleared;
    unsigned char fill;
};

static struct prec precs[PRECS];
static int nprecs;

static struct prec * p_new(void * const ptr, const size_t sz)
{
    struct prec * const r = &precs[nprecs++];
    CHECK(nprecs <= PRECS);
    r->ptr = ptr;
    r->sz = sz;
    r->cleared = 0;
    r->fill = (unsigned char)(0x30 + nprecs);
    memset(ptr, r->fill, sz);
    return r;
}

static struct prec * p_lookup(const void * const ptr)
{
    int i;
    for (i = nprecs; i > 0; i--) {
        if (precs[i - 1].ptr == ptr && !precs[i - 1].cleared) {
            return &precs[i - 1];
        }
    }
    return NULL;
}

static void p_intact(const struct prec * const r)
{
    size_t i;
    CHECK(!r->cleared);
    for (i = 0; i < r->sz; i++) {
        CHECK(((unsigned char *)r->ptr)[i] == r->fill);
    }
}

/* clear function of unique pointers; priv is a tag */
static void u_clr(void * const ptr, void * const priv)
{
    struct prec * const r = p_lookup(ptr);
    CHECK(priv == (void *)&precs);
    CHECK(r != NULL);
    p_intact(r);
    r->cleared = 1;
}

/* clear function of shared pointers; priv is unspecified-but-NULL */
static void s_clr(void * const ptr, void * const priv)
{
    struct prec * const r = p_lookup(ptr);
    CHECK(priv == NULL);
    CHECK(r != NULL);
    p_intact(r);
    r->cleared = 1;
}

static int p_huge(const size_t sz)
{
    return sz > SIZE_MAX / 4;
}

static cstl_unique_ptr_t u1, u2;

/* allocate into a unique pointer; returns the record or NULL */
static struct prec * u_alloc(cstl_unique_ptr_t * const up, const size_t sz)
{
    struct prec * const old = p_lookup(cstl_unique_ptr_get(up));
    struct prec * r = NULL;
    void * p;

    op_begin();
    cstl_unique_ptr_alloc(up, sz, u_clr, (void *)&precs);
    op_end();

    if (old != NULL) {
        /* whatever was managed before has been let go of, once */
        CHECK(old->cleared == 1);
    }
    p = cstl_unique_ptr_get(up);
    CHECK(p == cstl_unique_ptr_get_const(up));
    if (p == NULL) {
        CHECK(op_faults > 0 || sz == 0 || p_huge(sz));
    } else {
        CHECK(sz > 0);
        r = p_new(p, sz);
    }
    guard_check_all();
    return r;
}

static void script_unique(void)
{
    static const cstl_unique_ptr_t init = CSTL_UNIQUE_PTR_INITIALIZER(u1);
    struct prec * r, * r2;
    cstl_xtor_func_t * clr;
    void * priv, * p;

    nprecs = 0;
    memcpy(&u1, &init, sizeof(u1));
    cstl_unique_ptr_init(&u2);

    CHECK(cstl_unique_ptr_get(&u1) == NULL);
    op_begin();
    cstl_unique_ptr_reset(&u1);
    op_end();
    CHECK(cstl_unique_ptr_get(&u1) == NULL);

    r = u_alloc(&u1, 1);
    r = u_alloc(&u1, 100);
    r2 = u_alloc(&u2, 24);
    op_begin();
    cstl_unique_ptr_swap(&u1, &u2);
    op_end();
    CHECK(cstl_unique_ptr_get(&u1) == (r2 ? r2->ptr : NULL));
    CHECK(cstl_unique_ptr_get(&u2) == (r ? r->ptr : NULL));
    if (r != NULL) {
        p_intact(r);
    }
    if (r2 != NULL) {
        p_intact(r2);
    }

    /* failing requests leave the pointer empty */
    (void)u_alloc(&u1, SIZE_MAX);
    CHECK(cstl_unique_ptr_get(&u1) == NULL);
    if (r2 != NULL) {
        CHECK(r2->cleared == 1);
    }
    (void)u_alloc(&u1, 0);
    CHECK(cstl_unique_ptr_get(&u1) == NULL);
    r2 = u_alloc(&u1, 4096);

    /* release hands everything to the caller */
    clr = NULL;
    priv = NULL;
    op_begin();
    p = cstl_unique_ptr_release(&u2, &clr, &priv);
    op_end();
    CHECK(cstl_unique_ptr_get(&u2) == NULL);
    CHECK(p == (r ? r->ptr : NULL));
    if (p != NULL) {
        CHECK(clr == u_clr && priv == (void *)&precs);
        CHECK(r->cleared == 0);
        clr(p, priv);
        free(p);
    }
    op_begin();
    p = cstl_unique_ptr_release(&u2, NULL, NULL);
    op_end();
    CHECK(p == NULL);

    r = u_alloc(&u2, 7);
    op_begin();
    cstl_unique_ptr_reset(&u2);
    cstl_unique_ptr_reset(&u2);
    op_end();
    if (r != NULL) {
        CHECK(r->cleared == 1);
    }
    op_begin();
    cstl_unique_ptr_reset(&u1);
    op_end();
    if (r2 != NULL) {
        CHECK(r2->cleared == 1);
    }
    CHECK(cstl_unique_ptr_get(&u1) == NULL);
    CHECK(cstl_unique_ptr_get(&u2) == NULL);
}

static cstl_shared_ptr_t sp1, sp2, sp3;
static cstl_weak_ptr_t wp1, wp2;

static struct prec * sh_alloc(cstl_shared_ptr_t * const sp, const size_t sz,
                              const int with_clr)
{
    struct prec * r = NULL;
    void * p;

    op_begin();
    cstl_shared_ptr_alloc(sp, sz, with_clr ? s_clr : NULL);
    op_end();

    p = cstl_shared_ptr_get(sp);
    CHECK(p == cstl_shared_ptr_get_const(sp));
    if (p == NULL) {
        CHECK(op_faults > 0 || sz == 0 || p_huge(sz));
        /* an empty shared pointer is "unique" */
        CHECK(cstl_shared_ptr_unique(sp));
    } else {
        CHECK(sz > 0);
        CHECK(cstl_shared_ptr_unique(sp));
        CHECK((uintptr_t)p % sizeof(void *) == 0);
        r = p_new(p, sz);
        if (!with_clr) {
            /* nobody will mark it */
            r->cleared = 2;
        }
    }
    guard_check_all();
    return r;
}

static void sh_reset(cstl_shared_ptr_t * const sp)
{
    op_begin();
    cstl_shared_ptr_reset(sp);
    op_end();
    CHECK(cstl_shared_ptr_get(sp) == NULL);
    CHECK(cstl_shared_ptr_unique(sp));
    guard_check_all();
}

static void script_shared(void)
{
    static const cstl_shared_ptr_t init = CSTL_SHARED_PTR_INITIALIZER(sp1);
    static const cstl_weak_ptr_t winit = CSTL_WEAK_PTR_INITIALIZER(wp1);
    struct prec * a, * b, * c;

    nprecs = 0;
    memcpy(&sp1, &init, sizeof(sp1));
    cstl_shared_ptr_init(&sp2);
    cstl_shared_ptr_init(&sp3);
    memcpy(&wp1, &winit, sizeof(wp1));
    cstl_weak_ptr_init(&wp2);

    /* empty objects */
    sh_reset(&sp1);
    op_begin();
    cstl_shared_ptr_share(&sp1, &sp2);
    cstl_weak_ptr_from(&wp1, &sp1);
    cstl_weak_ptr_lock(&wp1, &sp3);
    cstl_weak_ptr_reset(&wp1);
    op_end();
    CHECK(cstl_shared_ptr_get(&sp2) == NULL);
    CHECK(cstl_shared_ptr_get(&sp3) == NULL);

    a = sh_alloc(&sp1, 64, 1);
    op_begin();
    cstl_shared_ptr_share(&sp1, &sp2);
    cstl_weak_ptr_from(&wp1, &sp1);
    op_end();
    CHECK(cstl_shared_ptr_get(&sp2) == cstl_shared_ptr_get(&sp1));
    if (a != NULL) {
        CHECK(cstl_shared_ptr_get(&sp2) == a->ptr);
        CHECK(!cstl_shared_ptr_unique(&sp1));
        CHECK(!cstl_shared_ptr_unique(&sp2));
    }

    /* a new allocation into sp1: sp2 keeps the old memory alive */
    b = sh_alloc(&sp1, 200, 1);
    if (a != NULL) {
        CHECK(cstl_shared_ptr_get(&sp2) == a->ptr);
        p_intact(a);
        /* the weak pointer still counts */
        CHECK(!cstl_shared_ptr_unique(&sp2));
    }
    if (b != NULL) {
        p_intact(b);
    }

    op_begin();
    cstl_weak_ptr_lock(&wp1, &sp3);
    op_end();
    CHECK(cstl_shared_ptr_get(&sp3) == (a ? a->ptr : NULL));

    sh_reset(&sp2);
    if (a != NULL) {
        p_intact(a);
    }
    sh_reset(&sp3);
    if (a != NULL) {
        /*
         * the last shared pointer is gone: the clear function has
         * run, although a weak pointer is still around
         */
        CHECK(a->cleared == 1);
    }
    op_begin();
    cstl_weak_ptr_lock(&wp1, &sp3);
    op_end();
    CHECK(cstl_shared_ptr_get(&sp3) == NULL);

    /* a second weak pointer, swapped around */
    op_begin();
    cstl_weak_ptr_from(&wp2, &sp1);
    cstl_weak_ptr_swap(&wp1, &wp2);
    cstl_weak_ptr_lock(&wp1, &sp3);
    op_end();
    CHECK(cstl_shared_ptr_get(&sp3) == (b ? b->ptr : NULL));
    op_begin();
    cstl_weak_ptr_reset(&wp2);
    cstl_weak_ptr_reset(&wp2);
    op_end();

    /* allocation while shared: the other owner is unaffected */
    c = sh_alloc(&sp3, 8, 0);
    if (b != NULL) {
        p_intact(b);
        CHECK(cstl_shared_ptr_get(&sp1) == b->ptr);
        CHECK(!cstl_shared_ptr_unique(&sp1));
    }
    op_begin();
    cstl_shared_ptr_swap(&sp1, &sp3);
    op_end();
    CHECK(cstl_shared_ptr_get(&sp3) == (b ? b->ptr : NULL));
    CHECK(cstl_shared_ptr_get(&sp1) == (c ? c->ptr : NULL));

    /* failing requests leave the pointer empty */
    (void)sh_alloc(&sp1, SIZE_MAX, 1);
    CHECK(cstl_shared_ptr_get(&sp1) == NULL);
    (void)sh_alloc(&sp1, SIZE_MAX - 8, 1);
    (void)sh_alloc(&sp1, SIZE_MAX - 64, 1);
    (void)sh_alloc(&sp1, 0, 1);
    CHECK(cstl_shared_ptr_get(&sp1) == NULL);

    /* allocate into the only owner, with a weak pointer watching */
    c = sh_alloc(&sp3, 33, 1);
    if (b != NULL) {
        CHECK(b->cleared == 1);
    }
    op_begin();
    cstl_weak_ptr_lock(&wp1, &sp2);
    op_end();
    CHECK(cstl_shared_ptr_get(&sp2) == NULL);
    op_begin();
    cstl_weak_ptr_from(&wp1, &sp3);
    op_end();
    (void)sh_alloc(&sp3, 5, 1);
    if (c != NULL) {
        CHECK(c->cleared == 1);
    }
    op_begin();
    cstl_weak_ptr_lock(&wp1, &sp2);
    op_end();
    CHECK(cstl_shared_ptr_get(&sp2) == NULL);

    sh_reset(&sp3);
    sh_reset(&sp1);
    sh_reset(&sp2);
    op_begin();
    cstl_weak_ptr_reset(&wp1);
    cstl_weak_ptr_reset(&wp2);
    op_end();
    {
        int i;
        for (i = 0; i < nprecs; i++) {
            CHECK(precs[i].cleared != 0);
        }
    }
}

static cstl_array_t ar1, ar2;

static int ar_alloc(cstl_array_t * const a, const size_t nm, const size_t sz)
{
    op_begin();
    cstl_array_alloc(a, nm, sz);
    op_end();
    if (cstl_array_data(a) == NULL) {
        /* "a failed allocation leaves the object in an initialized state" */
        CHECK(op_faults > 0 || (sz > 0 && nm > SIZE_MAX / 4 / sz));
        CHECK(cstl_array_size(a) == 0);
        CHECK(cstl_array_data_const(a) == NULL);
        return 0;
    }
    CHECK(cstl_array_size(a) == nm);
    if (nm > 0) {
        size_t i;
        CHECK(cstl_array_at(a, 0) == cstl_array_data(a));
        for (i = 0; i < nm; i++) {
            memset(cstl_array_at(a, i), (int)(i + sz), sz);
        }
    }
    guard_check_all();
    return 1;
}

static void script_array(void)
{
    static const cstl_array_t init = CSTL_ARRAY_INITIALIZER(ar1);
    static long ext[6];
    void * buf;
    int ok, ok2;
    size_t i;

    memcpy(&ar1, &init, sizeof(ar1));
    cstl_array_init(&ar2);

    op_begin();
    cstl_array_reset(&ar1);
    cstl_array_release(&ar1, &buf);
    op_end();
    CHECK(buf == NULL);
    CHECK(cstl_array_size(&ar1) == 0 && cstl_array_data(&ar1) == NULL);

    ok = ar_alloc(&ar1, 10, sizeof(int));
    if (ok) {
        op_begin();
        cstl_array_slice(&ar1, 2, 7, &ar2);
        op_end();
        CHECK(cstl_array_size(&ar2) == 5);
        CHECK(cstl_array_at(&ar2, 0) == cstl_array_at(&ar1, 2));
        op_begin();
        cstl_array_slice(&ar2, 1, 3, &ar2);
        op_end();
        CHECK(cstl_array_size(&ar2) == 2);
        CHECK(cstl_array_at(&ar2, 1) == cstl_array_at(&ar1, 4));
    }

    /* a new allocation into ar1; the slice keeps the old array */
    ok2 = ar_alloc(&ar1, 3, 40);
    if (ok) {
        CHECK(cstl_array_size(&ar2) == 2);
        for (i = 0; i < 2; i++) {
            const unsigned char * const e = cstl_array_at_const(&ar2, i);
            CHECK(e[0] == (unsigned char)(3 + i + sizeof(int)));
            CHECK(e[sizeof(int) - 1] == e[0]);
        }
        op_begin();
        cstl_array_unslice(&ar2, &ar2);
        op_end();
        CHECK(cstl_array_size(&ar2) == 10);
        for (i = 0; i < 10; i++) {
            const unsigned char * const e = cstl_array_at_const(&ar2, i);
            CHECK(e[0] == (unsigned char)(i + sizeof(int)));
        }
    }
    if (ok2) {
        CHECK(cstl_array_size(&ar1) == 3);
    }

    /* requests that cannot be satisfied */
    CHECK(ar_alloc(&ar1, SIZE_MAX, 2) == 0);
    CHECK(ar_alloc(&ar1, SIZE_MAX / 2, 2) == 0);
    CHECK(ar_alloc(&ar1, SIZE_MAX / 8, 8) == 0);
    CHECK(ar_alloc(&ar1, SIZE_MAX - 40, 1) == 0);
    (void)ar_alloc(&ar1, 0, 4);
    (void)ar_alloc(&ar1, 1, 1);
    (void)ar_alloc(&ar1, 17, 3);

    op_begin();
    cstl_array_reset(&ar2);
    op_end();
    CHECK(cstl_array_size(&ar2) == 0 && cstl_array_data(&ar2) == NULL);

    /* an external buffer, handed in and taken back */
    for (i = 0; i < 6; i++) {
        ext[i] = (long)(i * i);
    }
    op_begin();
    cstl_array_set(&ar2, ext, 6, sizeof(long));
    op_end();
    if (cstl_array_data(&ar2) != NULL) {
        CHECK(cstl_array_data(&ar2) == ext);
        CHECK(cstl_array_size(&ar2) == 6);
        CHECK(*(long *)cstl_array_at(&ar2, 5) == 25);
        /* an allocated array is not released */
        op_begin();
        cstl_array_release(&ar1, &buf);
        op_end();
        CHECK(buf == NULL);
        op_begin();
        cstl_array_release(&ar2, &buf);
        op_end();
        CHECK(buf == ext);
    } else {
        CHECK(op_faults > 0);
        CHECK(cstl_array_size(&ar2) == 0);
    }
    CHECK(cstl_array_size(&ar2) == 0 && cstl_array_data(&ar2) == NULL);

    op_begin();
    cstl_array_reset(&ar1);
    cstl_array_reset(&ar1);
    cstl_array_reset(&ar2);
    op_end();
}

/* several kinds of container used side by side */
static struct cstl_vector x_v;
static struct cstl_string x_s;
static size_t x_vn, x_sn;

static void script_mixed(void)
{
    volatile int aborted;
    size_t i;
    int k;

    cstl_vector_init(&x_v, sizeof(double));
    cstl_string_init(&x_s);
    m_setup(&ma);
    m_setup(&mb);
    nprecs = 0;
    cstl_shared_ptr_init(&sp1);
    cstl_unique_ptr_init(&u1);
    x_vn = x_sn = 0;

    for (k = 0; k < 4; k++) {
        m_insert(&ma, k * 2);

        ABORTABLE(cstl_vector_resize(&x_v, x_vn + 3), aborted);
        if (!aborted) {
            for (i = x_vn; i < x_vn + 3; i++) {
                *(double *)cstl_vector_at(&x_v, i) = (double)i / 4;
            }
            x_vn += 3;
        }
        CHECK(cstl_vector_size(&x_v) == x_vn);

        (void)sh_alloc(&sp1, 16 + (size_t)k, 1);
        m_erase(&ma, k, k % 3);

        ABORTABLE(cstl_string_append_ch(&x_s, 2, (char)('a' + k)), aborted);
        if (!aborted) {
            x_sn += 2;
        }
        CHECK(cstl_string_size(&x_s) == x_sn);
        CHECK(strlen(cstl_string_str(&x_s)) == x_sn);

        (void)u_alloc(&u1, 5 + (size_t)k);
        m_insert(&ma, k);

        for (i = 0; i < x_vn; i++) {
            CHECK(*(double *)cstl_vector_at(&x_v, i) == (double)i / 4);
        }
    }

    op_begin();
    cstl_vector_shrink_to_fit(&x_v);
    cstl_vector_clear(&x_v);
    cstl_string_clear(&x_s);
    cstl_shared_ptr_reset(&sp1);
    cstl_unique_ptr_reset(&u1);
    op_end();
    m_clear(&ma, 1);
    m_clear(&mb, 0);
}

/* ------------------------------------------------------------------ */

static void script_vector_1(void)   { v_param_esz = 1;   script_vector(); }
static void script_vector_2(void)   { v_param_esz = 2;   script_vector(); }
static void script_vector_4(void)   { v_param_esz = 4;   script_vector(); }
static void script_vector_8(void)   { v_param_esz = 8;   script_vector(); }
static void script_vector_24(void)  { v_param_esz = 24;  script_vector(); }
static void script_vector_100(void) { v_param_esz = 100; script_vector(); }

int main(void)
{
    struct sigaction sa;

    memset(&sa, 0, sizeof(sa));
    sa.sa_handler = on_abort;
    sigemptyset(&sa.sa_mask);
    sa.sa_flags = SA_NODEFER;
    sigaction(SIGABRT, &sa, NULL);

    explore("vector (1 byte)", script_vector_1);
    explore("vector (2 bytes)", script_vector_2);
    explore("vector (4 bytes)", script_vector_4);
    explore("vector (8 bytes)", script_vector_8);
    explore("vector (24 bytes)", script_vector_24);
    explore("vector (100 bytes)", script_vector_100);
    explore("vector (cons/dest)", script_vector_complex);
    explore("string", script_s_string);
    explore("wstring", script_w_string);
    explore("hash", script_hash);
    explore("map", script_map);
    explore("map (churn)", script_map_churn);
    explore("unique pointer", script_unique);
    explore("shared and weak pointer", script_shared);
    explore("array", script_array);
    explore("mixed", script_mixed);

    CHECK(nlive == 0);
    printf("C16 ok: %lu runs\n", g_runs);
    return 0;
}
