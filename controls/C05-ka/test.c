/*
 * C05 / change a: cstl_weak_ptr_lock takes its owning reference with a
 * lock-free compare-and-swap "increment unless zero" loop; the spin flag is
 * removed from the (private) bookkeeping block.
 *
 * Build + run (from the worktree root, i.e. the directory with the Makefile):
 *   make build && gcc -std=c99 -O1 -Wall -Wextra -Iinclude -Wl,--wrap=malloc,--wrap=free -o _keep/a/test _keep/a/test.c build/libcstl.a -lm && ./_keep/a/test
 *
 * Model-based check of a pool of shared, weak and unique pointer objects
 * driven by alloc / share / swap / reset / weak-from / lock / weak-reset /
 * weak-swap and unique alloc / release / swap / reset: exhaustive short
 * histories plus long seeded random ones. malloc/free as called by the
 * library are wrapped at link time, so that after EVERY operation the test
 * knows: the clear callback of each managed block ran exactly once, before
 * the block was freed exactly once, in the very operation that took away its
 * last owner (not earlier, not later); co-owners' get() agree; lock yields an
 * owner iff one exists; unique() iff no other shared or weak reference; the
 * number of outstanding library allocations equals live managed blocks plus
 * bookkeeping blocks that still have any reference (so the bookkeeping block
 * goes exactly once, with the last shared or weak reference); no double free;
 * nothing is left allocated at the end. Nothing depends on the size or layout
 * of the bookkeeping block or on the order of malloc calls.
 */
#include "cstl/memory.h"

#include <stdio.h>
#include <stdlib.h>
#include <string.h>

#define CHECK(c) do { if (!(c)) { \
    fprintf(stderr, "%s:%d: CHECK failed: %s\n", __FILE__, __LINE__, #c); \
    exit(1); } } while (0)

/* --- link-time malloc/free interposition ------------------------------------- */
void * __real_malloc(size_t);
void __real_free(void *);

#define MAXLIVE 256
static void * live[MAXLIVE];
static size_t nlive;

#define MAXA 4096
struct alloc {
    void * addr;        /* the managed memory */
    int unique_kind;    /* managed by a unique pointer (else shared) */
    int has_clr;
    int cleared;        /* times the clear callback ran */
    int freed;          /* times the managed memory was freed */
};
static struct alloc A[MAXA];
static size_t nalloc;

void * __wrap_malloc(size_t n)
{
    void * const p = __real_malloc(n);
    if (p != NULL) {
        CHECK(nlive < MAXLIVE);
        live[nlive++] = p;
    }
    return p;
}

void __wrap_free(void * p)
{
    size_t i;
    if (p == NULL) {
        return;
    }
    for (i = 0; i < nlive && live[i] != p; i++)
        ;
    CHECK(i < nlive);               /* neither a double nor a foreign free */
    live[i] = live[--nlive];
    for (i = 0; i < nalloc; i++) {
        if (A[i].addr == p && A[i].freed == 0) {
            /* clear-then-free */
            CHECK(A[i].cleared == (A[i].has_clr ? 1 : 0));
            A[i].freed++;
            break;
        }
    }
    __real_free(p);
}

static void on_clear(void * mem, void * priv)
{
    int id;
    memcpy(&id, mem, sizeof(id));
    CHECK(id >= 0 && (size_t)id < nalloc);
    CHECK(A[id].addr == mem);
    CHECK(A[id].has_clr == 1);
    CHECK(A[id].cleared == 0);      /* once */
    CHECK(A[id].freed == 0);        /* before the free */
    CHECK(priv == (A[id].unique_kind ? (void *)&A[id] : NULL));
    A[id].cleared++;
}

/* --- the objects and the model -------------------------------------------------- */
#define NS 3
#define NW 2
#define NU 2
static cstl_shared_ptr_t S[NS];
static cstl_weak_ptr_t W[NW];
static cstl_unique_ptr_t U[NU];
static int ms[NS], mw[NW], mu[NU];  /* alloc index or -1 */

static void reset_all(void)
{
    int i;
    CHECK(nlive == 0);
    nalloc = 0;
    for (i = 0; i < NS; i++) {
        cstl_shared_ptr_init(&S[i]);
        ms[i] = -1;
    }
    for (i = 0; i < NW; i++) {
        cstl_weak_ptr_init(&W[i]);
        mw[i] = -1;
    }
    for (i = 0; i < NU; i++) {
        cstl_unique_ptr_init(&U[i]);
        mu[i] = -1;
    }
}

static int owners(int k)
{
    int i, n = 0;
    for (i = 0; i < NS; i++) {
        n += (ms[i] == k);
    }
    return n;
}
static int weaks(int k)
{
    int i, n = 0;
    for (i = 0; i < NW; i++) {
        n += (mw[i] == k);
    }
    return n;
}
static int held_unique(int k)
{
    int i, n = 0;
    for (i = 0; i < NU; i++) {
        n += (mu[i] == k);
    }
    return n;
}

static void check_all(void)
{
    size_t k, expected = 0;
    int i;

    for (k = 0; k < nalloc; k++) {
        const int alive = A[k].unique_kind ? held_unique((int)k)
                          : owners((int)k);
        if (A[k].unique_kind) {
            CHECK(alive <= 1);
        }
        if (alive > 0) {
            /* never earlier */
            CHECK(A[k].cleared == 0 && A[k].freed == 0);
            expected += 1;
        } else {
            /* never later, and exactly once */
            CHECK(A[k].cleared == (A[k].has_clr ? 1 : 0));
            CHECK(A[k].freed == 1);
        }
        if (!A[k].unique_kind && owners((int)k) + weaks((int)k) > 0) {
            expected += 1;      /* its bookkeeping block */
        }
    }
    CHECK(nlive == expected);

    for (i = 0; i < NS; i++) {
        if (ms[i] < 0) {
            CHECK(cstl_shared_ptr_get(&S[i]) == NULL);
            CHECK(cstl_shared_ptr_get_const(&S[i]) == NULL);
            CHECK(cstl_shared_ptr_unique(&S[i]) == true);
        } else {
            CHECK(cstl_shared_ptr_get(&S[i]) == A[ms[i]].addr);
            CHECK(cstl_shared_ptr_get_const(&S[i]) == A[ms[i]].addr);
            CHECK(cstl_shared_ptr_unique(&S[i])
                  == (owners(ms[i]) + weaks(ms[i]) == 1));
        }
    }
    for (i = 0; i < NU; i++) {
        CHECK(cstl_unique_ptr_get(&U[i])
              == (mu[i] < 0 ? NULL : A[mu[i]].addr));
    }
}

static int new_alloc(void * addr, int unique_kind, int has_clr)
{
    const int k = (int)nalloc;
    CHECK(nalloc < MAXA);
    CHECK(addr != NULL);
    nalloc++;
    A[k].addr = addr;
    A[k].unique_kind = unique_kind;
    A[k].has_clr = has_clr;
    A[k].cleared = 0;
    A[k].freed = 0;
    memcpy(addr, &k, sizeof(k));    /* lets on_clear identify the block */
    return k;
}

/* --- operations -------------------------------------------------------------------- */
static void op_alloc(int i, int has_clr)
{
    ms[i] = -1;     /* the old target, if any, loses this owner */
    cstl_shared_ptr_alloc(&S[i], 8 + 8 * (nalloc % 5), has_clr ? on_clear : NULL);
    ms[i] = new_alloc(cstl_shared_ptr_get(&S[i]), 0, has_clr);
    check_all();
}
static void op_alloc0(int i)
{
    ms[i] = -1;     /* a zero-sized request just resets */
    cstl_shared_ptr_alloc(&S[i], 0, on_clear);
    check_all();
}
static void op_share(int from, int to)
{
    CHECK(from != to);
    cstl_shared_ptr_share(&S[from], &S[to]);
    ms[to] = ms[from];
    check_all();
}
static void op_swap(int i, int j)
{
    const int t = ms[i];
    cstl_shared_ptr_swap(&S[i], &S[j]);
    ms[i] = ms[j];
    ms[j] = t;
    check_all();
}
static void op_reset(int i)
{
    cstl_shared_ptr_reset(&S[i]);
    ms[i] = -1;
    check_all();
}
static void op_weak_from(int w, int i)
{
    cstl_weak_ptr_from(&W[w], &S[i]);
    mw[w] = ms[i];
    check_all();
}
static void op_lock(int w, int i)
{
    cstl_weak_ptr_lock(&W[w], &S[i]);
    /* the target is let go of first; then it owns iff an owner still exists */
    ms[i] = -1;
    if (mw[w] >= 0 && owners(mw[w]) > 0) {
        ms[i] = mw[w];
    }
    check_all();
}
static void op_weak_reset(int w)
{
    cstl_weak_ptr_reset(&W[w]);
    mw[w] = -1;
    check_all();
}
static void op_weak_swap(int a, int b)
{
    const int t = mw[a];
    cstl_weak_ptr_swap(&W[a], &W[b]);
    mw[a] = mw[b];
    mw[b] = t;
    check_all();
}

static void op_ualloc(int u, int has_clr)
{
    void * priv;
    mu[u] = -1;
    /* the priv pointer must be the record that new_alloc is about to fill */
    CHECK(nalloc < MAXA);
    priv = &A[nalloc];
    cstl_unique_ptr_alloc(&U[u], 8 + 8 * (nalloc % 3),
                          has_clr ? on_clear : NULL, priv);
    mu[u] = new_alloc(cstl_unique_ptr_get(&U[u]), 1, has_clr);
    check_all();
}
static void op_ureset(int u)
{
    cstl_unique_ptr_reset(&U[u]);
    mu[u] = -1;
    check_all();
}
static void op_uswap(int a, int b)
{
    const int t = mu[a];
    cstl_unique_ptr_swap(&U[a], &U[b]);
    mu[a] = mu[b];
    mu[b] = t;
    check_all();
}
static void op_urelease(int u)
{
    cstl_xtor_func_t * clr = on_clear;
    void * priv = &priv;
    void * const p = cstl_unique_ptr_release(&U[u], &clr, &priv);
    const int k = mu[u];

    if (k < 0) {
        CHECK(p == NULL);
    } else {
        CHECK(p == A[k].addr);
        CHECK(A[k].cleared == 0 && A[k].freed == 0);    /* untouched */
        CHECK(clr == (A[k].has_clr ? on_clear : NULL));
        CHECK(priv == (void *)&A[k]);
        /* the caller owns it now and disposes of it the same way */
        if (clr != NULL) {
            clr(p, priv);
        }
        free(p);
    }
    mu[u] = -1;
    check_all();
}

static void finish(void)
{
    int i;
    for (i = 0; i < NS; i++) {
        op_reset(i);
    }
    for (i = 0; i < NW; i++) {
        op_weak_reset(i);
    }
    for (i = 0; i < NU; i++) {
        op_ureset(i);
    }
    CHECK(nlive == 0);              /* a history that resets everything leaks nothing */
}

/* --- exhaustive short histories ---------------------------------------------------- */
enum {
    X_ALLOC0, X_ALLOC1, X_SHARE01, X_SHARE10, X_SHARE02, X_SWAP01, X_RESET0,
    X_RESET1, X_FROM0, X_FROM1, X_LOCK0, X_LOCK1, X_LOCK2, X_WRESET, X_NOPS
};

static void x_apply(int op)
{
    switch (op) {
    case X_ALLOC0: op_alloc(0, 1); break;
    case X_ALLOC1: op_alloc(1, 1); break;
    case X_SHARE01: op_share(0, 1); break;
    case X_SHARE10: op_share(1, 0); break;
    case X_SHARE02: op_share(0, 2); break;
    case X_SWAP01: op_swap(0, 1); break;
    case X_RESET0: op_reset(0); break;
    case X_RESET1: op_reset(1); break;
    case X_FROM0: op_weak_from(0, 0); break;
    case X_FROM1: op_weak_from(0, 1); break;
    case X_LOCK0: op_lock(0, 0); break;
    case X_LOCK1: op_lock(0, 1); break;
    case X_LOCK2: op_lock(0, 2); break;
    case X_WRESET: op_weak_reset(0); break;
    }
}

static void exhaustive(int len)
{
    long n = 1, s;
    int i;
    for (i = 0; i < len; i++) {
        n *= X_NOPS;
    }
    for (s = 0; s < n; s++) {
        long v = s;
        reset_all();
        for (i = 0; i < len; i++) {
            x_apply((int)(v % X_NOPS));
            v /= X_NOPS;
        }
        finish();
    }
}

enum { Y_ALLOC0, Y_ALLOC1, Y_RESET0, Y_RESET1, Y_SWAP, Y_REL0, Y_REL1, Y_NOPS };

static void exhaustive_unique(int len)
{
    long n = 1, s;
    int i;
    for (i = 0; i < len; i++) {
        n *= Y_NOPS;
    }
    for (s = 0; s < n; s++) {
        long v = s;
        reset_all();
        for (i = 0; i < len; i++) {
            switch ((int)(v % Y_NOPS)) {
            case Y_ALLOC0: op_ualloc(0, 1); break;
            case Y_ALLOC1: op_ualloc(1, (int)(s & 1)); break;
            case Y_RESET0: op_ureset(0); break;
            case Y_RESET1: op_ureset(1); break;
            case Y_SWAP: op_uswap(0, 1); break;
            case Y_REL0: op_urelease(0); break;
            case Y_REL1: op_urelease(1); break;
            }
            v /= Y_NOPS;
        }
        finish();
    }
}

/* --- seeded random histories ---------------------------------------------------------- */
static unsigned long rng;
static unsigned int rnd(void)
{
    rng = rng * 6364136223846793005UL + 1442695040888963407UL;
    return (unsigned int)(rng >> 33);
}

static void random_history(unsigned long seed, int steps)
{
    int i;
    rng = seed;
    reset_all();
    for (i = 0; i < steps && nalloc + 2 < MAXA; i++) {
        const unsigned r = rnd() % 100;
        const int a = (int)(rnd() % NS), b = (int)(rnd() % NS);
        const int w = (int)(rnd() % NW), u = (int)(rnd() % NU);

        if (r < 12) {
            op_alloc(a, (int)(rnd() % 4) != 0);
        } else if (r < 14) {
            op_alloc0(a);
        } else if (r < 32) {
            if (a != b) {
                op_share(a, b);
            }
        } else if (r < 40) {
            if (a != b) {
                op_swap(a, b);
            }
        } else if (r < 55) {
            op_reset(a);
        } else if (r < 65) {
            op_weak_from(w, a);
        } else if (r < 78) {
            op_lock(w, a);
        } else if (r < 84) {
            op_weak_reset(w);
        } else if (r < 87) {
            op_weak_swap(0, 1);
        } else if (r < 91) {
            op_ualloc(u, (int)(rnd() % 3) != 0);
        } else if (r < 94) {
            op_ureset(u);
        } else if (r < 97) {
            op_uswap(0, 1);
        } else {
            op_urelease(u);
        }
    }
    finish();
}

int main(void)
{
    unsigned long seed;

    exhaustive(5);
    exhaustive_unique(6);
    for (seed = 1; seed <= 200; seed++) {
        random_history(seed, 2000);
    }
    CHECK(nlive == 0);
    printf("ok\n");
    return 0;
}
