/*
 * C04: hash enumeration and clear reach every live element exactly once,
 * even while an incremental rehash is pending.
 *
 * Public API only.  A shadow model (the array of live element pointers of
 * each table) is kept next to every hash table; after and between all
 * operations the three enumeration entry points are compared with the model.
 */

#include "cstl/hash.h"

#include <limits.h>
#include <stdint.h>
#include <stdio.h>
#include <stdlib.h>
#include <string.h>

static void die(const char * const what, const int line)
{
    fprintf(stderr, "C04 test FAILED at line %d: %s\n", line, what);
    exit(1);
}
#define CHECK(C) do { if (!(C)) { die(#C, __LINE__); } } while (0)

/* ------------------------------------------------------------------ */
/* random numbers                                                     */

static uint64_t rng_state = 88172645463325252ull;
static uint64_t rnd(void)
{
    rng_state ^= rng_state << 13;
    rng_state ^= rng_state >> 7;
    rng_state ^= rng_state << 17;
    return rng_state;
}
static size_t rndn(const size_t n)
{
    return (size_t)(rnd() % n);
}

/* ------------------------------------------------------------------ */
/* hash functions                                                     */

struct side { long tag; struct cstl_hash_node link; };
static DECLARE_CSTL_HASH(SIDE, struct side, link);
static unsigned long user_hash_calls;

static size_t hash_zero(const size_t k, const size_t m)
{
    (void)k; (void)m;
    return 0;
}
static size_t hash_last(const size_t k, const size_t m)
{
    (void)k;
    return m - 1;
}
static size_t hash_knuth(const size_t k, const size_t m)
{
    return (size_t)(((uint64_t)k * 2654435761ull) >> 7) % m;
}
/* a hash function that itself uses the library, on another object */
static size_t hash_reentrant(const size_t k, const size_t m)
{
    user_hash_calls++;
    (void)cstl_hash_size(&SIDE);
    return (cstl_hash_mul(k, m) + cstl_hash_div(k, m)) % m;
}

static cstl_hash_func_t * const HASHES[] = {
    cstl_hash_mul, cstl_hash_div, hash_zero, hash_last, hash_knuth,
    hash_reentrant
};
#define NHASHES (sizeof(HASHES) / sizeof(HASHES[0]))

/* ------------------------------------------------------------------ */
/* elements and the model                                             */

#define MAGIC_LIVE 0x600dbeefu
#define MAGIC_DEAD 0xdeadbeefu

struct elem
{
    unsigned magic;
    int id;
    size_t key;
    size_t slot;                /* index in world.live */
    int in_aux;
    struct cstl_hash_node na;   /* link used by the tables under test */
    long pad[3];
    struct cstl_hash_node nb;   /* link used by the auxiliary table */
};

/* a second element type, node first, in a statically initialised table */
struct small
{
    struct cstl_hash_node n;
    int id;
    unsigned seen;
};
static DECLARE_CSTL_HASH(SMALLS, struct small, n);

struct world
{
    struct cstl_hash h;
    struct elem ** live;
    unsigned * seen;
    size_t nlive, cap;
};

/* auxiliary table (other container used from inside callbacks) */
static struct cstl_hash AUX = CSTL_HASH_INITIALIZER(struct elem, nb);
static size_t aux_count;
/* table receiving elements whose ownership is taken by a clear callback */
static struct cstl_hash KEEP;
static size_t keep_count;

static int next_id = 1;

static void world_init(struct world * const w, const int use_macro)
{
    if (use_macro) {
        DECLARE_CSTL_HASH(t, struct elem, na);
        w->h = t;
    } else {
        memset(&w->h, 0xa5, sizeof(w->h));
        cstl_hash_init(&w->h, offsetof(struct elem, na));
    }
    w->live = NULL;
    w->seen = NULL;
    w->nlive = 0;
    w->cap = 0;
}

static void world_track(struct world * const w, struct elem * const e)
{
    if (w->nlive == w->cap) {
        w->cap = (w->cap == 0) ? 16 : 2 * w->cap;
        w->live = realloc(w->live, w->cap * sizeof(*w->live));
        w->seen = realloc(w->seen, w->cap * sizeof(*w->seen));
        CHECK(w->live != NULL && w->seen != NULL);
    }
    e->slot = w->nlive;
    w->live[w->nlive++] = e;
}

static void world_untrack(struct world * const w, struct elem * const e)
{
    CHECK(e->slot < w->nlive && w->live[e->slot] == e);
    w->live[e->slot] = w->live[w->nlive - 1];
    w->live[e->slot]->slot = e->slot;
    w->nlive--;
}

static struct elem * elem_new(const size_t key)
{
    struct elem * const e = malloc(sizeof(*e));
    CHECK(e != NULL);
    memset(e, 0x5a, sizeof(*e));
    e->magic = MAGIC_LIVE;
    e->id = next_id++;
    e->key = key;
    e->in_aux = 0;
    return e;
}

static void elem_free(struct elem * const e)
{
    CHECK(e->magic == MAGIC_LIVE);
    if (e->in_aux) {
        cstl_hash_erase(&AUX, e);
        e->in_aux = 0;
        aux_count--;
    }
    /* poison everything, the links included, before letting go */
    memset(e, 0xdd, sizeof(*e));
    e->magic = MAGIC_DEAD;
    free(e);
}

static struct elem * w_insert(struct world * const w, const size_t key)
{
    struct elem * const e = elem_new(key);
    cstl_hash_insert(&w->h, key, e);
    world_track(w, e);
    CHECK(cstl_hash_size(&w->h) == w->nlive);
    return e;
}

static void w_erase(struct world * const w, struct elem * const e)
{
    cstl_hash_erase(&w->h, e);
    world_untrack(w, e);
    CHECK(cstl_hash_size(&w->h) == w->nlive);
    elem_free(e);
}

static int match_ptr(const void * const e, void * const p)
{
    return e == p;
}

/* one lookup; this also moves a pending rehash forward by a few buckets */
static void w_find(struct world * const w, const size_t i)
{
    if (w->nlive > 0) {
        struct elem * const e = w->live[i % w->nlive];
        CHECK(cstl_hash_find(&w->h, e->key, match_ptr, e) == e);
        CHECK(cstl_hash_find(&w->h, e->key, NULL, NULL) != NULL);
    } else {
        CHECK(cstl_hash_find(&w->h, i, NULL, NULL) == NULL);
    }
}

/* ------------------------------------------------------------------ */
/* enumeration checks                                                 */

struct vctx
{
    struct world * w;
    size_t calls;
    size_t stop_at;     /* 1-based call at which to stop; 0: never */
    int stop_val;
    int erase_mod;      /* erase + free visited elements with id % mod == 0 */
    int use_other;      /* use other containers from inside the callback */
    size_t erased;
};

static void visit_common(struct vctx * const c, const struct elem * const e)
{
    struct world * const w = c->w;
    CHECK(e != NULL);
    CHECK(e->magic == MAGIC_LIVE);
    CHECK(e->slot < w->nlive);
    CHECK(w->live[e->slot] == e);
    w->seen[e->slot]++;
    CHECK(w->seen[e->slot] == 1);
    c->calls++;
}

static int small_count(const void * const e, void * const p)
{
    CHECK(((const struct small *)e)->id >= 0);
    ++*(size_t *)p;
    return 0;
}

static int visit_const(const void * const p, void * const q)
{
    const struct elem * const e = p;
    struct vctx * const c = q;

    visit_common(c, e);

    if (c->use_other) {
        /* other objects, other element types, nested enumeration */
        void * const f = cstl_hash_find(&AUX, (size_t)e->id, NULL, NULL);
        CHECK(e->in_aux ? (f == (const void *)e) : (f == NULL));
        if ((c->calls & 7) == 1) {
            size_t n = 0;
            CHECK(cstl_hash_foreach_const(&SMALLS, small_count, &n) == 0);
            CHECK(n == cstl_hash_size(&SMALLS));
        }
    }

    if (c->stop_at != 0 && c->calls == c->stop_at) {
        return c->stop_val;
    }
    return 0;
}

static int visit_mut(void * const p, void * const q)
{
    struct elem * const e = p;
    struct vctx * const c = q;
    const size_t calls = c->calls + 1;

    visit_common(c, e);

    if (c->use_other) {
        /* toggle the membership of this element in the auxiliary table */
        if (e->in_aux) {
            cstl_hash_erase(&AUX, e);
            e->in_aux = 0;
            aux_count--;
        } else {
            cstl_hash_insert(&AUX, (size_t)e->id, e);
            e->in_aux = 1;
            aux_count++;
        }
        if ((calls & 15) == 3) {
            cstl_hash_resize(&AUX, 1 + (calls % 37), NULL);
        }
        CHECK(cstl_hash_size(&AUX) == aux_count);
    }
    e->pad[0] = (long)calls;    /* altering the object is allowed */

    if (c->erase_mod != 0 && e->id % c->erase_mod == 0) {
        /*
         * remove and free the element being visited. the model is
         * not touched here (the slot bookkeeping must stay stable
         * during the enumeration); see check_foreach_erase()
         */
        cstl_hash_erase(&c->w->h, e);
        c->w->live[e->slot] = NULL;
        c->w->seen[e->slot] = 0;
        c->erased++;
        elem_free(e);
        /* poisoned and gone; the library must not look at it again */
    }

    if (c->stop_at != 0 && calls == c->stop_at) {
        return c->stop_val;
    }
    return 0;
}

static unsigned long enumerations;
static void seen_reset(struct world * const w)
{
    enumerations++;
    size_t i;
    for (i = 0; i < w->nlive; i++) {
        w->seen[i] = 0;
    }
}

static void seen_all_once(const struct world * const w)
{
    size_t i;
    for (i = 0; i < w->nlive; i++) {
        CHECK(w->seen[i] == 1);
    }
}

/* foreach_const visits every live element exactly once; no side effects */
static void check_const(struct world * const w, const int use_other)
{
    struct vctx c;
    memset(&c, 0, sizeof(c));
    c.w = w;
    c.use_other = use_other;
    seen_reset(w);
    CHECK(cstl_hash_foreach_const(&w->h, visit_const, &c) == 0);
    CHECK(c.calls == w->nlive);
    CHECK(cstl_hash_size(&w->h) == w->nlive);
    seen_all_once(w);
}

/* foreach (forces the rehash to finish) visits everything exactly once */
static void check_mut(struct world * const w, const int use_other)
{
    struct vctx c;
    memset(&c, 0, sizeof(c));
    c.w = w;
    c.use_other = use_other;
    seen_reset(w);
    CHECK(cstl_hash_foreach(&w->h, visit_mut, &c) == 0);
    CHECK(c.calls == w->nlive);
    CHECK(cstl_hash_size(&w->h) == w->nlive);
    seen_all_once(w);
}

/* stop at the k-th call with value val */
static void check_stop(struct world * const w, const size_t k,
                       const int val, const int mut)
{
    struct vctx c;
    int res;
    size_t i, n;

    memset(&c, 0, sizeof(c));
    c.w = w;
    c.stop_at = k;
    c.stop_val = val;
    seen_reset(w);
    if (mut) {
        res = cstl_hash_foreach(&w->h, visit_mut, &c);
    } else {
        res = cstl_hash_foreach_const(&w->h, visit_const, &c);
    }
    if (k >= 1 && k <= w->nlive) {
        CHECK(res == val);
        CHECK(c.calls == k);
    } else {
        CHECK(res == 0);
        CHECK(c.calls == w->nlive);
    }
    for (i = 0, n = 0; i < w->nlive; i++) {
        CHECK(w->seen[i] <= 1);
        n += w->seen[i];
    }
    CHECK(n == c.calls);
    CHECK(cstl_hash_size(&w->h) == w->nlive);
}

/*
 * foreach whose callback erases and frees the visited element when
 * id % mod == 0, optionally stopping early
 */
static void check_foreach_erase(struct world * const w, const int mod,
                                const size_t stop_at, const int use_other)
{
    struct vctx c;
    const size_t before = w->nlive;
    size_t i, visited_survivors = 0;
    int res;

    memset(&c, 0, sizeof(c));
    c.w = w;
    c.erase_mod = mod;
    c.stop_at = stop_at;
    c.stop_val = -7;
    c.use_other = use_other;
    seen_reset(w);
    res = cstl_hash_foreach(&w->h, visit_mut, &c);
    if (stop_at >= 1 && stop_at <= before) {
        CHECK(res == -7);
        CHECK(c.calls == stop_at);
    } else {
        CHECK(res == 0);
        CHECK(c.calls == before);
    }
    CHECK(cstl_hash_size(&w->h) == before - c.erased);

    /* compact the model: drop the slots of erased elements */
    for (i = 0; i < w->nlive; ) {
        if (w->live[i] == NULL) {
            w->live[i] = w->live[w->nlive - 1];
            w->seen[i] = w->seen[w->nlive - 1];
            w->nlive--;
        } else {
            w->live[i]->slot = i;
            if (stop_at == 0) {
                CHECK(w->seen[i] == 1);
                CHECK(mod == 0 || w->live[i]->id % mod != 0);
            }
            visited_survivors += w->seen[i];
            i++;
        }
    }
    CHECK(visited_survivors + c.erased == c.calls);
    CHECK(w->nlive == before - c.erased);
    check_const(w, 0);
}

/* ------------------------------------------------------------------ */
/* clear                                                              */

static struct
{
    struct world * w;
    size_t calls;
    int mode;       /* 0: free all; 1: keep even ids in KEEP, free the rest */
} clr_ctx;

static void clear_cb(void * const p, void * const priv)
{
    struct elem * const e = p;
    struct world * const w = clr_ctx.w;

    CHECK(priv == NULL);
    CHECK(e != NULL && e->magic == MAGIC_LIVE);
    CHECK(e->slot < w->nlive && w->live[e->slot] == e);
    w->seen[e->slot]++;
    CHECK(w->seen[e->slot] == 1);
    clr_ctx.calls++;

    /* ownership is ours from here on */
    w->live[e->slot] = NULL;
    if (clr_ctx.mode == 1 && e->id % 2 == 0) {
        /* reuse the very same link in another table, right away */
        cstl_hash_insert(&KEEP, e->key, e);
        keep_count++;
        if ((keep_count & 7) == 0) {
            cstl_hash_resize(&KEEP, 1 + (keep_count % 23), NULL);
        }
    } else {
        elem_free(e);
    }
}

static int keep_visit(const void * const p, void * const q)
{
    const struct elem * const e = p;
    CHECK(e->magic == MAGIC_LIVE && e->id % 2 == 0);
    ++*(size_t *)q;
    return 0;
}

static void keep_free(void * const p, void * const priv)
{
    CHECK(priv == NULL);
    elem_free(p);
    keep_count--;
}

static int never_visit(const void * const e, void * const p)
{
    (void)e; (void)p;
    die("callback on an empty table", __LINE__);
    return 1;
}
static int never_visit_mut(void * const e, void * const p)
{
    (void)e; (void)p;
    die("callback on an empty table", __LINE__);
    return 1;
}

static void check_empty(struct world * const w)
{
    CHECK(cstl_hash_size(&w->h) == 0);
    CHECK(cstl_hash_foreach_const(&w->h, never_visit, NULL) == 0);
    CHECK(cstl_hash_foreach(&w->h, never_visit_mut, NULL) == 0);
}

/* mode 0/1 as in clr_ctx; mode 2: NULL callback */
static void check_clear(struct world * const w, const int mode)
{
    const size_t before = w->nlive;
    size_t i, n;

    if (mode == 2) {
        cstl_hash_clear(&w->h, NULL);
        for (i = 0; i < w->nlive; i++) {
            elem_free(w->live[i]);
        }
    } else {
        CHECK(keep_count == 0);
        cstl_hash_resize(&KEEP, 3, cstl_hash_div);
        clr_ctx.w = w;
        clr_ctx.calls = 0;
        clr_ctx.mode = mode;
        seen_reset(w);
        cstl_hash_clear(&w->h, clear_cb);
        CHECK(clr_ctx.calls == before);
        for (i = 0; i < before; i++) {
            CHECK(w->seen[i] == 1);
            CHECK(w->live[i] == NULL);
        }
        n = 0;
        CHECK(cstl_hash_foreach_const(&KEEP, keep_visit, &n) == 0);
        CHECK(n == keep_count && cstl_hash_size(&KEEP) == keep_count);
        cstl_hash_clear(&KEEP, keep_free);
        CHECK(keep_count == 0);
    }
    w->nlive = 0;
    check_empty(w);

    /* clearing again is harmless, callback or not */
    cstl_hash_clear(&w->h, (mode == 2) ? NULL : clear_cb);
    check_empty(w);
}

/* ------------------------------------------------------------------ */
/* small scope, all stages                                            */

static size_t small_key(const int keymode, const size_t i)
{
    switch (keymode) {
    case 0: return i;
    case 1: return i / 2;               /* duplicate keys */
    case 2: return SIZE_MAX - i;        /* boundary values */
    default: return (i & 1) ? 0 : SIZE_MAX;
    }
}

static void small_scope_one(const size_t n, const size_t c0, const size_t c1,
                            cstl_hash_func_t * const f0,
                            cstl_hash_func_t * const f1,
                            const size_t stage, const int finale,
                            const int keymode)
{
    struct world w;
    size_t i, k;

    world_init(&w, (int)((n + stage) & 1));
    check_empty(&w);
    cstl_hash_resize(&w.h, c0, f0);
    check_empty(&w);
    for (i = 0; i < n; i++) {
        w_insert(&w, small_key(keymode, i));
    }
    check_const(&w, 0);

    /* a rehash is pending from here on (unless nothing changed) */
    cstl_hash_resize(&w.h, c1, f1);
    for (i = 0; i < stage; i++) {
        check_const(&w, 0);
        w_find(&w, i * 7 + 3);
        if (i == 1) {
            /* lands in the new geometry, possibly beyond the old count */
            w_insert(&w, small_key(keymode, n + i));
        }
        if (i == 2 && w.nlive > 0) {
            w_erase(&w, w.live[0]);
        }
    }
    check_const(&w, 1);
    for (k = 0; k <= w.nlive + 1; k++) {
        check_stop(&w, k, (k & 1) ? INT_MIN : 42, 0);
    }
    check_const(&w, 0);

    switch (finale) {
    case 0:
        check_clear(&w, 0);
        break;
    case 1:
        check_clear(&w, 1);
        break;
    case 2:
        check_clear(&w, 2);
        break;
    case 3:
        check_foreach_erase(&w, 1, 0, 0);
        CHECK(w.nlive == 0);
        check_empty(&w);
        check_clear(&w, 0);
        break;
    case 4:
        check_foreach_erase(&w, 2, 0, 1);
        check_mut(&w, 1);
        check_clear(&w, 1);
        break;
    default:
        for (k = 0; k <= w.nlive + 1; k++) {
            check_stop(&w, k, INT_MAX, 1);
        }
        check_foreach_erase(&w, 3, (w.nlive / 2) + 1, 0);
        check_clear(&w, 0);
        break;
    }

    /* empty and reusable after a fresh resize */
    cstl_hash_resize(&w.h, c1, NULL);
    check_empty(&w);
    for (i = 0; i < 3; i++) {
        w_insert(&w, i);
    }
    check_const(&w, 0);
    check_mut(&w, 0);
    check_clear(&w, 0);

    free(w.live);
    free(w.seen);
}

static void small_scope(void)
{
    static const size_t hp[][2] = {
        { 0, 0 }, { 1, 1 }, { 0, 1 }, { 1, 0 }, { 1, 2 }, { 3, 1 },
        { 2, 3 }, { 4, 5 }, { 5, 1 }
    };
    size_t n, c0, c1, p, stage;
    unsigned long worlds = 0;

    for (n = 0; n <= 6; n++) {
        for (c0 = 1; c0 <= 5; c0++) {
            for (c1 = 1; c1 <= 7; c1++) {
                for (p = 0; p < sizeof(hp) / sizeof(hp[0]); p++) {
                    for (stage = 0; stage <= c0 + 1 && stage <= 5; stage++) {
                        const int finale = (int)((worlds++) % 6);
                        const int keymode = (int)((worlds / 6) % 4);
                        small_scope_one(n, c0, c1,
                                        HASHES[hp[p][0]], HASHES[hp[p][1]],
                                        stage, finale, keymode);
                    }
                }
            }
        }
    }
    CHECK(worlds > 1000);
}

/* ------------------------------------------------------------------ */
/* a fixed chain of geometry changes, checked at every link           */

struct dupctx
{
    struct world * w;
    size_t key;
    size_t calls;
};

static int dup_visit(const void * const p, void * const q)
{
    const struct elem * const e = p;
    struct dupctx * const d = q;
    CHECK(e->magic == MAGIC_LIVE && e->key == d->key);
    CHECK(e->slot < d->w->nlive && d->w->live[e->slot] == e);
    d->w->seen[e->slot]++;
    CHECK(d->w->seen[e->slot] == 1);
    d->calls++;
    return 0;
}

/* a lookup that accepts nothing is offered every element with the key */
static void check_dups(struct world * const w, const size_t key)
{
    struct dupctx d;
    size_t i, expect = 0;

    d.w = w;
    d.key = key;
    d.calls = 0;
    seen_reset(w);
    CHECK(cstl_hash_find(&w->h, key, dup_visit, &d) == NULL);
    for (i = 0; i < w->nlive; i++) {
        if (w->live[i]->key == key) {
            expect++;
            CHECK(w->seen[i] == 1);
        } else {
            CHECK(w->seen[i] == 0);
        }
    }
    CHECK(d.calls == expect);
}

static void check_all(struct world * const w)
{
    size_t k;
    check_const(w, 1);
    for (k = 0; k <= w->nlive + 1; k += 1 + w->nlive / 7) {
        check_stop(w, k, -1, 0);
    }
    check_dups(w, 0);
    check_dups(w, 5);
    check_dups(w, SIZE_MAX);
    check_const(w, 0);
}

static void geometry_chain(const size_t n, cstl_hash_func_t * const f,
                           cstl_hash_func_t * const g)
{
    struct world A, B, t;
    size_t i;

    world_init(&A, 1);
    world_init(&B, 0);
    cstl_hash_resize(&A.h, 3, f);
    cstl_hash_resize(&B.h, 11, g);
    for (i = 0; i < n; i++) {
        w_insert(&A, (i % 3 == 0) ? 5 : i);
        w_insert(&B, (i % 4 == 0) ? SIZE_MAX : i * 31);
    }
    check_all(&A);

    cstl_hash_resize(&A.h, 40, NULL);           /* grow, pending */
    check_all(&A);
    w_insert(&A, 0);
    w_insert(&A, 0);
    check_all(&A);
    cstl_hash_resize(&A.h, 7, g);               /* completes, then shrinks */
    check_all(&A);
    for (i = 0; i < 4; i++) {
        w_find(&A, i);
        check_all(&A);
    }
    cstl_hash_resize(&A.h, 64, f);              /* completes, grows */
    check_all(&A);
    cstl_hash_rehash(&A.h);
    check_all(&A);
    cstl_hash_rehash(&A.h);                     /* nothing pending */
    check_all(&A);
    cstl_hash_resize(&A.h, 9, NULL);
    cstl_hash_shrink_to_fit(&A.h);              /* completes, trims */
    check_all(&A);
    cstl_hash_shrink_to_fit(&A.h);
    check_all(&A);
    cstl_hash_resize(&A.h, 1, NULL);            /* everything in one chain */
    check_all(&A);
    w_find(&A, 1);
    check_all(&A);
    cstl_hash_resize(&A.h, 0, f);               /* no-op */
    cstl_hash_resize(&A.h, 1, NULL);            /* no-op as well */
    check_all(&A);
    cstl_hash_resize(&A.h, (size_t)1 << (sizeof(size_t) * 8 - 6), NULL);
    check_all(&A);                              /* cannot be had; undisturbed */
    cstl_hash_resize(&A.h, 33, NULL);           /* A grows ... */
    w_find(&A, 2);
    cstl_hash_resize(&B.h, 2, NULL);            /* ... while B shrinks */
    w_find(&B, 2);
    check_all(&A);
    check_all(&B);

    cstl_hash_swap(&A.h, &B.h);                 /* both mid-rehash */
    t = A;
    A.live = B.live; A.seen = B.seen; A.nlive = B.nlive; A.cap = B.cap;
    B.live = t.live; B.seen = t.seen; B.nlive = t.nlive; B.cap = t.cap;
    check_all(&A);
    check_all(&B);
    w_insert(&A, 5);
    w_insert(&B, 5);
    check_all(&A);
    check_all(&B);

    check_foreach_erase(&B, 2, 0, 1);           /* B: finishes the rehash */
    check_all(&B);
    check_clear(&A, 1);                         /* A: cleared while pending */
    check_clear(&B, 0);

    /* both are as good as new */
    cstl_hash_resize(&A.h, 2, NULL);
    cstl_hash_resize(&B.h, 5, g);
    for (i = 0; i < n; i++) {
        w_insert((i & 1) ? &A : &B, i);
    }
    cstl_hash_resize(&A.h, 5, NULL);
    cstl_hash_resize(&B.h, 2, NULL);
    check_all(&A);
    check_all(&B);
    check_mut(&A, 1);
    check_mut(&B, 0);
    check_clear(&A, 2);
    check_clear(&B, 1);

    free(A.live); free(A.seen);
    free(B.live); free(B.seen);
}

/* ------------------------------------------------------------------ */
/* seeded random histories on two tables                              */

static void history(const uint64_t seed, const unsigned nops,
                    const size_t maxn, const size_t maxb)
{
    struct world W[2];
    unsigned op;
    size_t i;

    rng_state = seed * 0x9e3779b97f4a7c15ull + 1;
    world_init(&W[0], 1);
    world_init(&W[1], 0);
    cstl_hash_resize(&W[0].h, 1 + rndn(maxb), HASHES[rndn(NHASHES)]);
    cstl_hash_resize(&W[1].h, 1 + rndn(maxb), NULL);

    for (op = 0; op < nops; op++) {
        struct world * const w = &W[rnd() & 1];
        const unsigned r = (unsigned)rndn(100);

        if (r < 30) {
            if (w->nlive < maxn) {
                size_t key;
                switch (rndn(6)) {
                case 0: key = 0; break;
                case 1: key = SIZE_MAX - rndn(3); break;
                case 2: key = rndn(8); break;
                default: key = (size_t)rnd(); break;
                }
                w_insert(w, key);
            }
        } else if (r < 42) {
            if (w->nlive > 0) {
                w_erase(w, w->live[rndn(w->nlive)]);
            }
        } else if (r < 55) {
            w_find(w, (size_t)rnd());
        } else if (r < 67) {
            /* grow, shrink, change function, or nothing at all */
            cstl_hash_func_t * const f =
                (rnd() & 1) ? NULL : HASHES[rndn(NHASHES)];
            cstl_hash_resize(&w->h, rndn(maxb + 1), f);
            if (rndn(4) == 0) {
                /* immediately again, while the first one is pending */
                cstl_hash_resize(&w->h, 1 + rndn(maxb), NULL);
            }
        } else if (r < 70) {
            cstl_hash_rehash(&w->h);
        } else if (r < 73) {
            cstl_hash_shrink_to_fit(&w->h);
        } else if (r < 75) {
            /* a resize that cannot be satisfied leaves the table alone */
            const float load = cstl_hash_load(&w->h);
            cstl_hash_resize(&w->h, (size_t)1 << (sizeof(size_t) * 8 - 6),
                             NULL);
            CHECK(load == cstl_hash_load(&w->h) || load != load);
        } else if (r < 78) {
            struct world t;
            cstl_hash_swap(&W[0].h, &W[1].h);
            t = W[0];
            W[0].live = W[1].live; W[0].seen = W[1].seen;
            W[0].nlive = W[1].nlive; W[0].cap = W[1].cap;
            W[1].live = t.live; W[1].seen = t.seen;
            W[1].nlive = t.nlive; W[1].cap = t.cap;
        } else if (r < 86) {
            /* any non-zero value stops the walk and is handed back */
            check_stop(w, rndn(w->nlive + 3),
                       (rnd() & 1) ? 1 + (int)rndn(9) : -1 - (int)rndn(9),
                       (int)(rnd() & 1));
        } else if (r < 90) {
            check_mut(w, (int)(rnd() & 1));
        } else if (r < 95) {
            check_foreach_erase(w, (int)rndn(5),
                                (rnd() & 3) ? 0 : 1 + rndn(w->nlive + 2),
                                (int)(rnd() & 1));
        } else if (r < 98) {
            check_clear(w, (int)rndn(3));
            if (rnd() & 1) {
                /* statically initialised state is equally good */
                check_empty(w);
            }
            cstl_hash_resize(&w->h, 1 + rndn(maxb), HASHES[rndn(NHASHES)]);
            check_empty(w);
        } else {
            cstl_hash_resize(&AUX, 1 + rndn(40), HASHES[rndn(2)]);
        }

        /* the read-only enumeration after every single step */
        check_const(&W[0], (int)(op & 1));
        check_const(&W[1], 0);
    }

    for (i = 0; i < 2; i++) {
        check_clear(&W[i], (int)i);
        free(W[i].live);
        free(W[i].seen);
    }
    CHECK(aux_count == 0 && cstl_hash_size(&AUX) == 0);
}

/* ------------------------------------------------------------------ */
/* the statically initialised table of the other element type         */

static int small_seen(void * const e, void * const p)
{
    struct small * const s = e;
    s->seen++;
    ++*(size_t *)p;
    return 0;
}

static int small_erase_odd(void * const e, void * const p)
{
    struct small * const s = e;
    s->seen++;
    if (s->id & 1) {
        cstl_hash_erase(&SMALLS, s);
        memset(s, 0xee, sizeof(*s));
        free(s);
        ++*(size_t *)p;
    }
    return 0;
}

static size_t smalls_cleared;
static void small_clear(void * const e, void * const priv)
{
    struct small * const s = e;
    CHECK(priv == NULL);
    CHECK(s->seen == 2 && (s->id & 1) == 0);
    s->seen = 99;
    smalls_cleared++;
    memset(s, 0xee, sizeof(*s));
    free(s);
}

static void smalls_fill(const size_t n)
{
    size_t i;
    for (i = 0; i < n; i++) {
        struct small * const s = malloc(sizeof(*s));
        CHECK(s != NULL);
        s->id = (int)i;
        s->seen = 0;
        cstl_hash_insert(&SMALLS, i * 2654435761u, s);
    }
}

static void big(const size_t n)
{
    size_t cnt, k;

    /* never resized: nothing to visit, nothing to clear */
    cnt = 0;
    CHECK(cstl_hash_foreach_const(&SMALLS, small_count, &cnt) == 0);
    CHECK(cstl_hash_foreach(&SMALLS, small_seen, &cnt) == 0);
    CHECK(cnt == 0);
    smalls_cleared = 0;
    cstl_hash_clear(&SMALLS, small_clear);
    CHECK(smalls_cleared == 0);

    cstl_hash_resize(&SMALLS, 64, hash_knuth);
    smalls_fill(n);
    /* grow a lot; almost everything is still in the old buckets */
    cstl_hash_resize(&SMALLS, n + n / 2 + 1, cstl_hash_div);
    for (k = 0; k < 5; k++) {
        struct small * s;
        cnt = 0;
        CHECK(cstl_hash_foreach_const(&SMALLS, small_count, &cnt) == 0);
        CHECK(cnt == n);
        s = cstl_hash_find(&SMALLS, (k * 977) * 2654435761u, NULL, NULL);
        CHECK(s != NULL && (size_t)s->id == k * 977);
    }
    cnt = 0;
    CHECK(cstl_hash_foreach(&SMALLS, small_seen, &cnt) == 0);
    CHECK(cnt == n);

    /* shrink; pending again */
    cstl_hash_resize(&SMALLS, 1021, NULL);
    cnt = 0;
    CHECK(cstl_hash_foreach_const(&SMALLS, small_count, &cnt) == 0);
    CHECK(cnt == n);
    (void)cstl_hash_find(&SMALLS, 12345, NULL, NULL);
    cnt = 0;
    CHECK(cstl_hash_foreach_const(&SMALLS, small_count, &cnt) == 0);
    CHECK(cnt == n);

    cnt = 0;
    CHECK(cstl_hash_foreach(&SMALLS, small_erase_odd, &cnt) == 0);
    CHECK(cnt == n / 2);
    CHECK(cstl_hash_size(&SMALLS) == n - n / 2);

    /* clear while yet another rehash is pending */
    cstl_hash_resize(&SMALLS, 4099, cstl_hash_mul);
    (void)cstl_hash_find(&SMALLS, 1, NULL, NULL);
    smalls_cleared = 0;
    cstl_hash_clear(&SMALLS, small_clear);
    CHECK(smalls_cleared == n - n / 2);
    CHECK(cstl_hash_size(&SMALLS) == 0);
    cnt = 0;
    CHECK(cstl_hash_foreach_const(&SMALLS, small_count, &cnt) == 0);
    CHECK(cnt == 0);

    /* reusable */
    smalls_cleared = 0;
    cstl_hash_resize(&SMALLS, 8, NULL);
    smalls_fill(100);
    cnt = 0;
    CHECK(cstl_hash_foreach(&SMALLS, small_seen, &cnt) == 0);
    CHECK(cnt == 100);
    cnt = 0;
    CHECK(cstl_hash_foreach(&SMALLS, small_seen, &cnt) == 0);
    CHECK(cnt == 100);
    cnt = 0;
    CHECK(cstl_hash_foreach(&SMALLS, small_erase_odd, &cnt) == 0);
    CHECK(cnt == 50);
    cstl_hash_clear(&SMALLS, NULL);
    CHECK(cstl_hash_size(&SMALLS) == 0);
    /* (the 50 survivors are deliberately leaked: NULL callback) */
}

int main(void)
{
    uint64_t seed;

    cstl_hash_resize(&SIDE, 4, NULL);
    cstl_hash_init(&KEEP, offsetof(struct elem, na));
    cstl_hash_resize(&AUX, 5, cstl_hash_div);
    cstl_hash_resize(&SMALLS, 3, NULL);
    smalls_fill(40);

    small_scope();

    {
        size_t n, f, g;
        for (n = 0; n <= 60; n += 1 + n / 4) {
            for (f = 0; f < NHASHES; f++) {
                for (g = 0; g < NHASHES; g++) {
                    geometry_chain(n, HASHES[f], HASHES[g]);
                }
            }
        }
    }

    for (seed = 1; seed <= 400; seed++) {
        history(seed, 700, 40, 12);
    }
    for (seed = 1000; seed <= 1040; seed++) {
        history(seed, 1500, 300, 200);
    }
    history(7777, 4000, 8, 3);
    CHECK(user_hash_calls > 0);

    /* the SMALLS table has been enumerated from callbacks all along */
    {
        size_t n = 0;
        CHECK(cstl_hash_foreach(&SMALLS, small_erase_odd, &n) == 0);
        CHECK(n == 20);
        n = 0;
        CHECK(cstl_hash_foreach(&SMALLS, small_seen, &n) == 0);
        CHECK(n == 20);
        smalls_cleared = 0;
        cstl_hash_clear(&SMALLS, small_clear);
        CHECK(smalls_cleared == 20);
    }
    big(200000);

    cstl_hash_clear(&AUX, NULL);
    cstl_hash_clear(&KEEP, NULL);
    cstl_hash_clear(&SIDE, NULL);

    printf("C04 test: ok (%lu checked enumerations)\n", enumerations);
    return 0;
}
