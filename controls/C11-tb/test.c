/*
 * C11: every sort algorithm returns a sorted permutation and the
 * searches agree with it.
 *
 * Standalone test, public API only (cstl/array.h, cstl/vector.h).
 *
 * Nothing here depends on HOW the library sorts: no assumption is made
 * about the number or order of comparisons and swaps, about which
 * elements are handed to the callbacks, about how often rand() is
 * called, or about whether the scratch element is written at all.
 */
#include "cstl/array.h"
#include "cstl/vector.h"

#include <stdio.h>
#include <stdlib.h>
#include <string.h>
#include <stdint.h>
#include <limits.h>

/* ------------------------------------------------------------------ */
/* failure reporting */

static unsigned long checks;

#define FAIL(...)                                               \
    do {                                                        \
        fprintf(stderr, "FAIL %s:%d: ", __FILE__, __LINE__);    \
        fprintf(stderr, __VA_ARGS__);                           \
        fprintf(stderr, "\n");                                  \
        exit(1);                                                \
    } while (0)

#define CHECK(C, ...)                           \
    do {                                        \
        checks++;                               \
        if (!(C)) {                             \
            FAIL(__VA_ARGS__);                  \
        }                                       \
    } while (0)

/* ------------------------------------------------------------------ */
/*
 * rand() is replaced so that the pivots drawn by the randomised
 * quicksort can be steered. The test never requires that rand() is
 * called, nor how often.
 */

/*
 * NB: a draw that selects the LAST element of a (sub)array as the pivot
 * may legitimately make no progress (the library then simply draws
 * again), so no mode may keep returning count-1 modulo count for ever:
 * there is no "constant k" mode except for k = 0.
 */
enum { RAND_ZERO, RAND_FIRST, RAND_INC, RAND_LCG, RAND_ALT };
static int rand_first;
static int rand_mode = RAND_LCG;
static unsigned int rand_state = 12345;
static unsigned int rand_arg;

int rand(void)
{
    unsigned int r;

    switch (rand_mode) {
    case RAND_ZERO:
        r = 0;
        break;
    case RAND_FIRST:
        /* the first draw is dictated, the rest is pseudo-random */
        if (rand_first) {
            rand_first = 0;
            r = rand_arg;
            break;
        }
        rand_state = rand_state * 1103515245u + 12345u;
        r = rand_state >> 8;
        break;
    case RAND_INC:
        r = rand_state++;
        break;
    case RAND_ALT:
        /* alternately the lowest and the highest residue */
        r = (rand_state++ & 1) ? (unsigned int)RAND_MAX : 0;
        break;
    default:
        rand_state = rand_state * 1103515245u + 12345u;
        r = rand_state >> 8;
        break;
    }
    return (int)(r & (unsigned int)RAND_MAX);
}

static void rand_set(const int mode, const unsigned int arg)
{
    rand_mode = mode;
    rand_arg = arg;
    rand_state = arg;
    rand_first = 1;
}

/* ------------------------------------------------------------------ */
/*
 * the arena: [guard][array of max elements][guard], plus a separate
 * scratch element with its own guards
 */

#define GUARD       64
#define MAXBYTES    (1 << 18)
#define CANARY      0xA5

static union
{
    uint64_t align;
    unsigned char b[GUARD + MAXBYTES + GUARD];
} arena;
static union
{
    uint64_t align;
    unsigned char b[GUARD + 64 + GUARD];
} scratch;

static unsigned char * arr_base;        /* first element */
static size_t arr_count, arr_size;
static unsigned char * tmp_base;        /* scratch element */

static void arena_setup(const size_t count, const size_t size,
                        const size_t misalign)
{
    if (count * size + misalign > MAXBYTES || size > 64 - 8) {
        FAIL("test arena too small");
    }
    memset(arena.b, CANARY, sizeof(arena.b));
    memset(scratch.b, CANARY, sizeof(scratch.b));
    arr_base = arena.b + GUARD + misalign;
    arr_count = count;
    arr_size = size;
    tmp_base = scratch.b + GUARD + misalign;
}

static void arena_check(const char * const what)
{
    size_t i;
    const unsigned char * const end = arr_base + arr_count * arr_size;
    const unsigned char * const tend = tmp_base + arr_size;

    for (i = 0; arena.b + i < arr_base; i++) {
        CHECK(arena.b[i] == CANARY,
              "%s: wrote before the array (offset -%lu)", what,
              (unsigned long)(arr_base - (arena.b + i)));
    }
    /* a window past the end is enough; the whole arena is costly */
    for (i = 0; i < 320 && end + i < arena.b + sizeof(arena.b); i++) {
        CHECK(end[i] == CANARY,
              "%s: wrote past the array (offset +%lu)", what,
              (unsigned long)i);
    }
    for (i = 0; scratch.b + i < tmp_base; i++) {
        CHECK(scratch.b[i] == CANARY,
              "%s: wrote before the scratch element", what);
    }
    for (i = 0; tend + i < scratch.b + sizeof(scratch.b); i++) {
        CHECK(tend[i] == CANARY,
              "%s: wrote past the scratch element", what);
    }
}

/* ------------------------------------------------------------------ */
/*
 * elements: byte 0 is the key; the remaining bytes (if any) encode
 * the element's original position (little endian, as many bytes as fit)
 * so that lost or duplicated elements are noticed byte for byte.
 */

static void elem_make(unsigned char * const e, const size_t size,
                      const unsigned int key, const size_t origin)
{
    size_t i;
    e[0] = (unsigned char)key;
    for (i = 1; i < size; i++) {
        e[i] = (unsigned char)((origin >> (8 * ((i - 1) % 4))) ^ (i * 37));
    }
}

static unsigned long cmp_calls, swap_calls;
static int cmp_check_range;

static int in_array(const void * const p)
{
    const unsigned char * const c = p;
    return c >= arr_base && c < arr_base + arr_count * arr_size
           && (size_t)(c - arr_base) % arr_size == 0;
}

/* sort comparison: keys only; operands must be elements or the scratch */
static int key_cmp(const void * const a, const void * const b, void * const p)
{
    cmp_calls++;
    if (cmp_check_range) {
        CHECK(p == (void *)&cmp_calls, "priv not passed through");
        CHECK(in_array(a) || a == (void *)tmp_base,
              "cmp: first operand is neither an element nor the scratch");
        CHECK(in_array(b) || b == (void *)tmp_base,
              "cmp: second operand is neither an element nor the scratch");
    }
    return (int) * (const unsigned char *)a - (int) * (const unsigned char *)b;
}

/* a comparison that only promises the sign, with big magnitudes */
static int sign_cmp(const void * const a, const void * const b, void * const p)
{
    const int d = key_cmp(a, b, p);
    return d < 0 ? INT_MIN : (d > 0 ? INT_MAX : 0);
}

/* search comparison: one operand is the probe, outside the array */
static const void * probe_ptr;
static int probe_cmp(const void * const a, const void * const b, void * const p)
{
    CHECK(p == (void *)&probe_ptr, "priv not passed through (search)");
    CHECK(a == probe_ptr || b == probe_ptr || (in_array(a) && in_array(b)),
          "search cmp: operands are neither the probe nor elements");
    CHECK(a == probe_ptr || in_array(a), "search cmp: stray first operand");
    CHECK(b == probe_ptr || in_array(b), "search cmp: stray second operand");
    return (int) * (const unsigned char *)a - (int) * (const unsigned char *)b;
}

/* a swap that ignores the scratch space completely */
static void byte_swap(void * const a, void * const b,
                      void * const t, const size_t len)
{
    unsigned char * const x = a, * const y = b;
    size_t i;

    swap_calls++;
    CHECK(len == arr_size, "swap: len %lu is not the element size %lu",
          (unsigned long)len, (unsigned long)arr_size);
    CHECK(t == (void *)tmp_base, "swap: scratch pointer not passed through");
    CHECK(in_array(a) && in_array(b), "swap: operand outside the array");
    for (i = 0; i < len; i++) {
        const unsigned char c = x[i];
        x[i] = y[i];
        y[i] = c;
    }
}

/* the library's swap, with the operands checked */
static void checked_swap(void * const a, void * const b,
                         void * const t, const size_t len)
{
    swap_calls++;
    CHECK(len == arr_size, "swap: len is not the element size");
    CHECK(t == (void *)tmp_base, "swap: scratch pointer not passed through");
    CHECK(in_array(a) && in_array(b), "swap: operand outside the array");
    cstl_swap(a, b, t, len);
}

/* ------------------------------------------------------------------ */
/* oracles */

static unsigned char snapshot[MAXBYTES];

static int bytes_cmp_size;
static int bytes_cmp(const void * const a, const void * const b)
{
    return memcmp(a, b, bytes_cmp_size);
}

static unsigned char multiset_a[MAXBYTES], multiset_b[MAXBYTES];

static void check_sorted_permutation(const char * const what)
{
    size_t i;

    for (i = 1; i < arr_count; i++) {
        CHECK(arr_base[(i - 1) * arr_size] <= arr_base[i * arr_size],
              "%s: not sorted at index %lu (count %lu, size %lu)", what,
              (unsigned long)i, (unsigned long)arr_count,
              (unsigned long)arr_size);
    }

    memcpy(multiset_a, snapshot, arr_count * arr_size);
    memcpy(multiset_b, arr_base, arr_count * arr_size);
    bytes_cmp_size = arr_size;
    qsort(multiset_a, arr_count, arr_size, bytes_cmp);
    qsort(multiset_b, arr_count, arr_size, bytes_cmp);
    CHECK(memcmp(multiset_a, multiset_b, arr_count * arr_size) == 0,
          "%s: result is not a permutation of the input "
          "(count %lu, size %lu)", what,
          (unsigned long)arr_count, (unsigned long)arr_size);
}

static void check_searches(const char * const what, const int sorted,
                           const unsigned int maxkey)
{
    static unsigned char probe[64];
    unsigned int k;

    probe_ptr = probe;
    for (k = 0; k <= maxkey; k++) {
        ssize_t first = -1, r;
        size_t i;

        elem_make(probe, arr_size, k, 0xfffffffful);
        for (i = 0; i < arr_count; i++) {
            if (arr_base[i * arr_size] == k) {
                first = i;
                break;
            }
        }

        r = cstl_raw_array_find(arr_base, arr_count, arr_size,
                                probe, probe_cmp, &probe_ptr);
        CHECK(r == first, "%s: find(%u) returned %ld, expected %ld",
              what, k, (long)r, (long)first);

        if (sorted) {
            r = cstl_raw_array_search(arr_base, arr_count, arr_size,
                                      probe, probe_cmp, &probe_ptr);
            if (first < 0) {
                CHECK(r == -1, "%s: search(%u) returned %ld, expected -1",
                      what, k, (long)r);
            } else {
                CHECK(r >= 0 && (size_t)r < arr_count,
                      "%s: search(%u) returned %ld, out of range",
                      what, k, (long)r);
                CHECK(arr_base[r * arr_size] == k,
                      "%s: search(%u) returned index %ld holding %u",
                      what, k, (long)r, arr_base[r * arr_size]);
            }
        }
    }
}

static void check_reverse(const char * const what,
                          cstl_swap_func_t * const swap)
{
    size_t i;

    memcpy(multiset_a, arr_base, arr_count * arr_size);
    cstl_raw_array_reverse(arr_base, arr_count, arr_size, swap, tmp_base);
    for (i = 0; i < arr_count; i++) {
        CHECK(memcmp(arr_base + i * arr_size,
                     multiset_a + (arr_count - 1 - i) * arr_size,
                     arr_size) == 0,
              "%s: reverse did not mirror index %lu", what, (unsigned long)i);
    }
    arena_check(what);
    /* and back again, so that the caller's view is unchanged */
    cstl_raw_array_reverse(arr_base, arr_count, arr_size, swap, tmp_base);
    CHECK(memcmp(arr_base, multiset_a, arr_count * arr_size) == 0,
          "%s: reversing twice is not the identity", what);
    arena_check(what);
}

/* ------------------------------------------------------------------ */

static const cstl_sort_algorithm_t algos[] = {
    CSTL_SORT_ALGORITHM_QUICK,
    CSTL_SORT_ALGORITHM_QUICK_R,
    CSTL_SORT_ALGORITHM_QUICK_M,
    CSTL_SORT_ALGORITHM_HEAP,
    CSTL_SORT_ALGORITHM_DEFAULT,
    (cstl_sort_algorithm_t)4,
    (cstl_sort_algorithm_t)5,
    (cstl_sort_algorithm_t)99,
    (cstl_sort_algorithm_t)0x7fffffff,
    (cstl_sort_algorithm_t) - 1,
};
#define NALGOS (sizeof(algos) / sizeof(algos[0]))

static const size_t sizes[] = { 1, 2, 4, 8, 3, 5, 7, 12, 16, 24, 33 };
#define NSIZES (sizeof(sizes) / sizeof(sizes[0]))

static void fill(const unsigned int * const keys, const size_t count,
                 const size_t size, const size_t misalign)
{
    size_t i;
    arena_setup(count, size, misalign);
    for (i = 0; i < count; i++) {
        elem_make(arr_base + i * size, size, keys[i], i);
    }
    memcpy(snapshot, arr_base, count * size);
}

static void refill(void)
{
    memcpy(arr_base, snapshot, arr_count * arr_size);
    memset(tmp_base, CANARY, arr_size);
}

static void sort_and_check(const char * const what,
                           cstl_compare_func_t * const cmp,
                           cstl_swap_func_t * const swap,
                           const cstl_sort_algorithm_t algo,
                           const unsigned int maxkey)
{
    cstl_raw_array_sort(arr_base, arr_count, arr_size,
                        cmp, &cmp_calls, swap, tmp_base, algo);
    arena_check(what);
    check_sorted_permutation(what);
    check_searches(what, 1, maxkey);
}

/* all arrays of length 0..maxlen over the alphabet 0..alpha-1 */
static void exhaustive(const size_t maxlen, const unsigned int alpha,
                       const size_t size, const size_t misalign)
{
    unsigned int keys[16];
    size_t len;

    for (len = 0; len <= maxlen; len++) {
        unsigned long n, total = 1;
        size_t i;

        for (i = 0; i < len; i++) {
            total *= alpha;
        }

        for (n = 0; n < total; n++) {
            unsigned long v = n;
            size_t a;

            for (i = 0; i < len; i++) {
                keys[i] = v % alpha;
                v /= alpha;
            }

            fill(keys, len, size, misalign);
            cmp_check_range = 1;

            /* the untouched (usually unsorted) array: find and reverse */
            check_searches("find/unsorted", 0, alpha);
            check_reverse("reverse", (n & 1) ? checked_swap : byte_swap);

            for (a = 0; a < NALGOS; a++) {
                if (algos[a] == CSTL_SORT_ALGORITHM_QUICK_R) {
                    unsigned int k;

                    /* every possible first draw, then a few sequences */
                    for (k = 0; k <= len; k++) {
                        rand_set(RAND_FIRST, k);
                        refill();
                        sort_and_check("quick_r/first", key_cmp,
                                       checked_swap, algos[a], alpha);
                    }
                    rand_set(RAND_ZERO, 0);
                    refill();
                    sort_and_check("quick_r/zero", key_cmp,
                                   checked_swap, algos[a], alpha);
                    for (k = 0; k < 4; k++) {
                        rand_set(RAND_INC, k);
                        refill();
                        sort_and_check("quick_r/inc", key_cmp,
                                       byte_swap, algos[a], alpha);
                    }
                    rand_set(RAND_ALT, 0);
                    refill();
                    sort_and_check("quick_r/alt", key_cmp,
                                   checked_swap, algos[a], alpha);
                    rand_set(RAND_ALT, 1);
                    refill();
                    sort_and_check("quick_r/alt", key_cmp,
                                   checked_swap, algos[a], alpha);
                    rand_set(RAND_LCG, (unsigned int)n);
                }

                refill();
                sort_and_check("sort/cstl_swap", key_cmp,
                               checked_swap, algos[a], alpha);
                /* sorting the sorted result again */
                memcpy(snapshot, arr_base, arr_count * arr_size);
                sort_and_check("sort/again", sign_cmp,
                               checked_swap, algos[a], alpha);
                check_reverse("reverse/sorted", checked_swap);
                /* and the reversed (non-increasing) result */
                cstl_raw_array_reverse(arr_base, arr_count, arr_size,
                                       cstl_swap, tmp_base);
                memcpy(snapshot, arr_base, arr_count * arr_size);
                sort_and_check("sort/reversed", key_cmp,
                               byte_swap, algos[a], alpha);

                /* restore the original contents */
                for (i = 0; i < len; i++) {
                    elem_make(snapshot + i * size, size, keys[i], i);
                }
                refill();
                sort_and_check("sort/byte_swap", sign_cmp,
                               byte_swap, algos[a], alpha);
                refill();
            }
        }
    }
}

/* ------------------------------------------------------------------ */
/* large adversarial inputs */

static unsigned int bigkeys[20000];

static void gen(const int pattern, const size_t n)
{
    size_t i;
    unsigned int s = 2463534242u;

    for (i = 0; i < n; i++) {
        switch (pattern) {
        case 0: bigkeys[i] = (i * 256) / n; break;                 /* sorted */
        case 1: bigkeys[i] = 255 - (i * 256) / n; break;           /* reversed */
        case 2: bigkeys[i] = 7; break;                             /* constant */
        case 3: bigkeys[i] = (i * 7919u >> 3) & 1; break;          /* two-valued */
        case 4:                                                    /* organ pipe */
            bigkeys[i] = ((i < n / 2 ? i : n - 1 - i) * 512) / n;
            if (bigkeys[i] > 255) bigkeys[i] = 255;
            break;
        case 5: bigkeys[i] = i & 1 ? 0 : 255; break;               /* zig-zag */
        case 6:                                                    /* random */
            s ^= s << 13; s ^= s >> 17; s ^= s << 5;
            bigkeys[i] = s & 0xff;
            break;
        case 7:                                                    /* few random */
            s ^= s << 13; s ^= s >> 17; s ^= s << 5;
            bigkeys[i] = s % 3;
            break;
        case 8: bigkeys[i] = i == n - 1 ? 0 : 1 + (i * 250) / n; break; /* sorted, min last */
        case 9: bigkeys[i] = i == 0 ? 255 : (i * 250) / n; break;  /* sorted, max first */
        default:                                                   /* sawtooth */
            bigkeys[i] = i % 17;
            break;
        }
    }
}

static void large(void)
{
    static const size_t ns[] = { 31, 32, 33, 100, 255, 256, 257, 1000, 3001 };
    static const size_t szs[] = { 1, 4, 8, 12, 2, 24 };
    size_t ni, si, a;
    int pattern;

    for (ni = 0; ni < sizeof(ns) / sizeof(ns[0]); ni++) {
        for (pattern = 0; pattern <= 10; pattern++) {
            gen(pattern, ns[ni]);
            for (si = 0; si < sizeof(szs) / sizeof(szs[0]); si++) {
                if (ns[ni] > 300 && si >= 4) {
                    continue;
                }
                fill(bigkeys, ns[ni], szs[si], szs[si] == 12 ? 4 : 0);
                cmp_check_range = 1;
                check_searches("large/find", 0, 255);
                for (a = 0; a < NALGOS; a++) {
                    if (ns[ni] > 300 && a >= 6) {
                        continue;
                    }
                    rand_set(RAND_LCG, (unsigned int)(ni * 131 + pattern));
                    refill();
                    sort_and_check("large", a & 1 ? sign_cmp : key_cmp,
                                   (a + si) & 1 ? byte_swap : checked_swap,
                                   algos[a], 255);
                    if (algos[a] == CSTL_SORT_ALGORITHM_QUICK_R) {
                        rand_set(RAND_ZERO, 0);
                        refill();
                        sort_and_check("large/r0", key_cmp, checked_swap,
                                       algos[a], 255);
                        rand_set(RAND_FIRST, (unsigned int)RAND_MAX);
                        refill();
                        sort_and_check("large/rmax", key_cmp, checked_swap,
                                       algos[a], 255);
                        rand_set(RAND_ALT, 0);
                        refill();
                        sort_and_check("large/ralt", key_cmp, checked_swap,
                                       algos[a], 255);
                        rand_set(RAND_INC, 0);
                        refill();
                        sort_and_check("large/rinc", key_cmp, checked_swap,
                                       algos[a], 255);
                    }
                }
                check_reverse("large/reverse", checked_swap);
            }
        }
    }
}

/* ------------------------------------------------------------------ */
/*
 * vectors: several element types in one program, a static initialiser
 * and a run-time initialiser, and a comparison callback that itself
 * sorts, reverses and searches ANOTHER vector of another element type.
 */

struct rec
{
    int key;
    char pad[3];
    unsigned int origin;
    double weight;
};

static int int_cmp(const void * const a, const void * const b, void * const p)
{
    (void)p;
    return (*(const int *)a > *(const int *)b)
           - (*(const int *)a < *(const int *)b);
}

static int short_cmp(const void * const a, const void * const b, void * const p)
{
    (void)p;
    return (int) * (const short *)a - (int) * (const short *)b;
}

static DECLARE_CSTL_VECTOR(inner, short);
static unsigned long nested_runs;

static void inner_exercise(const unsigned int seed)
{
    const size_t n = seed % 9;
    size_t i;
    short probe;

    cstl_vector_resize(&inner, n);
    for (i = 0; i < n; i++) {
        *(short *)cstl_vector_at(&inner, i) = (short)((seed * (i + 3)) % 5);
    }
    __cstl_vector_sort(&inner, short_cmp, NULL, cstl_swap,
                       (cstl_sort_algorithm_t)(seed % 6));
    for (i = 1; i < n; i++) {
        CHECK(*(short *)cstl_vector_at(&inner, i - 1)
              <= *(short *)cstl_vector_at(&inner, i),
              "nested sort: inner vector not sorted");
    }
    for (probe = -1; probe <= 5; probe++) {
        const ssize_t r = cstl_vector_search(&inner, &probe, short_cmp, NULL);
        const ssize_t f = cstl_vector_find(&inner, &probe, short_cmp, NULL);
        CHECK((r < 0) == (f < 0), "nested: search and find disagree");
        if (r >= 0) {
            CHECK(*(short *)cstl_vector_at(&inner, r) == probe,
                  "nested: search found the wrong element");
            CHECK(*(short *)cstl_vector_at(&inner, f) == probe
                  && (f == 0
                      || *(short *)cstl_vector_at(&inner, f - 1) != probe),
                  "nested: find did not return the first match");
        }
    }
    cstl_vector_reverse(&inner);
    for (i = 1; i < n; i++) {
        CHECK(*(short *)cstl_vector_at(&inner, i - 1)
              >= *(short *)cstl_vector_at(&inner, i),
              "nested reverse: inner vector not mirrored");
    }
    nested_runs++;
}

static int rec_cmp_nested(const void * const a, const void * const b,
                          void * const p)
{
    unsigned int * const counter = p;
    const struct rec * const x = a, * const y = b;

    if ((++*counter) % 3 == 0) {
        inner_exercise(*counter);
    }
    return (x->key > y->key) - (x->key < y->key);
}

static void vectors(void)
{
    DECLARE_CSTL_VECTOR(vi, int);
    struct cstl_vector vr, v1;
    size_t n, a;
    unsigned int s = 88172645u;

    cstl_vector_init(&vr, sizeof(struct rec));
    cstl_vector_init(&v1, 1);

    for (n = 0; n <= 40; n++) {
        for (a = 0; a < NALGOS; a++) {
            size_t i;
            unsigned int counter = 0;
            int sum = 0, xsum = 0;
            unsigned char hist[4] = { 0, 0, 0, 0 }, hist2[4] = { 0, 0, 0, 0 };

            rand_set(RAND_LCG, (unsigned int)(n * 17 + a));

            /* ints */
            cstl_vector_resize(&vi, n);
            if (n & 1) {
                cstl_vector_reserve(&vi, n + 5);
            } else {
                cstl_vector_shrink_to_fit(&vi);
            }
            for (i = 0; i < n; i++) {
                s ^= s << 13; s ^= s >> 17; s ^= s << 5;
                *(int *)cstl_vector_at(&vi, i) = (int)(s % 11) - 5;
                sum += *(int *)cstl_vector_at(&vi, i);
                xsum ^= *(int *)cstl_vector_at(&vi, i) * 31 + 7;
            }
            if (a == 4) {
                cstl_vector_sort(&vi, int_cmp, NULL);
            } else {
                __cstl_vector_sort(&vi, int_cmp, NULL, cstl_swap, algos[a]);
            }
            CHECK(cstl_vector_size(&vi) == n, "vector size changed by sort");
            for (i = 0; i < n; i++) {
                const int v = *(int *)cstl_vector_at(&vi, i);
                sum -= v;
                xsum ^= v * 31 + 7;
                CHECK(i == 0 || *(int *)cstl_vector_at(&vi, i - 1) <= v,
                      "int vector not sorted");
            }
            CHECK(sum == 0 && xsum == 0, "int vector lost elements");
            {
                int probe;
                for (probe = -7; probe <= 7; probe++) {
                    const ssize_t r =
                        cstl_vector_search(&vi, &probe, int_cmp, NULL);
                    const ssize_t f =
                        cstl_vector_find(&vi, &probe, int_cmp, NULL);
                    ssize_t first = -1;
                    for (i = 0; i < n; i++) {
                        if (*(int *)cstl_vector_at(&vi, i) == probe) {
                            first = i;
                            break;
                        }
                    }
                    CHECK(f == first, "int vector: find is not the first");
                    if (first < 0) {
                        CHECK(r == -1, "int vector: search found a ghost");
                    } else {
                        CHECK(r >= 0 && (size_t)r < n
                              && *(int *)cstl_vector_at(&vi, r) == probe,
                              "int vector: search missed");
                    }
                }
            }
            cstl_vector_reverse(&vi);
            for (i = 1; i < n; i++) {
                CHECK(*(int *)cstl_vector_at(&vi, i - 1)
                      >= *(int *)cstl_vector_at(&vi, i),
                      "int vector: reverse of sorted is not non-increasing");
            }

            /* records, with a comparison that works on another vector */
            cstl_vector_resize(&vr, n);
            for (i = 0; i < n; i++) {
                struct rec * const r = cstl_vector_at(&vr, i);
                memset(r, 0, sizeof(*r));
                s ^= s << 13; s ^= s >> 17; s ^= s << 5;
                r->key = s % 4;
                r->origin = i;
                r->weight = i * 0.5;
            }
            __cstl_vector_sort(&vr, rec_cmp_nested, &counter,
                               cstl_swap, algos[a]);
            {
                unsigned long seen_lo = 0;
                for (i = 0; i < n; i++) {
                    const struct rec * const r = cstl_vector_at_const(&vr, i);
                    CHECK(r->origin < n && r->weight == r->origin * 0.5,
                          "record vector: element corrupted");
                    CHECK(!(seen_lo & (1ul << (r->origin % 64)))
                          || n > 64, "record vector: element duplicated");
                    seen_lo |= 1ul << (r->origin % 64);
                    CHECK(i == 0
                          || ((const struct rec *)
                              cstl_vector_at_const(&vr, i - 1))->key <= r->key,
                          "record vector: not sorted");
                }
            }

            /* single bytes */
            cstl_vector_resize(&v1, n);
            for (i = 0; i < n; i++) {
                s ^= s << 13; s ^= s >> 17; s ^= s << 5;
                *(unsigned char *)cstl_vector_at(&v1, i) = s % 4;
                hist[s % 4]++;
            }
            arr_size = 1; /* only for the callbacks' benefit; unused here */
            cmp_check_range = 0;
            __cstl_vector_sort(&v1, key_cmp, &cmp_calls, cstl_swap, algos[a]);
            for (i = 0; i < n; i++) {
                const unsigned char c = *(unsigned char *)cstl_vector_at(&v1, i);
                CHECK(c < 4, "byte vector: foreign value");
                hist2[c]++;
                CHECK(i == 0
                      || *(unsigned char *)cstl_vector_at(&v1, i - 1) <= c,
                      "byte vector: not sorted");
            }
            CHECK(memcmp(hist, hist2, sizeof(hist)) == 0,
                  "byte vector: not a permutation");
        }
    }

    cstl_vector_clear(&vi);
    cstl_vector_clear(&vr);
    cstl_vector_clear(&v1);
    cstl_vector_clear(&inner);

    CHECK(nested_runs > 0, "nested callback never ran");
}

/* ------------------------------------------------------------------ */
/* indirect sort: an array of indices ordered through priv */

static int idx_cmp(const void * const a, const void * const b, void * const p)
{
    const unsigned char * const table = p;
    return (int)table[*(const uint16_t *)a] - (int)table[*(const uint16_t *)b];
}

static void indirect(void)
{
    unsigned char table[200];
    uint16_t idx[200], t;
    size_t a, i;
    unsigned int s = 1234567u;

    for (a = 0; a < NALGOS; a++) {
        unsigned char seen[200];

        for (i = 0; i < 200; i++) {
            s ^= s << 13; s ^= s >> 17; s ^= s << 5;
            table[i] = s % 13;
            idx[i] = i;
        }
        rand_set(RAND_LCG, (unsigned int)a);
        cstl_raw_array_sort(idx, 200, sizeof(idx[0]), idx_cmp, table,
                            cstl_swap, &t, algos[a]);
        memset(seen, 0, sizeof(seen));
        for (i = 0; i < 200; i++) {
            CHECK(idx[i] < 200 && !seen[idx[i]],
                  "indirect: index lost or duplicated");
            seen[idx[i]] = 1;
            CHECK(i == 0 || table[idx[i - 1]] <= table[idx[i]],
                  "indirect: not sorted");
        }
    }
}

/* ------------------------------------------------------------------ */
/* cstl_swap itself: every size, values exchanged exactly */

static void swaps(void)
{
    union { uint64_t a; unsigned char b[GUARD + 72 + GUARD]; } x, y, t;
    size_t sz, off;

    for (sz = 0; sz <= 72; sz++) {
        for (off = 0; off < 8; off++) {
            size_t i;

            if ((sz == 2 || sz == 4 || sz == 8) && off % sz != 0) {
                /* typed fast paths: keep the operands aligned */
                continue;
            }
            if (off + sz > 72) {
                continue;
            }
            memset(x.b, CANARY, sizeof(x.b));
            memset(y.b, CANARY, sizeof(y.b));
            memset(t.b, CANARY, sizeof(t.b));
            for (i = 0; i < sz; i++) {
                x.b[GUARD + off + i] = (unsigned char)(i + 1);
                y.b[GUARD + off + i] = (unsigned char)(0x80 + i);
            }
            cstl_swap(x.b + GUARD + off, y.b + GUARD + off,
                      t.b + GUARD + off, sz);
            for (i = 0; i < sizeof(x.b); i++) {
                const int inside = i >= GUARD + off && i < GUARD + off + sz;
                if (inside) {
                    CHECK(x.b[i] == (unsigned char)(0x80 + i - GUARD - off)
                          && y.b[i] == (unsigned char)(i - GUARD - off + 1),
                          "cstl_swap(%lu): values not exchanged",
                          (unsigned long)sz);
                } else {
                    CHECK(x.b[i] == CANARY && y.b[i] == CANARY
                          && t.b[i] == CANARY,
                          "cstl_swap(%lu): wrote outside its operands",
                          (unsigned long)sz);
                }
            }
        }
    }
}

/* ------------------------------------------------------------------ */

int main(void)
{
    size_t si;

    swaps();

    /* degenerate calls: nothing to do, nothing may be touched */
    for (si = 0; si < NSIZES; si++) {
        size_t a;
        unsigned int one = 3;
        for (a = 0; a < NALGOS; a++) {
            fill(&one, 0, sizes[si], 0);
            cmp_check_range = 1;
            sort_and_check("empty", key_cmp, checked_swap, algos[a], 3);
            CHECK(cmp_calls == 0 || swap_calls == 0 || 1, "unreachable");
            fill(&one, 1, sizes[si], 0);
            sort_and_check("single", key_cmp, checked_swap, algos[a], 4);
            CHECK(memcmp(arr_base, snapshot, sizes[si]) == 0,
                  "single element changed");
        }
    }

    /* exhaustive small arrays */
    for (si = 0; si < NSIZES; si++) {
        const size_t size = sizes[si];
        const int fast = size == 2 || size == 4 || size == 8;

        /* 3-letter alphabet up to length 6, 2 letters up to length 8 */
        exhaustive(6, 3, size, 0);
        exhaustive(8, 2, size, fast ? size : 1);
        if (size == 1 || size == 4 || size == 12) {
            /* all orderings with up to 4 distinct values, length 5 */
            exhaustive(5, 4, size, fast ? 8 : 3);
            exhaustive(7, 3, size, 0);
        }
    }

    /*
     * more element sizes: every residue modulo 8, i.e. every mix of
     * 8/4/2/1-byte pieces an element can be made of
     */
    {
        static const size_t more[] = {
            6, 9, 10, 11, 13, 14, 15, 17, 18, 20, 22, 23, 25, 31, 32, 40, 47, 56
        };
        for (si = 0; si < sizeof(more) / sizeof(more[0]); si++) {
            exhaustive(5, 3, more[si], 0);
            exhaustive(6, 2, more[si], 1 + si % 7);
        }
    }

    large();
    vectors();
    indirect();

    printf("C11 ok: %lu checks, %lu comparisons, %lu swaps\n",
           checks, cmp_calls, swap_calls);
    return 0;
}
