/*
 * C17 / change b: cstl_hash_div() against the remainder it documents, over an
 * exhaustive small grid, all power-of-two and neighbouring table sizes and
 * boundary/random 64-bit keys; plus tables hashed by division that are moved
 * between power-of-two and other sizes.
 *
 * build (from the worktree root, after `make build`):
 *   gcc -std=c99 -D_POSIX_C_SOURCE=199309L -Wall -Wextra -O1 -Iinclude -o _keep/b/test _keep/b/test.c build/libcstl.a -lm
 * run:
 *   ./_keep/b/test
 */
#include "cstl/hash.h"

#include <stdio.h>
#include <stdlib.h>
#include <stdint.h>

#define CHECK(X)                                                        \
    do {                                                                \
        if (!(X)) {                                                     \
            printf("FAIL %s:%d: %s\n", __FILE__, __LINE__, #X);         \
            exit(1);                                                    \
        }                                                               \
    } while (0)

static uint64_t rng_state = 0x9e3779b97f4a7c15ull;
static uint64_t rng(void)
{
    /* splitmix64 */
    uint64_t z = (rng_state += 0x9e3779b97f4a7c15ull);
    z = (z ^ (z >> 30)) * 0xbf58476d1ce4e5b9ull;
    z = (z ^ (z >> 27)) * 0x94d049bb133111ebull;
    return z ^ (z >> 31);
}


struct item
{
    size_t k;
    struct cstl_hash_node hn;
};

/* the reference: the remainder, computed where the compiler cannot fold it */
static size_t ref(volatile size_t k, volatile size_t m)
{
    return k % m;
}

static void one(const size_t k, const size_t m)
{
    const size_t r = cstl_hash_div(k, m);
    CHECK(r < m);
    CHECK(r == ref(k, m));
}

static int count_visit(const void * const e, void * const p)
{
    (void)e;
    ++*(size_t *)p;
    return 0;
}

static void table_run(void)
{
    enum { N = 500 };
    static struct item it[N];
    static const size_t shape[] = {
        1, 2, 3, 4, 5, 8, 9, 16, 15, 17, 64, 63, 65, 128, 100, 1024, 1000,
        4096, 4097, 1, 32,
    };
    DECLARE_CSTL_HASH(h, struct item, hn);
    unsigned int s, i;
    size_t n;

    for (i = 0; i < N; i++) {
        switch (i % 4) {
        case 0: it[i].k = i; break;                     /* below most sizes */
        case 1: it[i].k = (size_t)rng(); break;
        case 2: it[i].k = SIZE_MAX - i; break;
        default: it[i].k = (size_t)1 << (i % 64); break;
        }
    }

    cstl_hash_resize(&h, 8, cstl_hash_div);
    for (i = 0; i < N; i++) {
        cstl_hash_insert(&h, it[i].k, &it[i]);
    }
    for (s = 0; s < sizeof(shape) / sizeof(*shape); s++) {
        cstl_hash_resize(&h, shape[s], NULL);
        for (i = 0; i < N; i++) {
            const struct item * const e =
                cstl_hash_find(&h, it[i].k, NULL, NULL);
            CHECK(e != NULL && e->k == it[i].k);
        }
        n = 0;
        cstl_hash_foreach_const(&h, count_visit, &n);
        CHECK(n == N && cstl_hash_size(&h) == N);
        CHECK(cstl_hash_find(&h, 0x5555aaaa5555aaaaull, NULL, NULL) == NULL);
    }
    for (i = 0; i < N; i++) {
        cstl_hash_erase(&h, &it[i]);
        if (i == N / 2) {
            cstl_hash_resize(&h, 7, NULL);
        }
    }
    CHECK(cstl_hash_size(&h) == 0);
    cstl_hash_clear(&h, NULL);
}

int main(void)
{
    size_t k, m;
    int e, f, d, g;
    unsigned long n = 0;

    /* exhaustive small grid */
    for (m = 1; m <= 520; m++) {
        for (k = 0; k <= 2100; k++) {
            one(k, m);
            n++;
        }
    }

    /* every power of two and its neighbours, as size and as key */
    for (e = 0; e < 64; e++) {
        for (d = -2; d <= 2; d++) {
            m = ((size_t)1 << e) + d;
            if (m == 0) {
                continue;
            }
            one(0, m); one(1, m); one(m, m); one(m - 1, m); one(m + 1, m);
            one(SIZE_MAX, m); one(SIZE_MAX - 1, m); one(SIZE_MAX / 2, m);
            one(2 * m, m); one(2 * m - 1, m); one(3 * m + 1, m);
            n += 11;
            for (f = 0; f < 64; f++) {
                for (g = -2; g <= 2; g++) {
                    one(((size_t)1 << f) + g, m);
                    n++;
                }
            }
            for (f = 0; f < 300; f++) {
                one((size_t)(rng() >> (rng() % 64)), m);
                n++;
            }
        }
    }
    one(0, SIZE_MAX); one(SIZE_MAX, SIZE_MAX); one(SIZE_MAX - 1, SIZE_MAX);
    one(SIZE_MAX, SIZE_MAX - 1);

    /* random sizes */
    for (f = 0; f < 200000; f++) {
        m = (size_t)(rng() >> (rng() % 64));
        if (m != 0) {
            one((size_t)(rng() >> (rng() % 64)), m);
            n++;
        }
    }

    table_run();

    printf("ok: %lu (key, size) pairs\n", n);
    return 0;
}
